"""C15 negotiation messages round-trip and malformed input is rejected safely — constants (K6), guards (K1), limits (K9), literal tables (K11), panic inventory (K10)."""
import re

from .. import lib, mir
from ..mir import render

EXPLANATION = ("Constants MAX_LEN_BYTES/MAX_FRAME_SIZE/MAX_PROTOCOLS and their relation; start_send buffers only frames with len <= "
               "MAX_FRAME_SIZE; Message::decode: the protocol list grows only below MAX_PROTOCOLS, every slice / index / split_to on "
               "received bytes is dominated by the guard that makes it in-bounds (len != 0, len <= tail.len(), first byte present), "
               "Protocol::try_from accepts only names starting with '/'; the length-prefix reader errors when a third length byte would "
               "be needed; encode and decode agree on the wire literals (header, na, ls); the inventory of panic-capable sites reachable "
               "from the decode entry points does not exceed the guarded sites confirmed by reading.")
ASSUMPTIONS = ["value round-trip for arbitrary names is not decided", "unsigned_varint decode/encode are trusted"]
MS = "multistream_select"


def check(ctx):
    prog = ctx.prog
    mlb = prog.const(MS, r"length_delimited::MAX_LEN_BYTES$").get("v")
    mfs = prog.const(MS, r"length_delimited::MAX_FRAME_SIZE$").get("v")
    mp = prog.const(MS, r"protocol::MAX_PROTOCOLS$").get("v")
    ctx.ob("const", "MAX_LEN_BYTES == 2", mlb == 2, msg="MAX_LEN_BYTES = %s" % mlb)
    ctx.ob("const", "MAX_FRAME_SIZE == 2^(7*MAX_LEN_BYTES) - 1", isinstance(mlb, int) and mfs == (1 << (7 * mlb)) - 1, msg="MAX_FRAME_SIZE = %s" % mfs)
    ctx.ob("const", "MAX_PROTOCOLS == 1000", mp == 1000, msg="MAX_PROTOCOLS = %s" % mp)
    lits = {}
    for n in ("MSG_MULTISTREAM_1_0", "MSG_PROTOCOL_NA", "MSG_LS"):
        lits[n] = prog.const(MS, r"protocol::%s$" % n).get("s")
    ctx.ob("const", "wire literals", lits == {"MSG_MULTISTREAM_1_0": "/multistream/1.0.0\n", "MSG_PROTOCOL_NA": "na\n", "MSG_LS": "ls\n"}, msg=str(lits))
    # ---- start_send
    ss = ctx.body(MS, r"length_delimited::LengthDelimited as futures::Sink>::start_send$")
    puts = ss.call_sites(r"BufMut>::put$|BufMut::put$|BytesMut::reserve$")
    ctx.floor("send-limit", "write_buffer put/reserve", puts, 2)
    for s in puts:
        ctx.guarded("send-limit", "frame buffered only if len <= MAX_FRAME_SIZE", s,
                    lambda c, r, l: l == "true" and re.match(r"^Le\(.*, const:multistream_select::length_delimited::MAX_FRAME_SIZE\)$", r) is not None, "len <= MAX_FRAME_SIZE")
        ctx.guarded("send-limit", "frame buffered only if length fits u16", s, lambda c, r, l: l == "Ok" and "try_from(bytes::Bytes::len(item))" in r, "u16::try_from(item.len()) is Ok")
    # ---- decode
    d = ctx.body(MS, r"protocol::Message::decode$")
    push = [s for s in d.call_sites(r"Vec::push$") if render(d.site_expr(s)[2][0]) == "protocols"]
    ctx.floor("decode", "protocols.push", push, 1)
    for s in push:
        lib.limit_guard(ctx, "decode", "list grows only below MAX_PROTOCOLS", s, r"^std::vec::Vec::len\(protocols\)$", r"^const:multistream_select::protocol::MAX_PROTOCOLS$",
                        "protocols.len() < MAX_PROTOCOLS (unit increments from 0)", unit_increment=True)
    inits = [render(d.init_expr(k)) for k, v in d.names.items() if v == "protocols"]
    ctx.ob("decode", "list starts empty", inits == ["std::vec::Vec::new()"], msg=str(inits))
    tm = d.agg_sites(r"protocol::ProtocolError$", "TooManyProtocols")
    for s in tm:
        e = lib.at_limit_edges(d, r"^std::vec::Vec::len\(protocols\)$", r"^const:multistream_select::protocol::MAX_PROTOCOLS$")
        ctx.ob("decode", "TooManyProtocols only at the limit", bool(e) and d.must_pass_edges(s.bb, e), s.loc(), "TooManyProtocols is returned only when len >= MAX_PROTOCOLS")
    # in-bounds guards for the ls branch
    tail_sites = [s for (b, k, det, s) in lib.panic_inventory(prog, MS, [d], depth=0)[0] if b is d and s.line >= (push[0].line - 8 if push else 0) and k in ("index", "assert:bounds", "slice")]
    ctx.floor("decode", "slice/index sites in the ls loop", tail_sites, 3)
    for i, s in enumerate(tail_sites):
        ctx.guarded("decode", "ls loop access #%d needs len != 0" % i, s, lambda c, r, l: l == "false" and re.match(r"^Eq\(.*@Continue\.0\.0, 0\)$", r) is not None, "len != 0")
        ctx.guarded("decode", "ls loop access #%d needs len <= tail.len()" % i, s, lambda c, r, l: l == "false" and re.match(r"^Gt\(.*@Continue\.0\.0, core::slice::len\(.*@Continue\.0\.1\)\)$", r) is not None, "len <= tail.len()")
    name_sites = [s for (b, k, det, s) in lib.panic_inventory(prog, MS, [d], depth=0)[0] if b is d and k in ("index", "buf") and s not in tail_sites]
    ctx.floor("decode", "slice/split sites in the single-name branch", name_sites, 2)
    for i, s in enumerate(name_sites):
        ctx.guarded("decode", "single-name access #%d needs a first byte" % i, s, lambda c, r, l: l == "true" and "core::slice::first(" in r and "Some{0: 47}" in r, "msg.first() == Some('/')")
    # literal agreement encode/decode
    dec = {}
    for n in lits:
        edges = lib.switch_edges_on(d, r"PartialEq>::eq\(msg, const:multistream_select::protocol::%s\)$" % n, {"true"})
        for _, t in edges:
            reach = d.reachable([t])
            for x in d.defs[0]:
                if x[1] in reach and x[0] == "stmt":
                    r = render(d.rvalue_expr(x[3]))
                    m = re.match(r"^std::result::Result::Ok\{0: multistream_select::protocol::Message::(\w+)\{", r)
                    if m:
                        dec[n] = m.group(1)
                        break
    e = ctx.body(MS, r"protocol::Message::encode$")
    enc = {}
    for s in e.call_sites(r"BufMut>::put$|BufMut::put$"):
        r = render(e.site_expr(s))
        m = re.search(r"const:multistream_select::protocol::(MSG_\w+)", r)
        if m:
            gs = e.guards_on_all_paths(s.bb)
            labs = [l for t, ls, _, c in gs if t == "discr(self)" for l in ls]
            if len(labs) == 1:
                enc[m.group(1)] = labs[0]
    want = {"MSG_MULTISTREAM_1_0": "Header", "MSG_PROTOCOL_NA": "NotAvailable", "MSG_LS": "ListProtocols"}
    ctx.ob("literals", "decode literal table", dec == want, "%s:%d" % (d.file, d.line), str(dec))
    ctx.ob("literals", "encode literal table", enc == want, "%s:%d" % (e.file, e.line), str(enc))
    nl = [s for s in e.call_sites(r"BufMut>::put_u8$|BufMut::put_u8$") if render(e.site_expr(s)).endswith(", 10)")]
    ctx.ob("literals", "protocol names are newline terminated on the wire", len(nl) >= 1, msg="put_u8(b'\\n') after the name")
    # ---- Protocol::try_from
    for b in prog.find(MS, r"protocol::Protocol as std::convert::TryFrom>::try_from$"):
        ctx.use(b)
        oks = [s for s in b.agg_sites(r"^std::result::Result$", "Ok")]
        if not oks:
            # delegating impl (&[u8] -> Bytes)
            ctx.ob("try_from", "delegates to the checked conversion", any("try_from" in render(b.site_expr(s)) for s in b.call_sites()), "%s:%d" % (b.file, b.line), "delegating impl")
            continue
        for s in oks:
            ctx.guarded("try_from", "name accepted only if it starts with '/' (%s:%d)" % (b.file.split("/")[-1], b.line), s,
                        lambda c, r, l: (l == "true" and "starts_with(" in r) or (l == "false" and r.startswith("Not(") and "starts_with(" in r), "starts_with('/')")
    # ---- length prefix reader
    pn = ctx.body(MS, r"length_delimited::LengthDelimited as futures::Stream>::poll_next$")
    errs = [s for s in pn.call_sites(r"io::Error::new$|io::error::Error::new$") if "Maximum frame length exceeded" in render(pn.site_expr(s))]
    ctx.floor("prefix", "'Maximum frame length exceeded' error", errs, 1)
    for s in errs:
        ctx.guarded("prefix", "error when MAX_LEN_BYTES were read and more are announced", s,
                    lambda c, r, l: l == "true" and re.match(r"^Eq\(.*pos.*, \(const:multistream_select::length_delimited::MAX_LEN_BYTES as usize\)\)$", r) is not None, "pos == MAX_LEN_BYTES")
        ctx.guarded("prefix", "continuation bit set", s, lambda c, r, l: l == "false" and re.match(r"^Eq\(BitAnd\(.*, 128\), 0\)$", r) is not None, "(buf[pos-1] & 0x80) != 0")
    # every path that loops back to read another length byte has pos < MAX_LEN_BYTES: the continuation edge either ends the prefix, errors, or pos != MAX
    cont = lib.switch_edges_on(pn, r"^Eq\(BitAnd\(.*, 128\), 0\)$", {"false"})
    ctx.ob("prefix", "floor:continuation edge", len(cont) == 1, nontrivial=False, msg=str(cont))
    for _, t in cont:
        info = pn.switch_info(t)
        ok = info is not None and re.match(r"^Eq\(.*pos.*MAX_LEN_BYTES as usize\)\)$", render(info[0])) is not None
        ctx.ob("prefix", "continuation is immediately bounded by the MAX_LEN_BYTES test", ok, "%s:%d" % (pn.file, pn.blocks[t]["term"].get("l", 0)), render(info[0])[:120] if info else "no test")
    # ---- panic inventory
    entries = [d, pn] + prog.find(MS, r"protocol::Protocol as std::convert::TryFrom>::try_from$")
    inv, seen = lib.panic_inventory(prog, MS, entries, depth=1)
    lib.check_inventory(ctx, "nopanic", "decode entry points", inv, {
        "index": (5, "msg[..len-1] after first()==Some; tail[..len-1], tail[len..] after len!=0 && len<=tail.len(); buf[pos..pos+1] with pos<MAX_LEN_BYTES; read_buffer[pos..] with pos<len"),
        "assert:bounds": (2, "tail[len-1] after len!=0 && len<=tail.len(); buf[pos-1] after pos+=1"),
        "buf": (2, "msg.split_to(len-1) after first()==Some; read_buffer.split_off(0)"),
        "slice": (1, "Bytes::copy_from_slice allocates, cannot panic on length"),
        "panic": (2, "debug_assert_eq! only (n == 1, len == 0)"),
    }, seen)
