"""C15 negotiation messages round-trip and malformed input is rejected safely — constants (K6), guards (K1), limits (K9), literal tables (K11), panic inventory (K10)."""
import re

from .. import lib, mir
from .. import lib_sec as S
from ..mir import render, strip_generics

EXPLANATION = ("Constants MAX_LEN_BYTES/MAX_FRAME_SIZE/MAX_PROTOCOLS and their relation; start_send buffers only frames with len <= "
               "MAX_FRAME_SIZE; Message::decode: the protocol list grows only below MAX_PROTOCOLS, every slice / index / split_to on "
               "received bytes is dominated by the guard that makes it in-bounds (len != 0, len <= tail.len(), first byte present), "
               "Protocol::try_from accepts only names starting with '/'; the length-prefix reader errors when a third length byte would "
               "be needed; encode and decode agree on the wire literals (header, na, ls); the inventory of panic-capable sites reachable "
               "from the decode entry points does not exceed the guarded sites confirmed by reading.")
ASSUMPTIONS = ["value round-trip for arbitrary names is not decided", "unsigned_varint decode/encode are trusted"]
MS = "multistream_select"


def check(ctx):
    prog = ctx.prog
    mlb = prog.const(MS, r"length_delimited::MAX_LEN_BYTES$").get("v")
    mfs = prog.const(MS, r"length_delimited::MAX_FRAME_SIZE$").get("v")
    mp = prog.const(MS, r"protocol::MAX_PROTOCOLS$").get("v")
    ctx.ob("const", "MAX_LEN_BYTES == 2", mlb == 2, msg="MAX_LEN_BYTES = %s" % mlb)
    ctx.ob("const", "MAX_FRAME_SIZE == 2^(7*MAX_LEN_BYTES) - 1", isinstance(mlb, int) and mfs == (1 << (7 * mlb)) - 1, msg="MAX_FRAME_SIZE = %s" % mfs)
    ctx.ob("const", "MAX_PROTOCOLS == 1000", mp == 1000, msg="MAX_PROTOCOLS = %s" % mp)
    lits = {}
    for n in ("MSG_MULTISTREAM_1_0", "MSG_PROTOCOL_NA", "MSG_LS"):
        lits[n] = prog.const(MS, r"protocol::%s$" % n).get("s")
    ctx.ob("const", "wire literals", lits == {"MSG_MULTISTREAM_1_0": "/multistream/1.0.0\n", "MSG_PROTOCOL_NA": "na\n", "MSG_LS": "ls\n"}, msg=str(lits))
    # ---- start_send
    ss = ctx.body(MS, r"length_delimited::LengthDelimited as futures::Sink>::start_send$")
    puts = ss.call_sites(r"BufMut>::put$|BufMut::put$|BytesMut::reserve$")
    ctx.floor("send-limit", "write_buffer put/reserve", puts, 2)
    S.canon_args(ss, ["self", "item"])
    item_len = lambda e: S.has(e, lambda x: x[0] == "call" and re.search(r"::len$", strip_generics(x[1])) is not None and len(x[2]) == 1 and S.is_arg(S.peel(x[2][0]), 2))
    fits = S.rel_edges(ss, item_len, lambda e: S.is_const(e, mfs, r"length_delimited::MAX_FRAME_SIZE$"))["le"]
    conv, _ = S.outcome_edges(ss, lambda v: v[0] == "call" and re.search(r"try_from$", strip_generics(v[1])) is not None and item_len(v))
    for s in puts:
        S.guarded(ctx, "send-limit", "frame buffered only if len <= MAX_FRAME_SIZE", s, fits, "len <= MAX_FRAME_SIZE")
        S.guarded(ctx, "send-limit", "frame buffered only if length fits u16", s, conv, "u16::try_from(item.len()) is Ok")
    # ---- decode
    d = S.canon_args(ctx.body(MS, r"protocol::Message::decode$"), ["msg"])
    # the protocol list is the Vec returned in Ok(Message::Protocols(..)), whatever it is called
    plist = set()
    for s in S.ok_sites(d):
        m = dict(d.site_expr(s)[4]).get("0")
        if m and m[0] == "agg" and m[3] == "Protocols":
            x = dict(m[4]).get("0")
            if x and x[0] == "local":
                plist.add(x[1])
    ctx.ob("decode", "floor:protocol list variable", len(plist) == 1, nontrivial=False, msg="Ok(Message::Protocols(<local>))")
    pl = next(iter(plist)) if len(plist) == 1 else -1
    S.canon_local(d, pl, "protocols")
    is_plist_len = lambda e: e[0] == "call" and re.search(r"Vec::len$", strip_generics(e[1])) is not None and S.is_local(S.peel(e[2][0]), pl)
    is_maxp = lambda e: S.is_const(e, mp, r"protocol::MAX_PROTOCOLS$")
    push = [s for s in d.call_sites(r"Vec::push$") if S.is_local(S.peel(d.site_expr(s)[2][0]), pl)]
    ctx.floor("decode", "protocols.push", push, 1)
    cnt = S.rel_edges(d, is_plist_len, is_maxp)
    for s in push:
        # unit increments from 0: `len != MAX` is as good as `len < MAX`
        S.guarded(ctx, "decode", "list grows only below MAX_PROTOCOLS", s, cnt["lt"] | (cnt["ne"] - cnt["gt"]), "protocols.len() < MAX_PROTOCOLS (unit increments from 0)")
    inits = [render(d.init_expr(pl))] if pl in d.defs and len(d.defs[pl]) == 1 else []
    ctx.ob("decode", "list starts empty", inits == ["std::vec::Vec::new()"], msg=str(inits))
    tm = d.agg_sites(r"protocol::ProtocolError$", "TooManyProtocols")
    for s in tm:
        ctx.ob("decode", "TooManyProtocols only at the limit", bool(cnt["ge"]) and d.must_pass_edges(s.bb, cnt["ge"]), s.loc(), "TooManyProtocols is returned only when len >= MAX_PROTOCOLS")
    # in-bounds guards for the ls branch: the panic-capable sites that run after the list was created
    init_bb = [x[1] for x in d.defs.get(pl, [])][:1]
    in_ls = d.reachable(init_bb) if init_bb else set()
    inv_d = [(b, k, det, s) for (b, k, det, s) in lib.panic_inventory(prog, MS, [d], depth=0)[0] if b is d]
    tail_sites = [s for (b, k, det, s) in inv_d if s.bb in in_ls and k in ("index", "assert:bounds", "slice")]
    ctx.floor("decode", "slice/index sites in the ls loop", tail_sites, 3)

    def varint_part(e, idx):
        e = S.norm(e)
        return e[0] == "field" and e[2] == idx and e[1][0] == "call" and e[1][1] == "ok" and S.has_call(e[1][2][0], r"unsigned_varint::decode::usize$")
    is_len = lambda e: varint_part(e, "0")
    is_tail_len = lambda e: e[0] == "call" and re.search(r"::len$", strip_generics(e[1])) is not None and len(e[2]) == 1 and varint_part(S.peel(e[2][0]), "1")
    nonzero = S.rel_edges(d, is_len, lambda e: S.cval(e) == 0)
    nonzero = nonzero["ne"] | nonzero["gt"]
    within = S.rel_edges(d, is_len, is_tail_len)["le"]
    for i, s in enumerate(tail_sites):
        S.guarded(ctx, "decode", "ls loop access #%d needs len != 0" % i, s, nonzero, "len != 0")
        S.guarded(ctx, "decode", "ls loop access #%d needs len <= tail.len()" % i, s, within, "len <= tail.len()")
    name_sites = [s for (b, k, det, s) in inv_d if k in ("index", "buf") and s not in tail_sites]
    ctx.floor("decode", "slice/split sites in the single-name branch", name_sites, 2)
    slash = S.rel_edges(d, lambda e: S.has_call(e, r"slice::first$|slice::<impl \[T\]>::first$"), lambda e: e[0] == "agg" and e[3] == "Some" and S.cval(dict(e[4]).get("0", ("unknown", ""))) == 47)["eq"]
    for i, s in enumerate(name_sites):
        S.guarded(ctx, "decode", "single-name access #%d needs a first byte" % i, s, slash, "msg.first() == Some('/')")
    # literal agreement encode/decode
    dec = {}
    for n in lits:
        edges = S.rel_edges(d, lambda e: S.is_arg(S.peel(e), 1), lambda e, n=n: any(x[0] == "namedconst" and x[1].endswith("protocol::" + n) for x in mir.walk(e)))["eq"]
        for _, t in edges:
            reach = d.reachable([t])
            for x in d.defs[0]:
                if x[1] in reach and x[0] == "stmt":
                    r = render(d.rvalue_expr(x[3]))
                    m = re.match(r"^std::result::Result::Ok\{0: multistream_select::protocol::Message::(\w+)\{", r)
                    if m:
                        dec[n] = m.group(1)
                        break
    e = ctx.body(MS, r"protocol::Message::encode$")
    enc = {}
    for s in e.call_sites(r"BufMut>::put$|BufMut::put$"):
        r = render(e.site_expr(s))
        m = re.search(r"const:multistream_select::protocol::(MSG_\w+)", r)
        if m:
            gs = e.guards_on_all_paths(s.bb)
            labs = [l for t, ls, _, c in gs if t == "discr(self)" for l in ls]
            if len(labs) == 1:
                enc[m.group(1)] = labs[0]
    want = {"MSG_MULTISTREAM_1_0": "Header", "MSG_PROTOCOL_NA": "NotAvailable", "MSG_LS": "ListProtocols"}
    ctx.ob("literals", "decode literal table", dec == want, "%s:%d" % (d.file, d.line), str(dec))
    ctx.ob("literals", "encode literal table", enc == want, "%s:%d" % (e.file, e.line), str(enc))
    nl = [s for s in e.call_sites(r"BufMut>::put_u8$|BufMut::put_u8$") if render(e.site_expr(s)).endswith(", 10)")]
    ctx.ob("literals", "protocol names are newline terminated on the wire", len(nl) >= 1, msg="put_u8(b'\\n') after the name")
    # ---- Protocol::try_from
    for b in prog.find(MS, r"protocol::Protocol as std::convert::TryFrom>::try_from$"):
        ctx.use(b)
        oks = [s for s in b.agg_sites(r"^std::result::Result$", "Ok")]
        if not oks:
            # delegating impl (&[u8] -> Bytes)
            ctx.ob("try_from", "delegates to the checked conversion", any("try_from" in render(b.site_expr(s)) for s in b.call_sites()), "%s:%d" % (b.file, b.line), "delegating impl")
            continue
        for s in oks:
            ctx.guarded("try_from", "name accepted only if it starts with '/' (%s:%d)" % (b.file.split("/")[-1], b.line), s,
                        lambda c, r, l: (l == "true" and "starts_with(" in r) or (l == "false" and r.startswith("Not(") and "starts_with(" in r), "starts_with('/')")
    # ---- length prefix reader
    pn = ctx.body(MS, r"length_delimited::LengthDelimited as futures::Stream>::poll_next$")
    errs = [s for s in pn.call_sites(r"io::Error::new$|io::error::Error::new$") if "Maximum frame length exceeded" in render(pn.site_expr(s))]
    ctx.floor("prefix", "'Maximum frame length exceeded' error", errs, 1)
    S.canon_this(pn)

    def len_pos(e):          # the count of length bytes read so far: a field of the ReadLength arm of the read state
        e = S.peel(S.expand(pn, e))
        return e[0] == "field" and e[1][0] == "downcast" and e[1][2] == "ReadLength"
    full = S.rel_edges(pn, len_pos, lambda e: S.is_const(e, mlb, r"length_delimited::MAX_LEN_BYTES$"))
    more_p = (lambda e: e[0] == "bin" and e[1] == "BitAnd" and (S.cval(e[2]) == 128 or S.cval(e[3]) == 128), lambda e: S.cval(e) == 0)
    more = S.rel_edges(pn, *more_p)
    cont_closed = more["ne"] | more["gt"]
    more = S.rel_edges(pn, *more_p, close=False)
    cont = more["ne"] | more["gt"]          # the edges of the test itself (starting points of the path rule below)
    for s in errs:
        S.guarded(ctx, "prefix", "error when MAX_LEN_BYTES were read and more are announced", s, full["ge"], "pos == MAX_LEN_BYTES")
        S.guarded(ctx, "prefix", "continuation bit set", s, cont_closed, "(buf[pos-1] & 0x80) != 0")
    # after a byte with the continuation bit, another length byte is read only if fewer than MAX_LEN_BYTES were read:
    # every path from the continuation edge back to the state dispatch passes `pos < MAX_LEN_BYTES` (`!=` suffices: unit increments from 0)
    ctx.ob("prefix", "floor:continuation edge", len(cont) == 1, nontrivial=False, msg=str(sorted(cont)))
    heads = [bi for bi in pn.live if pn.switch_info(bi) and pn.switch_info(bi)[0][0] == "discr" and {"ReadLength", "ReadData"} <= {x for ls in pn.switch_info(bi)[1].values() for x in ls}]
    ctx.ob("prefix", "floor:read-state dispatch", len(heads) == 1, nontrivial=False, msg=str(heads))
    not_full = full["lt"] | (full["ne"] - full["gt"])
    for _, t in cont:
        r = pn.reachable([t], blocked_edges=not_full)
        bad = sorted(set(heads) & r)
        ctx.ob("prefix", "continuation is immediately bounded by the MAX_LEN_BYTES test", not bad, "%s:%d" % (pn.file, pn.blocks[t]["term"].get("l", 0) if pn.blocks[t]["term"] else 0),
               "another length byte is read only when pos < MAX_LEN_BYTES" if not bad else "the read loop continues after a continuation byte without `pos < MAX_LEN_BYTES`")
    # ---- panic inventory
    entries = [d, pn] + prog.find(MS, r"protocol::Protocol as std::convert::TryFrom>::try_from$")
    inv, seen = lib.panic_inventory(prog, MS, entries, depth=1)
    lib.check_inventory(ctx, "nopanic", "decode entry points", inv, {
        "index": (5, "msg[..len-1] after first()==Some; tail[..len-1], tail[len..] after len!=0 && len<=tail.len(); buf[pos..pos+1] with pos<MAX_LEN_BYTES; read_buffer[pos..] with pos<len"),
        "assert:bounds": (2, "tail[len-1] after len!=0 && len<=tail.len(); buf[pos-1] after pos+=1"),
        "buf": (2, "msg.split_to(len-1) after first()==Some; read_buffer.split_off(0)"),
        "slice": (1, "Bytes::copy_from_slice allocates, cannot panic on length"),
    }, seen)      # debug_assert*! sites are not counted by the inventory; any other panic!/unreachable!/unwrap is a violation
