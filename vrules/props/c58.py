"""C58 derived behaviours compose their fields faithfully — fixture expansion of #[derive(NetworkBehaviour)] (K14) analysed with path counting (K2), guards (K1), routing tables (K7) + ConnectionHandlerSelect / ToSwarm::map_* routing tables."""
import re

from .. import fixture, lib, lib_misc as lm, mir
from ..mir import render, strip_generics

EXPLANATION = ("The fixture crate /verif/fixtures/derive_fixture (structs Two, Three, Generic<T>, Same, Custom: 2 and 3 named probe fields, one "
               "generic field, three fields of one type, user-provided to_swarm) is compiled against the current $VERIF_REPO/swarm-derive "
               "on every check and the MIR of the generated `impl NetworkBehaviour` is analysed. Per shape: on_swarm_event calls every "
               "field exactly once on every path with the event; on_connection_handler_event delivers every event to exactly one field, "
               "arm Left^(n-1-k)[Right] (guards on the nested discriminants and the projected payload) to field k, with the peer/connection "
               "ids; the four handle_* hooks call every field with the hook's own arguments in order, every Ok result is behind the "
               "success edge of every field's call, every field's Err edge returns that field's residual and never Ok, and when no field "
               "denies the result is Ok; handle_established_* combine the fields' handlers with ConnectionHandler::select left-nested in "
               "field order; handle_pending_outbound_connection extends one vector with every field's addresses and returns it; poll "
               "polls fields in order, returns on the first Ready with map_out(<FieldVariant> / Into::into) and map_in(|e| Either-nesting of "
               "field k), returns Pending only after every field was Pending. libp2p-swarm: ToSwarm::map_in/map_out rebuild the same "
               "variant with the same fields (only NotifyHandler.event / GenerateEvent.0 mapped); ConnectionHandler::select = "
               "ConnectionHandlerSelect{proto1: self, proto2: other}; ConnectionHandlerSelect routes Left->proto1 / Right->proto2 in "
               "on_behaviour_event, wraps proto1's events in Left and proto2's in Right in poll/poll_close (upgrade and info too), "
               "routes negotiated streams / dial errors / listen errors by the transposed side with that side's info, and broadcasts "
               "address and protocol changes to both.")
ASSUMPTIONS = ["the five fixture shapes are representative of the macro's code paths (named fields; tuple structs and the empty struct are not covered)",
               "the derive's default prelude path (::libp2p::swarm::derive_prelude) differs from the fixture's only in the path prefix",
               "the probe behaviours' own logs are not executed: 'every field is called' is decided on the expansion's CFG",
               "a field that mutates its own state before a later sibling denies is not rolled back (composition semantics of the trait)"]
FX = fixture.CRATE
SW = "libp2p_swarm"
NBX = r"NetworkBehaviour>?::%s$"

SHAPES = {
    "Two": (["first", "second"], "TwoEvent"),
    "Three": (["first", "second", "third"], "ThreeEvent"),
    "Generic": (["first", "inner", "last"], "GenericEvent"),
    "Same": (["a", "b", "c"], "SameEvent"),
    "Custom": (["first", "second", "third"], None),
}

SELFTEST = [
    # all run in the scratch worktree against /tmp/rw/misc/swarm-derive/src/lib.rs (the fixture is rebuilt by cargo), swarm/src/...
    {"mutation": "swarm-derive on_swarm_event_stmts: `.skip(1)` after enumerate() (first field never sees swarm events)",
     "caught_by": "swarm-event/<every shape>: field first receives every swarm event once"},
    {"mutation": "swarm-derive on_node_event_stmts: for the struct named `Same` arm k is delivered to field (k+1)%n (type-checks only when the fields share a type)",
     "caught_by": "handler-event/Same: arm routes to its own field, .../Same: field a is reached through arm Left(Left(ev)), .../receives the payload of its own arm"},
    {"mutation": "swarm-derive handle_pending_inbound_connection_stmts: `?;` replaced by `.ok();`",
     "caught_by": "deny/<shape>.handle_pending_inbound_connection: Ok only if <field> admitted (all shapes, all fields)"},
    {"mutation": "swarm-derive handle_pending_outbound_connection: `combined_addresses.extend(X?)` replaced by `let _ = X?;`",
     "caught_by": "addresses/<shape>: addresses of <field> are added once, .../the union is returned"},
    {"mutation": "swarm-derive poll_stmts: for `Same` the map_in nesting of fields 0 and 1 exchanged", "caught_by": "poll/Same: handler event of field a wrapped as arm Left/Left (and b)"},
    {"mutation": "swarm-derive poll_stmts: for `Same` every field's event mapped out as variant `A`", "caught_by": "poll/Same: out event of field b wrapped in its own variant (and c)"},
    {"mutation": "swarm-derive poll_stmts: `.skip(1)` (first field never polled)", "caught_by": "poll/<shape>: every field is polled at one site"},
    {"mutation": "select.rs on_connection_event: AddressChange forwarded to proto1 only", "caught_by": "select/on_connection_event AddressChange reaches the second handler once"},
    {"mutation": "select.rs listen error: the Either::Right arm no longer forwards to proto2 (tried in both shapes: private helper, and inlined into the arm = neutral/misc/04.diff)",
     "caught_by": "select/listen error: Right goes to the second handler once"},
    {"mutation": "NEUTRAL: neutral/misc/01-05 (generated local renames, field_accessor helper, control-flow rewrites in the macro, helper inlined, hoisted lets)",
     "caught_by": "(silent, by design)"},
    {"mutation": "behaviour.rs ToSwarm::map_in: CloseConnection arm rebuilt with connection: CloseConnection::All", "caught_by": "map/map_in: CloseConnection rebuilt field by field"},
    {"mutation": "mis-routing mutants of the macro on shapes whose fields have distinct types (and of ConnectionHandlerSelect, whose two handlers are distinct type "
                 "parameters) do not type-check: the fixture then fails to compile and the check fails closed with facts/extraction naming the rustc error",
     "caught_by": "facts/extraction"},
]


def either_path(n, k):
    """Either arm of field k among n fields: outermost first."""
    if n == 1:
        return []
    if k == 0:
        return ["Left"] * (n - 1)
    return ["Left"] * (n - 1 - k) + ["Right"]


def proj(base, path):
    return base + "".join("@%s.0" % v for v in path)


def recv_field(e):
    """`self.<f>` receiver of a call expression -> f (None otherwise)."""
    if e[0] != "call" or not e[2]:
        return None
    r = e[2][0]
    if r[0] == "field" and render(r[1]) == "self":
        return r[2]
    return None


def field_calls(body, method):
    """{field: [sites]} for calls `NetworkBehaviour::<method>(self.<field>, ..)`; also the list of matching calls with another receiver."""
    out, other = {}, []
    for s in body.call_sites(NBX % method):
        f = recv_field(body.site_expr(s))
        if f is None:
            other.append(s)
        else:
            out.setdefault(f, []).append(s)
    return out, other


def params(body, first=2):
    return [body.names.get(i) or "arg%d" % i for i in range(first, body.argc + 1)]


def result_defs(body):
    out = []
    for d in body.defs.get(0, []):
        site = mir.Site(body, d[1], d[2])
        if d[0] == "stmt":
            e = body.rvalue_expr(d[3])
            if e[0] == "agg" and e[1] == "adt" and strip_generics(e[2]).endswith("result::Result") and e[3] in ("Ok", "Err"):
                out.append((e[3], site, e))
            else:
                out.append(("other", site, e))
        else:
            n = strip_generics(body.call_name(d[3]))
            out.append(("residual" if n.endswith("FromResidual>::from_residual") else "other", site, body.call_expr(d[3], d[1])))
    return out


TRYB = r"^discr\((<std::result::Result as std::ops::Try>::branch\()?"


def try_edges(body, site):
    """success / failure edges of a fallible call: `?`, `match .. { Ok / Err }`, `if let Err(e) = ..`, `.is_err()`"""
    return lm.result_edges(body, site)


def calls_at(e, bb):
    return any(x[0] == "call" and x[3] == bb for x in mir.walk(e))


def check_deny(ctx, shape, fn, body, fields):
    """The common `?` discipline of the four handle_* hooks. Returns {field: site}."""
    tag = "%s.%s" % (shape, fn)
    where = "%s:%d" % (body.file, body.line)
    rets = body.return_blocks()
    by_field, other = field_calls(body, fn)
    ctx.ob("deny", tag + ": exactly one call per field, none on anything else", set(by_field) == set(fields) and all(len(v) == 1 for v in by_field.values()) and not other, where,
           "receivers: %s%s" % ({f: len(v) for f, v in by_field.items()}, " + %d other" % len(other) if other else ""))
    res = result_defs(body)
    oks = [(s, e) for k, s, e in res if k == "Ok"]
    ctx.ob("deny", tag + ": results are Ok or a field's error", all(k in ("Ok", "residual", "Err") for k, _, _ in res) and len(oks) >= 1, where, str([k for k, _, _ in res]))
    want_args = params(body)
    all_brk = set()
    sites = {}
    for f in fields:
        for c in by_field.get(f, [])[:1]:
            sites[f] = c
            e = body.site_expr(c)
            got = [render(a) for a in e[2][1:]]
            ctx.ob("deny", "%s: %s is asked with the hook's own arguments" % (tag, f), got == want_args, c.loc(), "args %s, hook parameters %s" % (got, want_args))
            cont, brk = try_edges(body, c)
            ctx.ob("deny", "floor:%s %s admit/deny edges" % (tag, f), len(cont) == 1 and len(brk) == 1, c.loc(), "%s / %s" % (sorted(cont), sorted(brk)), nontrivial=False)
            all_brk |= brk
            for o, _ in oks:
                ok = bool(cont) and body.must_pass_edges(o.bb, cont)
                ctx.ob("deny", "%s: Ok only if %s admitted" % (tag, f), ok, c.loc(),
                       "every path to Ok passes the success edge of %s's call" % f if ok else "Ok is reachable although field %s denied (its Err is not propagated)" % f)
                got = lib.count_range(body, [0], [o.bb], [c.bb])
                ctx.ob("deny", "%s: %s is asked exactly once before Ok" % (tag, f), got == (1, 1), c.loc(), "calls on paths to Ok: %s" % (got,))
            if brk:
                st = [t for _, t in brk]
                got = lib.count_range(body, st, rets, lib.bbs([o for o, _ in oks]))
                ctx.ob("deny", "%s: a denial by %s is never turned into Ok" % (tag, f), got == (0, 0), c.loc(), "Ok results after %s's Err edge: %s" % (f, got))
                mine = [s for k, s, e2 in res if k in ("residual", "Err") and calls_at(e2, c.bb)]
                got = lib.count_range(body, st, rets, lib.bbs(mine)) if mine else None
                ctx.ob("deny", "%s: a denial by %s returns %s's error" % (tag, f, f), got == (1, 1), c.loc(), "results built from %s's error on paths from its Err edge: %s" % (f, got))
    if oks and all_brk:
        got = lib.count_range(body, [0], rets, lib.bbs([o for o, _ in oks]), blocked_edges=all_brk)
        ctx.ob("deny", tag + ": admitted by all fields => Ok", got == (1, 1), where, "Ok results on the path avoiding every Err edge: %s" % (got,))
    return sites, oks


def select_paths(e, prefix=()):
    """[(leaf expr, Either path)] of a ConnectionHandler::select(..) tree: select(l, r) puts l under Left (proto1) and r under
    Right (proto2) -- ConnectionHandlerSelect's routing, checked in check_select."""
    if e[0] == "call" and re.search(r"ConnectionHandler>?::select$", strip_generics(e[1])) and len(e[2]) == 2:
        return select_paths(e[2][0], prefix + ("Left",)) + select_paths(e[2][1], prefix + ("Right",))
    return [(e, list(prefix))]


def closure_ret(prog, body, e):
    cl = lib.closure_of(prog, body, e)
    if cl is None:
        return None, None
    ds = cl.defs.get(0, [])
    if len(ds) != 1:
        return cl, None
    return cl, cl.site_expr(mir.Site(cl, ds[0][1], ds[0][2]))


def either_nest(e):
    """([variants outermost first], innermost expr) of nested Either aggregates."""
    vs = []
    while e[0] == "agg" and e[1] == "adt" and strip_generics(e[2]).endswith("Either") and e[3] in ("Left", "Right"):
        vs.append(e[3])
        e = e[4][0][1]
    return vs, e


def camel(f):
    return "".join(p[:1].upper() + p[1:] for p in f.split("_"))


def check_shape(ctx, fx, fx_body, shape, fields, event_enum):
    n = len(fields)

    def body(fn):
        return fx_body(r"<%s as libp2p_swarm::NetworkBehaviour>::%s$" % (shape, fn))

    # ---------------------------------------------------------------- on_swarm_event
    b = body("on_swarm_event")
    where = "%s:%d" % (b.file, b.line)
    rets = b.return_blocks()
    by_field, other = field_calls(b, "on_swarm_event")
    ctx.ob("swarm-event", shape + ": only fields receive the event", set(by_field) <= set(fields) and not other, where, "receivers %s, %d other" % (sorted(by_field), len(other)))
    for f in fields:
        cs = by_field.get(f, [])
        got = lib.count_range(b, [0], rets, lib.bbs(cs)) if cs else (0, 0)
        ctx.ob("swarm-event", "%s: field %s receives every swarm event once" % (shape, f), got == (1, 1), where, "on_swarm_event(self.%s, ..) on all paths: %s" % (f, got))
        for c in cs:
            a = [render(x) for x in b.site_expr(c)[2][1:]]
            ctx.ob("swarm-event", "%s: field %s receives the event itself" % (shape, f), a == [lm.pname(b, 2)], c.loc(), str(a))

    # ---------------------------------------------------------------- handle_established_{in,out}bound_connection
    # The position of field k's handler in the select(..) tree *defines* the Either arm of field k (ConnectionHandlerSelect
    # sends Left to proto1 and Right to proto2); on_connection_handler_event and poll must use the same arm.
    paths = None
    for fn in ("handle_established_inbound_connection", "handle_established_outbound_connection"):
        b = body(fn)
        sites, oks = check_deny(ctx, shape, fn, b, fields)
        for o, e in oks:
            got = {}
            bad = []
            for lf, pth in select_paths(e[4][0][1]):
                hit = [f for f, c in sites.items() if calls_at(lf, c.bb)]
                if len(hit) == 1 and re.search(r"@(Continue|Ok)\.0$", render(lf)) and hit[0] not in got:
                    got[hit[0]] = pth
                else:
                    bad.append(render(lf)[:80])
            ok = not bad and set(got) == set(fields)
            ctx.ob("handler-order", "%s.%s: the handler of every field sits at exactly one position of the select tree" % (shape, fn), ok, o.loc(),
                   "field -> Either arm: %s%s" % ({f: "/".join(p) for f, p in got.items()}, "; unexpected leaves %s" % bad if bad else ""))
            if ok and paths is None:
                paths = got
            elif ok:
                ctx.ob("handler-order", "%s: inbound and outbound connections combine the handlers identically" % shape, got == paths, o.loc(),
                       "outbound %s, inbound %s" % ({f: "/".join(p) for f, p in got.items()}, {f: "/".join(p) for f, p in paths.items()}))
    ctx.ob("handler-order", "floor:%s handler positions" % shape, paths is not None, msg="select tree decoded" if paths else "select tree not decoded; falling back to left nesting", nontrivial=False)
    if paths is None:
        paths = {f: either_path(n, k) for k, f in enumerate(fields)}
    # every arm of the nested Either type is some field's arm (the tree is full): paths are prefix-free and complete
    def complete(ps):
        ps = set(map(tuple, ps))
        if ps == {()}:
            return True
        l = {p[1:] for p in ps if p and p[0] == "Left"}
        r = {p[1:] for p in ps if p and p[0] == "Right"}
        return len(l) + len(r) == len(ps) and bool(l) and bool(r) and complete(l) and complete(r)
    ctx.ob("handler-order", shape + ": the fields' arms partition the nested Either", complete(paths.values()), msg=str({f: "/".join(p) for f, p in paths.items()}))

    # ---------------------------------------------------------------- on_connection_handler_event
    b = body("on_connection_handler_event")
    where = "%s:%d" % (b.file, b.line)
    rets = b.return_blocks()
    by_field, other = field_calls(b, "on_connection_handler_event")
    PEER, CONN, EVP = lm.pname(b, 2), lm.pname(b, 3), lm.pname(b, 4)
    allc = [c for v in by_field.values() for c in v] + other
    ctx.ob("handler-event", shape + ": one delivery site per field", set(by_field) == set(fields) and all(len(v) == 1 for v in by_field.values()) and not other, where,
           "receivers %s, %d other" % ({f: len(v) for f, v in by_field.items()}, len(other)))
    got = lib.count_range(b, [0], rets, lib.bbs(allc))
    ctx.ob("handler-event", shape + ": every handler event is delivered to exactly one field", got == (1, 1), where, "deliveries on all paths: %s" % (got,))
    for k, f in enumerate(fields):
        path = paths[f]
        for c in by_field.get(f, []):
            e = b.site_expr(c)
            payload = render(e[2][3]) if len(e[2]) > 3 else "?"
            gs = {(t, tuple(sorted(ls))) for (t, ls, _, _) in b.guards_on_all_paths(c.bb) if t.startswith("discr(" + EVP)}
            want = {("discr(%s)" % proj(EVP, path[:i]), (path[i],)) for i in range(len(path))}
            arm = "(".join(path) + ("(ev" + ")" * len(path) if path else "ev")
            ctx.ob("handler-event", "%s: field %s is reached through arm %s" % (shape, f, arm), gs == want, c.loc(),
                   "discriminant tests on all paths to the delivery: %s; expected %s" % (sorted(gs), sorted(want)))
            ctx.ob("handler-event", "%s: field %s receives the payload of its own arm" % (shape, f), payload == proj(EVP, path), c.loc(),
                   "payload %s, expected %s" % (payload, proj(EVP, path)))
            ids = [render(x) for x in e[2][1:3]]
            ctx.ob("handler-event", "%s: field %s receives the peer and connection id" % (shape, f), ids == [PEER, CONN], c.loc(), str(ids))
    # arm -> field table, checked from the arm side as well (an arm routed to a foreign field)
    table = {}
    for f, cs in by_field.items():
        for c in cs:
            gs = sorted((t, tuple(sorted(ls))) for (t, ls, _, _) in b.guards_on_all_paths(c.bb) if t.startswith("discr(" + EVP))
            table["/".join(l[0] for _, l in sorted(gs, key=lambda x: len(x[0])))] = f
    want = {"/".join(paths[f]): f for f in fields}
    ctx.ob("handler-event", shape + ": arm routes to its own field", table == want, where, "arm -> field: %s; expected %s" % (table, want))

    # ---------------------------------------------------------------- handle_pending_inbound_connection
    b = body("handle_pending_inbound_connection")
    check_deny(ctx, shape, "handle_pending_inbound_connection", b, fields)

    # ---------------------------------------------------------------- handle_pending_outbound_connection
    b = body("handle_pending_outbound_connection")
    fn = "handle_pending_outbound_connection"
    sites, oks = check_deny(ctx, shape, fn, b, fields)
    ext = b.call_sites(r"iter::Extend>::extend$|Vec::(extend|append|extend_from_slice)$")
    accs = {render(b.site_expr(s)[2][0]) for s in ext}
    ctx.ob("addresses", shape + ": one accumulator", len(accs) == 1, "%s:%d" % (b.file, b.line), "extend targets: %s" % sorted(accs))
    for f in fields:
        c = sites.get(f)
        mine = [s for s in ext if c is not None and calls_at(b.site_expr(s)[2][1], c.bb) and re.search(r"@(Continue|Ok)\.0$", render(b.site_expr(s)[2][1]))]
        for o, _ in oks:
            got = lib.count_range(b, [0], [o.bb], lib.bbs(mine)) if mine else (0, 0)
            ctx.ob("addresses", "%s: addresses of %s are added once" % (shape, f), got == (1, 1), c.loc() if c else "", "extend(acc, %s's addresses) on paths to Ok: %s" % (f, got))
    for o, e in oks:
        r = render(e[4][0][1])
        ctx.ob("addresses", shape + ": the union is returned", accs == {r}, o.loc(), "Ok(%s), accumulator %s" % (r, sorted(accs)))
    for a in accs:
        ls = [l for l, nme in b.names.items() if nme == a]
        init = [render(b.init_expr(l)) for l in ls]
        ctx.ob("addresses", shape + ": accumulator starts empty", init == ["std::vec::Vec::new()"], "%s:%d" % (b.file, b.line), str(init))

    # ---------------------------------------------------------------- poll
    b = body("poll")
    where = "%s:%d" % (b.file, b.line)
    rets = b.return_blocks()
    by_field, other = field_calls(b, "poll")
    ctx.ob("poll", shape + ": every field is polled at one site", set(by_field) == set(fields) and all(len(v) == 1 for v in by_field.values()) and not other, where,
           "receivers %s, %d other" % ({f: len(v) for f, v in by_field.items()}, len(other)))
    readies, pend, oth = [], [], []
    for d in b.defs.get(0, []):
        s = mir.Site(b, d[1], d[2])
        e = b.site_expr(s)
        r = render(e)
        if r.startswith("std::task::Poll::Pending"):
            pend.append(s)
        elif e[0] == "agg" and e[3] == "Ready":
            readies.append((s, e[4][0][1]))
        else:
            oth.append(r[:80])
    ctx.ob("poll", shape + ": results are Ready(mapped field event) or Pending", not oth and len(pend) >= 1 and len(readies) == n, where, "%d Ready, %d Pending, other %s" % (len(readies), len(pend), oth))
    pend_edges_all = []
    for k, f in enumerate(fields):
        for c in by_field.get(f, [])[:1]:
            a = [render(x) for x in b.site_expr(c)[2][1:]]
            ctx.ob("poll", "%s: field %s is polled with the task context" % (shape, f), a == [lm.pname(b, 2)], c.loc(), str(a))
            rdy = lib.switch_edges_on_site(b, c, {"Ready"}, r"^discr\(")
            pnd = lib.switch_edges_on_site(b, c, {"Pending"}, r"^discr\(")
            ctx.ob("poll", "floor:%s %s Ready/Pending edges" % (shape, f), len(rdy) == 1 and len(pnd) == 1, c.loc(), "%s / %s" % (sorted(rdy), sorted(pnd)), nontrivial=False)
            pend_edges_all.append((f, pnd))
            mine = [(s, x) for s, x in readies if calls_at(x, c.bb)]
            ctx.ob("poll", "%s: field %s has one Ready result" % (shape, f), len(mine) == 1, c.loc(), "%d Ready results built from %s's event" % (len(mine), f))
            if rdy and mine:
                st = [t for _, t in rdy]
                got = lib.count_range(b, st, rets, [mine[0][0].bb])
                ctx.ob("poll", "%s: a Ready event of %s is returned" % (shape, f), got == (1, 1), c.loc(), "its Ready result on paths from the Ready edge: %s" % (got,))
                others = [x.bb for ff, v in by_field.items() if ff != f for x in v] + [s.bb for s, _ in readies if s.bb != mine[0][0].bb] + [s.bb for s in pend]
                got = lib.count_range(b, st, rets, others)
                ctx.ob("poll", "%s: a Ready event of %s is returned at once (no other field polled, no other result)" % (shape, f), got == (0, 0), c.loc(), "other polls/results after the Ready edge: %s" % (got,))
            for s, x in mine:
                # unwrap map_in / map_out
                mappers = {}
                cur = x
                while cur[0] == "call" and re.search(r"behaviour::ToSwarm::map_(in|out)$|^libp2p_swarm::ToSwarm::map_(in|out)$", strip_generics(cur[1])):
                    mappers[strip_generics(cur[1]).rsplit("::", 1)[1]] = cur[2][1]
                    cur = cur[2][0]
                ctx.ob("poll", "%s: the Ready result of %s is that field's event, mapped out and in" % (shape, f), set(mappers) == {"map_in", "map_out"} and
                       re.match(r"^.*::poll\(self\.%s, %s\)@Ready\.0$" % (re.escape(f), re.escape(lm.pname(b, 2))), render(cur)) is not None, s.loc(), render(x)[:200])
                mo = mappers.get("map_out")
                if event_enum:
                    want = "fn:derive_fixture::%s::%s" % (event_enum, camel(f))
                    ctx.ob("poll", "%s: out event of field %s wrapped in its own variant" % (shape, f), mo is not None and render(mo) == want, s.loc(), "map_out(%s), expected %s" % (render(mo) if mo else None, want))
                else:
                    cl, ret = closure_ret(fx, b, mo) if mo else (None, None)
                    ok = ret is not None and ret[0] == "call" and strip_generics(ret[1]).endswith("std::convert::Into>::into") and len(ret[2]) == 1 and ret[2][0][0] == "arg"
                    ctx.ob("poll", "%s: out event of field %s converted with Into::into" % (shape, f), ok, s.loc(), "map_out closure returns %s" % (render(ret) if ret else None))
                mi = mappers.get("map_in")
                cl, ret = closure_ret(fx, b, mi) if mi else (None, None)
                vs, inner = either_nest(ret) if ret else (None, None)
                path = paths[f]
                ctx.ob("poll", "%s: handler event of field %s wrapped as arm %s" % (shape, f, "/".join(path)), vs == path and inner is not None and inner[0] == "arg", s.loc(),
                       "map_in closure returns %s; expected nesting %s of its argument" % (render(ret) if ret else None, path))
    for s in pend:
        for f, pnd in pend_edges_all:
            ok = bool(pnd) and b.must_pass_edges(s.bb, pnd)
            ctx.ob("poll", "%s: Pending only after %s was Pending" % (shape, f), ok, s.loc(), "Poll::Pending dominated by the Pending edge of %s's poll" % f)
    # ---------------------------------------------------------------- handler type nesting (signature)
    if shape in ("Two", "Three", "Same"):
        b = body("handle_established_inbound_connection")
        ty = str(b.locals[0] if isinstance(b.locals[0], str) else b.locals[0].get("ty") if isinstance(b.locals[0], dict) else b.locals[0])
        depth = ty.count("ConnectionHandlerSelect<")
        ctx.ob("handler-order", shape + ": THandler<Self> combines %d handlers with %d ConnectionHandlerSelect" % (n, n - 1), depth == n - 1 and ty.count("ProbeHandler<") == n,
               "%s:%d" % (b.file, b.line), ty[:240])


# ------------------------------------------------------------------------------------------------ libp2p-swarm side
def check_map(ctx, name, mapped_variant, mapped_field):
    b = ctx.body(SW, r"^libp2p_swarm::behaviour::ToSwarm::%s$" % name)
    where = "%s:%d" % (b.file, b.line)
    adt = ctx.prog.adt(SW, r"^libp2p_swarm::behaviour::ToSwarm$")
    variants = [v["name"] for v in adt["variants"]]
    seen = {}
    for d in b.defs.get(0, []):
        s = mir.Site(b, d[1], d[2])
        e = b.site_expr(s)
        if not (e[0] == "agg" and strip_generics(e[2]).endswith("behaviour::ToSwarm")):
            ctx.ob("map", "%s: results are ToSwarm values" % name, False, s.loc(), render(e)[:120])
            continue
        v = e[3]
        gs = [ls for (t, ls, _, _) in b.guards_on_all_paths(s.bb) if t == "discr(self)"]
        ctx.ob("map", "%s: %s is produced only from %s" % (name, v, v), bool(gs) and all(set(ls) == {v} for ls in gs), s.loc(), "arm labels on all paths: %s" % [sorted(x) for x in gs])
        bad = []
        for fname, fe in e[4]:
            r = render(fe)
            src = "%s@%s.%s" % (lm.pname(b, 1), v, fname)
            if v == mapped_variant and fname == mapped_field:
                if r != "std::ops::FnOnce::call_once(%s, tuple{0: %s})" % (lm.pname(b, 2), src):
                    bad.append("%s: %s" % (fname, r))
            elif r != src:
                bad.append("%s: %s" % (fname, r))
        ctx.ob("map", "%s: %s rebuilt field by field" % (name, v), not bad, s.loc(), "fields not copied from the same field of the input: %s" % bad if bad else "all fields copied" + (" (%s mapped through f)" % mapped_field if v == mapped_variant else ""))
        seen[v] = seen.get(v, 0) + 1
    ctx.ob("map", "%s: every variant has exactly one result" % name, seen == {v: 1 for v in variants}, where, "results per variant: %s; variants %s" % (seen, variants))
    info = b.switch_info(0)
    # every variant arm returns its result on every path
    for tgt_lab in variants:
        ents = lib.arm_entry(b, r"^discr\(self\)$", tgt_lab)
        sites = [mir.Site(b, d[1], d[2]) for d in b.defs.get(0, []) if render(b.site_expr(mir.Site(b, d[1], d[2]))).startswith("libp2p_swarm::behaviour::ToSwarm::%s{" % tgt_lab)]
        got = lib.count_range(b, [t for _, t in ents], b.return_blocks(), lib.bbs(sites)) if ents and sites else None
        ctx.ob("map", "%s: arm %s returns a %s" % (name, tgt_lab, tgt_lab), got == (1, 1), where, "results on the arm: %s" % (got,))


def side_of(e):
    """Set of Either sides (Left/Right downcasts, tuple index 0/1 of `.info`) used in an expression."""
    sides = set()
    for x in mir.walk(e):
        if x[0] == "downcast" and x[2] in ("Left", "Right"):
            sides.add(x[2])
        if x[0] == "field" and x[2] in ("0", "1") and render(x[1]).endswith(".info"):
            sides.add("Left" if x[2] == "0" else "Right")
    return sides


def check_select(ctx):
    """ConnectionHandlerSelect routing.  The two private fields are taken from the ADT facts in declaration order (first
    handler = the TProto1-typed field); parameters are addressed by position; private helpers (constructor, transposers,
    a listen-error helper) are found by role through the call sites, so renames and helper-vs-inline shapes are accepted."""
    prog = ctx.prog
    CH = r"<handler::select::ConnectionHandlerSelect as handler::ConnectionHandler>::"
    flds = lm.adt_fields(prog, SW, r"^libp2p_swarm::handler::select::ConnectionHandlerSelect$")
    ctx.ob("select", "ConnectionHandlerSelect has two handler fields", len(flds) == 2 and [t for _, t in flds] == ["TProto1", "TProto2"], msg=str(flds))
    P1, P2 = flds[0][0], flds[1][0]
    PROTO = {"Left": "self." + P1, "Right": "self." + P2}
    WHO = {"self." + P1: "first handler", "self." + P2: "second handler"}
    # constructor / select: select(self, other) ends in an aggregate {first: self, second: other}, directly or through one crate-local constructor
    sl = ctx.body(SW, r"^libp2p_swarm::handler::ConnectionHandler::select$")
    rr = [sl.site_expr(mir.Site(sl, d[1], d[2])) for d in sl.defs.get(0, [])]
    ok, detail = False, [render(x)[:160] for x in rr]
    if len(rr) == 1:
        e = rr[0]
        me, other = lm.pname(sl, 1), lm.pname(sl, 2)
        if e[0] == "agg" and strip_generics(e[2]).endswith("ConnectionHandlerSelect"):
            ok = {k: render(v) for k, v in e[4]} == {P1: me, P2: other}
        elif e[0] == "call" and [render(x) for x in e[2]] == [me, other]:
            cands = [x for x in prog.bodies(SW) if x.npath == strip_generics(e[1]) and x.argc == 2]
            for nw in cands:
                ctx.use(nw)
                aggs = [{k: render(v) for k, v in nw.site_expr(s2)[4]} for s2 in nw.agg_sites(r"ConnectionHandlerSelect$")]
                ok = aggs == [{P1: lm.pname(nw, 1), P2: lm.pname(nw, 2)}]
                detail.append(str(aggs))
    ctx.ob("select", "ConnectionHandler::select(self, other) = ConnectionHandlerSelect{first: self, second: other}", ok, "%s:%d" % (sl.file, sl.line), "; ".join(detail))
    makers = [x.npath for x in prog.bodies(SW) if x.agg_sites(r"handler::select::ConnectionHandlerSelect$") and "Clone" not in x.npath]
    ctx.ob("select", "ConnectionHandlerSelect is constructed in one place", len(makers) == 1, msg=str(makers))
    # on_behaviour_event
    b = ctx.body(SW, CH + r"on_behaviour_event$")
    EV = lm.pname(b, 2)
    where = "%s:%d" % (b.file, b.line)
    rets = b.return_blocks()
    calls = b.call_sites(r"handler::ConnectionHandler::on_behaviour_event$")
    ctx.floor("select", "on_behaviour_event forwards", calls, 2, exact=True)
    for side, proto in PROTO.items():
        ents = lib.arm_entry(b, r"^discr\(%s\)$" % re.escape(EV), side)
        mine = [c for c in calls if render(b.site_expr(c)[2][0]) == proto]
        theirs = [c for c in calls if render(b.site_expr(c)[2][0]) != proto]
        ctx.ob("select", "floor:on_behaviour_event %s arm" % side, len(ents) == 1, where, str(ents), nontrivial=False)
        if ents:
            st = [t for _, t in ents]
            got = lib.count_range(b, st, rets, lib.bbs(mine))
            ctx.ob("select", "on_behaviour_event: %s goes to the %s once" % (side, WHO[proto]), got == (1, 1), where, "%s calls on the %s arm: %s" % (proto, side, got))
            got = lib.count_range(b, st, rets, lib.bbs(theirs))
            ctx.ob("select", "on_behaviour_event: %s never reaches the other handler" % side, got == (0, 0), where, "other handler's calls on the %s arm: %s" % (side, got))
        for c in mine:
            p = render(b.site_expr(c)[2][1])
            ctx.ob("select", "on_behaviour_event: the %s receives the %s payload" % (WHO[proto], side), p == "%s@%s.0" % (EV, side), c.loc(), p)
    # poll
    b = ctx.body(SW, CH + r"poll$")
    CX = lm.pname(b, 2)
    where = "%s:%d" % (b.file, b.line)
    rets = b.return_blocks()
    polls = {render(b.site_expr(c)[2][0]): c for c in b.call_sites(r"handler::ConnectionHandler::poll$")}
    ctx.ob("select", "poll: both handlers are polled", set(polls) == set(PROTO.values()), where, str(sorted(polls)))
    res = [(mir.Site(b, d[1], d[2]), b.site_expr(mir.Site(b, d[1], d[2]))) for d in b.defs.get(0, [])]
    pend = [s for s, e in res if render(e).startswith("std::task::Poll::Pending")]
    for side, proto in PROTO.items():
        c = polls.get(proto)
        if c is None:
            continue
        who = WHO[proto]
        POLL = "libp2p_swarm::handler::ConnectionHandler::poll(%s, %s)" % (proto, CX)
        pnd = lib.switch_edges_on_site(b, c, {"Pending"}, r"^discr\(libp2p_swarm::handler::ConnectionHandler::poll\(")
        for s in pend:
            ctx.ob("select", "poll: Pending only after the %s was Pending" % who, bool(pnd) and b.must_pass_edges(s.bb, pnd), s.loc(), "dominated by the Pending edge")
        for variant in ("NotifyBehaviour", "OutboundSubstreamRequest", "ReportRemoteProtocols"):
            ents = lib.arm_entry(b, r"^discr\(%s@Ready\.0\)$" % re.escape(POLL), variant)
            mine = [(s, e) for s, e in res if calls_at(e, c.bb) and lib.agg_variants(e, r"handler::ConnectionHandlerEvent$") == [variant]]
            ctx.ob("select", "floor:poll %s %s arm/result" % (who, variant), len(ents) == 1 and len(mine) == 1, where, "%d arm(s), %d result(s)" % (len(ents), len(mine)), nontrivial=False)
            if not ents or not mine:
                continue
            got = lib.count_range(b, [t for _, t in ents], rets, [mine[0][0].bb])
            ctx.ob("select", "poll: the %s's %s is returned" % (who, variant), got == (1, 1), mine[0][0].loc(), "on the arm: %s" % (got,))
            other_res = [s.bb for s, e in res if s.bb != mine[0][0].bb] + [x.bb for p2, x in polls.items() if p2 != proto]
            got = lib.count_range(b, [t for _, t in ents], rets, other_res)
            ctx.ob("select", "poll: the %s's %s is returned at once" % (who, variant), got == (0, 0), mine[0][0].loc(), "other results/polls after the arm: %s" % (got,))
            e = mine[0][1]
            if variant == "NotifyBehaviour":
                ev = [x for x in mir.walk(e) if x[0] == "agg" and x[3] == "NotifyBehaviour"][0][4][0][1]
                vs, inner = either_nest(ev)
                ctx.ob("select", "poll: the %s's NotifyBehaviour wrapped in Either::%s" % (who, side), vs == [side] and render(inner) == POLL + "@Ready.0@NotifyBehaviour.0",
                       mine[0][0].loc(), render(ev)[:200])
            elif variant == "OutboundSubstreamRequest":
                pr = [x for x in mir.walk(e) if x[0] == "agg" and x[3] == "OutboundSubstreamRequest"][0][4][0][1]
                r = render(pr)
                mi = [x for x in mir.walk(pr) if x[0] == "call" and strip_generics(x[1]).endswith("SubstreamProtocol::map_info")]
                mu = [x for x in mir.walk(pr) if x[0] == "call" and strip_generics(x[1]).endswith("SubstreamProtocol::map_upgrade")]
                ok_info = False
                if len(mi) == 1:
                    m = mi[0][2][1]
                    if m[0] == "fn":
                        ok_info = re.match(r"^fn:either::(Either::)?%s$" % side, render(m)) is not None
                    else:
                        cl, ret = closure_ret(prog, b, m)
                        vs, inner = either_nest(ret) if ret else (None, None)
                        ok_info = vs == [side] and inner is not None and inner[0] == "arg"
                ok_up = False
                detail = ""
                if len(mu) == 1:
                    cl, ret = closure_ret(prog, b, mu[0][2][1])
                    vs, inner = either_nest(ret) if ret else (None, None)
                    ok_up = vs == [side] and inner is not None and inner[0] == "agg" and strip_generics(inner[2]).endswith("SendWrapper")
                    detail = render(ret) if ret else ""
                src_ok = POLL.split("ConnectionHandler::")[1] + "@Ready.0@OutboundSubstreamRequest.protocol" in r
                ctx.ob("select", "poll: the %s's substream request tagged %s (upgrade and info)" % (who, side), ok_info and ok_up and src_ok, mine[0][0].loc(),
                       "map_info(%s), map_upgrade -> %s" % (render(mi[0][2][1]) if mi else None, detail))
            else:
                ctx.ob("select", "poll: the %s's ReportRemoteProtocols passed through" % who, POLL + "@Ready.0@ReportRemoteProtocols.0" in render(e), mine[0][0].loc(), render(e)[:200])
    # poll_close
    b = ctx.body(SW, CH + r"poll_close$")
    CX = lm.pname(b, 2)
    res = [(mir.Site(b, d[1], d[2]), b.site_expr(mir.Site(b, d[1], d[2]))) for d in b.defs.get(0, [])]
    for side, proto in PROTO.items():
        mine = [(s, e) for s, e in res if ("poll_close(%s, %s)@Ready.0@Some.0" % (proto, CX)) in render(e)]
        ctx.ob("select", "floor:poll_close %s result" % WHO[proto], len(mine) == 1, "%s:%d" % (b.file, b.line), str(len(mine)), nontrivial=False)
        for s, e in mine:
            some = [x for x in mir.walk(e) if x[0] == "agg" and x[3] == "Some"]
            vs, inner = either_nest(some[0][4][0][1]) if some else (None, None)
            ctx.ob("select", "poll_close: the %s's last events wrapped in Either::%s" % (WHO[proto], side), vs == [side], s.loc(), render(e)[:200])
    # on_connection_event: every arm may do its routing inline or hand its payload to one crate-local private helper
    # (called exactly once on every path of the arm, `self` first); the rules below run on the settled scope and compare
    # expressions after substituting the helper's parameters by the caller's arguments.
    b = ctx.body(SW, CH + r"on_connection_event$")
    EV = lm.pname(b, 2)
    where = "%s:%d" % (b.file, b.line)
    FWD = r"handler::ConnectionHandler::on_connection_event$"

    def is_fwd(site):
        return re.search(FWD, strip_generics(site.body.call_name(site.term))) is not None and lm.recv_self_field(site.body.site_expr(site)) in (P1, P2)

    def arm_scope(name):
        ents = lib.arm_entry(b, r"^discr\(%s\)$" % re.escape(EV), name)
        ctx.ob("select", "floor:on_connection_event arm " + name, len(ents) == 1, where, str(ents), nontrivial=False)
        if not ents:
            return None
        sc, chain = lm.settle(prog, SW, lm.Scope(b, [t for _, t in ents]), is_fwd)
        if chain:
            ctx.note("on_connection_event %s arm delegates to %s" % (name, " -> ".join(chain)))
            ctx.use(sc.body)
        return sc
    n_fwd = 0
    transposers = []
    for name in ("FullyNegotiatedOutbound", "FullyNegotiatedInbound", "DialUpgradeError"):
        sc = arm_scope(name)
        if sc is None:
            continue
        hb, rets, hwhere = sc.body, sc.rets(), sc.where()
        PAY = "%s@%s.0" % (EV, name)
        fwd = [c for c in sc.calls() if is_fwd(c)]
        n_fwd += len(fwd)
        # the transposer: a call on the arm's payload whose result is matched on Left / Right
        tr = [c for c in sc.calls() if hb.site_expr(c)[2] and sc.rx(hb.site_expr(c)[2][0]) == PAY and
              lib.switch_edges_on_site(hb, c, {"Left"}, r"^discr\(") and lib.switch_edges_on_site(hb, c, {"Right"}, r"^discr\(")]
        ctx.ob("select", "on_connection_event %s: the event is split by side" % name, len(tr) == 1, hwhere, "%d call(s) on %s whose result is matched on Left/Right" % (len(tr), PAY))
        if not tr:
            continue
        TR = render(hb.site_expr(tr[0]))
        cands = [x for x in prog.bodies(SW) if x.npath == strip_generics(hb.call_name(tr[0].term)) and x.argc == 1 and (name + "<") in str(x.locals[1])]
        transposers.append((name, cands))
        for side, proto in PROTO.items():
            edges = lib.switch_edges_on_site(hb, tr[0], {side}, r"^discr\(")
            mine = [c for c in fwd if sc.rx(hb.site_expr(c)[2][0]) == proto]
            theirs = [c for c in fwd if sc.rx(hb.site_expr(c)[2][0]) != proto]
            st2 = [t for _, t in edges]
            got = lib.count_range(hb, st2, rets, lib.bbs(mine))
            ctx.ob("select", "on_connection_event %s: %s side goes to the %s once" % (name, side, WHO[proto]), got == (1, 1), hwhere, "forwards on the %s edge: %s" % (side, got))
            got = lib.count_range(hb, st2, rets, lib.bbs(theirs))
            ctx.ob("select", "on_connection_event %s: %s side never reaches the other handler" % (name, side), got == (0, 0), hwhere, "other forwards on the %s edge: %s" % (side, got))
            for c in mine:
                e = hb.site_expr(c)[2][1]
                ok = lib.agg_variants(e, r"handler::ConnectionEvent$") == [name] and render(e[4][0][1]) == "%s@%s.0" % (TR, side)
                ctx.ob("select", "on_connection_event %s: the %s receives the %s half as the same event kind" % (name, WHO[proto], side), ok, c.loc(), render(e)[:200])
    for name in ("AddressChange", "LocalProtocolsChange", "RemoteProtocolsChange"):
        sc = arm_scope(name)
        if sc is None:
            continue
        hb, rets, hwhere = sc.body, sc.rets(), sc.where()
        PAY = "%s@%s.0" % (EV, name)
        fwd = [c for c in sc.calls() if is_fwd(c)]
        n_fwd += len(fwd)
        for proto in PROTO.values():
            mine = [c for c in fwd if sc.rx(hb.site_expr(c)[2][0]) == proto and lib.agg_variants(hb.site_expr(c)[2][1], r"handler::ConnectionEvent$") == [name]]
            got = lib.count_range(hb, sc.starts, rets, lib.bbs(mine)) if mine else (0, 0)
            ctx.ob("select", "on_connection_event %s reaches the %s once" % (name, WHO[proto]), got == (1, 1), hwhere, "forwards of %s to %s on the arm: %s" % (name, proto, got))
            for c in mine:
                r = sc.rx(hb.site_expr(c)[2][1])
                ctx.ob("select", "on_connection_event %s: the %s receives the event's own content" % (name, WHO[proto]), PAY in r, c.loc(), r[:200])
    sc = arm_scope("ListenUpgradeError")
    if sc is not None:
        hb, hst, hrets, hwhere = sc.body, sc.starts, sc.rets(), sc.where()
        hreg = sc.region
        hfwd = [c for c in sc.calls() if is_fwd(c)]
        n_fwd += len(hfwd)
        ctx.floor("select", "listen error forwards", hfwd, 2, exact=True)
        for side, proto in PROTO.items():
            ents = [(x, t) for x, t in lib.arm_entry(hb, r"^discr\(.*\.error\)$", side) if x in hreg]
            mine = [c for c in hfwd if sc.rx(hb.site_expr(c)[2][0]) == proto]
            theirs = [c for c in hfwd if sc.rx(hb.site_expr(c)[2][0]) != proto]
            ctx.ob("select", "floor:listen error %s arm" % side, len(ents) == 1, hwhere, str(ents), nontrivial=False)
            if ents:
                st2 = [t for _, t in ents]
                got = lib.count_range(hb, st2, hrets, lib.bbs(mine))
                ctx.ob("select", "listen error: %s goes to the %s once" % (side, WHO[proto]), got == (1, 1), hwhere, "%s" % (got,))
                got = lib.count_range(hb, st2, hrets, lib.bbs(theirs))
                ctx.ob("select", "listen error: %s never reaches the other handler" % side, got == (0, 0), hwhere, "%s" % (got,))
            for c in mine:
                e = sc.sx(hb.site_expr(c)[2][1])
                ctx.ob("select", "listen error info side: the %s receives its own info and error" % WHO[proto],
                       side_of(e) == {side} and lib.agg_variants(e, r"handler::ConnectionEvent$") == ["ListenUpgradeError"] and ("%s@ListenUpgradeError.0" % EV) in render(e), c.loc(), render(e)[:220])
        got = lib.count_range(hb, hst, hrets, lib.bbs(hfwd))
        ctx.ob("select", "listen error is delivered to exactly one handler", got == (1, 1), hwhere, "forwards on all paths: %s" % (got,))
    ctx.ob("select", "floor:on_connection_event forwards", n_fwd >= 14, where, "%d forwards over all arms (inline or delegated)" % n_fwd, nontrivial=False)
    # transposers: result side = payload side
    ctx.ob("select", "floor:transposer bodies", len(transposers) == 3 and all(len(c) == 1 for _, c in transposers), msg=str([(k, [x.npath for x in c]) for k, c in transposers]), nontrivial=False)
    for kind, cands in transposers:
        for t in cands:
            ctx.use(t)
            me = lm.pname(t, 1)
            n_res = 0
            for d in t.defs.get(0, []):
                s = mir.Site(t, d[1], d[2])
                e = t.site_expr(s)
                vs, inner = either_nest(e)
                if len(vs) < 1:
                    ctx.ob("select", "transpose(%s): results are Either values" % kind, False, s.loc(), render(e)[:160])
                    continue
                n_res += 1
                ctx.ob("select", "transpose(%s): Either::%s carries only %s-side parts" % (kind, vs[0], vs[0]), side_of(inner) == {vs[0]} and
                       inner[0] == "agg" and strip_generics(inner[2]).endswith(kind), s.loc(), render(e)[:240])
                gs = [(tx, sorted(ls)) for (tx, ls, _, _) in t.guards_on_all_paths(s.bb) if tx in ("discr(%s.protocol)" % me, "discr(%s.info)" % me)]
                ctx.ob("select", "transpose(%s): Either::%s only for a %s input" % (kind, vs[0], vs[0]), bool(gs) and all(ls == [vs[0]] for _, ls in gs), s.loc(), str(gs))
            ctx.ob("select", "floor:transpose(%s) results" % kind, n_res >= 2, "%s:%d" % (t.file, t.line), "%d results" % n_res, nontrivial=False)


def check(ctx):
    fx = fixture.program()
    ctx.trusted.append("fixture crate /verif/fixtures/derive_fixture (probe behaviours), compiled against the checked tree's swarm-derive")

    def fx_body(pat):
        b = fx.body(FX, pat)
        ctx.bodies.add(b.npath)
        return b
    # the fixture really is an expansion of the current macro: every impl body carries the derive's expansion mark
    impls = [b for b in fx.bodies(FX) if re.search(r"<(%s) as libp2p_swarm::NetworkBehaviour>::\w+$" % "|".join(SHAPES), b.npath)]
    ctx.floor("fixture", "derived impl bodies (7 methods x 5 shapes)", impls, 35, exact=True)
    marks = set()
    for b in impls:
        t = b.blocks[b.return_blocks()[0]]["term"] if b.return_blocks() else {}
        marks.add(t.get("x", ""))
    ctx.ob("fixture", "impl bodies come from the NetworkBehaviour derive expansion", marks == {"m:NetworkBehaviour"}, msg="expansion marks of the return terminators: %s" % sorted(marks))
    for shape, (fields, ev) in SHAPES.items():
        check_shape(ctx, fx, fx_body, shape, fields, ev)
    # generated event enums: variant k carries field k's ToSwarm type, in field order, named after the field
    for shape, (fields, ev) in SHAPES.items():
        if not ev:
            continue
        adt = fx.adt(FX, r"^derive_fixture::%s$" % ev)
        names = [v["name"] for v in adt["variants"]]
        ctx.ob("event-enum", "%s variants follow the fields" % ev, names == [camel(f) for f in fields], msg="%s for fields %s" % (names, fields))
    check_map(ctx, "map_in", "NotifyHandler", "event")
    check_map(ctx, "map_out", "GenerateEvent", "0")
    check_select(ctx)
