"""C13 observed-address translation only swaps the host component — abstract evaluation over all Protocol variants (K7)."""
import re

from .. import lib, mir
from ..mir import render

EXPLANATION = ("_address_translation is a single call Multiaddr::replace(original, 0, closure): index is the constant 0 and nothing else "
               "produces a Multiaddr; the closure is evaluated abstractly over every pair (variant of original's first component, "
               "Some/None and variant of observed's first component): it yields the observed first component iff both are in "
               "{Ip4, Ip6, Dns, Dns4, Dns6} and None otherwise. Exhaustive over the Protocol enum as compiled.")
ASSUMPTIONS = ["Multiaddr::replace(i, f) replaces exactly component i with f's result and returns None when f returns None (external crate multiaddr)"]
SW = "libp2p_swarm"
HOST = {"Ip4", "Ip6", "Dns", "Dns4", "Dns6"}


def check(ctx):
    f = ctx.body(SW, r"translation::_address_translation$")
    calls = f.call_sites()
    ok = False
    if len(calls) == 1:
        e = f.site_expr(calls[0])
        a = e[2]
        # structural match (independent of parameter names): Multiaddr::replace(<param 1>, const 0, closure capturing exactly <param 2>)
        ok = (mir.strip_generics(e[1]).endswith("Multiaddr::replace") and len(a) == 3 and a[0][0] == "arg" and a[0][1] == 1
              and a[1][0] == "const" and a[1][1] == 0 and a[2][0] == "closure" and len(a[2][2]) == 1
              and a[2][2][0][0] == "arg" and a[2][2][0][1] == 2)
    ctx.ob("shape", "single replace(original, 0, f(observed))", ok, "%s:%d" % (f.file, f.line), str([render(f.site_expr(s)) for s in calls])[:200])
    r0 = [mir.Site(f, x[1], x[2]) for x in f.defs[0]]
    ctx.ob("shape", "result is the replace() result", len(r0) == 1 and r0[0].si is None and r0[0].bb == (calls[0].bb if calls else -1), msg="return place written by the replace call")
    c = ctx.body(SW, r"translation::_address_translation::\{closure#0\}$")
    proto = ctx.prog.raw("libp2p_core")  # ensure facts are there
    # variant universe from the discriminant switch itself
    info = c.switch_info(0)
    allv = sorted({l for ls in info[1].values() for l in ls})
    ctx.ob("table", "floor:Protocol variants", len(allv) >= 30 and HOST <= set(allv), nontrivial=False, msg="%d Protocol variants" % len(allv))
    res = [mir.Site(c, x[1], x[2]) for x in c.defs[0]]
    am = [(r"^discr\(\w+\)$", "orig"),
          (r"^discr\(<libp2p_core::multiaddr::Iter as std::iter::Iterator>::next\(libp2p_core::Multiaddr::iter\(\^\w+\)\)\)$", "obs_some"),
          (r"^discr\(<libp2p_core::multiaddr::Iter as std::iter::Iterator>::next\(libp2p_core::Multiaddr::iter\(\^\w+\)\)@Some\.0\)$", "obs")]
    ctx.ob("shape", "the closure's match scrutinee is its own parameter", c.argc == 2 and c.switch_info(0) is not None and c.switch_info(0)[0][0] == "discr"
           and c.switch_info(0)[0][1][0] == "arg" and c.switch_info(0)[0][1][1] == 2, "%s:%d" % (c.file, c.line), render(c.switch_info(0)[0]) if c.switch_info(0) else "")

    def val(s):
        r = render(c.site_expr(s))
        if r == "std::option::Option::None{}":
            return "None"
        if re.match(r"^<libp2p_core::multiaddr::Iter as std::iter::Iterator>::next\(libp2p_core::Multiaddr::iter\(\^\w+\)\)$", r):
            return "observed[0]"
        return "?" + r[:80]
    lib.check_cells(ctx, "table", "closure", c, res, val, am, {"orig": allv, "obs_some": ["Some", "None"], "obs": allv},
                    lambda a: "observed[0]" if (a["orig"] in HOST and a["obs_some"] == "Some" and a["obs"] in HOST) else "None",
                    "%s:%d" % (c.file, c.line))
