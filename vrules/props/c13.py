"""C13 observed-address translation only swaps the host component — abstract evaluation over all Protocol variants (K7)."""
import re

from .. import lib, mir
from ..mir import render

EXPLANATION = ("_address_translation is a single call Multiaddr::replace(original, 0, closure): index is the constant 0 and nothing else "
               "produces a Multiaddr; the closure is evaluated abstractly over every pair (variant of original's first component, "
               "Some/None and variant of observed's first component): it yields the observed first component iff both are in "
               "{Ip4, Ip6, Dns, Dns4, Dns6} and None otherwise. Exhaustive over the Protocol enum as compiled.")
ASSUMPTIONS = ["Multiaddr::replace(i, f) replaces exactly component i with f's result and returns None when f returns None (external crate multiaddr)"]
SW = "libp2p_swarm"
HOST = {"Ip4", "Ip6", "Dns", "Dns4", "Dns6"}


def check(ctx):
    f = ctx.body(SW, r"translation::_address_translation$")
    calls = f.call_sites()
    ok = len(calls) == 1 and re.match(r"^libp2p_core::Multiaddr::replace\(original, 0, closure:libp2p_swarm::translation::_address_translation::\{closure#0\}\[observed\]\)$", render(f.site_expr(calls[0]))) is not None
    ctx.ob("shape", "single replace(original, 0, f(observed))", ok, "%s:%d" % (f.file, f.line), str([render(f.site_expr(s)) for s in calls])[:200])
    r0 = [mir.Site(f, x[1], x[2]) for x in f.defs[0]]
    ctx.ob("shape", "result is the replace() result", len(r0) == 1 and r0[0].si is None and r0[0].bb == (calls[0].bb if calls else -1), msg="return place written by the replace call")
    c = ctx.body(SW, r"translation::_address_translation::\{closure#0\}$")
    proto = ctx.prog.raw("libp2p_core")  # ensure facts are there
    # variant universe from the discriminant switch itself
    info = c.switch_info(0)
    allv = sorted({l for ls in info[1].values() for l in ls})
    ctx.ob("table", "floor:Protocol variants", len(allv) >= 30 and HOST <= set(allv), nontrivial=False, msg="%d Protocol variants" % len(allv))
    res = [mir.Site(c, x[1], x[2]) for x in c.defs[0]]
    am = [(r"^discr\(proto\)$", "orig"),
          (r"^discr\(<libp2p_core::multiaddr::Iter as std::iter::Iterator>::next\(libp2p_core::Multiaddr::iter\(\^observed\)\)\)$", "obs_some"),
          (r"^discr\(<libp2p_core::multiaddr::Iter as std::iter::Iterator>::next\(libp2p_core::Multiaddr::iter\(\^observed\)\)@Some\.0\)$", "obs")]

    def val(s):
        r = render(c.site_expr(s))
        if r == "std::option::Option::None{}":
            return "None"
        if r == "<libp2p_core::multiaddr::Iter as std::iter::Iterator>::next(libp2p_core::Multiaddr::iter(^observed))":
            return "observed[0]"
        return "?" + r[:80]
    lib.check_cells(ctx, "table", "closure", c, res, val, am, {"orig": allv, "obs_some": ["Some", "None"], "obs": allv},
                    lambda a: "observed[0]" if (a["orig"] in HOST and a["obs_some"] == "Some" and a["obs"] in HOST) else "None",
                    "%s:%d" % (c.file, c.line))
    # nothing else in the crate's translation module produces addresses
    others = [b.npath for b in ctx.prog.bodies(SW) if "::translation::" in b.npath and "_address_translation" not in b.npath]
    ctx.ob("shape", "module contains only the translation function", others == [], msg=str(others))
