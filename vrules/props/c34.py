"""C34 accepted gossipsub configs never break the behaviour — validation coverage of ConfigBuilder::build (K1/K5 dominance), writers (K4), constants (K6), difference-constraint closure over the heartbeat subtractions (K9)."""
import re

from .. import lib, lib_gs2, mir
from ..lib_gs2 import Canon, rel_pred, const_pred, NEG, FLIP
from ..mir import render, strip_generics

EXPLANATION = ("ConfigBuilder::build: the Ok result is dominated (on every path, including the path on which every per-topic loop runs zero "
               "times) by the accepting edge of a comparison for each required relation on the DEFAULT parameters — the operands are whatever "
               "the public getters Config::{mesh_outbound_min, mesh_n_low, mesh_n, mesh_n_high, max_transmit_size, history_gossip, "
               "history_length} return (getter calls are inlined, so direct field reads and getter calls are the same operand; mirrored, "
               "negated and stricter comparisons are accepted): mesh_outbound_min <= mesh_n_low <= mesh_n <= mesh_n_high, "
               "2*mesh_outbound_min <= mesh_n, max_transmit_size >= 100, history_gossip <= history_length; for per-topic settings a loop over "
               "the collection the public setter fills (max_transmit_size_for_topic / set_topic_config) must re-establish the relations in "
               "every iteration. The validated fields can only be written by ConfigBuilder methods, Config values are only built by "
               "ConfigBuilder::default and handed out by build (Config::default goes through build), the built-in defaults satisfy the "
               "relations, setters and getters agree on the field. Behaviour::heartbeat: every usize subtraction is proved non-negative from "
               "the comparisons that dominate it (no intervening write to the compared quantities) closed under the build invariants "
               "mesh_outbound_min <= mesh_n_low <= mesh_n <= mesh_n_high (difference-constraint closure, hand-rolled).")
ASSUMPTIONS = ["only comparisons inside build (after inlining branch-free getters one level) are recognised as validation",
               "heartbeat panics other than usize subtraction underflow (slice indexing, unwrap) are not part of this check",
               "the heartbeat subtraction proofs assume the build invariants for the topic's parameter set; for topics configured only "
               "through set_topic_config that assumption is the recorded known finding"]
G = "libp2p_gossipsub"
CONFIGS = [{"name": "gossipsub-features", "packages": ["libp2p-gossipsub"], "features": "metrics,partial-messages"}]
SELFTEST = [
    {"mutation": "fix reverted: default parameter checks removed from build (original F7)", "caught_by": "coverage/default: mesh_n_low <= mesh_n (and the other four default relations)"},
    {"mutation": "build: `default_mesh.mesh_n <= default_mesh.mesh_n_high` -> `default_mesh.mesh_n_low <= default_mesh.mesh_n_high`", "caught_by": "coverage/default: mesh_n <= mesh_n_high"},
    {"mutation": "build: `history_length < history_gossip` -> `history_length > history_gossip`", "caught_by": "coverage/history_gossip <= history_length"},
    {"mutation": "build: default `max_transmit_size < 100` -> `< 10`", "caught_by": "coverage/default_max_transmit_size >= 100"},
    {"mutation": "heartbeat: `if peers.len() < mesh_n_low` -> `if peers.len() < mesh_n_high` before `mesh_n - peers.len()`", "caught_by": "heartbeat-sub/mesh_n_for_topic - len(mesh peers) cannot underflow"},
    {"mutation": "heartbeat: `if peers.len() >= mesh_n_high` -> `if peers.len() >= mesh_n_low` before `peers.len() - mesh_n`", "caught_by": "heartbeat-sub/len(mesh peers) - mesh_n_for_topic cannot underflow"},
    {"mutation": "heartbeat: `if outbound <= mesh_outbound_min {continue}` deleted before `outbound -= 1`", "caught_by": "heartbeat-sub/outbound - 1 cannot underflow"},
    {"mutation": "Config::mesh_n_low_for_topic returns `.mesh_n_high`", "caught_by": "getters/Config::mesh_n_low_for_topic = the topic's entry or the default, same field as Config::mesh_n_low"},
    {"mutation": "TopicMeshConfig::default mesh_n_low: 5 -> 7", "caught_by": "defaults/built-in default mesh parameters satisfy the relations"},
    {"mutation": "new pub fn Config::set_mesh_n(&mut self, n) writing default_mesh_params.mesh_n", "caught_by": "writers/validated fields are only written by ConfigBuilder"},
    {"mutation": "neutral/gs/07 (mirrored comparisons in heartbeat), 09 (extra trace line)", "caught_by": "(silent, as required)"},
]
MESH = ("mesh_outbound_min", "mesh_n_low", "mesh_n", "mesh_n_high")
INL = r"^libp2p_gossipsub::config::Config::\w+$|^libp2p_gossipsub::protocol::ProtocolConfig::\w+$"


# ------------------------------------------------------------------------------------------------ difference constraints
def closure_le(facts, b, a):
    """facts: list of (x, y, w) meaning x <= y + w.  True iff b <= a follows (Bellman-Ford over the constraint graph)."""
    nodes = {b, a}
    for x, y, _ in facts:
        nodes.add(x)
        nodes.add(y)
    dist = {n: float("inf") for n in nodes}
    dist[a] = 0
    for _ in range(len(nodes) + 1):
        ch = False
        for x, y, w in facts:
            if dist[y] + w < dist[x]:
                dist[x] = dist[y] + w
                ch = True
        if not ch:
            break
    return dist[b] <= 0


def cmp_to_facts(op, x, y):
    return {"Lt": [(x, y, -1)], "Le": [(x, y, 0)], "Gt": [(y, x, -1)], "Ge": [(y, x, 0)], "Eq": [(x, y, 0), (y, x, 0)]}.get(op, [])


MUTATORS = r"::(insert|remove|retain|extend|clear|push|pop|append|truncate|drain|split_off|take|pop_first|pop_last|swap_remove|resize|dedup\w*)$"


def kill_blocks(body, exprs):
    """Blocks that may change the value of one of the (raw) expressions: whole assignments to a multi-def local occurring in it,
    or a mutating call whose receiver is a collection whose size occurs in it."""
    locals_, recvs = set(), set()
    for e in exprs:
        for s in mir.walk(e):
            if s[0] == "local" and len(body.defs.get(s[1], [])) > 1:
                locals_.add(s[1])
            if s[0] == "call" and re.search(r"::(len|count|is_empty)$", strip_generics(s[1])) and s[2]:
                recvs.add(render(s[2][0]))
    ks = set()
    for l in locals_:
        for d in body.defs.get(l, []):
            ks.add(d[1])
    if recvs:
        for s in body.call_sites(MUTATORS):
            e = body.site_expr(s)
            if e[2] and render(e[2][0]) in recvs:
                ks.add(s.bb)
    return ks


def guard_facts(cx, site_bb):
    """Difference constraints known at site_bb: dominating comparison edges (any spelling) whose operands are not overwritten
    between the edge and the site."""
    body = cx.b
    facts, used = [], []
    for text, labels, sw, cond in body.guards_on_all_paths(site_bb):
        swc = cx.switch(sw)
        if not swc:
            continue
        atoms = [a for a in lib_gs2.atoms_of(swc[0], labels) if a[0] == "rel"]
        if not atoms:
            continue
        info = body.switch_info(sw)
        tgts = [t for t, ls in info[1].items() if ls <= set(labels)]
        ks = kill_blocks(body, [cond])
        killed = False
        r1 = body.reachable(tgts, blocked_nodes=[sw])
        for k in ks:
            if k == sw or k == site_bb:
                continue
            if k in r1 and site_bb in body.reachable(body.succ[k], blocked_nodes=[sw]):
                killed = True
        if killed:
            continue
        for _, op, x, y in atoms:
            fs = cmp_to_facts(op, x, y)
            if fs:
                facts += fs
                used.append("%s %s %s" % (short(x), {"Lt": "<", "Le": "<=", "Gt": ">", "Ge": ">=", "Eq": "==", "Ne": "!="}[op], short(y)))
    return facts, used


def short(r):
    r = re.sub(r"libp2p_gossipsub::config::Config::(\w+)\(\$1\.\w+(, [^()]*(\([^()]*\))?[^()]*)?\)", r"\1", r)
    r = re.sub(r"std::collections::BTreeSet::len\([^()]*(\([^()]*\))?[^()]*\)", "len(mesh peers)", r)
    r = re.sub(r"<std::iter::Filter as std::iter::Iterator>::count\(.*\)$", "count(outbound mesh peers)", r)
    r = re.sub(r"std::vec::Vec::len\((%\d+)\)", r"len(\1)", r)
    r = re.sub(r"^%\d+$", "outbound", r)
    return r[:90]


def getter_return(prog, name):
    gb = prog.body(G, r"^libp2p_gossipsub::config::Config::%s$" % name)
    rets = Canon(prog, gb, inline=INL).returns()
    if len(rets) != 1:
        raise mir.RuleError("getter %s: %d returns" % (name, len(rets)))
    return gb, render(rets[0][1])


def check(ctx):
    prog = ctx.prog
    # ======================================================================================= build: validation coverage
    b = ctx.body(G, r"^libp2p_gossipsub::config::ConfigBuilder::build$")
    bw = "%s:%d" % (b.file, b.line)
    cb = Canon(prog, b, inline=INL)
    cfg_field = [f["n"] for f in prog.adt(G, r"config::ConfigBuilder$")["variants"][0]["fields"] if re.search(r"config::Config$", f["ty"])]
    ctx.ob("coverage", "floor:ConfigBuilder holds one Config", len(cfg_field) == 1, bw, str(cfg_field), nontrivial=False)
    CFG = "$1.%s" % (cfg_field[0] if cfg_field else "config")
    oks = [(s, e) for s, e in cb.returns() if e[0] == "agg" and e[3] == "Ok"]
    ctx.floor("coverage", "Ok result of build", oks, 1, exact=True)
    for s, e in oks:
        r = render(e)
        ctx.ob("coverage", "the returned Config is the validated one", r == "std::result::Result::Ok{0: %s}" % CFG, s.loc(), r[:140])
    # operands = what the public getters return, re-based on the builder's config
    op = {}
    for g in MESH + ("max_transmit_size", "history_gossip", "history_length"):
        _, r = getter_return(prog, g)
        op[g] = "^" + re.escape(r.replace("$1", CFG, 1)) + "$" if r.startswith("$1") else None
    ctx.ob("coverage", "floor:getters are plain field reads", all(op.values()), bw, str({k: bool(v) for k, v in op.items()}), nontrivial=False)
    if not all(op.values()):
        return
    un = lambda p: p[1:-1]
    twice = lambda p: r"^(MulWithOverflow\(%s, 2\)\.0|MulWithOverflow\(2, %s\)\.0|Mul\(%s, 2\)|Mul\(2, %s\)|AddWithOverflow\(%s, %s\)\.0)$" % ((un(p),) * 6)
    half = lambda p: r"^Div\(%s, 2\)$" % un(p)
    default_rel = [
        ("default: mesh_outbound_min <= mesh_n_low", cb.edges(rel_pred(op["mesh_outbound_min"], op["mesh_n_low"], "Le"))),
        ("default: mesh_n_low <= mesh_n", cb.edges(rel_pred(op["mesh_n_low"], op["mesh_n"], "Le"))),
        ("default: mesh_n <= mesh_n_high", cb.edges(rel_pred(op["mesh_n"], op["mesh_n_high"], "Le"))),
        ("default: 2 * mesh_outbound_min <= mesh_n", cb.edges(rel_pred(twice(op["mesh_outbound_min"]), op["mesh_n"], "Le")) | cb.edges(rel_pred(op["mesh_outbound_min"], half(op["mesh_n"]), "Le"))),
        ("default_max_transmit_size >= 100", cb.edges(const_pred(op["max_transmit_size"], "Ge", 100))),
        ("history_gossip <= history_length", cb.edges(rel_pred(op["history_gossip"], op["history_length"], "Le"))),
    ]
    for name, edges in default_rel:
        for s, _ in oks:
            ok = cb.dominated(s.bb, edges)
            ctx.ob("coverage", name, ok, s.loc(),
                   "Ok is dominated by the accepting edge of this comparison" if ok else
                   ("no comparison establishing this relation dominates the Ok result: build accepts configurations violating it" if not edges else
                    "the comparison exists but a path reaches Ok without passing its accepting edge"))
    # ---- per-topic collections: what the public per-topic setters fill
    coll = {}
    for setter in ("max_transmit_size_for_topic", "set_topic_config"):
        sb = ctx.body(G, r"^libp2p_gossipsub::config::ConfigBuilder::%s$" % setter)
        csb = Canon(prog, sb)
        tg = {render(csb.args(s)[0]) for s in sb.call_sites(r"HashMap::insert$")}
        coll[setter] = next(iter(tg)) if len(tg) == 1 else None
        ctx.ob("coverage", "floor:ConfigBuilder::%s fills one map" % setter, coll[setter] is not None, "%s:%d" % (sb.file, sb.line), str(sorted(tg)), nontrivial=False)
    loops = []
    for s in b.call_sites(r"iter::Iterator>::next$"):
        e = b.site_expr(s)
        if not (e[2] and e[2][0][0] == "local"):
            continue
        itl = e[2][0][1]
        some = [t for bi in b.live if b.switch_info(bi) for t, ls in b.switch_info(bi)[1].items()
                if ls == {"Some"} and b.switch_info(bi)[0][0] == "discr" and b.switch_info(bi)[0][1][0] == "call" and b.switch_info(bi)[0][1][3] == s.bb]
        if not some:
            continue
        cl = Canon(prog, b, {itl: "it"}, inline=INL)
        src = render(cl.init(itl)) if cl.init(itl) else ""
        loops.append((s, some, src, cl))
    ctx.floor("coverage", "per-topic loops in build", loops, 1)
    ELEM = r"<[^()]*? as std::iter::Iterator>::next\(it\)@Some\.0(?:\.0)?"
    VAL = r"<[^()]*? as std::iter::Iterator>::next\(it\)@Some\.0(?:\.1)?"

    def topic_ops(getter):
        """operand regex for the per-topic value: the `_for_topic` getter applied to the loop element (inlined), or the field of the
        iterated value"""
        _, r = getter_return(prog, getter + "_for_topic")
        r = re.escape(r.replace("$1", CFG)).replace(re.escape("$2"), ELEM)
        return r"^(%s|%s\.%s)$" % (r, VAL, getter)
    _, rsz = getter_return(prog, "max_transmit_size_for_topic")
    SIZE = r"^(%s|%s)$" % (re.escape(rsz.replace("$1", CFG)).replace(re.escape("$2"), ELEM), VAL)
    T = {g: topic_ops(g) for g in MESH}

    def per_iter(loop, edges):
        s, some, _, cl = loop
        targets = [s.bb] + [o.bb for o, _ in oks]
        closed = cl.closed(edges)
        return bool(edges) and all(t not in b.reachable_bool(some, blocked_edges=closed) for t in targets)

    def topic_rel(cl):
        return [("mesh_outbound_min <= mesh_n_low", cl.edges(rel_pred(T["mesh_outbound_min"], T["mesh_n_low"], "Le"))),
                ("mesh_n_low <= mesh_n", cl.edges(rel_pred(T["mesh_n_low"], T["mesh_n"], "Le"))),
                ("mesh_n <= mesh_n_high", cl.edges(rel_pred(T["mesh_n"], T["mesh_n_high"], "Le"))),
                ("2 * mesh_outbound_min <= mesh_n", cl.edges(rel_pred(twice(T["mesh_outbound_min"]), T["mesh_n"], "Le")) | cl.edges(rel_pred(T["mesh_outbound_min"], half(T["mesh_n"]), "Le")))]
    size_loops = [l for l in loops if coll["max_transmit_size_for_topic"] and coll["max_transmit_size_for_topic"] in l[2]]
    mesh_loops = [l for l in loops if coll["set_topic_config"] and coll["set_topic_config"] in l[2]]
    ctx.ob("coverage", "per-topic max_transmit_size: every entry of max_transmit_sizes is >= 100", any(per_iter(l, l[3].edges(const_pred(SIZE, "Ge", 100))) for l in size_loops), bw,
           "%d loop(s) over the per-topic size map; size test per iteration: %s" % (len(size_loops), [per_iter(l, l[3].edges(const_pred(SIZE, "Ge", 100))) for l in size_loops]))
    for l in size_loops:
        for name, edges in topic_rel(l[3]):
            ctx.ob("coverage", "topics with a transmit size: %s" % name, per_iter(l, edges), l[0].loc(), "relation re-established in every iteration of the loop over max_transmit_sizes")
    ok = bool(mesh_loops)
    ctx.ob("coverage", "per-topic mesh parameters: every entry of topic_mesh_params is validated", ok, bw,
           "a loop over topic_mesh_params exists" if ok else
           "build iterates only %s: a parameter set installed with set_topic_config / mesh_n_for_topic for a topic without a topic-specific max_transmit_size is never compared with anything" % [l[2][-60:] for l in loops])
    for l in mesh_loops:
        for name, edges in topic_rel(l[3]):
            ctx.ob("coverage", "every configured topic: %s" % name, per_iter(l, edges), l[0].loc(), "relation re-established in every iteration of the loop over topic_mesh_params")
    errs = [(s, e) for s, e in cb.returns() if e[0] == "agg" and e[3] == "Err"]
    ctx.floor("coverage", "Err results of build", errs, 3)
    for s, e in errs:
        r = b.reachable(b.succ[s.bb])
        ctx.ob("coverage", "a rejection is final (%s)" % render(e).split("::")[-1].rstrip("{}"), not ({o.bb for o, _ in oks} & r), s.loc(), "Ok not reachable after Err was chosen")
    # ======================================================================================= who can write the validated fields
    fields = set()
    for g in MESH + ("max_transmit_size", "history_gossip", "history_length"):
        fields |= set(re.findall(r"\.(\w+)", op[g].replace("\\", "")))
    for c in coll.values():
        if c:
            fields |= set(re.findall(r"\.(\w+)", c))
    fields -= set(cfg_field)
    writers = {}
    for body in prog.bodies(G):
        for f in fields:
            for s in body.field_write_sites(f):
                own = [pr.get("o") or "" for pr in (s.stmt["p"] if s.si is not None else s.term["d"]).get("pr", ()) if pr["k"] == "field" and pr["n"] == f]
                if any(re.search(r"config::(Config|TopicConfigs|TopicMeshConfig|ConfigBuilder)|protocol::ProtocolConfig", o) for o in own):
                    writers.setdefault(body.npath, []).append(s)
        cbd = Canon(prog, body)
        for s in body.call_sites(r"HashMap::(insert|entry|get_mut|remove|clear|retain|extend|drain)$|HashMap as std::iter::Extend>::extend$"):
            a = cbd.args(s)
            if a and a[0][0] == "field" and re.search(r"config::TopicConfigs|protocol::ProtocolConfig", a[0][3] or "") and a[0][2] in fields:
                writers.setdefault(body.npath, []).append(s)
    bad = sorted(n for n in writers if not re.match(r"^libp2p_gossipsub::config::ConfigBuilder::", n))
    ctx.ob("writers", "validated fields are only written by ConfigBuilder", not bad and len(writers) >= 10, writers[bad[0]][0].loc() if bad else "", "writers outside ConfigBuilder: %s (%d writer bodies; fields %s)" % (bad, len(writers), sorted(fields)))
    aggs = sorted({body.npath for body in prog.bodies(G) for s in body.agg_sites(r"^libp2p_gossipsub::config::Config$")})
    ctx.ob("writers", "Config values are only created by ConfigBuilder::default (and Clone)", aggs == ["libp2p_gossipsub::<config::Config as std::clone::Clone>::clone", "libp2p_gossipsub::<config::ConfigBuilder as std::default::Default>::default"], msg=str(aggs))
    cbadt = prog.adt(G, r"config::ConfigBuilder$")
    vis = {f["n"]: f["vis"] for f in cbadt["variants"][0]["fields"]}
    ctx.ob("writers", "ConfigBuilder's Config is private to the config module", all(vis.get(f) == "in:config" for f in cfg_field), msg=str(vis))
    ca = prog.adt(G, r"^libp2p_gossipsub::config::Config$")
    cvis = {f["n"]: f["vis"] for f in ca["variants"][0]["fields"]}
    top = {re.findall(r"\.(\w+)", op[g].replace("\\", "").replace(CFG, "", 1))[0] for g in op}
    ctx.ob("writers", "Config's validated fields are private", all(cvis.get(f) == "in:config" for f in top), msg=str({k: cvis.get(k) for k in sorted(top)}))
    outs = sorted(body.npath for body in prog.bodies(G) if body.kind != "closure" and body.locals and
                  re.search(r"(^|[<(, ])config::Config($|[>), ])", str(body.locals[0])))
    ctx.ob("writers", "a Config value is only handed out by build (and Config::default / clone)",
           outs == ["libp2p_gossipsub::<config::Config as std::clone::Clone>::clone", "libp2p_gossipsub::<config::Config as std::default::Default>::default", "libp2p_gossipsub::config::ConfigBuilder::build"], msg=str(outs))
    cd = ctx.body(G, r"config::Config as std::default::Default>::default$")
    calls = [strip_generics(cd.call_name(s.term)) for s in cd.call_sites()]
    ctx.ob("writers", "Config::default goes through build", any(c.endswith("config::ConfigBuilder::build") for c in calls) and any(c.endswith("Default>::default") for c in calls), "%s:%d" % (cd.file, cd.line), str(calls)[:200])
    # ======================================================================================= built-in defaults
    td = ctx.body(G, r"config::TopicMeshConfig as std::default::Default>::default$")
    ag = td.agg_sites(r"config::TopicMeshConfig$")
    vals = {}
    if len(ag) == 1:
        for k, e in Canon(prog, td).site(ag[0])[4]:
            vals[k] = e[1] if e[0] == "const" else None
    okd = all(isinstance(vals.get(k), int) for k in MESH) and \
        vals["mesh_outbound_min"] <= vals["mesh_n_low"] <= vals["mesh_n"] <= vals["mesh_n_high"] and 2 * vals["mesh_outbound_min"] <= vals["mesh_n"]
    ctx.ob("defaults", "built-in default mesh parameters satisfy the relations", okd, "%s:%d" % (td.file, td.line), str(vals))
    bd = ctx.body(G, r"config::ConfigBuilder as std::default::Default>::default$")
    ag = bd.agg_sites(r"^libp2p_gossipsub::config::Config$")
    hv = {}
    hg, hl = op["history_gossip"].replace("\\", "")[1:-1].split(".")[-1], op["history_length"].replace("\\", "")[1:-1].split(".")[-1]
    if len(ag) == 1:
        for k, e in Canon(prog, bd).site(ag[0])[4]:
            if k in (hg, hl):
                hv[k] = e[1] if e[0] == "const" else None
    ctx.ob("defaults", "built-in history_gossip <= history_length", all(isinstance(v, int) for v in hv.values()) and len(hv) == 2 and hv[hg] <= hv[hl], "%s:%d" % (bd.file, bd.line), str(hv))
    pd = ctx.body(G, r"protocol::ProtocolConfig as std::default::Default>::default$")
    ag = pd.agg_sites(r"protocol::ProtocolConfig$")
    dv = None
    dmf = op["max_transmit_size"].replace("\\", "")[1:-1].split(".")[-1]
    if len(ag) == 1:
        for k, e in Canon(prog, pd).site(ag[0])[4]:
            if k == dmf:
                dv = e[1] if e[0] == "const" else None
    ctx.ob("defaults", "built-in default_max_transmit_size >= 100", isinstance(dv, int) and dv >= 100, "%s:%d" % (pd.file, pd.line), str(dv))
    # ======================================================================================= setters / getters agree
    for f in MESH + ("history_length", "history_gossip", "max_transmit_size"):
        sb = ctx.body(G, r"^libp2p_gossipsub::config::ConfigBuilder::%s$" % f)
        csb = Canon(prog, sb)
        wr = set()
        for bi in sb.live:
            for st in sb.blocks[bi]["stmts"]:
                if st["k"] == "assign" and st["p"].get("pr") and render(csb.x(sb.rvalue_expr(st["r"]))) == "$2":
                    wr.add(render(csb.x(sb.place_expr(st["p"]))))
        want = op[f].replace("\\", "")[1:-1]
        ctx.ob("getters", "ConfigBuilder::%s writes what Config::%s returns" % (f, f), wr == {want}, "%s:%d" % (sb.file, sb.line), "setter writes %s; getter (re-based) reads %s" % (sorted(wr), want))
    tmp = coll.get("set_topic_config")
    for f in MESH:
        _, r = getter_return(prog, f + "_for_topic")
        _, d0 = getter_return(prog, f)
        base = d0.rsplit(".", 1)[0]
        want = r"^std::option::Option::unwrap_or\(std::collections::HashMap::get\(%s, \$2\), %s\)\.%s$" % (re.escape((tmp or "?").replace(CFG, "$1")), re.escape(base), f)
        ctx.ob("getters", "Config::%s_for_topic = the topic's entry or the default, same field as Config::%s" % (f, f), d0.endswith("." + f) and re.match(want, r) is not None, msg=r[:200])
    g = ctx.body(G, r"^libp2p_gossipsub::protocol::ProtocolConfig::max_transmit_size_for_topic$")
    r0 = [render(e) for _, e in Canon(prog, g).returns()]
    szc = (coll.get("max_transmit_size_for_topic") or "?").split(".")[-1]
    ctx.ob("getters", "max_transmit_size_for_topic = topic entry or the default", r0 == ["std::option::Option::unwrap_or(std::collections::HashMap::get($1.%s, $2), $1.%s)" % (szc, dmf)], "%s:%d" % (g.file, g.line), str(r0)[:200])
    # history window relation is what keeps `history[..gossip]` in bounds
    mc = prog.callers(G, r"^libp2p_gossipsub::mcache::MessageCache::new$")
    nb = ctx.body(G, r"^libp2p_gossipsub::mcache::MessageCache::new$")
    ctx.floor("getters", "MessageCache::new callers", mc, 1)
    ag = nb.agg_sites(r"mcache::MessageCache$")
    pos = {}
    if len(ag) == 1:
        for k, e in Canon(prog, nb).site(ag[0])[4]:
            aa = [x for x in mir.walk(e) if x[0] == "arg"]
            if len(aa) == 1:
                pos[k] = (aa[0][1], render(e))
    win = [k for k, (i, r) in pos.items() if r == "$%d" % i]
    cap = [k for k, (i, r) in pos.items() if r.startswith("std::vec::from_elem(")]
    for s in mc:
        a = Canon(prog, s.body, inline=INL).args(s)
        ok = len(win) == 1 and len(cap) == 1 and len(a) == 2 and render(a[pos[win[0]][0] - 1]).endswith("." + hg) and render(a[pos[cap[0]][0] - 1]).endswith("." + hl)
        ctx.ob("getters", "the gossip window (history_gossip) is cut out of a history of history_length slots", ok, s.loc(), str([render(x)[-40:] for x in a]))
    gg = ctx.body(G, r"^libp2p_gossipsub::mcache::MessageCache::get_gossip_message_ids$")
    idx = [render(Canon(prog, gg).site(s)) for s in gg.call_sites(r"ops::Index>::index$")]
    ctx.ob("getters", "history[..gossip] is the only range index of the gossip path (in bounds iff history_gossip <= history_length)",
           len(idx) == 1 and len(win) == 1 and len(cap) == 1 and idx[0] == "<std::vec::Vec as std::ops::Index>::index($1.%s, std::ops::RangeTo::RangeTo{end: $1.%s})" % (cap[0], win[0]), "%s:%d" % (gg.file, gg.line), str(idx)[:200])
    # ======================================================================================= heartbeat subtractions
    h = ctx.body(G, r"^libp2p_gossipsub::behaviour::Behaviour::heartbeat$")
    ch = Canon(prog, h)
    subs = []
    for bi in sorted(h.live):
        t = h.blocks[bi]["term"]
        if t and t["k"] == "assert" and t["msg"].startswith("overflow:Sub"):
            c = ch.x(h.operand_expr(t["c"]))
            sub = [x for x in mir.walk(c) if x[0] == "bin" and x[1] == "SubWithOverflow"]
            if sub:
                subs.append((mir.Site(h, bi), sub[0][2], sub[0][3]))
    ctx.floor("heartbeat-sub", "usize subtractions in heartbeat", subs, 7)
    for body in prog.children(h):
        n = [1 for bi in body.live if body.blocks[bi]["term"] and body.blocks[bi]["term"]["k"] == "assert" and body.blocks[bi]["term"]["msg"].startswith("overflow:Sub")]
        if n:
            ctx.ob("heartbeat-sub", "no unproved subtraction inside heartbeat closures", False, "%s:%d" % (body.file, body.line), "%d subtraction(s) in %s are not analysed" % (len(n), body.short))
    seen_names = {}
    for site, a, bb_ in subs:
        ra, rb = render(a), render(bb_)
        facts_, used = guard_facts(ch, site.bb)
        consts = set()
        for x in (a, bb_):
            if x[0] == "const" and isinstance(x[1], int):
                consts.add(x[1])
        base = list(facts_)
        nodes = {ra, rb} | {x for f in facts_ for x in f[:2]}
        for n in list(nodes):
            if re.match(r"^\d+$", n):
                consts.add(int(n))
        for c in consts:
            base += [(str(c), "0", c), ("0", str(c), -c)]
        for n in nodes:
            if not re.match(r"^\d+$", n):
                base.append(("0", n, 0))           # usize values are >= 0
        # a collected vector has the length of the collection it was collected from, if never resized
        for n in list(nodes):
            m = re.match(r"^(?:Div\()?std::vec::Vec::len\(%(\d+)\)", n)
            if m:
                l = int(m.group(1))
                init = ch.init(l)
                mm = re.match(r"^std::iter::Iterator::collect\(std::collections::BTreeSet::iter\((.*)\)\)$", render(init)) if init else None
                resized = [s for s in h.call_sites(MUTATORS) if ch.args(s) and render(ch.args(s)[0]) == "%%%d" % l]
                if mm and not resized and h.dominates(h.defs[l][0][1], site.bb):
                    src_len = "std::collections::BTreeSet::len(%s)" % mm.group(1)
                    vl = "std::vec::Vec::len(%%%d)" % l
                    base += [(vl, src_len, 0), (src_len, vl, 0)]
        for n in list(nodes):
            m = re.match(r"^Div\((.*), (\d+)\)$", n)
            if m and int(m.group(2)) > 0:
                c = m.group(2)
                tmp_ = base + [(c, "0", int(c)), ("0", c, -int(c))]
                if closure_le(tmp_, c, m.group(1)):
                    base += [("1", n, 0), ("1", "0", 1), ("0", "1", -1)]
        local_ok = closure_le(base, rb, ra)
        inv = []
        topics = set()
        for n in nodes:
            for m in re.finditer(r"libp2p_gossipsub::config::Config::(?:mesh_n|mesh_n_low|mesh_n_high|mesh_outbound_min)_for_topic\(", n):
                i = m.end()
                depth, j = 1, i
                while j < len(n) and depth:
                    depth += n[j] == "("
                    depth -= n[j] == ")"
                    j += 1
                topics.add(n[i:j - 1])
        P = lambda f, t: "libp2p_gossipsub::config::Config::%s_for_topic(%s)" % (f, t)
        for t in topics:
            inv += [(P("mesh_outbound_min", t), P("mesh_n_low", t), 0), (P("mesh_n_low", t), P("mesh_n", t), 0), (P("mesh_n", t), P("mesh_n_high", t), 0)]
        full_ok = local_ok or closure_le(base + inv, rb, ra)
        needed = []
        if full_ok and not local_ok:
            names = ["mesh_outbound_min <= mesh_n_low", "mesh_n_low <= mesh_n", "mesh_n <= mesh_n_high"]
            for k in range(3):
                rest = [f for i, f in enumerate(inv) if i % 3 != k]
                if not closure_le(base + rest, rb, ra):
                    needed.append(names[k])
        nm = "%s - %s cannot underflow" % (short(ra), short(rb))
        seen_names[nm] = seen_names.get(nm, 0) + 1
        if seen_names[nm] > 1:
            nm += " (#%d)" % seen_names[nm]
        ctx.ob("heartbeat-sub", nm, full_ok, site.loc(),
               ("proved from the dominating guards [%s]%s" % ("; ".join(used), (" and the build invariant(s) " + ", ".join(needed)) if needed else "")) if full_ok else
               "not implied by the dominating guards [%s] and mesh_outbound_min <= mesh_n_low <= mesh_n <= mesh_n_high" % "; ".join(used))
    for f in MESH:
        cs = h.call_sites(r"config::Config::%s_for_topic$" % f)
        ok = bool(cs) and all(re.match(r"^\$1\.\w+$", render(ch.args(s)[0])) and re.search(r"next\(%\d+\)@Some\.0\.0$", render(ch.args(s)[1])) for s in cs)
        ctx.ob("heartbeat-sub", "heartbeat reads %s through the per-topic getter for the topic being maintained" % f, ok, cs[0].loc() if cs else "", "%d call(s)" % len(cs))
