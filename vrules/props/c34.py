"""C34 accepted gossipsub configs never break the behaviour — validation coverage of ConfigBuilder::build (K1/K5 dominance), writers (K4), constants (K6), difference-constraint closure over the heartbeat subtractions (K9)."""
import re

from .. import lib, mir
from ..mir import render, strip_generics

EXPLANATION = ("ConfigBuilder::build: the Ok result is dominated (on every path, including the path on which every per-topic loop runs zero "
               "times) by the accepting edge of a comparison for each required relation on the DEFAULT parameters: mesh_outbound_min <= "
               "mesh_n_low, mesh_n_low <= mesh_n, mesh_n <= mesh_n_high, 2*mesh_outbound_min <= mesh_n, default_max_transmit_size >= 100, "
               "history_gossip <= history_length; for per-topic settings a loop over the collection that holds them must re-establish the "
               "relations in every iteration (max_transmit_sizes for the size, topic_mesh_params for the mesh relations). The validated "
               "fields can only be written by ConfigBuilder methods, Config values are only built by ConfigBuilder::default and handed out "
               "by build (Config::default goes through build), the built-in defaults satisfy the relations, and the getters the behaviour "
               "uses return the validated fields. Behaviour::heartbeat: every usize subtraction is proved non-negative from the comparisons "
               "that dominate it (no intervening write to the compared quantities) closed under the build invariants "
               "mesh_outbound_min <= mesh_n_low <= mesh_n <= mesh_n_high (difference-constraint closure, hand-rolled).")
ASSUMPTIONS = ["only direct comparisons inside build are recognised as validation (a helper function would need an inlining rule)",
               "heartbeat panics other than usize subtraction underflow (slice indexing, unwrap) are not part of this check",
               "the heartbeat subtraction proofs assume the build invariants for the topic's parameter set; for topics configured only "
               "through set_topic_config that assumption is the recorded known finding"]
G = "libp2p_gossipsub"
CONFIGS = [{"name": "gossipsub-features", "packages": ["libp2p-gossipsub"], "features": "metrics,partial-messages"}]
SELFTEST = [
    {"mutation": "fix reverted: default parameter checks removed from build (original F7)", "caught_by": "coverage/default: mesh_n_low <= mesh_n (and the other five default relations)"},
    {"mutation": "build: `default_mesh.mesh_n <= default_mesh.mesh_n_high` -> `default_mesh.mesh_n_low <= default_mesh.mesh_n_high`", "caught_by": "coverage/default: mesh_n <= mesh_n_high"},
    {"mutation": "build: `history_length < history_gossip` -> `history_length > history_gossip`", "caught_by": "coverage/history_gossip <= history_length"},
    {"mutation": "build: default `max_transmit_size < 100` -> `< 10`", "caught_by": "coverage/default_max_transmit_size >= 100"},
    {"mutation": "heartbeat: `if peers.len() < mesh_n_low` -> `if peers.len() < mesh_n_high` before `mesh_n - peers.len()`", "caught_by": "heartbeat-sub/mesh_n_for_topic - len(mesh peers) cannot underflow"},
    {"mutation": "heartbeat: `if peers.len() >= mesh_n_high` -> `if peers.len() >= mesh_n_low` before `peers.len() - mesh_n`", "caught_by": "heartbeat-sub/len(mesh peers) - mesh_n_for_topic cannot underflow"},
    {"mutation": "heartbeat: `if outbound <= mesh_outbound_min {continue}` deleted before `outbound -= 1`", "caught_by": "heartbeat-sub/outbound - 1 cannot underflow"},
    {"mutation": "Config::mesh_n_low_for_topic returns `.mesh_n_high`", "caught_by": "getters/Config::mesh_n_low_for_topic returns the validated field"},
    {"mutation": "TopicMeshConfig::default mesh_n_low: 5 -> 7", "caught_by": "defaults/built-in default mesh parameters satisfy the relations"},
    {"mutation": "new pub fn Config::set_mesh_n(&mut self, n) writing default_mesh_params.mesh_n", "caught_by": "writers/validated fields are only written by ConfigBuilder"},
]

NEG = {"Lt": "Ge", "Le": "Gt", "Gt": "Le", "Ge": "Lt", "Eq": "Ne", "Ne": "Eq"}
FLIP = {"Lt": "Gt", "Le": "Ge", "Gt": "Lt", "Ge": "Le", "Eq": "Eq", "Ne": "Ne"}


def edge_facts(body):
    """For every comparison switch: list of (bb, tgt, op, lhs_expr, rhs_expr) meaning `lhs op rhs` holds on edge bb->tgt."""
    out = []
    for bi in sorted(body.live):
        info = body.switch_info(bi)
        if not info:
            continue
        cond, labs = info
        if cond[0] != "bin" or cond[1] not in NEG:
            continue
        for tgt, ls in labs.items():
            if ls == {"true"}:
                out.append((bi, tgt, cond[1], cond[2], cond[3]))
            elif ls == {"false"}:
                out.append((bi, tgt, NEG[cond[1]], cond[2], cond[3]))
    return out


def le_edges(body, x_pat, y_pat, facts=None):
    """Edges on which `x <= y` is known (x < y included), x / y given as regexes on rendered operands."""
    xr, yr = re.compile(x_pat), re.compile(y_pat)
    out = set()
    for bi, tgt, op, a, b in facts if facts is not None else edge_facts(body):
        ra, rb = render(a), render(b)
        if op in ("Le", "Lt") and xr.search(ra) and yr.search(rb):
            out.add((bi, tgt))
        if op in ("Ge", "Gt") and xr.search(rb) and yr.search(ra):
            out.add((bi, tgt))
    return out


def ge_const_edges(body, x_pat, c, facts=None):
    """Edges on which x >= c is known for the integer constant c (x >= c', c' >= c accepted)."""
    xr = re.compile(x_pat)
    out = set()
    for bi, tgt, op, a, b in facts if facts is not None else edge_facts(body):
        for o, l, r in ((op, a, b), (FLIP[op], b, a)):
            if xr.search(render(l)) and r[0] == "const" and isinstance(r[1], int):
                if (o == "Ge" and r[1] >= c) or (o == "Gt" and r[1] >= c - 1):
                    out.add((bi, tgt))
    return out


# ------------------------------------------------------------------------------------------------ difference constraints
def closure_le(facts, b, a):
    """facts: list of (x, y, w) meaning x <= y + w.  True iff b <= a follows (Bellman-Ford over the constraint graph)."""
    nodes = {b, a}
    for x, y, _ in facts:
        nodes.add(x)
        nodes.add(y)
    # edge y -> x with weight w encodes x - y <= w ; we want a path a -> b of total weight <= 0  (b - a <= 0)
    dist = {n: float("inf") for n in nodes}
    dist[a] = 0
    for _ in range(len(nodes) + 1):
        ch = False
        for x, y, w in facts:
            if dist[y] + w < dist[x]:
                dist[x] = dist[y] + w
                ch = True
        if not ch:
            break
    return dist[b] <= 0


def cmp_to_facts(op, x, y):
    if op == "Lt":
        return [(x, y, -1)]
    if op == "Le":
        return [(x, y, 0)]
    if op == "Gt":
        return [(y, x, -1)]
    if op == "Ge":
        return [(y, x, 0)]
    if op == "Eq":
        return [(x, y, 0), (y, x, 0)]
    return []


MUTATORS = r"::(insert|remove|retain|extend|clear|push|pop|append|truncate|drain|split_off|take|pop_first|pop_last|swap_remove|resize|dedup\w*)$"


def kill_blocks(body, exprs):
    """Blocks that may change the value of one of the expressions: whole assignments to a named multi-def local occurring in it,
    or a mutating call whose receiver is a collection occurring in it."""
    locals_, recvs = set(), set()
    for e in exprs:
        for s in mir.walk(e):
            if s[0] == "local" and len(body.defs.get(s[1], [])) > 1:
                locals_.add(s[1])
            if s[0] == "call" and re.search(r"::(len|count|is_empty)$", strip_generics(s[1])) and s[2]:
                recvs.add(render(s[2][0]))
    ks = set()
    for l in locals_:
        for d in body.defs.get(l, []):
            ks.add(d[1])
    if recvs:
        for s in body.call_sites(MUTATORS):
            e = body.site_expr(s)
            if e[2] and render(e[2][0]) in recvs:
                ks.add(s.bb)
    return ks


def guard_facts(body, site_bb):
    """Difference constraints known at site_bb: dominating comparison edges whose operands are not overwritten between the edge and
    the site."""
    facts, used = [], []
    for text, labels, sw, cond in body.guards_on_all_paths(site_bb):
        if cond[0] != "bin" or cond[1] not in NEG or labels not in (frozenset({"true"}), frozenset({"false"})):
            continue
        op = cond[1] if labels == frozenset({"true"}) else NEG[cond[1]]
        info = body.switch_info(sw)
        tgts = [t for t, ls in info[1].items() if ls == set(labels)]
        ks = kill_blocks(body, [cond[2], cond[3]])
        killed = False
        for k in ks:
            if k == sw:
                continue
            r1 = body.reachable(tgts, blocked_nodes=[sw])
            if k in r1 and (site_bb in body.reachable(body.succ[k], blocked_nodes=[sw]) or k == site_bb) and k != site_bb:
                killed = True
        if killed:
            continue
        fs = cmp_to_facts(op, render(cond[2]), render(cond[3]))
        if fs:
            facts += fs
            used.append("%s %s %s" % (short(render(cond[2])), {"Lt": "<", "Le": "<=", "Gt": ">", "Ge": ">=", "Eq": "==", "Ne": "!="}[op], short(render(cond[3]))))
    return facts, used


def short(r):
    r = re.sub(r"libp2p_gossipsub::config::Config::(\w+)\(self\.config(, [^()]*(\([^()]*\))?[^()]*)?\)", r"\1", r)
    r = re.sub(r"std::collections::BTreeSet::len\([^()]*(\([^()]*\))?[^()]*\)", "len(mesh peers)", r)
    r = re.sub(r"<std::iter::Filter as std::iter::Iterator>::count\(.*\)$", "count(outbound mesh peers)", r)
    r = re.sub(r"std::vec::Vec::len\((\w+)\)", r"len(\1)", r)
    return r[:90]


def check(ctx):
    prog = ctx.prog
    # ======================================================================================= build: validation coverage
    b = ctx.body(G, r"^libp2p_gossipsub::config::ConfigBuilder::build$")
    bw = "%s:%d" % (b.file, b.line)
    oks = [mir.Site(b, x[1], x[2]) for x in b.defs[0] if x[0] == "stmt" and render(b.rvalue_expr(x[3])).startswith("std::result::Result::Ok{")]
    ctx.floor("coverage", "Ok result of build", oks, 1, exact=True)
    for s in oks:
        r = render(b.site_expr(s))
        ctx.ob("coverage", "the returned Config is the validated one", r == "std::result::Result::Ok{0: libp2p_gossipsub::<config::Config as std::clone::Clone>::clone(self.config)}", s.loc(), r[:140])
    facts = edge_facts(b)
    D = lambda f: r"^(self\.config\.topic_configuration\.default_mesh_params\.%s|libp2p_gossipsub::config::Config::%s\(self\.config\))$" % (f, f)
    TWICE = lambda f: r"^(MulWithOverflow\((self\.config\.topic_configuration\.default_mesh_params\.%s|libp2p_gossipsub::config::Config::%s\(self\.config\)), 2\)\.0|MulWithOverflow\(2, (self\.config\.topic_configuration\.default_mesh_params\.%s|libp2p_gossipsub::config::Config::%s\(self\.config\))\)\.0)$" % (f, f, f, f)
    HALF = lambda f: r"^Div\((self\.config\.topic_configuration\.default_mesh_params\.%s|libp2p_gossipsub::config::Config::%s\(self\.config\)), 2\)$" % (f, f)
    default_rel = [
        ("default: mesh_outbound_min <= mesh_n_low", le_edges(b, D("mesh_outbound_min"), D("mesh_n_low"), facts)),
        ("default: mesh_n_low <= mesh_n", le_edges(b, D("mesh_n_low"), D("mesh_n"), facts)),
        ("default: mesh_n <= mesh_n_high", le_edges(b, D("mesh_n"), D("mesh_n_high"), facts)),
        ("default: 2 * mesh_outbound_min <= mesh_n", le_edges(b, TWICE("mesh_outbound_min"), D("mesh_n"), facts) | le_edges(b, D("mesh_outbound_min"), HALF("mesh_n"), facts)),
        ("default_max_transmit_size >= 100", ge_const_edges(b, r"^(self\.config\.protocol\.default_max_transmit_size|libp2p_gossipsub::config::Config::max_transmit_size\(self\.config\))$", 100, facts)),
        ("history_gossip <= history_length", le_edges(b, r"^(self\.config\.history_gossip|libp2p_gossipsub::config::Config::history_gossip\(self\.config\))$", r"^(self\.config\.history_length|libp2p_gossipsub::config::Config::history_length\(self\.config\))$", facts)),
    ]
    for name, edges in default_rel:
        for s in oks:
            ok = bool(edges) and b.must_pass_edges(s.bb, edges)
            ctx.ob("coverage", name, ok, s.loc(),
                   "Ok is dominated by the accepting edge of this comparison" if ok else
                   ("no comparison establishing this relation dominates the Ok result: build accepts configurations violating it" if not edges else
                    "the comparison exists but a path reaches Ok without passing its accepting edge"))
    # ---- per-topic loops
    ELEM = r"<[^<>]*(<[^<>]*>)?[^<>]* as std::iter::Iterator>::next\(iter\)@Some\.0(\.0)?"
    VAL = r"<[^<>]*(<[^<>]*>)?[^<>]* as std::iter::Iterator>::next\(iter\)@Some\.0(\.1)?"
    T = lambda f: r"^(libp2p_gossipsub::config::Config::%s_for_topic\(self\.config, %s\)|%s\.%s)$" % (f, ELEM, VAL, f)
    T2 = lambda f: r"^MulWithOverflow\((libp2p_gossipsub::config::Config::%s_for_topic\(self\.config, %s\)|%s\.%s), 2\)\.0$" % (f, ELEM, VAL, f)
    TH = lambda f: r"^Div\((libp2p_gossipsub::config::Config::%s_for_topic\(self\.config, %s\)|%s\.%s), 2\)$" % (f, ELEM, VAL, f)
    SIZE = r"^(libp2p_gossipsub::protocol::ProtocolConfig::max_transmit_size_for_topic\(self\.config\.protocol, %s\)|libp2p_gossipsub::config::Config::max_transmit_size_for_topic\(self\.config, %s\)|%s)$" % (ELEM, ELEM, VAL)
    topic_rel = [
        ("mesh_outbound_min <= mesh_n_low", le_edges(b, T("mesh_outbound_min"), T("mesh_n_low"), facts)),
        ("mesh_n_low <= mesh_n", le_edges(b, T("mesh_n_low"), T("mesh_n"), facts)),
        ("mesh_n <= mesh_n_high", le_edges(b, T("mesh_n"), T("mesh_n_high"), facts)),
        ("2 * mesh_outbound_min <= mesh_n", le_edges(b, T2("mesh_outbound_min"), T("mesh_n"), facts) | le_edges(b, T("mesh_outbound_min"), TH("mesh_n"), facts)),
    ]
    size_edges = ge_const_edges(b, SIZE, 100, facts)
    loops = []
    for s in b.call_sites(r"as std::iter::Iterator>::next$"):
        some = [t for _, t in lib.switch_edges_on_site(b, s, {"Some"}, r"^discr\(<.* as std::iter::Iterator>::next\(iter\)\)$")]
        if not some:
            continue
        a0 = s.term["args"][0]
        src = ""
        # the iterator local: follow `&mut iter` to its initialiser
        e = b.site_expr(s)[2][0]
        if e[0] == "local":
            src = render(b.init_expr(e[1]))
        loops.append((s, some, src))
    ctx.floor("coverage", "per-topic loops in build", loops, 1)
    size_loops = [l for l in loops if "max_transmit_sizes" in l[2]]
    mesh_loops = [l for l in loops if "topic_mesh_params" in l[2]]

    def per_iter(loop, edges):
        s, some, _ = loop
        # every path from the Some edge back to the loop head (or on to the Ok result) passes an accepting edge
        targets = [s.bb] + [o.bb for o in oks]
        return bool(edges) and all(t not in b.reachable(some, blocked_edges=edges) for t in targets)
    ctx.ob("coverage", "per-topic max_transmit_size: every entry of max_transmit_sizes is >= 100", any(per_iter(l, size_edges) for l in size_loops), bw,
           "%d loop(s) over max_transmit_sizes; size test per iteration: %s" % (len(size_loops), [per_iter(l, size_edges) for l in size_loops]))
    for l in size_loops:
        for name, edges in topic_rel:
            ctx.ob("coverage", "topics with a transmit size: %s" % name, per_iter(l, edges), l[0].loc(), "relation re-established in every iteration of the loop over max_transmit_sizes")
    ok = bool(mesh_loops)
    ctx.ob("coverage", "per-topic mesh parameters: every entry of topic_mesh_params is validated", ok, bw,
           "a loop over topic_mesh_params exists" if ok else
           "build iterates only %s: a parameter set installed with set_topic_config / mesh_n_for_topic for a topic without a topic-specific max_transmit_size is never compared with anything" % [l[2][-60:] for l in loops])
    for l in mesh_loops:
        for name, edges in topic_rel:
            ctx.ob("coverage", "every configured topic: %s" % name, per_iter(l, edges), l[0].loc(), "relation re-established in every iteration of the loop over topic_mesh_params")
    # errors are returned on the rejecting edges (no fall-through to Ok)
    errs = [mir.Site(b, x[1], x[2]) for x in b.defs[0] if x[0] == "stmt" and render(b.rvalue_expr(x[3])).startswith("std::result::Result::Err{")]
    ctx.floor("coverage", "Err results of build", errs, 6)
    for s in errs:
        r = b.reachable(b.succ[s.bb])
        ctx.ob("coverage", "a rejection is final (%s)" % render(b.site_expr(s)).split("::")[-1].rstrip("{}"), not (set(lib.bbs(oks)) & r), s.loc(), "Ok not reachable after Err was chosen")
    # ======================================================================================= who can write the validated fields
    FIELDS = ("mesh_n", "mesh_n_low", "mesh_n_high", "mesh_outbound_min", "default_max_transmit_size", "history_length", "history_gossip",
              "default_mesh_params", "topic_mesh_params", "topic_configuration", "max_transmit_sizes")
    writers = {}
    for body in prog.bodies(G):
        for f in FIELDS:
            for s in body.field_write_sites(f):
                own = [pr.get("o") or "" for pr in (s.stmt["p"] if s.si is not None else s.term["d"]).get("pr", ()) if pr["k"] == "field" and pr["n"] == f]
                if any(re.search(r"config::(Config|TopicConfigs|TopicMeshConfig|ConfigBuilder)|protocol::ProtocolConfig", o) for o in own):
                    writers.setdefault(body.npath, []).append(s)
        for s in body.call_sites(r"HashMap::(insert|entry|get_mut|remove|clear|retain|extend|drain)$|HashMap as std::iter::Extend>::extend$"):
            r = render(body.site_expr(s)[2][0])
            if re.search(r"\.(topic_mesh_params|max_transmit_sizes)$", r) and re.search(r"config|protocol", r):
                writers.setdefault(body.npath, []).append(s)
    bad = sorted(n for n in writers if not re.match(r"^libp2p_gossipsub::config::ConfigBuilder::", n))
    ctx.ob("writers", "validated fields are only written by ConfigBuilder", not bad and len(writers) >= 10, writers[bad[0]][0].loc() if bad else "", "writers outside ConfigBuilder: %s (%d writer bodies)" % (bad, len(writers)))
    aggs = sorted({body.npath for body in prog.bodies(G) for s in body.agg_sites(r"^libp2p_gossipsub::config::Config$")})
    ctx.ob("writers", "Config values are only created by ConfigBuilder::default (and Clone)", aggs == ["libp2p_gossipsub::<config::Config as std::clone::Clone>::clone", "libp2p_gossipsub::<config::ConfigBuilder as std::default::Default>::default"], msg=str(aggs))
    cb = prog.adt(G, r"config::ConfigBuilder$")
    vis = {f["n"]: f["vis"] for f in cb["variants"][0]["fields"]}
    ctx.ob("writers", "ConfigBuilder.config is private to the config module", vis.get("config") == "in:config", msg=str(vis))
    ca = prog.adt(G, r"^libp2p_gossipsub::config::Config$")
    cvis = {f["n"]: f["vis"] for f in ca["variants"][0]["fields"]}
    ctx.ob("writers", "Config's validated fields are private", all(cvis.get(f) == "in:config" for f in ("protocol", "history_length", "history_gossip", "topic_configuration")), msg=str({k: cvis.get(k) for k in ("protocol", "history_length", "history_gossip", "topic_configuration")}))
    outs = sorted(body.npath for body in prog.bodies(G) if body.kind != "closure" and body.locals and
                  re.search(r"(^|[<(, ])config::Config($|[>), ])", str(body.locals[0])))
    ctx.ob("writers", "a Config value is only handed out by build (and Config::default / clone)",
           outs == ["libp2p_gossipsub::<config::Config as std::clone::Clone>::clone", "libp2p_gossipsub::<config::Config as std::default::Default>::default", "libp2p_gossipsub::config::ConfigBuilder::build"], msg=str(outs))
    cd = ctx.body(G, r"config::Config as std::default::Default>::default$")
    calls = [strip_generics(cd.call_name(s.term)) for s in cd.call_sites()]
    ctx.ob("writers", "Config::default goes through build", any(c.endswith("config::ConfigBuilder::build") for c in calls) and any(c.endswith("Default>::default") for c in calls), "%s:%d" % (cd.file, cd.line), str(calls)[:200])
    # ======================================================================================= built-in defaults
    td = ctx.body(G, r"config::TopicMeshConfig as std::default::Default>::default$")
    ag = td.agg_sites(r"config::TopicMeshConfig$")
    vals = {}
    if len(ag) == 1:
        for k, e in td.site_expr(ag[0])[4]:
            vals[k] = e[1] if e[0] == "const" else None
    okd = all(isinstance(vals.get(k), int) for k in ("mesh_n", "mesh_n_low", "mesh_n_high", "mesh_outbound_min")) and \
        vals["mesh_outbound_min"] <= vals["mesh_n_low"] <= vals["mesh_n"] <= vals["mesh_n_high"] and 2 * vals["mesh_outbound_min"] <= vals["mesh_n"]
    ctx.ob("defaults", "built-in default mesh parameters satisfy the relations", okd, "%s:%d" % (td.file, td.line), str(vals))
    bd = ctx.body(G, r"config::ConfigBuilder as std::default::Default>::default$")
    ag = bd.agg_sites(r"^libp2p_gossipsub::config::Config$")
    hv = {}
    if len(ag) == 1:
        for k, e in bd.site_expr(ag[0])[4]:
            if k in ("history_length", "history_gossip"):
                hv[k] = e[1] if e[0] == "const" else None
    ctx.ob("defaults", "built-in history_gossip <= history_length", all(isinstance(v, int) for v in hv.values()) and len(hv) == 2 and hv["history_gossip"] <= hv["history_length"], "%s:%d" % (bd.file, bd.line), str(hv))
    pd = ctx.body(G, r"protocol::ProtocolConfig as std::default::Default>::default$")
    ag = pd.agg_sites(r"protocol::ProtocolConfig$")
    dv = None
    if len(ag) == 1:
        for k, e in pd.site_expr(ag[0])[4]:
            if k == "default_max_transmit_size":
                dv = e[1] if e[0] == "const" else None
    ctx.ob("defaults", "built-in default_max_transmit_size >= 100", isinstance(dv, int) and dv >= 100, "%s:%d" % (pd.file, pd.line), str(dv))
    # ======================================================================================= getters used by the behaviour
    for f in ("mesh_n", "mesh_n_low", "mesh_n_high", "mesh_outbound_min"):
        g = ctx.body(G, r"^libp2p_gossipsub::config::Config::%s$" % f)
        r0 = [render(g.rvalue_expr(x[3])) for x in g.defs[0] if x[0] == "stmt"]
        ctx.ob("getters", "Config::%s returns the validated field" % f, r0 == ["self.topic_configuration.default_mesh_params.%s" % f], "%s:%d" % (g.file, g.line), str(r0))
        g = ctx.body(G, r"^libp2p_gossipsub::config::Config::%s_for_topic$" % f)
        r0 = [render(g.rvalue_expr(x[3])) for x in g.defs[0] if x[0] == "stmt"]
        want = "std::option::Option::unwrap_or(std::collections::HashMap::get(self.topic_configuration.topic_mesh_params, topic_hash), self.topic_configuration.default_mesh_params).%s" % f
        ctx.ob("getters", "Config::%s_for_topic returns the validated field" % f, r0 == [want], "%s:%d" % (g.file, g.line), str(r0)[:200])
    for f in ("history_length", "history_gossip"):
        g = ctx.body(G, r"^libp2p_gossipsub::config::Config::%s$" % f)
        r0 = [render(g.rvalue_expr(x[3])) for x in g.defs[0] if x[0] == "stmt"]
        ctx.ob("getters", "Config::%s returns the validated field" % f, r0 == ["self.%s" % f], "%s:%d" % (g.file, g.line), str(r0))
    g = ctx.body(G, r"^libp2p_gossipsub::protocol::ProtocolConfig::max_transmit_size_for_topic$")
    r0 = [render(g.call_expr(x[3], x[1])) if x[0] == "call" else render(g.rvalue_expr(x[3])) for x in g.defs[0]]
    ctx.ob("getters", "max_transmit_size_for_topic = topic entry or the default", r0 == ["std::option::Option::unwrap_or(std::option::Option::copied(std::collections::HashMap::get(self.max_transmit_sizes, topic)), self.default_max_transmit_size)"], "%s:%d" % (g.file, g.line), str(r0)[:200])
    # history window relation is what keeps `history[..gossip]` in bounds
    mc = prog.callers(G, r"^libp2p_gossipsub::mcache::MessageCache::new$")
    for s in mc:
        a = [render(x) for x in s.body.site_expr(s)[2]]
        ctx.ob("getters", "the gossip window (history_gossip) is cut out of a history of history_length slots", a == ["libp2p_gossipsub::config::Config::history_gossip(config)", "libp2p_gossipsub::config::Config::history_length(config)"], s.loc(), str(a))
    ctx.floor("getters", "MessageCache::new callers", mc, 1)
    gg = ctx.body(G, r"^libp2p_gossipsub::mcache::MessageCache::get_gossip_message_ids$")
    idx = [render(gg.site_expr(s)) for s in gg.call_sites(r"ops::Index>::index$")]
    ctx.ob("getters", "history[..gossip] is the only range index of the gossip path (in bounds iff history_gossip <= history_length)", idx == ["<std::vec::Vec as std::ops::Index>::index(self.history, std::ops::RangeTo::RangeTo{end: self.gossip})"], "%s:%d" % (gg.file, gg.line), str(idx)[:200])
    # ======================================================================================= heartbeat subtractions
    h = ctx.body(G, r"^libp2p_gossipsub::behaviour::Behaviour::heartbeat$")
    subs = []
    for bi in sorted(h.live):
        t = h.blocks[bi]["term"]
        if t and t["k"] == "assert" and t["msg"].startswith("overflow:Sub"):
            c = h.operand_expr(t["c"])
            # c = field .1 of SubWithOverflow(a, b)
            sub = [x for x in mir.walk(c) if x[0] == "bin" and x[1] == "SubWithOverflow"]
            if sub:
                subs.append((mir.Site(h, bi), sub[0][2], sub[0][3]))
    ctx.floor("heartbeat-sub", "usize subtractions in heartbeat", subs, 7)
    for body in prog.children(h):
        n = [1 for bi in body.live if body.blocks[bi]["term"] and body.blocks[bi]["term"]["k"] == "assert" and body.blocks[bi]["term"]["msg"].startswith("overflow:Sub")]
        if n:
            ctx.ob("heartbeat-sub", "no unproved subtraction inside heartbeat closures", False, "%s:%d" % (body.file, body.line), "%d subtraction(s) in %s are not analysed" % (len(n), body.short))
    seen_names = {}
    for site, a, bb_ in subs:
        ra, rb = render(a), render(bb_)
        facts_, used = guard_facts(h, site.bb)
        # constants and non-negativity
        consts = set()
        for x in (a, bb_):
            if x[0] == "const" and isinstance(x[1], int):
                consts.add(x[1])
        base = list(facts_)
        nodes = {ra, rb} | {x for f in facts_ for x in f[:2]}
        for n in list(nodes):
            if re.match(r"^\d+$", n):
                consts.add(int(n))
        for c in consts:
            base += [(str(c), "0", c), ("0", str(c), -c)]
        for n in nodes:
            if not re.match(r"^\d+$", n):
                base.append(("0", n, 0))           # usize values are >= 0
        # a collected vector has the length of the collection it was collected from (Vec::len(v) == len(src)), if never resized
        for n in list(nodes):
            m = re.match(r"^(?:Div\()?std::vec::Vec::len\((\w+)\)", n)
            if m:
                ls = [k for k, nm in h.names.items() if nm == m.group(1)]
                for l in ls:
                    init = render(h.init_expr(l))
                    mm = re.match(r"^std::iter::Iterator::collect\(std::collections::BTreeSet::iter\((.*)\)\)$", init)
                    resized = [s for s in h.call_sites(MUTATORS) if h.site_expr(s)[2] and render(h.site_expr(s)[2][0]) == m.group(1)]
                    if mm and not resized and h.dominates(h.defs[l][0][1], site.bb):
                        src_len = "std::collections::BTreeSet::len(%s)" % mm.group(1)
                        vl = "std::vec::Vec::len(%s)" % m.group(1)
                        base += [(vl, src_len, 0), (src_len, vl, 0)]
        # X >= c  =>  X / c >= 1
        for n in list(nodes):
            m = re.match(r"^Div\((.*), (\d+)\)$", n)
            if m and int(m.group(2)) > 0:
                c = m.group(2)
                tmp = base + [(c, "0", int(c)), ("0", c, -int(c))]
                if closure_le(tmp, c, m.group(1)):
                    base += [("1", n, 0), ("1", "0", 1), ("0", "1", -1)]
        local_ok = closure_le(base, rb, ra)
        # build invariants for the parameter set of the same topic
        inv = []
        topics = set()
        for n in nodes:
            for m in re.finditer(r"libp2p_gossipsub::config::Config::(mesh_n|mesh_n_low|mesh_n_high|mesh_outbound_min)_for_topic\(self\.config, ", n):
                # argument text up to the matching parenthesis
                i = m.end()
                depth, j = 1, i
                while j < len(n) and depth:
                    depth += n[j] == "("
                    depth -= n[j] == ")"
                    j += 1
                topics.add(n[i:j - 1])
        P = lambda f, t: "libp2p_gossipsub::config::Config::%s_for_topic(self.config, %s)" % (f, t)
        for t in topics:
            inv += [(P("mesh_outbound_min", t), P("mesh_n_low", t), 0), (P("mesh_n_low", t), P("mesh_n", t), 0), (P("mesh_n", t), P("mesh_n_high", t), 0)]
        full_ok = local_ok or closure_le(base + inv, rb, ra)
        needed = []
        if full_ok and not local_ok:
            names = ["mesh_outbound_min <= mesh_n_low", "mesh_n_low <= mesh_n", "mesh_n <= mesh_n_high"]
            for k in range(3):
                rest = [f for i, f in enumerate(inv) if i % 3 != k]
                if not closure_le(base + rest, rb, ra):
                    needed.append(names[k])
        nm = "%s - %s cannot underflow" % (short(ra), short(rb))
        seen_names[nm] = seen_names.get(nm, 0) + 1
        if seen_names[nm] > 1:
            nm += " (#%d)" % seen_names[nm]
        ctx.ob("heartbeat-sub", nm, full_ok, site.loc(),
               ("proved from the dominating guards [%s]%s" % ("; ".join(used), (" and the build invariant(s) " + ", ".join(needed)) if needed else "")) if full_ok else
               "not implied by the dominating guards [%s] and mesh_outbound_min <= mesh_n_low <= mesh_n <= mesh_n_high" % "; ".join(used))
    # the parameters used in heartbeat are the per-topic getters applied to the mesh entry being maintained
    for f in ("mesh_n", "mesh_n_low", "mesh_n_high", "mesh_outbound_min"):
        cs = h.call_sites(r"config::Config::%s_for_topic$" % f)
        ok = bool(cs) and all(re.match(r"^self\.config$", render(h.site_expr(s)[2][0])) and re.search(r"next\(iter\)@Some\.0\.0$", render(h.site_expr(s)[2][1])) for s in cs)
        ctx.ob("heartbeat-sub", "heartbeat reads %s through the per-topic getter for the topic being maintained" % f, ok, cs[0].loc() if cs else "", "%d call(s)" % len(cs))
