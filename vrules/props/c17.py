"""C17 secure channels deliver exactly the written bytes or fail — constants (K6), guards/order (K1/K3), origin (K5), error discipline (K13)."""
import re

from .. import lib, mir
from ..mir import render

EXPLANATION = ("Noise Output: MAX_FRAME_LEN + EXTRA_ENCRYPT_SPACE <= 65535 so the u16 length prefix cannot truncate; poll_write sizes the "
               "send buffer from send_offset (buffer length == bytes buffered), copies exactly n = min(MAX_FRAME_LEN - off, buf.len()) bytes "
               "to send_buffer[off..off+n], advances send_offset by n and reports n; a frame is sent exactly when send_offset == MAX_FRAME_LEN "
               "(poll_write) or > 0 (poll_flush) and send_offset is reset exactly once after each successful start_send; poll_read hands "
               "out recv_buffer[off..off+n] and fetches the next frame only when the buffer is empty; every snow::Error is mapped and "
               "propagated; decode_length_prefixed yields a frame only when all of its bytes are present.")
ASSUMPTIONS = ["AEAD tamper detection and chunking schedules are not executed", "asynchronous_codec::Framed delivers each encoded frame once, in order"]
N = "libp2p_noise"
MAXC = "const:libp2p_noise::io::framed::MAX_FRAME_LEN"


def check(ctx):
    prog = ctx.prog
    mfl = prog.const(N, r"io::framed::MAX_FRAME_LEN$").get("v")
    ees = prog.const(N, r"io::framed::EXTRA_ENCRYPT_SPACE$").get("v")
    mnm = prog.const(N, r"io::framed::MAX_NOISE_MSG_LEN$").get("v")
    ctx.ob("const", "MAX_FRAME_LEN + EXTRA_ENCRYPT_SPACE <= 65535", all(isinstance(x, int) for x in (mfl, ees, mnm)) and mfl + ees <= 65535 and mnm <= 65535,
           msg="MAX_FRAME_LEN=%s EXTRA_ENCRYPT_SPACE=%s MAX_NOISE_MSG_LEN=%s" % (mfl, ees, mnm))
    w = ctx.body(N, r"<io::Output as futures::AsyncWrite>::poll_write$")
    rets = w.return_blocks()
    ss = w.call_sites(r"Sink>::start_send$")
    ctx.floor("write", "start_send in poll_write", ss, 1)
    resets = [s for s in w.field_write_sites("send_offset") if render(w.site_expr(s)) == "0"]
    adv = [s for s in w.field_write_sites("send_offset") if s not in resets]
    for s in ss:
        ctx.guarded("write", "frame sent exactly when the buffer is full", s, lambda c, r, l: l == "true" and r == "Eq(this.send_offset, %s)" % MAXC, "send_offset == MAX_FRAME_LEN")
        e = render(w.site_expr(s)[2][1])
        ctx.ob("write", "the send buffer is what is sent", e.endswith("(this.send_buffer)") or e == "this.send_buffer" or e == "frame_buf", s.loc(), e)
        cont = [t for _, t in lib.switch_edges_on_site(w, s, {"Continue"})]
        brk = [t for _, t in lib.switch_edges_on_site(w, s, {"Break"})]
        rz = lib.bbs(w.call_sites(r"Vec::resize$"))
        got = lib.count_range(w, cont, rz + rets, lib.bbs(resets))
        ctx.ob("write", "send_offset reset exactly once after a sent frame", got == (1, 1), s.loc(), "resets after start_send Ok: %s" % (got,))
        got = lib.count_range(w, brk, rets, lib.bbs(resets))
        ctx.ob("write", "send_offset kept when sending failed", got == (0, 0), s.loc(), "resets after start_send Err: %s" % (got,))
    for s in resets:
        lib.precedes(ctx, "write", "reset only after start_send", w, lib.bbs(ss), [s.bb], "send_offset = 0 is preceded by start_send", s.loc())
    # full buffer always flushed before buffering more
    full = lib.switch_edges_on(w, r"^Eq\(this\.send_offset, %s\)$" % re.escape(MAXC), {"true"})
    rz = w.call_sites(r"Vec::resize$")
    ctx.floor("write", "send_buffer.resize", rz, 1)
    for _, t in full:
        ctx.passes("write", "full buffer is sent before more is buffered", w, [t], lib.bbs(rz), lib.bbs(ss), "start_send on the full edge", "%s:%d" % (w.file, w.line))
    for s in rz:
        e = w.site_expr(s)
        a1 = render(e[2][1])
        ctx.ob("write", "buffer length tracks bytes buffered (resize derives from send_offset)",
               a1 == "std::cmp::min(%s, core::num::saturating_add(this.send_offset, core::slice::len(buf)))" % MAXC, s.loc(), "resize(%s)" % a1)
        ctx.ob("write", "resizes the send buffer", render(e[2][0]) in ("this.send_buffer", "frame_buf"), s.loc(), render(e[2][0]))
    cp = w.call_sites(r"slice::copy_from_slice$|copy_from_slice$")
    ctx.floor("write", "copy into send buffer", cp, 1)
    N_EXPR = "std::cmp::min(SubWithOverflow(%s, this.send_offset).0, core::slice::len(buf))" % MAXC
    for s in cp:
        e = w.site_expr(s)
        dst, src = render(e[2][0]), render(e[2][1])
        ctx.ob("write", "destination = send_buffer[off..off+n]", dst == "<std::vec::Vec as std::ops::IndexMut>::index_mut(this.send_buffer, std::ops::Range::Range{start: this.send_offset, end: AddWithOverflow(this.send_offset, %s).0})" % N_EXPR, s.loc(), dst[:260])
        ctx.ob("write", "source = buf[..n]", src == "core::slice::index::index(buf, std::ops::RangeTo::RangeTo{end: %s})" % N_EXPR, s.loc(), src[:200])
    ctx.floor("write", "send_offset advance", adv, 1)
    for s in adv:
        ctx.ob("write", "send_offset advances by n", render(w.site_expr(s)) == "AddWithOverflow(this.send_offset, %s).0" % N_EXPR, s.loc(), render(w.site_expr(s))[:200])
    okr = [mir.Site(w, x[1], x[2]) for x in w.defs[0] if x[0] == "stmt" and render(w.rvalue_expr(x[3])).startswith("std::task::Poll::Ready{0: std::result::Result::Ok")]
    for s in okr:
        ctx.ob("write", "reports n bytes written", render(w.site_expr(s)) == "std::task::Poll::Ready{0: std::result::Result::Ok{0: %s}}" % N_EXPR, s.loc(), render(w.site_expr(s))[:200])
        lib.expect_count(ctx, "write", "exactly one copy per accepted write", w, [0], [s.bb], lib.bbs(cp), (1, 1), "copy_from_slice before Ok(n)")
    # ---- poll_flush
    f = ctx.body(N, r"<io::Output as futures::AsyncWrite>::poll_flush$")
    fss = f.call_sites(r"Sink>::start_send$")
    inner = f.call_sites(r"Sink>::poll_flush$")
    ctx.floor("flush", "start_send in poll_flush", fss, 1)
    ctx.floor("flush", "inner poll_flush", inner, 1)
    for s in fss:
        ctx.guarded("flush", "partial frame sent iff bytes are buffered", s, lambda c, r, l: l == "true" and r == "Gt(this.send_offset, 0)", "send_offset > 0")
    pend = lib.switch_edges_on(f, r"^Gt\(this\.send_offset, 0\)$", {"true"})
    fres = [s for s in f.field_write_sites("send_offset") if render(f.site_expr(s)) == "0"]
    for _, t in pend:
        ctx.passes("flush", "buffered bytes are sent before the inner flush", f, [t], lib.bbs(inner), lib.bbs(fss), "start_send precedes io.poll_flush", "%s:%d" % (f.file, f.line))
        ctx.passes("flush", "send_offset reset before the inner flush", f, [t], lib.bbs(inner), lib.bbs(fres), "send_offset = 0 after sending")
    for s in fres:
        lib.precedes(ctx, "flush", "reset only after start_send", f, lib.bbs(fss), [s.bb], "send_offset = 0 is preceded by start_send", s.loc())
    c = ctx.body(N, r"<io::Output as futures::AsyncWrite>::poll_close$")
    lib.precedes(ctx, "flush", "close flushes first", c, lib.bbs(c.call_sites(r"AsyncWrite>::poll_flush$")), lib.bbs(c.call_sites(r"AsyncWrite>::poll_close$|Sink>::poll_close$")), "poll_flush before poll_close")
    # who writes send_offset / send_buffer
    who = {b.npath for b in prog.bodies(N) if b.field_write_sites("send_offset", r"io::Output")}
    ctx.ob("who", "send_offset writers", who <= {w.npath, f.npath, "libp2p_noise::io::Output::new"}, msg=str(sorted(who)))
    # ---- poll_read
    r = ctx.body(N, r"<io::Output as futures::AsyncRead>::poll_read$")
    cp = r.call_sites(r"copy_from_slice$")
    ctx.floor("read", "copy out of recv buffer", cp, 1)
    for s in cp:
        e = r.site_expr(s)
        dst, src = render(e[2][0]), render(e[2][1])
        ctx.ob("read", "destination = buf[..n]", re.match(r"^core::slice::index::index_mut\(buf, std::ops::RangeTo::RangeTo\{end: std::cmp::min\(SubWithOverflow\(.*recv_buffer\), .*recv_offset\)\.0, core::slice::len\(buf\)\)\}\)$", dst) is not None, s.loc(), dst[:240])
        ctx.ob("read", "source = recv_buffer[off..off+n]", ".recv_buffer" in src and "Range::Range{start: " in src and ".recv_offset, end: AddWithOverflow(" in src, s.loc(), src[:260])
        ctx.guarded("read", "copy only when a frame is buffered", s, lambda c, rr, l: l == "true" and re.match(r"^Gt\(\w+::Bytes::len\(.*recv_buffer\), 0\)$", rr) is not None, "recv_buffer.len() > 0")
    pn = r.call_sites(r"Stream>::poll_next$")
    ctx.floor("read", "next frame poll", pn, 1)
    for s in pn:
        ctx.guarded("read", "next frame fetched only when the buffer is drained", s, lambda c, rr, l: l == "false" and re.match(r"^Gt\(\w+::Bytes::len\(.*recv_buffer\), 0\)$", rr) is not None, "recv_buffer is empty")
    st = [s for s in r.field_write_sites("recv_offset") if render(r.site_expr(s)) == "0"]
    stb = [s for s in r.field_write_sites("recv_buffer") if "poll_next(" in render(r.site_expr(s))]
    ctx.ob("read", "new frame starts at offset 0", len(st) == 1 and len(stb) == 1 and st[0].bb in r.reachable([stb[0].bb]) or (st and stb and stb[0].bb == st[0].bb), msg="recv_buffer = frame; recv_offset = 0")
    advr = [s for s in r.field_write_sites("recv_offset") if s not in st]
    for s in advr:
        ctx.ob("read", "recv_offset advances by the bytes handed out", render(r.site_expr(s)).startswith("AddWithOverflow(") and "std::cmp::min(SubWithOverflow(" in render(r.site_expr(s)), s.loc(), render(r.site_expr(s))[:200])
    # ---- framed: error discipline + length prefix
    for fn, inner_pat in (("encrypt", "encrypt_fn"), ("decrypt", "decrypt_fn")):
        b = ctx.body(N, r"io::framed::%s$" % fn)
        me = b.call_sites(r"Result::map_err$")
        ok = len(me) == 1 and "fn:libp2p_noise::io::framed::into_io_error" in render(b.site_expr(me[0]))
        ctx.ob("errors", "%s: snow error mapped to io::Error" % fn, ok, me[0].loc() if me else "", render(b.site_expr(me[0]))[:200] if me else "")
        if me:
            used = lib.local_uses(b, me[0].term["d"]["l"]) > 0
            br = [t for _, t in lib.switch_edges_on_site(b, me[0], {"Break"})]
            ctx.ob("errors", "%s: failure is propagated" % fn, used and len(br) == 1, me[0].loc(), "map_err(..)? — Break edge returns the error")
            for t in br:
                okk = [mir.Site(b, x[1], x[2]).bb for x in b.defs[0] if x[0] == "stmt" and render(b.rvalue_expr(x[3])).startswith("std::result::Result::Ok")]
                ctx.ob("errors", "%s: no Ok after a crypto failure" % fn, not (set(okk) & b.reachable([t])), me[0].loc(), "Ok(..) unreachable from the error edge")
    dl = ctx.body(N, r"io::framed::decode_length_prefixed$")
    sp = dl.call_sites(r"BytesMut::split_to$")
    ad = dl.call_sites(r"advance$")
    ctx.floor("prefix", "split_to / advance", sp + ad, 2)
    for s in sp + ad:
        ctx.guarded("prefix", "frame consumed only when complete (%s)" % mir.strip_generics(dl.call_name(s.term)).split("::")[-1], s,
                    lambda c, rr, l: l == "true" and re.match(r"^Ge\(SubWithOverflow\(\w+::BytesMut::len\(src\), const:libp2p_noise::io::framed::U16_LENGTH\)\.0, ", rr) is not None, "src.len() - 2 >= len")
        ctx.guarded("prefix", "header present (%s)" % mir.strip_generics(dl.call_name(s.term)).split("::")[-1], s,
                    lambda c, rr, l: l == "false" and re.match(r"^Lt\(\w+::BytesMut::len\(src\), ", rr) is not None, "src.len() >= 2")
    for s in sp:
        e = render(dl.site_expr(s)[2][1])
        ctx.ob("prefix", "split length is the decoded prefix", "from_be_bytes(" in e, s.loc(), e[:120])
    el = ctx.body(N, r"io::framed::encode_length_prefixed$")
    ex = el.call_sites(r"extend_from_slice$")
    ok = len(ex) == 2 and "to_be_bytes((core::slice::len(src) as u16))" in render(el.site_expr(ex[0])) and render(el.site_expr(ex[1])[2][1]) == "src"
    ctx.ob("prefix", "encode = be16(len) ++ payload", ok, "%s:%d" % (el.file, el.line), str([render(el.site_expr(s))[:120] for s in ex]))
