"""C17 secure channels deliver exactly the written bytes or fail — constants (K6), guards/order (K1/K3), origin (K5), error discipline (K13)."""
import re

from .. import lib, mir
from .. import lib_sec as S
from ..mir import render, strip_generics

EXPLANATION = ("Noise Output: MAX_FRAME_LEN + EXTRA_ENCRYPT_SPACE <= 65535 so the u16 length prefix cannot truncate; poll_write sizes the "
               "send buffer from send_offset (buffer length == bytes buffered), copies exactly n = min(MAX_FRAME_LEN - off, buf.len()) bytes "
               "to send_buffer[off..off+n], advances send_offset by n and reports n; a frame is sent exactly when send_offset == MAX_FRAME_LEN "
               "(poll_write) or > 0 (poll_flush) and send_offset is reset exactly once after each successful start_send; poll_read hands "
               "out recv_buffer[off..off+n], advances recv_offset by exactly that n exactly once before reporting n, drops the frame only "
               "when it is fully consumed, and fetches the next frame only when the buffer is empty; every snow::Error is mapped and "
               "propagated; decode_length_prefixed yields a frame only when all of its bytes are present.  Parameters are identified by "
               "position, the receiver through any alias (`this`, Pin deref), comparisons in any operand order / polarity.")
ASSUMPTIONS = ["AEAD tamper detection and chunking schedules are not executed", "asynchronous_codec::Framed delivers each encoded frame once, in order"]
N = "libp2p_noise"
MAXC = "const:libp2p_noise::io::framed::MAX_FRAME_LEN"

SELFTEST = [
    {"mutation": "poll_read: `self.recv_offset += n;` deleted", "caught_by": "read/recv_offset advanced exactly once between the copy and Ready(Ok(n))"},
    {"mutation": "poll_read: `if len == self.recv_offset` -> `if len >= n`", "caught_by": "read/frame dropped only when fully consumed"},
    {"neutral": "neutral/sec/04 (else -> early return with negated comparison); `this` -> `me`, `buf` -> `data`; `MAX_FRAME_LEN == this.send_offset`; `send_offset != 0`", "silent": True},
]

def self_fld(name):
    """predicate: expression is `self.<name>` (any receiver alias, through view conversions)"""
    def p(e):
        e = S.peel(e)
        return e[0] == "field" and e[2] == name and e[1][0] == "arg" and e[1][1] == 1
    return p


def named_const(pat):
    return lambda e: S.cval(e) is not None and any(s[0] == "namedconst" and re.search(pat, s[1]) for s in mir.walk(e))


def len_of(pred):
    """predicate: expression is `<X>.len()` with pred(X)"""
    def p(e):
        return e[0] == "call" and re.search(r"::len$", strip_generics(e[1])) is not None and len(e[2]) == 1 and pred(S.peel(e[2][0]))
    return p


def check(ctx):
    prog = ctx.prog
    mfl = prog.const(N, r"io::framed::MAX_FRAME_LEN$").get("v")
    ees = prog.const(N, r"io::framed::EXTRA_ENCRYPT_SPACE$").get("v")
    mnm = prog.const(N, r"io::framed::MAX_NOISE_MSG_LEN$").get("v")
    ctx.ob("const", "MAX_FRAME_LEN + EXTRA_ENCRYPT_SPACE <= 65535", all(isinstance(x, int) for x in (mfl, ees, mnm)) and mfl + ees <= 65535 and mnm <= 65535,
           msg="MAX_FRAME_LEN=%s EXTRA_ENCRYPT_SPACE=%s MAX_NOISE_MSG_LEN=%s" % (mfl, ees, mnm))
    w = S.canon_args(ctx.body(N, r"<io::Output as futures::AsyncWrite>::poll_write$"), ["self", "cx", "buf"])
    rn = S.recv_norm(w)
    V = S.view(w)
    rets = w.return_blocks()
    ss = w.call_sites(r"Sink>::start_send$")
    ctx.floor("write", "start_send in poll_write", ss, 1)
    resets = [s for s in w.field_write_sites("send_offset") if S.cval(w.site_expr(s)) == 0]
    adv = [s for s in w.field_write_sites("send_offset") if s not in resets]
    off_max = S.rel_edges(w, lambda e: self_fld("send_offset")(rn(e)), lambda e: S.is_const(e, mfl, r"MAX_FRAME_LEN$"))
    for s in ss:
        S.guarded(ctx, "write", "frame sent exactly when the buffer is full", s, off_max["eq"], "send_offset == MAX_FRAME_LEN")
        e = S.peel(rn(w.site_expr(s)[2][1]))
        ctx.ob("write", "the send buffer is what is sent", self_fld("send_buffer")(e), s.loc(), V(w.site_expr(s)[2][1]))
        cont, brk = S.call_outcome_edges(w, s, close=False)
        cont, brk = [t for _, t in cont], [t for _, t in brk]
        rz = lib.bbs(w.call_sites(r"Vec::resize$"))
        got = lib.count_range(w, cont, rz + rets, lib.bbs(resets))
        ctx.ob("write", "send_offset reset exactly once after a sent frame", got == (1, 1), s.loc(), "resets after start_send Ok: %s" % (got,))
        got = lib.count_range(w, brk, rets, lib.bbs(resets))
        ctx.ob("write", "send_offset kept when sending failed", got == (0, 0), s.loc(), "resets after start_send Err: %s" % (got,))
    for s in resets:
        lib.precedes(ctx, "write", "reset only after start_send", w, lib.bbs(ss), [s.bb], "send_offset = 0 is preceded by start_send", s.loc())
    # full buffer always flushed before buffering more
    rz = w.call_sites(r"Vec::resize$")
    ctx.floor("write", "send_buffer.resize", rz, 1)
    for _, t in S.rel_edges(w, lambda e: self_fld("send_offset")(rn(e)), lambda e: S.is_const(e, mfl, r"MAX_FRAME_LEN$"), close=False)["eq"]:
        ctx.passes("write", "full buffer is sent before more is buffered", w, [t], lib.bbs(rz), lib.bbs(ss), "start_send on the full edge", "%s:%d" % (w.file, w.line))
    for s in rz:
        e = w.site_expr(s)
        a1 = V(e[2][1])
        ctx.ob("write", "buffer length tracks bytes buffered (resize derives from send_offset)",
               a1 in ("std::cmp::min(%s, core::num::saturating_add(self.send_offset, core::slice::len(buf)))" % MAXC,
                      "std::cmp::min(core::num::saturating_add(self.send_offset, core::slice::len(buf)), %s)" % MAXC), s.loc(), "resize(%s)" % a1)
        ctx.ob("write", "resizes the send buffer", self_fld("send_buffer")(rn(e[2][0])), s.loc(), V(e[2][0]))
    cp = w.call_sites(r"slice::copy_from_slice$|copy_from_slice$")
    ctx.floor("write", "copy into send buffer", cp, 1)
    N_EXPRS = ("std::cmp::min(SubWithOverflow(%s, self.send_offset).0, core::slice::len(buf))" % MAXC,
               "std::cmp::min(core::slice::len(buf), SubWithOverflow(%s, self.send_offset).0)" % MAXC)
    for s in cp:
        e = w.site_expr(s)
        dst, src = V(e[2][0]), V(e[2][1])
        ctx.ob("write", "destination = send_buffer[off..off+n]", dst in ["<std::vec::Vec as std::ops::IndexMut>::index_mut(self.send_buffer, std::ops::Range::Range{start: self.send_offset, end: AddWithOverflow(self.send_offset, %s).0})" % n for n in N_EXPRS], s.loc(), dst[:260])
        ctx.ob("write", "source = buf[..n]", src in ["core::slice::index::index(buf, std::ops::RangeTo::RangeTo{end: %s})" % n for n in N_EXPRS], s.loc(), src[:200])
    ctx.floor("write", "send_offset advance", adv, 1)
    for s in adv:
        ctx.ob("write", "send_offset advances by n", V(w.site_expr(s)) in ["AddWithOverflow(self.send_offset, %s).0" % n for n in N_EXPRS], s.loc(), V(w.site_expr(s))[:200])
    okr = [mir.Site(w, x[1], x[2]) for x in w.defs[0] if x[0] == "stmt" and render(w.rvalue_expr(x[3])).startswith("std::task::Poll::Ready{0: std::result::Result::Ok")]
    for s in okr:
        ctx.ob("write", "reports n bytes written", V(w.site_expr(s)) in ["std::task::Poll::Ready{0: std::result::Result::Ok{0: %s}}" % n for n in N_EXPRS], s.loc(), V(w.site_expr(s))[:200])
        lib.expect_count(ctx, "write", "exactly one copy per accepted write", w, [0], [s.bb], lib.bbs(cp), (1, 1), "copy_from_slice before Ok(n)")
    # ---- poll_flush
    f = S.canon_args(ctx.body(N, r"<io::Output as futures::AsyncWrite>::poll_flush$"), ["self", "cx"])
    rnf = S.recv_norm(f)
    fss = f.call_sites(r"Sink>::start_send$")
    inner = f.call_sites(r"Sink>::poll_flush$")
    ctx.floor("flush", "start_send in poll_flush", fss, 1)
    ctx.floor("flush", "inner poll_flush", inner, 1)
    off_zero = S.rel_edges(f, lambda e: self_fld("send_offset")(rnf(e)), lambda e: S.cval(e) == 0)
    pending = off_zero["gt"] | off_zero["ne"]           # send_offset > 0  (usize: != 0 is the same)
    for s in fss:
        S.guarded(ctx, "flush", "partial frame sent iff bytes are buffered", s, pending, "send_offset > 0")
    fres = [s for s in f.field_write_sites("send_offset") if S.cval(f.site_expr(s)) == 0]
    ctx.ob("flush", "floor:buffered-bytes edge", len(pending) >= 1, nontrivial=False, msg=str(sorted(pending)))
    oz = S.rel_edges(f, lambda e: self_fld("send_offset")(rnf(e)), lambda e: S.cval(e) == 0, close=False)
    for _, t in oz["gt"] | oz["ne"]:
        ctx.passes("flush", "buffered bytes are sent before the inner flush", f, [t], lib.bbs(inner), lib.bbs(fss), "start_send precedes io.poll_flush", "%s:%d" % (f.file, f.line))
        ctx.passes("flush", "send_offset reset before the inner flush", f, [t], lib.bbs(inner), lib.bbs(fres), "send_offset = 0 after sending")
    for s in fres:
        lib.precedes(ctx, "flush", "reset only after start_send", f, lib.bbs(fss), [s.bb], "send_offset = 0 is preceded by start_send", s.loc())
    c = ctx.body(N, r"<io::Output as futures::AsyncWrite>::poll_close$")
    lib.precedes(ctx, "flush", "close flushes first", c, lib.bbs(c.call_sites(r"AsyncWrite>::poll_flush$")), lib.bbs(c.call_sites(r"AsyncWrite>::poll_close$|Sink>::poll_close$")), "poll_flush before poll_close")
    # who writes send_offset / send_buffer
    who = {b.npath for b in prog.bodies(N) if b.field_write_sites("send_offset", r"io::Output")}
    ctx.ob("who", "send_offset writers", who <= {w.npath, f.npath, "libp2p_noise::io::Output::new"}, msg=str(sorted(who)))
    # ---- poll_read
    r = S.canon_args(ctx.body(N, r"<io::Output as futures::AsyncRead>::poll_read$"), ["self", "cx", "buf"])
    rnr = S.recv_norm(r)
    VR = S.view(r)
    is_buf = lambda e: self_fld("recv_buffer")(rnr(e))
    is_off = lambda e: self_fld("recv_offset")(rnr(e))
    have = S.rel_edges(r, len_of(is_buf), lambda e: S.cval(e) == 0)
    nonempty = have["gt"] | have["ne"]         # usize: != 0 is > 0
    empty = have["le"]                          # usize: <= 0 is == 0
    cp = r.call_sites(r"copy_from_slice$")
    ctx.floor("read", "copy out of recv buffer", cp, 1)
    MIN = r"std::cmp::min\(SubWithOverflow\(\w+::Bytes::len\(self\.recv_buffer\), self\.recv_offset\)\.0, core::slice::len\(buf\)\)|std::cmp::min\(core::slice::len\(buf\), SubWithOverflow\(\w+::Bytes::len\(self\.recv_buffer\), self\.recv_offset\)\.0\)"
    n_expr = None
    for s in cp:
        e = r.site_expr(s)
        dst, src = VR(e[2][0]), VR(e[2][1])
        m = re.match(r"^core::slice::index::index_mut\(buf, std::ops::RangeTo::RangeTo\{end: (%s)\}\)$" % MIN, dst)
        ctx.ob("read", "destination = buf[..n]", m is not None, s.loc(), dst[:240])
        n_expr = m.group(1) if m else None
        ok = n_expr is not None and re.match(r"^core::slice::index::index\(<\w+::Bytes as std::ops::Deref>::deref\(self\.recv_buffer\), std::ops::Range::Range\{start: self\.recv_offset, end: AddWithOverflow\(self\.recv_offset, %s\)\.0\}\)$" % re.escape(n_expr), src) is not None
        ctx.ob("read", "source = recv_buffer[off..off+n]", ok, s.loc(), src[:260])
        S.guarded(ctx, "read", "copy only when a frame is buffered", s, nonempty, "recv_buffer.len() > 0")
    pn = r.call_sites(r"Stream>::poll_next$")
    ctx.floor("read", "next frame poll", pn, 1)
    for s in pn:
        S.guarded(ctx, "read", "next frame fetched only when the buffer is drained", s, empty, "recv_buffer is empty")
    st = [s for s in r.field_write_sites("recv_offset") if S.cval(r.site_expr(s)) == 0]
    stb = [s for s in r.field_write_sites("recv_buffer") if S.has_call(r.site_expr(s), r"Stream>::poll_next$")]
    ctx.ob("read", "new frame starts at offset 0", len(st) == 1 and len(stb) == 1 and st[0].bb in r.reachable([stb[0].bb]) or (st and stb and stb[0].bb == st[0].bb), msg="recv_buffer = frame; recv_offset = 0")
    advr = [s for s in r.field_write_sites("recv_offset") if s not in st]
    ctx.floor("read", "recv_offset advance", advr, 1)
    for s in advr:
        v = VR(r.site_expr(s))
        ctx.ob("read", "recv_offset advances by the bytes handed out", n_expr is not None and v in ("AddWithOverflow(self.recv_offset, %s).0" % n_expr, "AddWithOverflow(%s, self.recv_offset).0" % n_expr), s.loc(), v[:200])
    # every delivery is followed by exactly one advance before the byte count is reported (else the same bytes are delivered again)
    okn = [mir.Site(r, x[1], x[2]) for x in r.defs[0] if x[0] == "stmt" and n_expr is not None and VR(r.rvalue_expr(x[3])) == "std::task::Poll::Ready{0: std::result::Result::Ok{0: %s}}" % n_expr]
    ctx.floor("read", "Ready(Ok(n)) after a delivery", okn, 1)
    for s in cp:
        got = lib.count_range(r, r.succ[s.bb], [x.bb for x in okn], lib.bbs(advr))
        ctx.ob("read", "recv_offset advanced exactly once between the copy and Ready(Ok(n))", got == (1, 1), s.loc(), "advances on the paths from the copy to the Ok(n) return: %s" % (got,))
        reach = r.reachable(r.succ[s.bb])
        other = [x for x in r.defs[0] if x[1] in reach and x[0] == "stmt" and mir.Site(r, x[1], x[2]) not in okn]
        ctx.ob("read", "a delivery reports exactly the n bytes copied", not other, s.loc(), "results reachable after the copy: Ok(n) only" if not other else "another result is reachable after the copy: %s" % VR(r.rvalue_expr(other[0][3]))[:120])
    # the frame is dropped only once it is fully consumed
    consumed = S.rel_edges(r, len_of(is_buf), is_off)
    drops = [s for s in r.field_write_sites("recv_buffer") if s not in stb]
    for s in drops:
        e = r.site_expr(s)
        ctx.ob("read", "the only other store to recv_buffer is the empty buffer", e[0] == "call" and re.search(r"Bytes::new$", strip_generics(e[1])) is not None, s.loc(), VR(e)[:120])
        S.guarded(ctx, "read", "frame dropped only when fully consumed", s, consumed["le"], "recv_buffer.len() == recv_offset")
        for a in advr:
            S.guarded(ctx, "read", "after a delivery the frame is dropped only if the advanced offset reached its end", s, consumed["le"], "recv_buffer.len() == recv_offset tested after recv_offset += n", start=a.bb)
    # ---- framed: error discipline + length prefix
    for fn, inner_pat in (("encrypt", "encrypt_fn"), ("decrypt", "decrypt_fn")):
        b = ctx.body(N, r"io::framed::%s$" % fn)
        me = b.call_sites(r"Result::map_err$")
        ok = len(me) == 1 and any(x[0] == "fn" and re.search(r"io::framed::into_io_error$", strip_generics(x[1])) for x in mir.walk(b.site_expr(me[0])))
        ctx.ob("errors", "%s: snow error mapped to io::Error" % fn, ok, me[0].loc() if me else "", render(b.site_expr(me[0]))[:200] if me else "")
        if me:
            used = lib.local_uses(b, me[0].term["d"]["l"]) > 0
            good, br = S.call_outcome_edges(b, me[0], close=False)
            br = [t for _, t in br]
            ctx.ob("errors", "%s: failure is propagated" % fn, used and len(br) == 1, me[0].loc(), "map_err(..)? — the Err edge returns the error")
            for t in br:
                okk = [s.bb for s in S.ok_sites(b)]
                ctx.ob("errors", "%s: no Ok after a crypto failure" % fn, not (set(okk) & b.reachable([t])), me[0].loc(), "Ok(..) unreachable from the error edge")
    dl = S.canon_args(ctx.body(N, r"io::framed::decode_length_prefixed$"), ["src"])
    u16 = prog.const(N, r"io::framed::U16_LENGTH$").get("v")
    sp = dl.call_sites(r"BytesMut::split_to$")
    ad = dl.call_sites(r"advance$")
    ctx.floor("prefix", "split_to / advance", sp + ad, 2)
    is_hdr = lambda e: S.cval(e) == u16 or (e[0] == "call" and re.search(r"mem::size_of$", strip_generics(e[1])) is not None)
    avail = len_of(lambda e: S.is_arg(e, 1))
    is_len = lambda e: S.has_call(e, r"from_be_bytes$") and not S.has(e, lambda x: x[0] == "bin")
    # `src.len() - 2 >= len`  or  `src.len() >= len + 2` (either operand order / polarity)
    relA = S.rel_edges(dl, lambda e: (e[0] == "field" and e[2] == "0" and e[1][0] == "bin" and e[1][1] in ("SubWithOverflow", "Sub") and avail(e[1][2]) and is_hdr(e[1][3]))
                       or (e[0] == "bin" and e[1] == "Sub" and avail(e[2]) and is_hdr(e[3])), is_len)

    def len_plus_hdr(e):
        if e[0] == "field" and e[2] == "0":
            e = e[1]
        return e[0] == "bin" and e[1] in ("AddWithOverflow", "Add") and ((is_len(e[2]) and is_hdr(e[3])) or (is_len(e[3]) and is_hdr(e[2])))
    relB = S.rel_edges(dl, avail, len_plus_hdr)
    complete = relA["ge"] | relB["ge"]
    hdr = S.rel_edges(dl, avail, is_hdr)["ge"]
    for s in sp + ad:
        nm = strip_generics(dl.call_name(s.term)).split("::")[-1]
        S.guarded(ctx, "prefix", "frame consumed only when complete (%s)" % nm, s, complete, "src.len() - 2 >= len")
        S.guarded(ctx, "prefix", "header present (%s)" % nm, s, hdr, "src.len() >= 2")
    for s in sp:
        e = dl.site_expr(s)[2][1]
        ctx.ob("prefix", "split length is the decoded prefix", is_len(e), s.loc(), render(e)[:120])
    for s in ad:
        e = dl.site_expr(s)[2][1]
        ctx.ob("prefix", "exactly the header is skipped", S.cval(e) == u16, s.loc(), render(e)[:80])
    el = ctx.body(N, r"io::framed::encode_length_prefixed$")
    si = [i for i in range(1, el.argc + 1) if re.search(r"\[u8\]", el.locals[i])]
    si = si[0] if len(si) == 1 else 1
    di = 3 - si
    ex = el.call_sites(r"extend_from_slice$")
    ok = len(ex) == 2
    if ok:
        a0, a1 = el.site_expr(ex[0])[2][1], el.site_expr(ex[1])[2][1]
        ok = (S.has_call(a0, r"to_be_bytes$") and S.has(a0, lambda x: x[0] == "cast" and x[2] == "u16" and len_of(lambda y: S.is_arg(y, si))(x[1])) and S.is_arg(S.peel(a1), si)
              and all(S.is_arg(S.peel(el.site_expr(x)[2][0]), di) for x in ex))
    ctx.ob("prefix", "encode = be16(len) ++ payload", ok, "%s:%d" % (el.file, el.line), str([render(el.site_expr(s))[:120] for s in ex]))
    if len(ex) == 2:
        lib.precedes(ctx, "prefix", "length precedes payload", el, [ex[0].bb], [ex[1].bb], "be16(len) is appended before the payload")
