"""C20 identities and keys have faithful, total encodings — constants (K6), tables (K7), codec tag agreement (K11), panic inventory (K10)."""
import re

from .. import lib, mir
from ..mir import render

EXPLANATION = ("PeerId: MAX_INLINE_KEY_LENGTH == 42 and the multihash codes 0x00 / 0x12; from_public_key inlines iff encoded length <= the same "
               "constant that from_multihash uses (with <=) to accept identity multihashes; from_multihash's table over (code, digest "
               "length <= 42) is evaluated on all cells; from_bytes/from_str funnel through from_multihash. Key codecs: for every key "
               "type compiled in, the KeyType tag written by the encoder is the tag whose decoder arm calls the same key module (tag "
               "bijection), absent features decode to an Err(missing_feature) naming that type. Decode entry points contain no "
               "panic-capable workspace site beyond the listed infallible ones. The thorough tier repeats this with all key types enabled.")
ASSUMPTIONS = ["value round-trip inside ed25519-dalek / multihash / bs58 / prost is trusted"]
CONFIGS = [{"name": "identity-all-keys", "packages": ["libp2p-identity"], "features": "ed25519,rsa,secp256k1,ecdsa,peerid,rand"}]
I = "libp2p_identity"
NAMES = {"Ed25519": "ed25519", "Rsa": "rsa", "RSA": "rsa", "Secp256k1": "secp256k1", "Ecdsa": "ecdsa"}


def check(ctx):
    prog = ctx.prog
    mx = prog.const(I, r"peer_id::MAX_INLINE_KEY_LENGTH$").get("v")
    idc = prog.const(I, r"peer_id::MULTIHASH_IDENTITY_CODE$").get("v")
    shc = prog.const(I, r"peer_id::MULTIHASH_SHA256_CODE$").get("v")
    ctx.ob("const", "MAX_INLINE_KEY_LENGTH == 42", mx == 42, msg=str(mx))
    ctx.ob("const", "multihash codes identity=0x00 sha2-256=0x12", idc == 0 and shc == 0x12, msg="%s %s" % (idc, shc))
    fp = ctx.body(I, r"peer_id::PeerId::from_public_key$")
    wraps = fp.call_sites(r"multihash::Multihash::wrap$")
    ctx.floor("peerid", "Multihash::wrap", wraps, 2)
    LE = r"^Le\(std::vec::Vec::len\(.*encode_protobuf\(key\)\), const:libp2p_identity::peer_id::MAX_INLINE_KEY_LENGTH\)$"
    for s in wraps:
        e = fp.site_expr(s)
        code = render(e[2][0])
        if code.endswith("MULTIHASH_IDENTITY_CODE"):
            ctx.guarded("peerid", "identity (inline) multihash iff encoding <= 42 bytes", s, lambda c, r, l: l == "true" and re.match(LE, r) is not None, "key_enc.len() <= MAX_INLINE_KEY_LENGTH")
            ctx.ob("peerid", "inlined digest is the encoded key", "encode_protobuf(key)" in render(e[2][1]) and "Digest" not in render(e[2][1]), s.loc(), render(e[2][1])[:120])
        elif code.endswith("MULTIHASH_SHA256_CODE"):
            ctx.guarded("peerid", "sha2-256 multihash iff encoding > 42 bytes", s, lambda c, r, l: l == "false" and re.match(LE, r) is not None, "key_enc.len() > MAX_INLINE_KEY_LENGTH")
            ctx.ob("peerid", "hashed digest is SHA-256 of the encoded key", "digest(" in render(e[2][1]).lower() and "encode_protobuf(key)" in render(e[2][1]), s.loc(), render(e[2][1])[:160])
        else:
            ctx.ob("peerid", "known multihash code", False, s.loc(), code)
    fm = ctx.body(I, r"peer_id::PeerId::from_multihash$")
    res = [mir.Site(fm, x[1], x[2]) for x in fm.defs[0]]
    lib.check_cells(ctx, "peerid", "from_multihash", fm, res,
                    lambda s: "Ok(same multihash)" if render(fm.site_expr(s)) == "std::result::Result::Ok{0: libp2p_identity::peer_id::PeerId::PeerId{multihash: multihash}}" else ("Err" if render(fm.site_expr(s)) == "std::result::Result::Err{0: multihash}" else "?"),
                    [(r"^multihash::Multihash::code\(multihash\)$", "code"), (r"^Le\(core::slice::len\(multihash::Multihash::digest\(multihash\)\), const:libp2p_identity::peer_id::MAX_INLINE_KEY_LENGTH\)$", "short")],
                    {"code": [18, 0, "otherwise"], "short": ["true", "false"]},
                    lambda a: "Ok(same multihash)" if a["code"] == 18 or (a["code"] == 0 and a["short"] == "true") else "Err", "%s:%d" % (fm.file, fm.line))
    fb = ctx.body(I, r"peer_id::PeerId::from_bytes$")
    cs = fb.call_sites(r"peer_id::PeerId::from_multihash$")
    ok = len(cs) == 1 and "multihash::Multihash::from_bytes(data)" in render(fb.site_expr(cs[0]))
    ctx.ob("peerid", "from_bytes = from_multihash(Multihash::from_bytes(data)?)", ok, "%s:%d" % (fb.file, fb.line), render(fb.site_expr(cs[0]))[:160] if cs else "")
    fs = ctx.body(I, r"<peer_id::PeerId as std::str::FromStr>::from_str$")
    cs = fs.call_sites(r"peer_id::PeerId::from_bytes$")
    ctx.ob("peerid", "from_str decodes base58 then from_bytes", len(cs) == 1 and any("bs58" in render(fs.site_expr(s)) for s in fs.call_sites()), "%s:%d" % (fs.file, fs.line), "bs58 decode -> from_bytes")
    who = {b.npath for b in prog.bodies(I) if b.agg_sites(r"peer_id::PeerId$")}
    ctx.ob("peerid", "PeerId constructed only by checked constructors", who <= {fp.npath, fm.npath, "libp2p_identity::peer_id::PeerId::random", "libp2p_identity::<peer_id::PeerId as std::clone::Clone>::clone"}, msg=str(sorted(who)))
    # ---- codec tables: public keys
    enc = ctx.body(I, r"<impl std::convert::From for proto::keys_proto::PublicKey>::from$")
    enc_tab = {}
    for s in enc.agg_sites(r"proto::keys_proto::PublicKey$"):
        e = enc.site_expr(s)
        f = dict(e[4])
        t = re.search(r"KeyType::(\w+)::\{constant#0\}", render(f.get("type")))
        v = re.search(r"publickey@(\w+)\.0", render(f.get("data")))
        m = re.search(r"libp2p_identity::(\w+)::PublicKey::", render(f.get("data")))
        if t and v and m:
            enc_tab[v.group(1)] = (t.group(1), m.group(1))
    dec = ctx.body(I, r"<keypair::PublicKey as std::convert::TryFrom>::try_from$")
    dec_tab = decode_table(ctx, dec, "PublicKey")
    compare(ctx, "pubkey-codec", enc_tab, dec_tab, "%s:%d" % (enc.file, enc.line))
    # private keys
    te = ctx.body(I, r"keypair::Keypair::to_protobuf_encoding$")
    enc_tab = {}
    for s in te.agg_sites(r"proto::keys_proto::PrivateKey$"):
        e = te.site_expr(s)
        f = dict(e[4])
        t = re.search(r"KeyType::(\w+)::\{constant#0\}", render(f.get("type")))
        v = re.search(r"keypair@(\w+)\.0", render(f.get("data")))
        if t and v:
            enc_tab[v.group(1)] = (t.group(1), NAMES.get(v.group(1), "?"))
    td = ctx.body(I, r"keypair::Keypair::from_protobuf_encoding$")
    dec_tab = decode_table(ctx, td, "Keypair|SecretKey")
    compare(ctx, "privkey-codec", enc_tab, dec_tab, "%s:%d" % (te.file, te.line), allow_encode_missing={"Rsa"})
    # KeyType::try_from(i32): unknown tags => Err
    kt = ctx.body(I, r"<proto::keys_proto::KeyType as std::convert::TryFrom>::try_from$")
    okv = sorted(set(re.findall(r"KeyType::(\w+)\{\}", " ".join(render(kt.site_expr(mir.Site(kt, x[1], x[2]))) for x in kt.defs[0] if x[0] == "stmt"))))
    errs = [x for x in kt.defs[0] if x[0] == "stmt" and "Result::Err" in render(kt.rvalue_expr(x[3]))]
    ctx.ob("pubkey-codec", "unknown key-type tags are an error", len(errs) >= 1 and set(okv) >= {"Ed25519", "Rsa", "Secp256k1", "Ecdsa"}, "%s:%d" % (kt.file, kt.line), "tags accepted: %s; otherwise Err" % okv)
    # ---- panic inventory
    entries = [fb, fs, fm, ctx.body(I, r"keypair::PublicKey::try_decode_protobuf$"), dec, td, kt]
    inv, seen = lib.panic_inventory(prog, I, entries, depth=2)
    ceil = {"index": (3, "fixed-size array/slice splits after explicit length checks in key modules (ed25519 try_from_bytes on 32/64-byte inputs; rsa/ecdsa/secp256k1 modules when enabled)"),
            "slice": (4, "copy_from_slice between equal-length buffers after length check"),
            "unwrap": (4, "expect on infallible conversions of already length-checked data / multihash sized 64"),
            "assert:bounds": (6, "ecdsa::PublicKey::del_asn1_header: constant indices 0..3 into sub-slices obtained with get(..4)?, get(4..4+oids_len)?, get(..+3)? — lengths established by the ?-checked get")}
    if ctx.config == "default":
        ceil = {"index": (1, "ed25519::Keypair::try_from_bytes splits a length-checked 64-byte buffer"), "slice": (2, "ed25519 copy of length-checked buffers"),
                "unwrap": (2, "infallible expect after explicit length check"), "assert:bounds": (0, "")}
    counts = lib.check_inventory(ctx, "nopanic", "decode entry points", inv, ceil, seen)


def decode_table(ctx, body, ctor_pat):
    """KeyType label -> module whose parser the Ok path calls, or ('missing', name) when the arm returns Err(missing_feature(name))."""
    tab = {}
    for bi in sorted(body.live):
        info = body.switch_info(bi)
        if not info:
            continue
        cond, labs = info
        if not (set(l for ls in labs.values() for l in ls) >= {"Ed25519", "Rsa"}):
            continue
        for tgt, ls in labs.items():
            for lab in ls:
                reach = body.reachable([tgt])
                mods = set()
                miss = set()
                for s in body.call_sites():
                    if s.bb not in reach:
                        continue
                    n = mir.strip_generics(body.call_name(s.term))
                    m = re.match(r"^libp2p_identity::(\w+)::(%s)::" % ctor_pat, n)
                    if m:
                        mods.add(m.group(1))
                    if n.endswith("DecodingError::missing_feature"):
                        miss.add(render(body.site_expr(s)[2][0]).strip("'"))
                if mods:
                    tab[lab] = ("module", sorted(mods))
                elif miss:
                    tab[lab] = ("missing", sorted(miss))
                else:
                    tab[lab] = ("?", [])
        break
    return tab


def compare(ctx, rule, enc_tab, dec_tab, where, allow_encode_missing=()):
    ctx.ob(rule, "floor:tables extracted", len(enc_tab) >= 1 and len(dec_tab) == 4, where, "encode %s | decode %s" % (enc_tab, dec_tab), nontrivial=False)
    for variant, (tag, mod) in sorted(enc_tab.items()):
        d = dec_tab.get(tag)
        ok = d is not None and d[0] == "module" and d[1] == [mod] and NAMES.get(tag) == mod and NAMES.get(variant) == mod
        ctx.ob(rule, "%s: tag written = tag whose decoder parses this key type" % variant, ok, where, "encode %s -> KeyType::%s (module %s); decode KeyType::%s -> %s" % (variant, tag, mod, tag, d))
    for tag, d in sorted(dec_tab.items()):
        if d[0] == "missing":
            ctx.ob(rule, "%s: disabled key type decodes to Err(missing_feature)" % tag, d[1] == [NAMES.get(tag)], where, "KeyType::%s -> missing_feature(%s)" % (tag, d[1]))
        elif d[0] == "module":
            ctx.ob(rule, "%s: decoder arm calls its own module" % tag, d[1] == [NAMES.get(tag)], where, "KeyType::%s -> %s" % (tag, d[1]))
            enc_has = any(t == tag for t, _ in enc_tab.values())
            ctx.ob(rule, "%s: decodable type is also encodable" % tag, enc_has or tag in allow_encode_missing, where, "encoder has an arm for KeyType::%s" % tag)
        else:
            ctx.ob(rule, "%s: decoder arm recognised" % tag, False, where, str(d))
