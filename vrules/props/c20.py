"""C20 identities and keys have faithful, total encodings — constants (K6), tables (K7), codec tag agreement (K11), panic inventory (K10)."""
import re

from .. import lib, mir
from .. import lib_sec as S
from ..mir import render, strip_generics

EXPLANATION = ("PeerId: MAX_INLINE_KEY_LENGTH == 42 and the multihash codes 0x00 / 0x12; from_public_key inlines iff encoded length <= the same "
               "constant that from_multihash uses (with <=) to accept identity multihashes; from_multihash's table over (code, digest "
               "length <= 42) is evaluated on all cells; from_bytes/from_str funnel through from_multihash. Key codecs: for every key "
               "type compiled in, the KeyType tag written by the encoder is the tag whose decoder arm calls the same key module (tag "
               "bijection), absent features decode to an Err(missing_feature) naming that type. Decode entry points contain no "
               "panic-capable workspace site beyond the listed infallible ones. The thorough tier repeats this with all key types enabled.")
ASSUMPTIONS = ["value round-trip inside ed25519-dalek / multihash / bs58 / prost is trusted"]
CONFIGS = [{"name": "identity-all-keys", "packages": ["libp2p-identity"], "features": "ed25519,rsa,secp256k1,ecdsa,peerid,rand"}]
I = "libp2p_identity"
NAMES = {"Ed25519": "ed25519", "Rsa": "rsa", "RSA": "rsa", "Secp256k1": "secp256k1", "Ecdsa": "ecdsa"}

SELFTEST = [
    {"mutation": "ed25519::PublicKey::try_from_bytes: `.map_err(..)?` -> `.expect(..)`", "caught_by": "nopanic/ed25519::PublicKey::try_from_bytes: panic-capable `unwrap` site (expect) is on the allow-list"},
    {"neutral": "neutral/sec/07 (`<=` -> `>` with swapped branches); `MAX >= digest().len()`; renamed parameter of from_multihash", "silent": True},
]

def check(ctx):
    prog = ctx.prog
    mx = prog.const(I, r"peer_id::MAX_INLINE_KEY_LENGTH$").get("v")
    idc = prog.const(I, r"peer_id::MULTIHASH_IDENTITY_CODE$").get("v")
    shc = prog.const(I, r"peer_id::MULTIHASH_SHA256_CODE$").get("v")
    ctx.ob("const", "MAX_INLINE_KEY_LENGTH == 42", mx == 42, msg=str(mx))
    ctx.ob("const", "multihash codes identity=0x00 sha2-256=0x12", idc == 0 and shc == 0x12, msg="%s %s" % (idc, shc))
    fp = S.canon_args(ctx.body(I, r"peer_id::PeerId::from_public_key$"), ["key"])
    wraps = fp.call_sites(r"multihash::Multihash::wrap$")
    ctx.floor("peerid", "Multihash::wrap", wraps, 2)

    def enc_of_key(e):
        e = S.peel(e)
        return e[0] == "call" and re.search(r"PublicKey::encode_protobuf$", strip_generics(e[1])) is not None and S.is_arg(S.peel(e[2][0]), 1)
    is_enc_len = lambda e: e[0] == "call" and re.search(r"::len$", strip_generics(e[1])) is not None and len(e[2]) == 1 and enc_of_key(e[2][0])
    is_max = lambda e: S.is_const(e, mx, r"peer_id::MAX_INLINE_KEY_LENGTH$")
    fits = S.rel_edges(fp, is_enc_len, is_max)
    for s in wraps:
        e = fp.site_expr(s)
        code = S.cval(e[2][0])
        if code == idc and code is not None:
            S.guarded(ctx, "peerid", "identity (inline) multihash iff encoding <= 42 bytes", s, fits["le"], "key_enc.len() <= MAX_INLINE_KEY_LENGTH")
            ctx.ob("peerid", "inlined digest is the encoded key", enc_of_key(e[2][1]), s.loc(), render(e[2][1])[:120])
        elif code == shc and code is not None:
            S.guarded(ctx, "peerid", "sha2-256 multihash iff encoding > 42 bytes", s, fits["gt"], "key_enc.len() > MAX_INLINE_KEY_LENGTH")
            dg = S.peel(e[2][1])
            ctx.ob("peerid", "hashed digest is SHA-256 of the encoded key", dg[0] == "call" and re.search(r"[Dd]igest", strip_generics(dg[1])) is not None and len(dg[2]) >= 1 and enc_of_key(dg[2][-1]), s.loc(), render(e[2][1])[:160])
        else:
            ctx.ob("peerid", "known multihash code", False, s.loc(), render(e[2][0]))
    fm = S.canon_args(ctx.body(I, r"peer_id::PeerId::from_multihash$"), ["multihash"])
    res = [mir.Site(fm, x[1], x[2]) for x in fm.defs[0]]
    DLEN = r"core::slice::len\(multihash::Multihash::digest\(multihash\)\)"
    MAXK = r"const:libp2p_identity::peer_id::MAX_INLINE_KEY_LENGTH"

    def ref(a):
        if a["short"] == a["long"]:
            return None          # `short` and `long` are the two polarities of the same test; inconsistent cells do not exist
        return "Ok(same multihash)" if a["code"] == shc or (a["code"] == idc and a["short"] == "true") else "Err"
    lib.check_cells(ctx, "peerid", "from_multihash", fm, res,
                    lambda s: "Ok(same multihash)" if render(fm.site_expr(s)) == "std::result::Result::Ok{0: libp2p_identity::peer_id::PeerId::PeerId{multihash: multihash}}" else ("Err" if render(fm.site_expr(s)) == "std::result::Result::Err{0: multihash}" else "?"),
                    [(r"^multihash::Multihash::code\(multihash\)$", "code"),
                     (r"^Le\(%s, %s\)$|^Ge\(%s, %s\)$" % (DLEN, MAXK, MAXK, DLEN), "short"), (r"^Gt\(%s, %s\)$|^Lt\(%s, %s\)$" % (DLEN, MAXK, MAXK, DLEN), "long")],
                    {"code": [shc, idc, "otherwise"], "short": ["true", "false"], "long": ["true", "false"]}, ref, "%s:%d" % (fm.file, fm.line))
    fb = S.canon_args(ctx.body(I, r"peer_id::PeerId::from_bytes$"), ["data"])
    cs = fb.call_sites(r"peer_id::PeerId::from_multihash$")
    a0 = S.norm(fb.site_expr(cs[0])[2][0]) if len(cs) == 1 else ("unknown", "")
    ok = (len(cs) == 1 and a0[0] == "call" and a0[1] == "ok" and a0[2][0][0] == "call" and re.search(r"multihash::Multihash::from_bytes$", strip_generics(a0[2][0][1])) is not None
          and S.is_arg(S.peel(a0[2][0][2][0]), 1))
    ctx.ob("peerid", "from_bytes = from_multihash(Multihash::from_bytes(data)?)", ok, "%s:%d" % (fb.file, fb.line), render(fb.site_expr(cs[0]))[:160] if cs else "")
    fs = ctx.body(I, r"<peer_id::PeerId as std::str::FromStr>::from_str$")
    cs = fs.call_sites(r"peer_id::PeerId::from_bytes$")
    ctx.ob("peerid", "from_str decodes base58 then from_bytes", len(cs) == 1 and any("bs58" in render(fs.site_expr(s)) for s in fs.call_sites()), "%s:%d" % (fs.file, fs.line), "bs58 decode -> from_bytes")
    who = {b.npath for b in prog.bodies(I) if b.agg_sites(r"peer_id::PeerId$")}
    ctx.ob("peerid", "PeerId constructed only by checked constructors", who <= {fp.npath, fm.npath, "libp2p_identity::peer_id::PeerId::random", "libp2p_identity::<peer_id::PeerId as std::clone::Clone>::clone"}, msg=str(sorted(who)))
    # ---- codec tables: public keys
    enc = ctx.body(I, r"<impl std::convert::From for proto::keys_proto::PublicKey>::from$")
    enc_tab = {}
    for s in enc.agg_sites(r"proto::keys_proto::PublicKey$"):
        e = enc.site_expr(s)
        f = dict(e[4])
        t = re.search(r"KeyType::(\w+)::\{constant#0\}", render(f.get("type")))
        v = re.search(r"@(Ed25519|Rsa|Secp256k1|Ecdsa)\.0", render(f.get("data")))
        m = re.search(r"libp2p_identity::(\w+)::PublicKey::", render(f.get("data")))
        if t and v and m:
            enc_tab[v.group(1)] = (t.group(1), m.group(1))
    dec = ctx.body(I, r"<keypair::PublicKey as std::convert::TryFrom>::try_from$")
    dec_tab = decode_table(ctx, dec, "PublicKey")
    compare(ctx, "pubkey-codec", enc_tab, dec_tab, "%s:%d" % (enc.file, enc.line))
    # private keys
    te = ctx.body(I, r"keypair::Keypair::to_protobuf_encoding$")
    enc_tab = {}
    for s in te.agg_sites(r"proto::keys_proto::PrivateKey$"):
        e = te.site_expr(s)
        f = dict(e[4])
        t = re.search(r"KeyType::(\w+)::\{constant#0\}", render(f.get("type")))
        v = re.search(r"@(Ed25519|Rsa|Secp256k1|Ecdsa)\.0", render(f.get("data")))
        if t and v:
            enc_tab[v.group(1)] = (t.group(1), NAMES.get(v.group(1), "?"))
    td = ctx.body(I, r"keypair::Keypair::from_protobuf_encoding$")
    dec_tab = decode_table(ctx, td, "Keypair|SecretKey")
    compare(ctx, "privkey-codec", enc_tab, dec_tab, "%s:%d" % (te.file, te.line), allow_encode_missing={"Rsa"})
    # KeyType::try_from(i32): unknown tags => Err
    kt = ctx.body(I, r"<proto::keys_proto::KeyType as std::convert::TryFrom>::try_from$")
    okv = sorted(set(re.findall(r"KeyType::(\w+)\{\}", " ".join(render(kt.site_expr(mir.Site(kt, x[1], x[2]))) for x in kt.defs[0] if x[0] == "stmt"))))
    errs = [x for x in kt.defs[0] if x[0] == "stmt" and "Result::Err" in render(kt.rvalue_expr(x[3]))]
    ctx.ob("pubkey-codec", "unknown key-type tags are an error", len(errs) >= 1 and set(okv) >= {"Ed25519", "Rsa", "Secp256k1", "Ecdsa"}, "%s:%d" % (kt.file, kt.line), "tags accepted: %s; otherwise Err" % okv)
    # ---- panic inventory
    entries = [fb, fs, fm, ctx.body(I, r"keypair::PublicKey::try_decode_protobuf$"), dec, td, kt]
    inv, seen = lib.panic_inventory(prog, I, entries, depth=2)
    # per-site allow-list (function, kind, max sites, operand shape, reason): every other panic-capable site reachable from a
    # decode entry point is a violation (no slack for a new `expect`/`unwrap`/index on attacker-controlled bytes)
    allow = [
        (r"^libp2p_identity::ecdsa::PublicKey::del_asn1_header$", "assert:bounds", 6, None,
         "constant indices 0..3 into sub-slices obtained with get(..4)?, get(4..4+oids_len)?, get(..+3)? — lengths established by the ?-checked get"),
        (r"^libp2p_identity::ecdsa::PublicKey::del_asn1_header$", "index", 2,
         lambda b, s: S.has_call(b.site_expr(s)[2][0], r"slice::get$|slice::<impl \[T\]>::get$"),
         "constant sub-range of the slice returned by asn1_buf.get(4..4+oids_len)? (length established by the ?-checked get)"),
    ]
    used = {}
    for b, k, det, s in inv:
        hit = None
        for i, (fn, kind, mxn, shape, why) in enumerate(allow):
            if kind == k and re.search(fn, b.npath) and (shape is None or (s.term["k"] == "call" and shape(b, s))):
                hit = i
                break
        if hit is not None:
            used[hit] = used.get(hit, 0) + 1
        ok = hit is not None and used[hit] <= allow[hit][2]
        ctx.ob("nopanic", "%s: panic-capable `%s` site (%s) is on the allow-list" % (b.short[-60:], k, det), ok, s.loc(),
               ("allowed: " + allow[hit][4]) if ok else "decode of untrusted bytes reaches a panic-capable site that is not (or no longer) covered by the allow-list")
    for bn in seen:
        ctx.bodies.add(bn)
    need = [r"ed25519::PublicKey::try_from_bytes$", r"peer_id::PeerId::from_multihash$", r"keypair::PublicKey::try_decode_protobuf$"]
    ctx.ob("nopanic", "floor:decode path bodies inspected", all(any(re.search(n, x) for x in seen) for n in need) and len(seen) >= 20, nontrivial=False,
           msg="%d bodies reachable from the decode entry points; %d panic-capable sites" % (len(seen), len(inv)))

def decode_table(ctx, body, ctor_pat):
    """KeyType label -> module whose parser the Ok path calls, or ('missing', name) when the arm returns Err(missing_feature(name))."""
    tab = {}
    for bi in sorted(body.live):
        info = body.switch_info(bi)
        if not info:
            continue
        cond, labs = info
        if not (set(l for ls in labs.values() for l in ls) >= {"Ed25519", "Rsa"}):
            continue
        for tgt, ls in labs.items():
            for lab in ls:
                reach = body.reachable([tgt])
                mods = set()
                miss = set()
                for s in body.call_sites():
                    if s.bb not in reach:
                        continue
                    n = mir.strip_generics(body.call_name(s.term))
                    m = re.match(r"^libp2p_identity::(\w+)::(%s)::" % ctor_pat, n)
                    if m:
                        mods.add(m.group(1))
                    if n.endswith("DecodingError::missing_feature"):
                        miss.add(render(body.site_expr(s)[2][0]).strip("'"))
                if mods:
                    tab[lab] = ("module", sorted(mods))
                elif miss:
                    tab[lab] = ("missing", sorted(miss))
                else:
                    tab[lab] = ("?", [])
        break
    return tab


def compare(ctx, rule, enc_tab, dec_tab, where, allow_encode_missing=()):
    ctx.ob(rule, "floor:tables extracted", len(enc_tab) >= 1 and len(dec_tab) == 4, where, "encode %s | decode %s" % (enc_tab, dec_tab), nontrivial=False)
    for variant, (tag, mod) in sorted(enc_tab.items()):
        d = dec_tab.get(tag)
        ok = d is not None and d[0] == "module" and d[1] == [mod] and NAMES.get(tag) == mod and NAMES.get(variant) == mod
        ctx.ob(rule, "%s: tag written = tag whose decoder parses this key type" % variant, ok, where, "encode %s -> KeyType::%s (module %s); decode KeyType::%s -> %s" % (variant, tag, mod, tag, d))
    for tag, d in sorted(dec_tab.items()):
        if d[0] == "missing":
            ctx.ob(rule, "%s: disabled key type decodes to Err(missing_feature)" % tag, d[1] == [NAMES.get(tag)], where, "KeyType::%s -> missing_feature(%s)" % (tag, d[1]))
        elif d[0] == "module":
            ctx.ob(rule, "%s: decoder arm calls its own module" % tag, d[1] == [NAMES.get(tag)], where, "KeyType::%s -> %s" % (tag, d[1]))
            enc_has = any(t == tag for t, _ in enc_tab.values())
            ctx.ob(rule, "%s: decodable type is also encodable" % tag, enc_has or tag in allow_encode_missing, where, "encoder has an arm for KeyType::%s" % tag)
        else:
            ctx.ob(rule, "%s: decoder arm recognised" % tag, False, where, str(d))
