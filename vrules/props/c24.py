"""C24 multiplexed substreams deliver exactly their own bytes — per-arm state tables (K7), guards (K1), origin (K5), ordering (K3), sibling agreement (K11); yamux: forwarding shape only."""
import re

from .. import lib, lib_mux, mir
from ..mir import render
from ..lib_mux import MP

EXPLANATION = (
    "mplex read side (poll_read_stream): a payload is returned only (a) from the front of the buffer of the substream being read "
    "(`substreams.get_mut(&id).recv_buf().remove(0)`) or (b) from a Data frame on the `frame.stream_id.into_local() == id` edge; any other "
    "Data frame goes to buffer(its own id, its own payload); the socket is read only when that substream's buffer is empty (buffered frames "
    "first; buffer is push-at-back / remove-at-0); Ok(None) (EOF) is returned only when can_read(&id) is false or directly after "
    "on_close/on_reset for id; can_read is re-tested before every frame read. can_read and recv_buf_open agree on {Open, SendClosed}. "
    "Frame dispatch in both frame loops: Close -> on_close(into_local(id)), Reset -> on_reset(..), Open -> on_open(frame's id); Frame::remote_id "
    "returns each variant's own id. State tables: on_close (Open->RecvClosed, SendClosed->Closed, RecvClosed/Closed/Reset unchanged), "
    "on_reset (Open/SendClosed/RecvClosed->Reset), poll_close_stream (Open->SendClosed, RecvClosed->Closed only after the Close frame was "
    "accepted, restored unchanged on Pending, others unchanged), drop_stream (Open->Reset frame, RecvClosed->Close frame) — every re-insert "
    "keeps the same key and the same receive buffer. Write side: poll_write_stream sends only for Open/RecvClosed, the frame is "
    "Data{stream_id: id, data: copy of buf[..frame_len]} with frame_len = min(buf.len(), split_send_size) and that same frame_len is "
    "returned; split_send_size never exceeds MAX_FRAME_SIZE; poll_send_frame sends exactly the frame the closure built. Ids: outbound ids "
    "come from next_outbound_stream_id (returns the current value, advances by LocalStreamId::next = checked +1 same role, starts at "
    "dialer(0)); the Open frame, the map key and the returned id are the same value. Substream adapter (lib.rs): copies min(current_data.len(), "
    "buf.len()) bytes split off the front of the current frame, fetches the next frame only when the current one is empty, maps None to "
    "Ok(0), stores each fetched frame as current_data, and uses its own id for read/write/flush/close/drop. yamux: the wrapper's six "
    "AsyncRead/AsyncWrite methods forward to the same method of the inner yamux::Stream with the same arguments; inbound upgrade uses "
    "Mode::Server and outbound Mode::Client.")
ASSUMPTIONS = ["yamux's own multiplexing (external crate) is not analysed; only the forwarding wrapper is",
               "interleavings / chunking schedules are not executed; the clauses are per-path necessary conditions",
               "asynchronous_codec::Framed delivers frames in wire order; HashMap/SmallVec semantics trusted",
               "on_reset for Closed/Reset states (entry dropped) is recorded as don't-care (DESIGN A.8)"]

SELFTEST = [
    {"mutation": "poll_read_stream: Data guard `stream_id.into_local() == id` -> `!=`", "caught_by": "read/frame payload returned only for the reader's own id"},
    {"mutation": "poll_read_stream: buffer(id, data) instead of buffer(stream_id.into_local(), data)", "caught_by": "read/poll_read_stream: foreign Data frame buffered under its own id"},
    {"mutation": "poll_read_stream: buf.remove(0) -> buf.pop().unwrap()", "caught_by": "read/buffered payload is taken from the front"},
    {"mutation": "can_read: also RecvClosed", "caught_by": "state/can_read is true exactly for Open and SendClosed"},
    {"mutation": "on_close: Open -> Closed", "caught_by": "state/on_close table"},
    {"mutation": "on_close: SendClosed arm drops buf (fresh buffer)", "caught_by": "state/on_close: SendClosed keeps the receive buffer"},
    {"mutation": "poll_close_stream: Open arm pending -> re-insert SendClosed", "caught_by": "state/poll_close_stream table"},
    {"mutation": "poll_write_stream: Reset state allowed to write", "caught_by": "write/frames are sent only while the write half is open"},
    {"mutation": "poll_write_stream: returns buf.len() instead of frame_len", "caught_by": "write/returned count is the framed length"},
    {"mutation": "set_split_send_size: cmp::max instead of min", "caught_by": "write/split_send_size capped at MAX_FRAME_SIZE"},
    {"mutation": "next_outbound_stream_id returns the advanced id", "caught_by": "ids/next_outbound_stream_id returns the value before advancing"},
    {"mutation": "Substream::poll_read: split_to(len) -> slice(..len) (bytes re-delivered)", "caught_by": "adapter/copied bytes are split off the current frame"},
    {"mutation": "yamux upgrade_outbound uses Mode::Server", "caught_by": "yamux/outbound upgrade runs the connection in Client mode"},
    {"mutation": "drop_stream: RecvClosed arm sends nothing", "caught_by": "state/drop_stream table"},
    {"mutation": "poll_read_stream: Close arm returns Ok(None) when id != stream_id", "caught_by": "read/EOF only when the read half is closed or a Close/Reset for this id was just processed"},
    {"mutation": "poll_read_stream: fast path only when buf.len() > 1", "caught_by": "read/the socket is read only when the reader's buffer is empty"},
    {"mutation": "Substream::drop calls drop_stream(self.id.next())", "caught_by": "adapter/dropping a Substream drops its own id in the muxer"},
    {"mutation": "(neutral, must stay silent) /verif/neutral/mux: 03/06.diff (renames; yamux `?` -> match), `id == stream_id.into_local()` operand swap, Substream::poll_read without the `this` alias and with `usize::min`", "caught_by": "silent"},
]

STATES = ["Open", "SendClosed", "RecvClosed", "Closed", "Reset"]
REMOVED = "std::collections::HashMap::remove(self.substreams, id)@Some.0"


def check(ctx):
    lib_mux.canon_roles(ctx.prog, 'libp2p_mplex')
    lib_mux.canon_roles(ctx.prog, 'libp2p_yamux')
    old = mir.RENDER_MAX[0]
    mir.RENDER_MAX[0] = 40
    try:
        lib_mux.sections(ctx, _read_side, _state_tables, _write_side, _ids, _adapter, _yamux)
    finally:
        mir.RENDER_MAX[0] = old


def _w(b):
    return "%s:%d" % (b.file, b.line)


# ====================================================================================================== read side
def _read_side(ctx):
    prog = ctx.prog
    rs = lib_mux.io_body(ctx, "poll_read_stream")
    sw, FR, arms = lib_mux.frame_switch(rs)
    z = lib_mux.zero_assigns(rs)
    OWNBUF = "libp2p_mplex::io::SubstreamState::recv_buf(std::collections::HashMap::get_mut(self.substreams, id)@Some.0)"
    helpers = lib_mux.inline_view(prog, rs)           # a block extracted into a single-use private helper reads as if still inline
    hsum = {}                                        # helper call (rendered) -> (rendered Some-payloads it can return, helper, call site)
    for via, h in helpers:
        hz = lib_mux.zero_assigns(h)
        pays = [v[len("std::option::Option::Some{0: "):-1] for v in hz.values() if v.startswith("std::option::Option::Some{0: ")]
        if pays and all(v.startswith("std::option::Option::") for v in hz.values()):
            hsum[render(rs.site_expr(via))] = (pays, h, via)
    some = {b: r for b, r in z.items() if r.startswith("std::task::Poll::Ready{0: std::result::Result::Ok{0: std::option::Option::Some{0: ")}
    ctx.floor("read", "Ok(Some(data)) results", sorted(some), 2)
    for b, r in sorted(some.items()):
        val = r[len("std::task::Poll::Ready{0: std::result::Result::Ok{0: std::option::Option::Some{0: "):-3]
        site = mir.Site(rs, b, [d[2] for d in rs.defs[0] if d[1] == b][0])
        viah = [k for k in hsum if val == k + "@Some.0"]
        if viah:          # the payload is what the helper returned in Some(..): every such value must be the front of the reader's buffer
            pays = hsum[viah[0]][0]
            ctx.ob("read", "buffered payload is taken from the front of the reader's own buffer", all(pv == "smallvec::SmallVec::remove(%s, 0)" % OWNBUF for pv in pays), site.loc(),
                   "via %s: %s" % (hsum[viah[0]][1].short.split("::")[-1], [pv[-60:] for pv in pays]))
        elif val == "smallvec::SmallVec::remove(%s, 0)" % OWNBUF:
            ctx.ob("read", "buffered payload is taken from the front of the reader's own buffer", True, site.loc(), "substreams[id].recv_buf().remove(0)")
        elif val == "%s@Data.data" % FR:
            own_eq, _ = lib_mux.eq_edges(rs, lambda t: t == "libp2p_mplex::codec::RemoteStreamId::into_local(%s@Data.stream_id)" % FR, lambda t: t == "id")
            ok = bool(own_eq) and rs.must_pass_edges(b, own_eq)
            ctx.ob("read", "frame payload returned only for the reader's own id", ok, site.loc(), ("guard present on all paths: " if ok else "a path reaches this site without the guard: ") + "frame.stream_id.into_local() == id")
        else:
            ctx.ob("read", "payload origin", False, site.loc(), "Ok(Some(..)) returns a value that is neither the reader's buffered frame nor the matching Data frame: %s" % val[-120:])
    front = lib_mux.scoped_sites(prog, rs, r"SmallVec::(remove|pop|swap_remove|drain)$", helpers)
    ctx.floor("read", "removal from a receive buffer", front, 1)
    for s, owner, via in front:
        r = render(owner.site_expr(s))
        ctx.ob("read", "buffered payload is taken from the front", r == "smallvec::SmallVec::remove(%s, 0)" % OWNBUF, s.loc(), r[-90:])
    bf = lib_mux.io_body(ctx, "buffer")
    for s in bf.call_sites(r"SmallVec::(push|insert|extend|insert_many)$"):
        ctx.ob("read", "buffered payloads are appended at the back", mir.strip_generics(bf.site_expr(s)[1]).endswith("SmallVec::push"), s.loc(), render(bf.site_expr(s))[:60])
    # foreign Data frames
    calls = rs.call_sites(r"^libp2p_mplex::io::Multiplexed::buffer$")
    for s in calls:
        e = rs.site_expr(s)
        ctx.ob("read", "poll_read_stream: foreign Data frame buffered under its own id", render(e[2][1]) == "libp2p_mplex::codec::RemoteStreamId::into_local(%s@Data.stream_id)" % FR and render(e[2][2]) == "%s@Data.data" % FR,
               s.loc(), "%s / %s" % (render(e[2][1])[-44:], render(e[2][2])[-22:]))
        _, own_ne = lib_mux.eq_edges(rs, lambda t: t == "libp2p_mplex::codec::RemoteStreamId::into_local(%s@Data.stream_id)" % FR, lambda t: t == "id")
        ok = bool(own_ne) and rs.must_pass_edges(s.bb, own_ne)
        ctx.ob("read", "a frame for the reader itself is never put behind later frames", ok, s.loc(), ("guard present on all paths: " if ok else "a path reaches this site without the guard: ") + "stream_id.into_local() != id")
    # buffered frames before new frames
    prf = rs.call_sites(r"^libp2p_mplex::io::Multiplexed::poll_read_frame$")
    ctx.floor("read", "poll_read_frame call", prf, 1, exact=True)
    empty = rs.guard_edges(lambda c, r, l: (l == "true" and r == "smallvec::SmallVec::is_empty(%s)" % OWNBUF) or (l == "false" and r == "Not(smallvec::SmallVec::is_empty(%s))" % OWNBUF)) | \
        lib_mux.none_edges(rs, "std::collections::HashMap::get_mut(self.substreams, id)") | \
        lib_mux.edges_with(lib_mux.rel_edges(rs, lambda e: render(e) == "smallvec::SmallVec::len(%s)" % OWNBUF, lambda e: lib_mux.cval(e) == 0), {"eq", "le"})
    def _empty_edges(b_):
        return b_.guard_edges(lambda c, r, l: (l == "true" and r == "smallvec::SmallVec::is_empty(%s)" % OWNBUF) or (l == "false" and r == "Not(smallvec::SmallVec::is_empty(%s))" % OWNBUF)) | \
            lib_mux.none_edges(b_, "std::collections::HashMap::get_mut(self.substreams, id)") | \
            lib_mux.edges_with(lib_mux.rel_edges(b_, lambda e: render(e) == "smallvec::SmallVec::len(%s)" % OWNBUF, lambda e: lib_mux.cval(e) == 0), {"eq", "le"})
    for k, (pays, h, via) in hsum.items():
        # the helper returns None only when the buffer is empty / the substream unknown: then the caller's None edge of the call means "empty"
        hz = lib_mux.zero_assigns(h)
        he = _empty_edges(h)
        if he and all(h.must_pass_edges(bb, he) for bb, v in hz.items() if v == "std::option::Option::None{}"):
            empty = empty | lib_mux.none_edges(rs, k)
    for s in prf:
        ctx.ob("read", "the socket is read only when the reader's buffer is empty", bool(empty) and rs.must_pass_edges(s.bb, empty), s.loc(), "every path to poll_read_frame passes buf.is_empty() (or the substream is unknown)")
        ctx.ob("read", "the reader registers interest under its own id", render(rs.site_expr(s)[2][2]) == "std::option::Option::Some{0: id}", s.loc(), render(rs.site_expr(s)[2][2]))
        # can_read re-tested in every iteration: from the frame dispatch no path returns to poll_read_frame without the can_read true edge
        cr = rs.guard_edges(lambda c, r, l: (l == "true" and r == "libp2p_mplex::io::Multiplexed::can_read(self, id)") or (l == "false" and r == "Not(libp2p_mplex::io::Multiplexed::can_read(self, id))"))
        back = rs.reachable(rs.succ[s.bb], blocked_edges=cr)
        ctx.ob("read", "can_read(&id) is re-tested before every frame read", bool(cr) and rs.must_pass_edges(s.bb, cr) and s.bb not in back, s.loc(), "no path reaches poll_read_frame (again) without the can_read true edge")
    # EOF
    none = sorted(b for b, r in z.items() if r == "std::task::Poll::Ready{0: std::result::Result::Ok{0: std::option::Option::None{}}}")
    ctx.floor("read", "Ok(None) results", none, 3)
    eofe = rs.guard_edges(lambda c, r, l: (l == "false" and r == "libp2p_mplex::io::Multiplexed::can_read(self, id)") or (l == "true" and r == "Not(libp2p_mplex::io::Multiplexed::can_read(self, id))")) | \
        lib_mux.eq_edges(rs, lambda t: re.match(r"^libp2p_mplex::codec::RemoteStreamId::into_local\(.*@(Close|Reset)\.stream_id\)$", t) is not None, lambda t: t == "id")[0]
    for i, b in enumerate(none):
        site = mir.Site(rs, b, [d[2] for d in rs.defs[0] if d[1] == b][0])
        ctx.ob("read", "EOF only when the read half is closed or a Close/Reset for this id was just processed", bool(eofe) and rs.must_pass_edges(b, eofe), site.loc(),
               "dominated by !can_read(&id) or `id == stream_id` after on_close/on_reset")
    for v, fn in (("Close", "on_close"), ("Reset", "on_reset")):
        cs = [s for s in rs.call_sites(r"^libp2p_mplex::io::Multiplexed::%s$" % fn)]
        ctx.floor("read", "poll_read_stream %s call" % fn, cs, 1, exact=True)
        for s in cs:
            ctx.ob("dispatch", "poll_read_stream: %s frame -> %s(its own id)" % (v, fn), render(rs.site_expr(s)[2][1]) == "libp2p_mplex::codec::RemoteStreamId::into_local(%s@%s.stream_id)" % (FR, v) and
                   s.bb in rs.reachable([arms[v]]) and all(s.bb not in rs.reachable([arms[o]], stop_nodes=lib.bbs(prf)) for o in arms if o != v), s.loc(), render(rs.site_expr(s)[2][1])[-50:])
    oo = rs.call_sites(r"^libp2p_mplex::io::Multiplexed::on_open$")
    for s in oo:
        ctx.ob("dispatch", "poll_read_stream: Open frame -> on_open(frame.remote_id())", render(rs.site_expr(s)[2][1]) == "libp2p_mplex::codec::Frame::remote_id(%s)" % FR and s.bb in rs.reachable([arms["Open"]]), s.loc(), render(rs.site_expr(s)[2][1])[-60:])
    rid = ctx.body(MP, r"codec::Frame::remote_id$")
    tab, unk = lib_mux.variant_table(rid, r"^discr\(self\)$", ["Open", "Data", "Close", "Reset"], lambda r: r)
    ctx.ob("dispatch", "Frame::remote_id returns each variant's own stream_id", tab == {v: ["self@%s.stream_id" % v] for v in ("Open", "Data", "Close", "Reset")}, _w(rid), str(tab))
    # poll_next_stream dispatch
    ns = lib_mux.io_body(ctx, "poll_next_stream")
    sw2, FR2, arms2 = lib_mux.frame_switch(ns)
    head2 = lib.bbs(ns.call_sites(r"^libp2p_mplex::io::Multiplexed::poll_read_frame$"))
    for v, fn, arg in (("Close", "on_close", "libp2p_mplex::codec::RemoteStreamId::into_local(%s@Close.stream_id)"), ("Reset", "on_reset", "libp2p_mplex::codec::RemoteStreamId::into_local(%s@Reset.stream_id)"),
                       ("Open", "on_open", "%s@Open.stream_id"), ("Data", "buffer", "libp2p_mplex::codec::RemoteStreamId::into_local(%s@Data.stream_id)")):
        cs = ns.call_sites(r"^libp2p_mplex::io::Multiplexed::%s$" % fn)
        ctx.floor("dispatch", "poll_next_stream %s call" % fn, cs, 1, exact=True)
        for s in cs:
            ok = render(ns.site_expr(s)[2][1]) == arg % FR2 and not ns.reachable([arms2[v]], blocked_nodes=[s.bb], stop_nodes=head2) & (set(head2) | set(b for b in lib_mux.zero_assigns(ns) if lib_mux.zero_assigns(ns)[b].startswith("std::task::Poll::Ready{0: std::result::Result::Ok")))
            ctx.ob("dispatch", "poll_next_stream: %s frame -> %s(its own id) on every path" % (v, fn), ok, s.loc(), render(ns.site_expr(s)[2][1])[-50:])
    zn = lib_mux.zero_assigns(ns)
    for b, r in zn.items():
        if r.startswith("std::task::Poll::Ready{0: std::result::Result::Ok{0: "):
            val = r[len("std::task::Poll::Ready{0: std::result::Result::Ok{0: "):-2]
            ok = val in ("std::collections::VecDeque::pop_back(self.open_buffer)@Some.0", "<std::result::Result as std::ops::Try>::branch(libp2p_mplex::io::Multiplexed::on_open(self, %s@Open.stream_id))@Continue.0@Some.0" % FR2)
            ctx.ob("dispatch", "poll_next_stream yields only ids accepted by on_open (now or buffered earlier)", ok, _w(ns), val[-90:])
    pf = [s for s in rs.call_sites(r"VecDeque::push_front$|VecDeque::push_back$") if render(rs.site_expr(s)[2][0]) == "self.open_buffer"]
    for s in pf:
        ctx.ob("dispatch", "open_buffer receives only ids accepted by on_open", render(rs.site_expr(s)[2][1]).endswith("on_open(self, libp2p_mplex::codec::Frame::remote_id(%s)))@Continue.0@Some.0" % FR), s.loc(), render(rs.site_expr(s)[2][1])[-70:])
        ctx.ob("dispatch", "inbound streams are handed out in arrival order (push_front / pop_back)", mir.strip_generics(rs.site_expr(s)[1]).endswith("push_front") and bool(ns.call_sites(r"VecDeque::pop_back$")) and not ns.call_sites(r"VecDeque::pop_front$"), s.loc(), "push_front here, pop_back in poll_next_stream")


# ====================================================================================================== state tables
def _arm_targets(body, pat):
    for bi in sorted(body.live):
        info = body.switch_info(bi)
        if info and re.match(pat, render(info[0])):
            return bi, {l: t for t, ls in info[1].items() for l in ls}
    raise mir.RuleError("state switch %s not found in %s" % (pat, body.npath))


def _ins_desc(val):
    """(variant, buffer text) of an inserted SubstreamState expression; ('=', '') when the removed state itself is put back."""
    r = render(val)
    if r == REMOVED:
        return "=", ""
    if val[0] == "agg" and val[3]:
        return val[3], render(dict(val[4]).get("buf", ("unknown", "?")))
    return "?", r


def _state_tables(ctx):
    prog = ctx.prog
    DPAT = r"^discr\(std::collections::HashMap::remove\(self\.substreams, id\)@Some\.0\)$"
    # ---- can_read / recv_buf_open
    cr = lib_mux.io_body(ctx, "can_read")
    tab, unk = lib_mux.variant_table(cr, r"^discr\(std::collections::HashMap::get\(self\.substreams, id\)@Some\.0\)$", STATES, lambda r: r,
                                     extra={r"^discr\(std::collections::HashMap::get\(self\.substreams, id\)\)$": "Some"})
    want = {"Open": ["1"], "SendClosed": ["1"], "RecvClosed": ["0"], "Closed": ["0"], "Reset": ["0"]}
    ctx.ob("state", "can_read is true exactly for Open and SendClosed", tab == want and not unk, _w(cr), str(tab))
    tabn, _ = lib_mux.variant_table(cr, r"^discr\(std::collections::HashMap::get\(self\.substreams, id\)\)$", ["None"], lambda r: r)
    ctx.ob("state", "can_read is false for an unknown substream", tabn == {"None": ["0"]}, _w(cr), str(tabn))
    rbo = ctx.body(MP, r"io::SubstreamState::recv_buf_open$")
    tab2, unk2 = lib_mux.variant_table(rbo, r"^discr\(self\)$", STATES, lambda r: "1" if r.startswith("std::option::Option::Some{") else ("0" if r == "std::option::Option::None{}" else r))
    ctx.ob("state", "recv_buf_open and can_read agree (data is buffered exactly while reads are possible)", tab2 == tab and not unk2, _w(rbo), "recv_buf_open %s vs can_read %s" % (tab2, tab))
    rb = ctx.body(MP, r"io::SubstreamState::recv_buf$")
    tab3 = {}
    work = [d for d in rb.defs.get(0, []) if d[0] == "stmt"]
    seen = set()
    while work:
        d = work.pop()
        e = rb.rvalue_expr(d[3])
        if e[0] == "local" and e[1] not in seen and len(rb.defs.get(e[1], [])) > 1:
            seen.add(e[1])
            work.extend(x for x in rb.defs[e[1]] if x[0] == "stmt")
            continue
        for t, ls, _, c in rb.guards_on_all_paths(d[1]):
            if t == "discr(self)":
                for l in ls:
                    tab3.setdefault(l, []).append(render(e))
    ctx.ob("state", "recv_buf returns the matched variant's own buffer", tab3 == {v: ["self@%s.buf" % v] for v in STATES}, _w(rb), str(tab3))

    # ---- on_close
    oc = lib_mux.io_body(ctx, "on_close")
    sw, arms = _arm_targets(oc, DPAT)
    want = {"Open": ("RecvClosed", REMOVED + "@Open.buf"), "SendClosed": ("Closed", REMOVED + "@SendClosed.buf"), "RecvClosed": ("=", ""), "Closed": ("=", ""), "Reset": ("Reset", REMOVED + "@Reset.buf")}
    _table(ctx, oc, arms, want, "on_close")
    # ---- on_reset
    orr = lib_mux.io_body(ctx, "on_reset")
    sw, arms = _arm_targets(orr, DPAT)
    ins = lib_mux.substream_inserts(orr)
    for v in ("Open", "SendClosed", "RecvClosed"):
        reach = orr.reachable([arms[v]])
        here = [(s, k, val) for s, k, val in ins if s.bb in reach]
        ok = len(here) == 1 and here[0][1] == "id" and _ins_desc(here[0][2])[0] == "Reset"
        ctx.ob("state", "on_reset table: %s -> Reset" % v, ok and orr.must_pass_nodes([arms[v]], orr.return_blocks(), [here[0][0].bb]) if here else False, _w(orr), str([(_ins_desc(val)) for _, _, val in here]))
    for s, k, val in ins:
        bl = [x for x in mir.walk(val) if x[0] == "local"]
        srcs = sorted(render(orr.rvalue_expr(d[3])) for x in bl for d in orr.defs.get(x[1], []) if d[0] == "stmt")
        ctx.ob("state", "on_reset keeps the receive buffer of the reset substream", srcs == sorted(REMOVED + "@%s.buf" % v for v in ("Open", "SendClosed", "RecvClosed")), s.loc(), str([x[-22:] for x in srcs]))
    # ---- poll_close_stream
    pc = lib_mux.io_body(ctx, "poll_close_stream")
    sw, arms = _arm_targets(pc, DPAT)
    zc = lib_mux.zero_assigns(pc)
    ins = lib_mux.substream_inserts(pc)
    ctx.floor("state", "poll_close_stream re-inserts", ins, 7)
    wantc = {("SendClosed", None): ("SendClosed", "Ready(Ok)"), ("Closed", None): ("Closed", "Ready(Ok)"), ("Reset", None): ("Reset", "Ready(Ok)"),
             ("Open", "true"): ("Open", "Pending"), ("Open", "false"): ("SendClosed", "Ready(Ok)"), ("RecvClosed", "true"): ("RecvClosed", "Pending"), ("RecvClosed", "false"): ("Closed", "Ready(Ok)")}
    got = {}
    for s, k, val in ins:
        gs = pc.guards_on_all_paths(s.bb)
        st = [l for t, ls, _, c in gs if re.match(DPAT, t) for l in ls]
        pend = [l for t, ls, _, c in gs if t.startswith("is_pending(") or "::is_pending(" in t for l in ls]
        res = sorted({("Pending" if zc[b] == "std::task::Poll::Pending{}" else "Ready(Ok)" if zc[b] == "std::task::Poll::Ready{0: std::result::Result::Ok{0: tuple{}}}" else zc[b][:40]) for b in zc if b in pc.reachable([s.bb])})
        v, buf = _ins_desc(val)
        key = (st[0] if len(st) == 1 else str(st), pend[0] if len(pend) == 1 else None)
        got[key] = (v, res[0] if len(res) == 1 else str(res))
        ctx.ob("state", "poll_close_stream: %s%s keeps key and receive buffer" % (key[0], "" if key[1] is None else "/pending=" + key[1]), k == "id" and buf == REMOVED + "@%s.buf" % key[0], s.loc(), "%s <- %s" % (k, buf[-40:]))
    ctx.ob("state", "poll_close_stream table", got == wantc, _w(pc), str(sorted(got.items())))
    okres = [b for b, r in zc.items() if r in ("std::task::Poll::Pending{}", "std::task::Poll::Ready{0: std::result::Result::Ok{0: tuple{}}}")]
    for v in STATES:
        lib.expect_count(ctx, "state", "poll_close_stream: %s state is put back exactly once" % v, pc, [arms[v]], okres, lib.bbs([s for s, _, _ in ins]), (1, 1), "substreams.insert before Pending / Ready(Ok)")
    for v in ("Open", "RecvClosed"):
        sends = [s for s in pc.call_sites(r"^libp2p_mplex::io::Multiplexed::poll_send_frame$") if s.bb in pc.reachable([arms[v]])]
        ctx.ob("state", "poll_close_stream: %s sends a Close frame for this substream" % v, len(sends) == 1 and _closure_frame(prog, pc, sends[0]) == "libp2p_mplex::codec::Frame::Close{stream_id: id}", _w(pc),
               str([_closure_frame(prog, pc, s) for s in sends]))
    for v in ("SendClosed", "Closed", "Reset"):
        sends = [s for s in pc.call_sites(r"^libp2p_mplex::io::Multiplexed::poll_send_frame$") if s.bb in pc.reachable([arms[v]])]
        ctx.ob("state", "poll_close_stream: %s sends nothing" % v, not sends, _w(pc), "%d send(s)" % len(sends))
    # ---- drop_stream
    ds = lib_mux.io_body(ctx, "drop_stream")
    sw, arms = _arm_targets(ds, DPAT)
    pushes = [s for s in ds.call_sites(r"VecDeque::push_front$|VecDeque::push_back$") if render(ds.site_expr(s)[2][0]) == "self.pending_frames"]
    wantd = {"Open": ["libp2p_mplex::codec::Frame::Reset{stream_id: id}"], "RecvClosed": ["libp2p_mplex::codec::Frame::Close{stream_id: id}"], "SendClosed": [], "Closed": [], "Reset": []}
    gotd = {v: sorted(render(ds.site_expr(s)[2][1]) for s in pushes if s.bb in ds.reachable([arms[v]])) for v in STATES}
    ctx.ob("state", "drop_stream table", gotd == wantd, _w(ds), str(gotd))
    ctx.ob("state", "drop_stream removes the dropped substream's own entry", len(ds.call_sites(r"HashMap::remove$")) == 1 and render(ds.site_expr(ds.call_sites(r"HashMap::remove$")[0])) == "std::collections::HashMap::remove(self.substreams, id)" and not lib_mux.substream_inserts(ds),
           _w(ds), "substreams.remove(&id), no re-insert")


def _closure_frame(prog, body, site):
    """The frame a `|| Frame::..` closure passed at `site` builds, with every captured variable replaced by the expression the
    caller captured (so neither the closure's nor the caller's variable names matter)."""
    cx = [x for x in mir.walk(body.site_expr(site)) if x[0] == "closure"]
    if not cx:
        return None
    cl, ups = lib_mux.upvar_map(prog, body, cx[0])
    vals = [cl.rvalue_expr(d[3]) for d in cl.defs.get(0, []) if d[0] == "stmt"]
    if len(vals) != 1:
        return str([render(v) for v in vals])

    def sub(e):
        t = e[0]
        if t == "upvar":
            return ups.get(e[1].lstrip("*"), e)
        if t == "call":
            return (t, e[1], tuple(sub(a) for a in e[2]), e[3])
        if t == "agg":
            return (t, e[1], e[2], e[3], tuple((f, sub(x)) for f, x in e[4]))
        if t in ("field", "downcast", "cindex"):
            return (t, sub(e[1])) + tuple(e[2:])
        if t == "cast":
            return (t, sub(e[1]), e[2])
        return e
    return render(sub(vals[0]))


def _table(ctx, body, arms, want, name):
    ins = lib_mux.substream_inserts(body)
    for v, (wv, wbuf) in want.items():
        reach = body.reachable([arms[v]])
        here = [(s, k, val) for s, k, val in ins if s.bb in reach]
        desc = [(_ins_desc(val)) for _, _, val in here]
        ok = len(here) == 1 and desc[0][0] == wv and here[0][1] == "id" and body.must_pass_nodes([arms[v]], body.return_blocks(), [here[0][0].bb])
        ctx.ob("state", "%s table: %s -> %s" % (name, v, wv if wv != "=" else "unchanged"), ok, here[0][0].loc() if here else _w(body), "inserted %s under key %s on every path of the arm" % (desc, [k for _, k, _ in here]))
        if here and wv != "=":
            ctx.ob("state", "%s: %s keeps the receive buffer" % (name, v), desc[0][1] == wbuf, here[0][0].loc(), desc[0][1][-60:])


# ====================================================================================================== write side
def _write_side(ctx):
    prog = ctx.prog
    pw = lib_mux.io_body(ctx, "poll_write_stream")
    sends = pw.call_sites(r"^libp2p_mplex::io::Multiplexed::poll_send_frame$")
    ctx.floor("write", "poll_send_frame in poll_write_stream", sends, 1, exact=True)
    FL = None
    for s in sends:
        gs = pw.guards_on_all_paths(s.bb)
        labs = [set(ls) for t, ls, _, c in gs if t == "discr(std::collections::HashMap::get(self.substreams, id)@Some.0)"]
        ctx.ob("write", "frames are sent only while the write half is open", labs == [{"Open", "RecvClosed"}], s.loc(), "states admitted: %s" % [sorted(x) for x in labs])
        se = lib_mux.some_edges(pw, "std::collections::HashMap::get(self.substreams, id)")
        ctx.ob("write", "frames are sent only for a known substream", bool(se) and pw.must_pass_edges(s.bb, se), s.loc(), "substreams.get(&id) is Some")
        fr = _closure_frame(prog, pw, s) or ""
        m = re.match(r"^libp2p_mplex::codec::Frame::Data\{stream_id: id, data: asynchronous_codec::Bytes::copy_from_slice\(core::slice::index::index\(buf, std::ops::RangeTo::RangeTo\{end: (.+)\}\)\)\}$", fr)
        ctx.ob("write", "the frame is Data{stream_id: id, data: copy of buf[..frame_len]}", m is not None, s.loc(), fr[-200:])
        if m:
            FL = m.group(1)
            cx_ = [x for x in mir.walk(pw.site_expr(s)) if x[0] == "closure"][0]
            fle = [x for x in cx_[2] if render(x) == FL]
            ctx.ob("write", "frame_len = min(buf.len(), split_send_size)", bool(fle) and lib_mux.is_min_of(fle[0], lambda e: render(e) == "core::slice::len(buf)", lambda e: render(e) == "self.config.split_send_size"), s.loc(), FL)
    z = lib_mux.zero_assigns(pw)
    oks = {b: r for b, r in z.items() if r.startswith("std::task::Poll::Ready{0: std::result::Result::Ok{")}
    ctx.floor("write", "Ok(n) result", sorted(oks), 1, exact=True)
    for b, r in oks.items():
        ctx.ob("write", "returned count is the framed length", r == "std::task::Poll::Ready{0: std::result::Result::Ok{0: %s}}" % FL, _w(pw), r[-90:])
        ok = bool(sends) and pw.must_pass_edges(b, lib_mux.ok_edges(pw, sends[0]))
        ctx.ob("write", "Ok(n) only after the frame was accepted by the sink", ok, _w(pw), "dominated by the `?`-Continue edge of poll_send_frame")
    refuse = {"Reset": "BrokenPipe", "SendClosed": "WriteZero", "Closed": "WriteZero"}
    tab, unk = lib_mux.variant_table(pw, r"^discr\(std::collections::HashMap::get\(self\.substreams, id\)@Some\.0\)$", ["Reset", "SendClosed", "Closed"],
                                     lambda r: (re.search(r"ErrorKind::(\w+)\{\}", r) or [None, None])[1] if lib_mux.is_err_result(r) else "(continues)",
                                     extra={r"^discr\(std::collections::HashMap::get\(self\.substreams, id\)\)$": "Some", r"^discr\(<std::result::Result as std::ops::Try>::branch\(libp2p_mplex::io::Multiplexed::guard_open\(self\)\)\)$": "Continue"})
    tab = {k: [x for x in v if x is not None] for k, v in tab.items()}      # (errors of the connection-level guard carry no ErrorKind literal)
    ctx.ob("write", "writes on a closed / reset write half fail (no frame)", tab == {k: [v] for k, v in refuse.items()}, _w(pw), str(tab))
    # poll_send_frame sends what the closure built
    ps = lib_mux.io_body(ctx, "poll_send_frame")
    ss = ps.call_sites(r"SinkExt::start_send_unpin$|Sink>::start_send$")
    ctx.floor("write", "start_send in poll_send_frame", ss, 1, exact=True)
    for s in ss:
        r = render(ps.site_expr(s)[2][1])
        ctx.ob("write", "poll_send_frame sends exactly the frame built by its closure, once", r == "std::ops::FnOnce::call_once(frame, tuple{})" and len(ps.call_sites(r"FnOnce::call_once$")) == 1, s.loc(), r)
        ctx.guarded("write", "start_send only after poll_ready returned Ready(Ok)", s, lambda c, rr, l: l == "Ok" and rr.startswith("discr(futures::SinkExt::poll_ready_unpin(self.io") and rr.endswith("@Ready.0)"), "poll_ready == Ready(Ok)")
    zs = lib_mux.zero_assigns(ps)
    for b, r in zs.items():
        if r == "std::task::Poll::Ready{0: std::result::Result::Ok{0: tuple{}}}":
            ctx.ob("write", "poll_send_frame reports Ready(Ok) only if start_send accepted the frame", bool(ss) and ps.must_pass_edges(b, lib_mux.ok_edges(ps, ss[0])), _w(ps), "dominated by start_send Ok")
    # split_send_size <= MAX_FRAME_SIZE
    writers = []
    for b in prog.bodies(MP):
        for s in b.field_write_sites("split_send_size"):
            writers.append((b, s))
        for s in b.agg_sites(r"config::Config$"):
            if render(dict(b.site_expr(s)[4]).get("split_send_size", ("unknown", "?"))) != "std::clone::impls::clone(self.split_send_size)":   # derive(Clone) preserves it
                writers.append((b, s))
    ctx.floor("write", "writers of Config.split_send_size", writers, 2)
    mx = prog.const(MP, r"codec::MAX_FRAME_SIZE$").get("v")
    for b, s in writers:
        e = b.site_expr(s)
        if e[0] == "agg":
            v = dict(e[4]).get("split_send_size")
            val = v[1] if v is not None and v[0] == "const" else (v[1][1] * v[2][1] if v is not None and v[0] == "bin" and v[1] == "Mul" else None)
            if v is not None and val is None:
                val = _const_eval(v)
            ctx.ob("write", "split_send_size capped at MAX_FRAME_SIZE (%s)" % b.short.split("::")[-1], isinstance(val, int) and 0 < val <= mx, s.loc(), "default split_send_size = %s" % (val if val is not None else render(v) if v else "?"))
        else:
            r = render(e)
            ctx.ob("write", "split_send_size capped at MAX_FRAME_SIZE (%s)" % b.short.split("::")[-1], lib_mux.is_min_of(e, lambda x: x[0] == "arg", lambda x: lib_mux.cval(x) == mx), s.loc(), r)


def _const_eval(e):
    if e[0] == "const" and isinstance(e[1], int):
        return e[1]
    if e[0] == "namedconst" and isinstance(e[2], int):
        return e[2]
    if e[0] == "bin" and e[1] in ("Mul", "Add"):
        a, b = _const_eval(e[2]), _const_eval(e[3])
        if a is None or b is None:
            return None
        return a * b if e[1] == "Mul" else a + b
    if e[0] == "field" and e[1][0] == "bin" and e[1][1] in ("MulWithOverflow", "AddWithOverflow"):
        a, b = _const_eval(e[1][2]), _const_eval(e[1][3])
        if a is None or b is None:
            return None
        return a * b if e[1][1].startswith("Mul") else a + b
    return None


# ====================================================================================================== ids
def _ids(ctx):
    prog = ctx.prog
    no = lib_mux.io_body(ctx, "next_outbound_stream_id")
    fw = [s for s in no.field_write_sites("next_outbound_stream_id") if s.si is not None]
    ctx.floor("ids", "advance of next_outbound_stream_id", fw, 1, exact=True)
    for s in fw:
        r = render(no.site_expr(s))
        ctx.ob("ids", "the counter advances by LocalStreamId::next of itself", r == "libp2p_mplex::codec::LocalStreamId::next(self.next_outbound_stream_id)", s.loc(), r)
    d0 = [d for d in no.defs.get(0, []) if d[0] == "stmt"]
    ok = False
    msg = "result is not a copy of a local read before the advance"
    if len(d0) == 1 and d0[0][3]["k"] == "use" and d0[0][3]["o"].get("k") in ("copy", "move") and "pr" not in d0[0][3]["o"]["p"]:
        l = d0[0][3]["o"]["p"]["l"]
        ds = no.defs.get(l, [])
        if len(ds) == 1 and ds[0][0] == "stmt" and render(no.rvalue_expr(ds[0][3])) == "self.next_outbound_stream_id" and fw:
            before = (ds[0][1], ds[0][2]) < (fw[0].bb, fw[0].si) if ds[0][1] == fw[0].bb else no.dominates(ds[0][1], fw[0].bb)
            ok = before
            msg = "result = value of the field read %s the advance" % ("before" if before else "after")
    ctx.ob("ids", "next_outbound_stream_id returns the value before advancing", ok, _w(no), msg)
    writers = [(b, s) for b in prog.bodies(MP) for s in b.field_write_sites("next_outbound_stream_id") if s.si is not None]
    ctx.ob("ids", "the id counter is written only by next_outbound_stream_id", [b.npath for b, _ in writers] == [no.npath], _w(no), str([b.short for b, _ in writers]))
    nx = ctx.body(MP, r"codec::LocalStreamId::next$")
    aggs = nx.agg_sites(r"codec::LocalStreamId$")
    r = render(nx.site_expr(aggs[0])) if len(aggs) == 1 else ""
    ctx.ob("ids", "LocalStreamId::next = checked +1, same role", r == "libp2p_mplex::codec::LocalStreamId::LocalStreamId{num: std::option::Option::expect(core::num::checked_add(self.num, 1), 'Mplex substream ID overflowed'), role: self.role}", _w(nx), r[-120:])
    new = lib_mux.io_body(ctx, "new")
    aggs = new.agg_sites(r"io::Multiplexed$")
    f = dict(new.site_expr(aggs[0])[4]) if len(aggs) == 1 else {}
    ctx.ob("ids", "outbound ids start at dialer(0)", render(f.get("next_outbound_stream_id", ("unknown", "?"))) == "libp2p_mplex::codec::LocalStreamId::dialer(0)", _w(new), render(f.get("next_outbound_stream_id", ("unknown", "?"))))
    ctx.ob("ids", "a new connection starts with no substreams and nothing blocking", render(f.get("blocking_stream", ("unknown", "?"))) == "std::option::Option::None{}" and "Default" in render(f.get("substreams", ("unknown", "?"))), _w(new),
           "%s / %s" % (render(f.get("blocking_stream", ("unknown", "?"))), render(f.get("substreams", ("unknown", "?")))[:60]))
    dl = ctx.body(MP, r"codec::LocalStreamId::dialer$")
    aggs = dl.agg_sites(r"codec::LocalStreamId$")
    r = render(dl.site_expr(aggs[0])) if len(aggs) == 1 else ""
    ctx.ob("ids", "LocalStreamId::dialer builds {num, role: Dialer}", r == "libp2p_mplex::codec::LocalStreamId::LocalStreamId{num: num, role: libp2p_core::Endpoint::Dialer{}}", _w(dl), r)
    po = lib_mux.io_body(ctx, "poll_open_stream")
    ID = "libp2p_mplex::io::Multiplexed::next_outbound_stream_id(self)"
    ctx.ob("ids", "one id allocation per opened substream", len(po.call_sites(r"next_outbound_stream_id$")) == 1, _w(po), "%d call(s)" % len(po.call_sites(r"next_outbound_stream_id$")))
    ss = po.call_sites(r"SinkExt::start_send_unpin$")
    for s in ss:
        ctx.ob("ids", "the Open frame carries the freshly allocated id", render(po.site_expr(s)[2][1]) == "libp2p_mplex::codec::Frame::Open{stream_id: %s}" % ID, s.loc(), render(po.site_expr(s)[2][1]))
    for s, k, val in lib_mux.substream_inserts(po):
        ctx.ob("ids", "the substream is registered under that id", k == ID, s.loc(), k)
    zp = lib_mux.zero_assigns(po)
    for b, r in zp.items():
        if r.startswith("std::task::Poll::Ready{0: std::result::Result::Ok{"):
            ctx.ob("ids", "poll_open_stream returns that id", r == "std::task::Poll::Ready{0: std::result::Result::Ok{0: %s}}" % ID, _w(po), r[-80:])
    eq = ctx.body(MP, r"codec::LocalStreamId as std::cmp::PartialEq>::eq$")
    calls = sorted(render(eq.site_expr(s)) for s in eq.call_sites(r"::eq$"))
    ctx.ob("ids", "LocalStreamId equality compares number and role", len(calls) == 2 and any("self.num, other.num" in c for c in calls) and any("self.role, other.role" in c for c in calls), _w(eq), str([c[-40:] for c in calls]))
    z = lib_mux.zero_assigns(eq)
    role = [s for s in eq.call_sites(r"Endpoint as std::cmp::PartialEq>::eq$")]
    ok = sorted(z.values()) == ["0", "call:<libp2p_core::Endpoint as std::cmp::PartialEq>::eq"] and len(role) == 1
    if ok:
        ok = eq.must_pass_edges(role[0].bb, eq.guard_edges(lambda c, r, l: l == "true" and r == "std::cmp::impls::eq(self.num, other.num)"))
    ctx.ob("ids", "LocalStreamId equality is the conjunction (false unless the numbers match)", ok, _w(eq), str(sorted(z.values()))[:160])


# ====================================================================================================== Substream adapter
def _self_alias(body):
    for l, n in body.names.items():
        if l > body.argc and lib_mux._SELF_FORMS.fullmatch(render(body.init_expr(l)) or ""):
            return n
    return "this"


def _adapter(ctx):
    prog = ctx.prog
    pr = lib_mux.canon_args(ctx.body(MP, r"^libp2p_mplex::<Substream as futures::AsyncRead>::poll_read$"), ["self", "cx", "buf"])
    al = _self_alias(pr)
    R = lambda e: lib_mux.norm_self(render(e), al)
    CUR = "this.current_data"
    cp = pr.call_sites(r"copy_from_slice$")
    ctx.floor("adapter", "copy into the caller's buffer", cp, 1, exact=True)
    LEN = None
    for s in cp:
        e = pr.site_expr(s)
        dst, src = R(e[2][0]), R(e[2][1])
        m = re.match(r"^<asynchronous_codec::Bytes as std::ops::Deref>::deref\(asynchronous_codec::Bytes::split_to\(this\.current_data, (.+)\)\)$", src)
        ctx.ob("adapter", "copied bytes are split off the current frame", m is not None, s.loc(), src[-120:])
        if m:
            LEN = m.group(1)
            le = [x for x in mir.walk(e[2][1]) if R(x) == LEN]
            ctx.ob("adapter", "copy length is min(current_data.len(), buf.len())", bool(le) and lib_mux.is_min_of(le[0], lambda x: R(x) == "asynchronous_codec::Bytes::len(this.current_data)", lambda x: R(x) == "core::slice::len(buf)"), s.loc(), LEN[-110:])
        ctx.ob("adapter", "destination is buf[..len] with the same len", LEN is not None and dst in ("core::slice::index::index_mut(buf, std::ops::RangeTo::RangeTo{end: %s})" % LEN, "core::slice::index::index_mut(buf, std::ops::Range::Range{start: 0, end: %s})" % LEN), s.loc(), dst[-120:])
        ne = pr.guard_edges(lambda c, r, l: (l == "false" and lib_mux.norm_self(r, al) == "asynchronous_codec::Bytes::is_empty(this.current_data)") or (l == "true" and lib_mux.norm_self(r, al) == "Not(asynchronous_codec::Bytes::is_empty(this.current_data))"))
        ctx.ob("adapter", "copy only when the current frame is non-empty", bool(ne) and pr.must_pass_edges(s.bb, ne), s.loc(), "!current_data.is_empty()")
    z = {b: lib_mux.norm_self(r, al) for b, r in lib_mux.zero_assigns(pr).items()}
    oks = sorted(r for r in z.values() if r.startswith("std::task::Poll::Ready{0: std::result::Result::Ok{"))
    ctx.ob("adapter", "poll_read returns the copied length, or 0 at end of stream", oks == sorted(["std::task::Poll::Ready{0: std::result::Result::Ok{0: %s}}" % LEN, "std::task::Poll::Ready{0: std::result::Result::Ok{0: 0}}"]), _w(pr), str([o[-60:] for o in oks]))
    rs = pr.call_sites(r"^libp2p_mplex::io::Multiplexed::poll_read_stream$")
    ctx.floor("adapter", "poll_read_stream call", rs, 1, exact=True)
    for s in rs:
        em = pr.guard_edges(lambda c, r, l: (l == "true" and lib_mux.norm_self(r, al) == "asynchronous_codec::Bytes::is_empty(this.current_data)") or (l == "false" and lib_mux.norm_self(r, al) == "Not(asynchronous_codec::Bytes::is_empty(this.current_data))"))
        ctx.ob("adapter", "next frame fetched only when the current one is used up", bool(em) and pr.must_pass_edges(s.bb, em), s.loc(), "current_data.is_empty()")
        ctx.ob("adapter", "reads use the substream's own id", R(pr.site_expr(s)[2][2]) == "this.id", s.loc(), R(pr.site_expr(s)[2][2]))
        fw = [x for x in pr.field_write_sites("current_data") if x.si is not None]
        fv = pr.site_expr(fw[0]) if len(fw) == 1 else ("unknown", "?")
        core = lib_mux._core_call(fv)
        ctx.ob("adapter", "every fetched frame becomes the current frame", core is not None and core[3] == s.bb and render(fv).endswith("@Some.0"), fw[0].loc() if fw else _w(pr), render(fv)[-40:])
        eos = lib_mux.result_edges(pr, s, {"None"})
        for b, r in z.items():
            if r == "std::task::Poll::Ready{0: std::result::Result::Ok{0: 0}}":
                ctx.ob("adapter", "Ok(0) only when the muxer reported end of stream", bool(eos) and pr.must_pass_edges(b, eos), _w(pr), "dominated by poll_read_stream == Ready(Ok(None))")
    for meth, callee, nargs in (("AsyncWrite>::poll_write", "poll_write_stream", 4), ("AsyncWrite>::poll_flush", "poll_flush_stream", 3), ("AsyncWrite>::poll_close", "poll_close_stream", 3)):
        b = lib_mux.canon_args(ctx.body(MP, r"^libp2p_mplex::<Substream as futures::%s$" % meth), ["self", "cx", "buf"])
        cs = b.call_sites(r"^libp2p_mplex::io::Multiplexed::%s$" % callee)
        ctx.floor("adapter", "%s call" % callee, cs, 1, exact=True)
        for s in cs:
            e = b.site_expr(s)
            ctx.ob("adapter", "%s uses the substream's own id" % callee, lib_mux.norm_self(render(e[2][2]), _self_alias(b)) == "this.id", s.loc(), render(e[2][2]))
            if callee == "poll_write_stream":
                ctx.ob("adapter", "poll_write forwards the caller's buffer and the muxer's result", render(e[2][3]) == "buf" and [d[0] for d in b.defs.get(0, [])] == ["call"] and b.defs[0][0][1] == s.bb, s.loc(), render(e[2][3]))
    pcl = ctx.body(MP, r"^libp2p_mplex::<Substream as futures::AsyncWrite>::poll_close$")
    c1, c2 = pcl.call_sites(r"::poll_close_stream$"), pcl.call_sites(r"::poll_flush_stream$")
    if c1 and c2:
        ctx.ob("adapter", "close = send Close, then flush", pcl.dominates(c1[0].bb, c2[0].bb) and pcl.must_pass_edges(c2[0].bb, lib_mux.ok_edges(pcl, c1[0])), c2[0].loc(), "poll_flush_stream only after poll_close_stream returned Ready(Ok)")
        zc = lib_mux.zero_assigns(pcl)
        for b, r in zc.items():
            if r == "std::task::Poll::Ready{0: std::result::Result::Ok{0: tuple{}}}":
                ctx.ob("adapter", "close reports success only after the flush completed", pcl.must_pass_edges(b, lib_mux.ok_edges(pcl, c2[0])), c2[0].loc(), "dominated by poll_flush_stream Ready(Ok)")
    dr = ctx.body(MP, r"^libp2p_mplex::<Substream as std::ops::Drop>::drop$")
    cs = dr.call_sites(r"::drop_stream$")
    ctx.ob("adapter", "dropping a Substream drops its own id in the muxer", len(cs) == 1 and render(dr.site_expr(cs[0])[2][1]) == "self.id", _w(dr), render(dr.site_expr(cs[0])[2][1]) if cs else "no drop_stream call")
    nw = lib_mux.canon_args(ctx.body(MP, r"^libp2p_mplex::Substream::new$"), ["id", "io"])
    aggs = nw.agg_sites(r"^libp2p_mplex::Substream$")
    r = render(nw.site_expr(aggs[0])) if len(aggs) == 1 else ""
    ctx.ob("adapter", "a new Substream starts with its id and no pending bytes", r == "libp2p_mplex::Substream::Substream{id: id, current_data: asynchronous_codec::Bytes::new(), io: io}", _w(nw), r)
    for meth, src in (("poll_inbound", "poll_next_stream"), ("poll_outbound", "poll_open_stream")):
        b = ctx.body(MP, r"^libp2p_mplex::<Multiplex as libp2p_core::StreamMuxer>::%s$" % meth)
        srcs = b.call_sites(r"^libp2p_mplex::io::Multiplexed::%s$" % src)
        ok, shown = False, ""
        if len(srcs) == 1:
            # (a) `poll_x(cx).map_ok(|id| Substream::new(id, ..))`: the closure wraps its own parameter and is applied to poll_x's result
            for c in prog.children(b):
                for s in c.call_sites(r"^libp2p_mplex::Substream::new$"):
                    a0 = c.site_expr(s)[2][0]
                    shown = render(c.site_expr(s))
                    for m in b.call_sites(r"Poll::map_ok$|::map_ok$|Result::map$|Poll::map$"):
                        e = b.site_expr(m)
                        core = lib_mux._core_call(e[2][0]) if e[2] else None
                        if a0[0] == "arg" and a0[1] >= 2 and core is not None and core[3] == srcs[0].bb and any(x[0] == "closure" and x[1] == c.path for x in mir.walk(e)):
                            ok = True
            # (b) explicit match: Substream::new(<payload of poll_x's result>, ..)
            for s in b.call_sites(r"^libp2p_mplex::Substream::new$"):
                a0 = b.site_expr(s)[2][0]
                shown = render(b.site_expr(s))
                core = lib_mux._core_call(a0)
                if core is not None and core[3] == srcs[0].bb:
                    ok = True
        ctx.ob("adapter", "%s wraps exactly the id returned by %s" % (meth, src), ok, _w(b), shown[:80])


# ====================================================================================================== yamux wrapper
def _yamux(ctx):
    Y = "libp2p_yamux"
    fw = [("AsyncRead>::poll_read", r"AsyncRead>?::poll_read$", ["cx", "buf"]),
          ("AsyncRead>::poll_read_vectored", r"AsyncRead>?::poll_read_vectored$", ["cx", "bufs"]),
          ("AsyncWrite>::poll_write", r"AsyncWrite>?::poll_write$", ["cx", "buf"]),
          ("AsyncWrite>::poll_write_vectored", r"AsyncWrite>?::poll_write_vectored$", ["cx", "bufs"]),
          ("AsyncWrite>::poll_flush", r"AsyncWrite>?::poll_flush$", ["cx"]),
          ("AsyncWrite>::poll_close", r"AsyncWrite>?::poll_close$", ["cx"])]
    for meth, callee, args in fw:
        b = lib_mux.canon_args(ctx.body(Y, r"^libp2p_yamux::<Stream as futures::%s$" % meth), ["self"] + args)
        al = _self_alias(b)
        cs = [s for s in b.call_sites(callee) if "libp2p_yamux" not in mir.strip_generics(b.call_name(s.term))]
        d0 = b.defs.get(0, [])
        ok = len(cs) == 1 and len(d0) == 1 and d0[0][0] == "call" and d0[0][1] == cs[0].bb
        if ok:
            e = b.site_expr(cs[0])
            ok = lib_mux.norm_self(render(e[2][0]), al) in ("std::pin::Pin::new(this.0)", "std::pin::Pin::new_unchecked(this.0)") and [render(a) for a in e[2][1:]] == args
        ctx.ob("yamux", "Stream::%s forwards to the inner stream's same method with the same arguments" % meth.split("::")[-1], ok, _w(b), render(b.site_expr(cs[0]))[-110:] if cs else "no forwarding call")
    for meth, mode in (("InboundConnectionUpgrade>::upgrade_inbound", "Server"), ("OutboundConnectionUpgrade>::upgrade_outbound", "Client")):
        b = lib_mux.canon_args(ctx.body(Y, r"^libp2p_yamux::<Config as libp2p_core::upgrade::%s$" % meth), ["self", "io", "info"])
        cs = b.call_sites(r"yamux::Connection::new$")
        r = render(b.site_expr(cs[0])) if len(cs) == 1 else ""
        ctx.ob("yamux", "%s upgrade runs the connection in %s mode" % ("inbound" if mode == "Server" else "outbound", mode), r == "yamux::Connection::new(io, self.0, yamux::Mode::%s{})" % mode, _w(b), r)
    for name, pat, source, what in (("Muxer::poll_inner", r"^libp2p_yamux::Muxer::poll_inner$", r"yamux::Connection::poll_next_inbound$", "inbound substreams are the connection's inbound streams, wrapped"),
                                    ("poll_outbound", r"^libp2p_yamux::<Muxer as libp2p_core::StreamMuxer>::poll_outbound$", r"yamux::Connection::poll_new_outbound$", "outbound substreams are the connection's new outbound streams, wrapped")):
        b = ctx.body(Y, pat)
        srcs = b.call_sites(source)
        z = lib_mux.zero_assigns(b)
        oks = [r for r in z.values() if r.startswith("std::task::Poll::Ready{0: std::result::Result::Ok{")]
        ok = False
        if len(srcs) == 1 and len(oks) == 1:
            SRC = render(b.site_expr(srcs[0]))
            v = oks[0]
            # value flow: the returned stream is the payload of the source's Ready(..) result, passed through the Stream wrapper only
            ok = (SRC + "@Ready.0") in v and ("fn:libp2p_yamux::Stream" in v or "libp2p_yamux::Stream::Stream{0: " in v) and v.count("yamux::Connection::poll_") == v.count(SRC)
        ctx.ob("yamux", what, ok, _w(b), (oks or ["?"])[0][-120:])
