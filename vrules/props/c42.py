"""C42 record lifetimes are never extended or lost in transit — finite-partition evaluation of the expiry merge over {None,Some}^2 (K7), value-range of the encoded ttl (K6/K7), lint on Option<Instant> ordering (K13), who-may-call (K4)."""
import re

from .. import lib, mir
from .. import lib_kad as lk
from ..mir import render, strip_generics
from ..lib_kad import R, K

EXPLANATION = (
    "record_received: the value stored into record.expires is evaluated abstractly for every cell of (received expiry, locally computed expiration) in "
    "{None,Some}^2, path-sensitively through match arms and through Option::or / Ord::min / Ord::max / Some(..) / x@Some.0 expressions with the standard "
    "`None < Some` ordering: the result must be None only for (None,None), the peer's expiry for (Some,None), the local expiration for (None,Some) and "
    "the minimum of both for (Some,Some); the merged value is written exactly once before the record is stored or handed to the filter event, the "
    "stored/forwarded record is that record; the local expiration is record_ttl.map(now + exp_decrease(ttl, n)) and exp_decrease only shifts right; "
    "no Ord::min/max is applied to Option<Instant> operands anywhere in libp2p-kad (lint). store.put is called only from record_received and "
    "put_record. record_to_proto: ttl = expires.map(closure).unwrap_or(0) and every value the closure can return is >= 1 (a constant >= 1, or "
    "`max(_, 1)` / `clamp(1, _)`, or a value on a `> 0` / `!= 0` edge), so a record with an expiry is never encoded as ttl 0 = 'does not expire'; "
    "the encoded ttl is derived from (expires - now) only; proto::Record is built only there. record_from_proto: expires is None only on the "
    "false edge of ttl > 0 and otherwise now + ttl seconds.")
ASSUMPTIONS = ["Instant arithmetic / Duration::as_secs rounding (lifetimes are rounded down to whole seconds, at least 1)",
               "merge expressions written with other combinators than or/min/max/match/Some (e.g. iterator chains) are reported as undecided (fail closed)"]
TECHNIQUE = ("All patterns are evaluated on a normalised view of the MIR facts (vrules/lib_kad.canon): parameters by position, every "
             "single-definition local expanded to its initialiser, closure captures by index, trivial crate-local helpers (accessors, one-comparison "
             "predicates, one-line constructors) replaced by their bodies, private fields resolved by their type, comparisons normalised over operand "
             "order / mirrored operators / method-call form / `!`, guard sets closed under bool hoisting. Behaviour-preserving refactorings that must stay "
             "silent are archived in /verif/neutral/kad (01-12 and x1-author-combinators.diff).")
SELFTEST = [
    {"mutation": "tree before fix F10: record.expires = record.expires.or(expiration).min(expiration)", "caught_by": "merge/expiry merge table + lint/no Ord::min/max on Option<Instant>"},
    {"mutation": "tree before fix F11: (t - now).as_secs() as u32 without lower bound", "caught_by": "ttl/every encoded ttl of a record with an expiry is >= 1"},
    {"mutation": "merge arm (Some, Some) uses max instead of min", "caught_by": "merge/expiry merge table"},
    {"mutation": "record_to_proto: `.max(1)` -> `.max(0)`", "caught_by": "ttl/every encoded ttl of a record with an expiry is >= 1"},
    {"mutation": "record_from_proto: `ttl > 0` -> `ttl > 1`", "caught_by": "ttl/decode: no expiry only for ttl == 0"},
    {"mutation": "merge fallback arm rewritten with Option::filter (drops the peer's expiry)", "caught_by": "merge/expiry merge table (reported as undecided: unmodelled combinator, fail closed)"},
]

EXPIRATION = r"^std::option::Option::map\(self\.record_ttl, closure:"
ATOMS = [(r"^discr\(#\d+\.expires\)$", "E"), (r"^discr\(std::option::Option::map\(self\.record_ttl, closure:", "X")]


class Undecided(Exception):
    pass


def is_opt_instant(t):
    return t.get("self", "").replace(" ", "") in ("std::option::Option<web_time::Instant>", "std::option::Option<std::time::Instant>", "core::option::Option<web_time::Instant>")


def ev(b, e, asg, env, depth=0, bind=None, level=0):
    """Abstract value of expression e in cell asg: ('none',) | ('some', frozenset(sources), frozenset(ops)) for Options,
    ('inst', sources, ops) for Instants."""
    if depth > 30:
        raise Undecided("expression too deep")
    t = e[0]
    r = render(e)
    if t == "arg" and bind is not None:
        if e[1] in bind:
            return bind[e[1]]
        raise Undecided("parameter %s of the helper is not an expiry value" % r)
    if bind is None and t == "field" and e[2] == "expires" and e[1][0] == "arg":
        return ("none",) if asg["E"] == "None" else ("some", frozenset(["peer"]), frozenset())
    if bind is None and re.match(EXPIRATION, r) and e[0] == "call":
        return ("none",) if asg["X"] == "None" else ("some", frozenset(["local"]), frozenset())
    if t == "local":
        d = env.get(e[1])
        if d is None:
            ds = b.defs.get(e[1], [])
            if len(ds) != 1:
                raise Undecided("local %s has %d definitions on this path" % (r, len(ds)))
            d = (ds[0][0], ds[0][1], ds[0][2])
        ee = b.rvalue_expr(b.blocks[d[1]]["stmts"][d[2]]["r"]) if d[0] == "stmt" else b.call_expr(b.blocks[d[1]]["term"], d[1])
        return ev(b, ee, asg, env, depth + 1, bind, level)
    if t == "agg" and e[1] == "adt" and strip_generics(e[2]).endswith("option::Option"):
        if e[3] == "None":
            return ("none",)
        v = ev(b, e[4][0][1], asg, env, depth + 1, bind, level)
        if v[0] != "inst":
            raise Undecided("Some(<non-instant>)")
        return ("some", v[1], v[2])
    if t == "field" and e[1][0] == "downcast" and e[1][2] == "Some":
        v = ev(b, e[1][1], asg, env, depth + 1, bind, level)
        if v[0] != "some":
            raise Undecided("@Some.0 of a value that is None in this cell")
        return ("inst", v[1], v[2])
    if t == "call":
        name = strip_generics(e[1])
        if re.search(r"option::Option::or$", name):
            a = ev(b, e[2][0], asg, env, depth + 1, bind, level)
            return a if a[0] == "some" else ev(b, e[2][1], asg, env, depth + 1, bind, level)
        m = re.search(r"(cmp::Ord::|cmp::)(min|max)$", name)
        if m:
            a = ev(b, e[2][0], asg, env, depth + 1, bind, level)
            c = ev(b, e[2][1], asg, env, depth + 1, bind, level)
            op = m.group(2)
            if a[0] == "inst" and c[0] == "inst":
                ops = a[2] | c[2] | (frozenset([op]) if a[1] != c[1] else frozenset())
                return ("inst", a[1] | c[1], ops)
            if a[0] in ("none", "some") and c[0] in ("none", "some"):
                # derived Ord on Option: None < Some(_)
                if a[0] == "none" or c[0] == "none":
                    if op == "min":
                        return ("none",)
                    return a if c[0] == "none" else c
                ops = a[2] | c[2] | (frozenset([op]) if a[1] != c[1] else frozenset())
                return ("some", a[1] | c[1], ops)
            raise Undecided("min/max of mixed kinds")
        if re.search(r"Clone>?::clone$|convert::Into>?::into$|convert::From>?::from$", name) and len(e[2]) == 1:
            return ev(b, e[2][0], asg, env, depth + 1, bind, level)
        # a crate-local helper (e.g. an extracted `merge_expiration(received, local)`): evaluate its body, one level, with the
        # abstract values of the actual arguments bound to its parameters
        callee = b.prog.by_npath(b.crate).get(name) if hasattr(b.prog, "by_npath") else None
        if callee is not None and callee is not b and level < 2:
            vals = []
            for a in e[2]:
                try:
                    vals.append(ev(b, a, asg, env, depth + 1, bind, level))
                except Undecided:
                    vals.append(None)
            return ev_callee(callee, vals, level + 1)
    raise Undecided("unmodelled expression %s" % r[:120])


def ev_callee(cb, vals, level):
    """abstract result of calling crate-local fn cb with abstract argument values (None = not an expiry value)"""
    bindv = {i + 1: v for i, v in enumerate(vals) if v is not None}
    atoms, asg2 = [], {}
    for i, v in bindv.items():
        if v[0] in ("none", "some"):
            nm = cb.names.get(i, "#%d" % i)
            atoms.append((r"^discr\(%s\)$" % re.escape(nm), "A%d" % i))
            asg2["A%d" % i] = "None" if v[0] == "none" else "Some"
    rets = {}
    for d in cb.defs.get(0, []):
        rets.setdefault(d[1], []).append(d)
    try:
        paths, _ = lib.cell_paths(cb, asg2, atoms, set(rets), 0)
    except mir.RuleError as ex:
        raise Undecided("helper %s: %s" % (cb.short, ex))
    out = set()
    for rb, env in paths:
        if rb is None:
            continue
        for d in rets[rb]:
            ee = cb.rvalue_expr(d[3]) if d[0] == "stmt" else cb.call_expr(d[3], d[1])
            out.add(ev(cb, ee, asg2, env, 0, bindv, level))
    if len(out) != 1:
        raise Undecided("helper %s yields %d different abstract results" % (cb.short, len(out)))
    return out.pop()


def check(ctx):
    prog = lk.canon(ctx)
    check_merge(ctx, prog)
    check_lint(ctx, prog)
    check_ttl(ctx, prog)


def check_merge(ctx, prog):
    b = ctx.body(K, r"^libp2p_kad::behaviour::Behaviour::record_received$")
    W = lk.where(b)
    stores = [s for s in b.field_write_sites("expires") if s.si is not None and [pr for pr in s.stmt["p"]["pr"] if pr["k"] != "deref"][-1].get("n") == "expires"]
    ctx.floor("merge", "store to record.expires", stores, 1, exact=True)
    exp_sw = lk.switch_blocks(b, r"^discr\(std::option::Option::map\(self\.record_ttl, closure:")
    want = {("None", "None"): "None", ("Some", "None"): "Some(peer)", ("None", "Some"): "Some(local)", ("Some", "Some"): "Some(min(peer, local))"}
    bad, seen = [], {}
    unknown = set()
    if stores:
        by_bb = {s.bb: s for s in stores}
        for E in ("None", "Some"):
            for X in ("None", "Some"):
                asg = {"E": E, "X": X}
                try:
                    paths, unk = lib.cell_paths(b, asg, ATOMS, set(by_bb), 0)
                except mir.RuleError as ex:
                    bad.append("%s: %s" % (asg, ex))
                    continue
                vals = set()
                for rb, env in paths:
                    if rb is None:
                        continue
                    s = by_bb[rb]
                    try:
                        v = ev(b, b.site_expr(s), asg, env)
                    except Undecided as ex:
                        vals.add("undecided: %s" % ex)
                        continue
                    if v[0] == "none":
                        vals.add("None")
                    elif v[0] == "some":
                        src = sorted(v[1])
                        if src == ["local", "peer"]:
                            vals.add("Some(min(peer, local))" if v[2] == frozenset(["min"]) else "Some(%s(peer, local))" % "/".join(sorted(v[2]) or ["?"]))
                        else:
                            vals.add("Some(%s)" % src[0] if not v[2] - {"min"} else "Some(%s via %s)" % (src, sorted(v[2])))
                    else:
                        vals.add(str(v))
                seen[(E, X)] = sorted(vals)
                if vals != {want[(E, X)]}:
                    bad.append("(received=%s, local ttl=%s) -> stored expiry %s, must be %s" % (E, X, sorted(vals), want[(E, X)]))
    ctx.ob("merge", "expiry merge table", not bad and len(seen) == 4, stores[0].loc() if stores else W,
           "abstract evaluation over the 4 cells of (record.expires, record_ttl-derived expiration): %s" % ("all equal to the reference table %s" % seen if not bad else "; ".join(bad)))
    # expiration definition
    exps = [s for s in b.call_sites(r"option::Option::map$") if re.match(EXPIRATION, R(b, s))]
    ctx.floor("merge", "expiration = record_ttl.map(..)", exps, 1, exact=True)
    for s in exps:
        cl = lib.closure_of(prog, b, b.site_expr(s))
        rs = [render(cl.site_expr(x)) for x in lk.ret_sites(cl)] if cl else []
        cexp = [c for c in mir.walk(b.site_expr(s)) if c[0] == "closure"]
        rs = [render(lk.subst_upvars(cexp[0], cl.site_expr(x))) for x in lk.ret_sites(cl)] if cl and cexp else []
        ok = len(rs) == 1 and re.match(r"^<web_time::Instant as std::ops::Add>::add\(web_time::Instant::now\(\), libp2p_kad::behaviour::exp_decrease\(#2, .*\)\)$", rs[0]) is not None
        ctx.ob("merge", "local expiration = Instant::now() + exp_decrease(ttl, num_beyond_k)", ok, s.loc(), str(rs)[:300])
    ed = ctx.body(K, r"^libp2p_kad::behaviour::exp_decrease$")
    rs = [R(ed, s) for s in lk.ret_sites(ed)]
    ctx.ob("merge", "exp_decrease never lengthens the ttl (right shift, 0 on overflow)", rs == ["web_time::Duration::from_secs(std::option::Option::unwrap_or(core::num::checked_shr(web_time::Duration::as_secs(#1), #2), 0))"], lk.where(ed), str(rs))
    # ordering: merge before use
    puts = b.call_sites(r"record::store::RecordStore::put$|RecordStore>::put$")
    ctx.floor("merge", "store.put", puts, 1)
    REC = R(b, stores[0]) and render(b.place_expr({"l": stores[0].stmt["p"]["l"]})) if stores else "?"
    for s in puts:
        ctx.ob("merge", "the record is stored only after its expiry was merged", bool(stores) and all(b.dominates(x.bb, s.bb) for x in stores), s.loc(), "the store to record.expires dominates store.put")
        a = render(b.site_expr(s)[2][1])
        ctx.ob("merge", "the stored record is the merged record", re.match(r"^libp2p_kad::<record::Record as std::clone::Clone>::clone\(#\d+\)$", a) is not None and a.endswith("(%s)" % REC), s.loc(), a)
    evs = [s for s in b.agg_sites(r"behaviour::InboundRequest$", "PutRecord") if "record: std::option::Option::Some" in R(b, s)]
    for s in evs:
        ctx.ob("merge", "the record handed to the application (FilterBoth) carries the merged expiry", bool(stores) and all(b.dominates(x.bb, s.bb) for x in stores) and "Clone>::clone(%s)" % REC in R(b, s), s.loc(), R(b, s)[-160:])
    ctx.floor("merge", "FilterBoth event", evs, 1)
    ie = b.call_sites(r"record::Record::is_expired$")
    for s in ie:
        ctx.ob("merge", "expiry test uses the merged expiry", bool(stores) and all(b.dominates(x.bb, s.bb) for x in stores), s.loc(), "")
    for s in puts:
        ctx.guarded("merge", "an already expired record is not stored", s, lambda c, r, l: l == "false" and r.startswith("libp2p_kad::record::Record::is_expired(%s, " % REC), "!record.is_expired(now)")
    callers = {lk.root_fn(prog, s.body) for s in prog.callers(K, r"record::store::RecordStore::put$|RecordStore>::put$") if "record::store::memory" not in s.body.npath}
    two = {"libp2p_kad::behaviour::Behaviour::put_record", "libp2p_kad::behaviour::Behaviour::record_received"}
    bad = sorted(c.npath for c in callers if not lk.allowed_fn(prog, K, c, two))
    ctx.ob("merge", "records enter the store only via record_received (peers) and put_record (local API)", not bad and len(callers) >= 2, msg="callers %s; not permitted %s" % (sorted(c.short for c in callers), bad))


def check_lint(ctx, prog):
    hits = []
    n = 0
    for b in prog.bodies(K):
        for s in b.call_sites(r"cmp::Ord::(min|max|clamp)$|cmp::(min|max)$"):
            n += 1
            t = s.term
            ty = (t.get("self") or "") + " " + (t.get("ga") or "")
            if re.search(r"Option<\s*(web_time|std::time|core::time)::Instant\s*>", ty):
                op = strip_generics(b.call_name(t)).split("::")[-1]
                txt = R(b, s)
                # `min` lets None ("no expiry" / unset) win and is never what is meant; `max`/`clamp` are only wrong for lifetimes
                # (QueryStats::merge uses max(end, end) where None means "not finished", which is fine)
                if op == "min" or re.search(r"expires|ttl|expiration", txt):
                    hits.append("%s @ %s" % (op, s.loc()))
    ctx.ob("lint", "no Ord::min/max on Option<Instant> (None sorts before Some, so 'no expiry' would win a min)", not hits, hits[0].split(" @ ")[1] if hits else "", "%d min/max call sites inspected; offending: %s" % (n, hits))
    ctx.ob("lint", "floor:min/max call sites inspected", n >= 5, nontrivial=False, msg=str(n))


def check_ttl(ctx, prog):
    lk.record_ttl_clauses(ctx, prog, "ttl")

# thorough-tier sensitivity self-test (vrules/selftest.py): one-edit variants of the source that break the property
MUTANTS = [
    {"name": 'merge: max instead of min', "file": 'protocols/kad/src/behaviour.rs',
     "find": '(Some(received), Some(local)) => Some(received.min(local)),',
     "replace": '(Some(received), Some(local)) => Some(received.max(local)),',
     "expect": '^merge/expiry merge table', "why": 'lifetime extended'},
    {"name": 'ttl clamp to 0', "file": 'protocols/kad/src/protocol.rs',
     "find": '                        .max(1)\n',
     "replace": '                        .max(0)\n',
     "expect": '^ttl/every encoded ttl', "why": 'sub-second lifetime sent as no expiry'},
    {"name": 'decode: ttl > 1', "file": 'protocols/kad/src/protocol.rs',
     "find": 'let expires = if record.ttl > 0 {',
     "replace": 'let expires = if record.ttl > 1 {',
     "expect": '^ttl/decode: no expiry only for ttl == 0', "why": 'ttl 1 decoded as no expiry'},
]
