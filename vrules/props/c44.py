"""C44 Kademlia wire codec: variant <-> MessageType tables in both directions, per-field flow agreement, panic inventory of the decode path — tables (K7/K11), origin (K5), panic inventory (K10)."""
import re

from .. import lib, mir
from .. import lib_kad as lk
from ..mir import render, strip_generics
from ..lib_kad import R, K

EXPLANATION = (
    "Encoders req_msg_to_proto / resp_msg_to_proto: for every arm of the match on the message the `type` written into proto::Message is extracted; "
    "decoders proto_to_req_msg / proto_to_resp_msg: for every arm of the match on the decoded MessageType the constructed variant (or Err) is extracted; "
    "the two tables must be inverse (decode(encode(V)) = V for all 6 request and 5 response variants, Pong <-> Ping, a response of type AddProvider "
    "is an error), MessageType::try_from(i32) / ConnectionType::try_from(i32) map exactly the enum's own discriminant values and everything else to "
    "Err, the ConnectionType conversions are the identity on names in both directions. Field flow: for every variant field X the decoder reads it from a "
    "proto field that the encoder filled from X (closer_peers/provider_peers/key/record/value cannot be crossed). KadPeer: id <-> node_id.to_bytes, "
    "addrs <-> multiaddrs, connection <-> connection_ty. The Codec hands B::try_from(decoded message) through, errors included. Panic inventory over "
    "Codec::decode, proto_to_req_msg, proto_to_resp_msg, record_from_proto, KadPeer::try_from, their closures and crate-local callees (depth 3): "
    "no unwrap/expect/index/slice/assert site; the single `Instant + Duration` is bounded by a u32 number of seconds. Expiry presence round trip "
    "(shared with C42): every ttl record_to_proto can write for `expires = Some(_)` is >= 1 and record_from_proto maps ttl > 0 to Some, ttl == 0 to None.")
ASSUMPTIONS = ["prost / prost_codec length-delimited decoding returns Err (not panic) on malformed bytes (external crates; prost_codec is checked by its own property)",
               "value-level round trip of lossy fields is not claimed: record expiry is re-based on the receiver's clock in whole seconds, multiaddrs gain a /p2p suffix"]
TECHNIQUE = ("All patterns are evaluated on a normalised view of the MIR facts (vrules/lib_kad.canon): parameters by position, every "
             "single-definition local expanded to its initialiser, closure captures by index, trivial crate-local helpers (accessors, one-comparison "
             "predicates, one-line constructors) replaced by their bodies, private fields resolved by their type, comparisons normalised over operand "
             "order / mirrored operators / method-call form / `!`, guard sets closed under bool hoisting. Behaviour-preserving refactorings that must stay "
             "silent are archived in /verif/neutral/kad (01-12 and x1-author-combinators.diff).")
SELFTEST = [
    {"mutation": "resp_msg_to_proto: FindNode encoded with MessageType::GetProviders", "caught_by": "table/response: decode(encode(FindNode)) = FindNode"},
    {"mutation": "proto_to_req_msg: GetValue arm builds GetProviders", "caught_by": "table/request: decode(encode(GetValue)) = GetValue"},
    {"mutation": "proto_to_resp_msg GetProviders: closer_peers read from message.provider_peers", "caught_by": "fields/response GetProviders.closer_peers is decoded from the field it was encoded into"},
    {"mutation": "record_from_proto: PeerId::from_bytes(..).unwrap() instead of map_err", "caught_by": "nopanic/decode path: panic-capable `unwrap` sites <= 0"},
    {"mutation": "From<KadPeer> for proto::Peer: id from a different peer field", "caught_by": "fields/KadPeer encode"},
    {"mutation": "seeded C44: `.max(1)` clamp dropped in record_to_proto (sub-second lifetime -> ttl 0 -> decodes as no expiry)", "caught_by": "expiry/every encoded ttl of a record with an expiry is >= 1"},
]

P = r"^libp2p_kad::protocol::"
MT = r"MessageType::(\w+)::\{constant#0\}"


def raw_body(ctx, pat):
    """Exactly one body whose *raw* def path matches (impls of foreign traits on foreign-module types collapse to `module::from` once
    generics are stripped, so they are selected on the unstripped path)."""
    hits = [b for b in ctx.prog.bodies(K) if re.search(pat, b.path)]
    if len(hits) != 1:
        raise mir.RuleError("raw anchor %r: %d bodies" % (pat, len(hits)))
    ctx.bodies.add(hits[0].npath)
    return hits[0]


def deep_text(b, e, depth=0, seen=None):
    """render(e) plus the renderings of all definitions of multi-def / partially assigned locals occurring in it
    (match results, `vec![..]` boxes)."""
    seen = seen if seen is not None else set()
    out = [render(e)]
    if depth > 6:
        return " ".join(out)
    for x in mir.walk(e):
        if x[0] == "call":
            # a value built in place through a reference-like temporary (`vec![..]` box): include what is written through it
            for l, ds in b.defs.items():
                if isinstance(l, int) and len(ds) == 1 and ds[0][0] == "call" and ds[0][1] == x[3] and b.defs.get((l, "partial")) and ("p", l) not in seen:
                    seen.add(("p", l))
                    for d in b.defs[(l, "partial")]:
                        if d[0] == "stmt":
                            out.append(deep_text(b, b.rvalue_expr(d[3]), depth + 1, seen))
        if x[0] == "local" and x[1] not in seen:
            seen.add(x[1])
            for d in b.defs.get(x[1], []) + b.defs.get((x[1], "partial"), []):
                if d[0] == "stmt":
                    out.append(deep_text(b, b.rvalue_expr(d[3]), depth + 1, seen))
                elif d[0] == "call":
                    out.append(deep_text(b, b.call_expr(d[3], d[1]), depth + 1, seen))
    return " ".join(out)


def arm_table(b, switch_pat):
    """label -> (arm entry bb) for the first switch whose condition matches."""
    for bi in sorted(b.live):
        info = b.switch_info(bi)
        if info and re.search(switch_pat, render(info[0])):
            out = {}
            for t, ls in info[1].items():
                for l in ls:
                    out[l] = t
            return bi, out
    return None, {}


def arm_sites(b, sw, tgt, sites):
    """sites that belong to the arm entered at tgt (dominated by it, or reachable only through it from the switch)."""
    others = set()
    info = b.switch_info(sw)[1]
    for t in info:
        if t != tgt:
            others |= b.reachable([t])
    reach = b.reachable([tgt])
    return [s for s in sites if s.bb in reach and s.bb not in others]


def encoder_table(ctx, b, adt_pat):
    sw, arms = arm_table(b, r"^discr\(#1\)$")
    ags = b.agg_sites(r"proto::dht_pb::Message$")
    tab, fields = {}, {}
    for v, t in arms.items():
        mine = arm_sites(b, sw, t, ags)
        if len(mine) != 1:
            tab[v] = "?%d messages" % len(mine)
            continue
        e = b.site_expr(mine[0])
        f = dict(e[4])
        m = re.search(MT, render(f.get("type", ("unknown", "?"))))
        tab[v] = m.group(1) if m else "?" + render(f.get("type", ("unknown", "?")))[:60]
        fl = {}
        for name, fe in f.items():
            xs = set(re.findall(r"#1@%s\.(\w+)" % v, deep_text(b, fe)))
            if xs:
                fl[name] = xs
        fields[v] = fl
    return tab, fields


def decoder_table(ctx, b, adt_pat):
    sw, arms = None, {}
    for bi in sorted(b.live):       # the match on the decoded MessageType (reached through `?`, `match`, `let-else`, ...)
        info = b.switch_info(bi)
        if info and "MessageType as std::convert::TryFrom>::try_from(#1.type)" in render(info[0]):
            labs = {l for ls in info[1].values() for l in ls}
            if {"Ping", "FindNode", "GetValue", "PutValue"} <= labs:
                sw, arms = bi, {l: t for t, ls in info[1].items() for l in ls}
                break
    rets = lk.ret_sites(b)
    tab, fields = {}, {}
    for t_name, t in arms.items():
        mine = arm_sites(b, sw, t, rets)
        oks, errs = [], 0
        for s in mine:
            e = b.site_expr(s)
            vs = [x for x in mir.walk(e) if x[0] == "agg" and x[1] == "adt" and re.search(adt_pat, strip_generics(x[2]))]
            if e[0] == "agg" and e[3] == "Ok" and vs:
                oks.append(vs[0])
            elif (e[0] == "agg" and e[3] == "Err") or (e[0] == "call" and "from_residual" in e[1]):
                errs += 1
            else:
                oks.append(("agg", "adt", "?", "?" + render(e)[:40], ()))
        names = sorted({x[3] for x in oks})
        tab[t_name] = names[0] if len(names) == 1 else ("Err" if not names and errs else "?%s" % names)
        for x in oks:
            fl = {}
            for name, fe in x[4]:
                fl[name] = set(re.findall(r"#1\.(\w+)", deep_text(b, fe)))
            fields[x[3]] = fl
    return tab, fields


def check(ctx):
    prog = lk.canon(ctx)
    mir.RENDER_MAX[0] = 40
    try:
        check_tables(ctx, prog)
        check_enums(ctx, prog)
        check_peer(ctx, prog)
    finally:
        mir.RENDER_MAX[0] = 14
    # a record with an expiry round-trips as a record with an expiry (encoder never writes ttl 0 for Some, decoder maps >0 -> Some, 0 -> None);
    # the clauses are shared with C42
    lk.record_ttl_clauses(ctx, prog, "expiry")
    check_nopanic(ctx, prog)


def check_tables(ctx, prog):
    for kind, enc_fn, dec_fn, adt, alias, n in (("request", "req_msg_to_proto", "proto_to_req_msg", r"protocol::KadRequestMsg$", {}, 6),
                                               ("response", "resp_msg_to_proto", "proto_to_resp_msg", r"protocol::KadResponseMsg$", {"Pong": "Ping"}, 5)):
        enc = ctx.body(K, P + enc_fn + "$")
        dec = ctx.body(K, P + dec_fn + "$")
        et, ef = encoder_table(ctx, enc, adt)
        dt, df = decoder_table(ctx, dec, adt)
        a = prog.adt(K, adt)
        variants = [v["name"] for v in a["variants"]]
        ctx.ob("table", "floor:%s tables extracted" % kind, len(et) == n and len(dt) == 6 and sorted(et) == sorted(variants), lk.where(enc), nontrivial=False, msg="encode %s | decode %s" % (et, dt))
        for v in variants:
            t = et.get(v, "?")
            want_t = alias.get(v, v)
            ctx.ob("table", "%s: %s is encoded as MessageType::%s" % (kind, v, want_t), t == want_t, lk.where(enc), "encoder arm %s writes type %s" % (v, t))
            back = dt.get(t, "?")
            ctx.ob("table", "%s: decode(encode(%s)) = %s" % (kind, v, v), back == v, lk.where(dec), "encode %s -> MessageType::%s; decode MessageType::%s -> %s" % (v, t, t, back))
        used = set(et.values())
        ctx.ob("table", "%s: no two variants share a message type" % kind, len(used) == len(et), lk.where(enc), str(et))
        for t, v in sorted(dt.items()):
            if t not in used:
                ctx.ob("table", "%s: MessageType::%s has no encoder arm, so it decodes to an error" % (kind, t), v == "Err", lk.where(dec), "decode MessageType::%s -> %s" % (t, v))
        # field flow
        for v in variants:
            fld = [f["n"] for x in a["variants"] if x["name"] == v for f in x["fields"]]
            for x in fld:
                enc_into = {F for F, xs in ef.get(v, {}).items() if x in xs}
                dec_from = df.get(v, {}).get(x, set())
                ok = bool(dec_from) and dec_from <= enc_into
                ctx.ob("fields", "%s %s.%s is decoded from the field it was encoded into" % (kind, v, x), ok, lk.where(dec), "encoded into proto field(s) %s, decoded from %s" % (sorted(enc_into), sorted(dec_from)))
    # entry points delegate
    for pat, want in ((r"protocol::KadRequestMsg as std::convert::TryFrom>::try_from$", "libp2p_kad::protocol::proto_to_req_msg(#1)"),
                      (r"protocol::KadResponseMsg as std::convert::TryFrom>::try_from$", "libp2p_kad::protocol::proto_to_resp_msg(#1)")):
        b = ctx.body(K, pat)
        rs = [R(b, s) for s in lk.ret_sites(b)]
        ctx.ob("table", "TryFrom<proto::Message> delegates to the table function", rs == [want], lk.where(b), str(rs))
    froms = [raw_body(ctx, r"impl std::convert::From<protocol::KadRequestMsg> for proto::dht_pb::Message>::from$"), raw_body(ctx, r"impl std::convert::From<protocol::KadResponseMsg> for proto::dht_pb::Message>::from$")]
    rs = sorted(R(b, s) for b in froms for s in lk.ret_sites(b))
    ctx.ob("table", "From<Kad*Msg> for proto::Message delegate to the table functions", rs == ["libp2p_kad::protocol::req_msg_to_proto(#1)", "libp2p_kad::protocol::resp_msg_to_proto(#1)"], msg=str(rs))
    CODEC = lk.fld(prog, r"protocol::Codec$", r"^prost_codec::Codec<")
    cd = ctx.body(K, r"protocol::Codec as asynchronous_codec::Decoder>::decode$")
    t = " ".join(R(cd, s) for s in cd.call_sites())
    ok = "std::option::Option::map(" in t and "fn:std::convert::TryFrom::try_from" in t and "std::option::Option::transpose(" in t and "prost_codec::Codec as asynchronous_codec::Decoder>::decode(self.%s, #2)" % CODEC in t
    ctx.ob("table", "Codec::decode = inner decode, then B::try_from on the message, errors propagated", ok, lk.where(cd), t[:300])
    ce = ctx.body(K, r"protocol::Codec as asynchronous_codec::Encoder>::encode$")
    t = " ".join(R(ce, s) for s in ce.call_sites())
    ctx.ob("table", "Codec::encode = item.into() then inner encode", "asynchronous_codec::Encoder>::encode(self.%s, std::convert::Into::into(#2), #3)" % CODEC in t, lk.where(ce), t[:300])


def int_table(b):
    """switch on the integer argument -> {int|'otherwise': rendered result}"""
    for bi in sorted(b.live):
        info = b.switch_info(bi)
        if info and render(info[0]) == "#1":
            out = {}
            for t, ls in info[1].items():
                vals = sorted({R(b, s) for s in lk.ret_sites(b) if s.bb in b.reachable([t])})
                for l in ls:
                    out[l] = vals
            return out
    return {}


def check_enums(ctx, prog):
    for en in ("MessageType", "ConnectionType"):
        a = prog.adt(K, r"dht_pb::message::%s$" % en)
        discr = {v["name"]: v["discr"] for v in a["variants"]}
        b = ctx.body(K, r"dht_pb::message::%s as std::convert::TryFrom>::try_from$" % en)
        tab = int_table(b)
        want = {d: ["std::result::Result::Ok{0: libp2p_kad::proto::dht_pb::message::%s::%s{}}" % (en, n)] for n, d in discr.items()}
        ok = all(tab.get(d) == v for d, v in want.items()) and len(tab) == len(want) + 1 and all("Result::Err" in x for x in tab.get("otherwise", ["?"]))
        ctx.ob("enum", "%s::try_from(i32) maps each discriminant to its own variant, everything else to Err" % en, ok, lk.where(b), "discriminants %s; table %s" % (discr, {k: [x.split("::")[-1] for x in v] for k, v in tab.items()}))
    mt = {v["name"]: v["discr"] for v in prog.adt(K, r"dht_pb::message::MessageType$")["variants"]}
    ctx.ob("enum", "wire values of MessageType (PUT_VALUE 0 .. PING 5)", mt == {"PutValue": 0, "GetValue": 1, "AddProvider": 2, "GetProviders": 3, "FindNode": 4, "Ping": 5}, msg=str(mt))
    for pat, src, dst in ((r"^libp2p_kad::<protocol::ConnectionType as std::convert::From<proto::dht_pb::message::ConnectionType>>::from$", "proto::dht_pb::message::ConnectionType", "protocol::ConnectionType"),
                          (r"impl std::convert::From<protocol::ConnectionType> for proto::dht_pb::message::ConnectionType>::from$", "protocol::ConnectionType", "proto::dht_pb::message::ConnectionType")):
        b = raw_body(ctx, pat)
        sw, arms = arm_table(b, r"^discr\(#1\)$")
        tab = {}
        for v, t in arms.items():
            vals = sorted({R(b, s) for s in arm_sites(b, sw, t, lk.ret_sites(b))})
            tab[v] = vals
        ok = len(tab) == 4 and all(vals == ["libp2p_kad::%s::%s{}" % (dst, v)] for v, vals in tab.items())
        ctx.ob("enum", "ConnectionType %s -> %s is the identity on names" % (src.split("::")[0], dst.split("::")[0]), ok, lk.where(b), str({k: [x.split("::")[-1] for x in v] for k, v in tab.items()}))


def check_peer(ctx, prog):
    enc = raw_body(ctx, r"impl std::convert::From<protocol::KadPeer> for proto::dht_pb::message::Peer>::from$")
    ags = enc.agg_sites(r"dht_pb::message::Peer$")
    ctx.floor("fields", "proto::Peer construction", ags, 1, exact=True)
    for s in ags:
        f = {k: render(v) for k, v in enc.site_expr(s)[4]}
        ok = f.get("id") == "libp2p_core::PeerId::to_bytes(#1.node_id)" and "#1.multiaddrs" in f.get("addrs", "") and "#1.node_id" not in f.get("addrs", "") and "#1.connection_ty" in f.get("connection", "") and "as i32" in f.get("connection", "")
        ctx.ob("fields", "KadPeer encode: id <- node_id, addrs <- multiaddrs, connection <- connection_ty", ok, s.loc(), str(f)[:400])
    dec = ctx.body(K, r"protocol::KadPeer as std::convert::TryFrom>::try_from$")
    oks = [s for s in dec.agg_sites(r"^libp2p_kad::protocol::KadPeer$")]
    ctx.floor("fields", "KadPeer construction", oks, 1, exact=True)
    for s in oks:
        f = {k: render(v) for k, v in dec.site_expr(s)[4]}
        ok = "libp2p_core::PeerId::from_bytes(" in f.get("node_id", "") and "#1.id" in f.get("node_id", "") and "#1.connection" in f.get("connection_ty", "") and "ConnectionType as std::convert::TryFrom>::try_from(#1.connection)" in f.get("connection_ty", "")
        ctx.ob("fields", "KadPeer decode: node_id <- id, connection_ty <- connection", ok, s.loc(), str(f)[:400])
    it = [R(dec, s) for s in dec.call_sites(r"IntoIterator>::into_iter$")]
    ctx.ob("fields", "KadPeer decode: multiaddrs <- addrs", any("#1.addrs" in x for x in it), lk.where(dec), str(it)[:200])
    pushes = dec.call_sites(r"Vec::push$")
    for s in pushes:
        ctx.guarded("fields", "KadPeer decode: only successfully parsed addresses are kept", s, lambda c, r, l: l == "Ok" and "libp2p_core::Multiaddr as std::convert::TryFrom>::try_from(" in r, "Multiaddr::try_from(addr) is Ok")
    ctx.floor("fields", "address push", pushes, 1)


def check_nopanic(ctx, prog):
    ents = [ctx.body(K, P + r"proto_to_req_msg$"), ctx.body(K, P + r"proto_to_resp_msg$"), ctx.body(K, P + r"record_from_proto$"),
            ctx.body(K, r"protocol::KadPeer as std::convert::TryFrom>::try_from$"), ctx.body(K, r"protocol::Codec as asynchronous_codec::Decoder>::decode$"),
            ctx.body(K, r"protocol::KadRequestMsg as std::convert::TryFrom>::try_from$"), ctx.body(K, r"protocol::KadResponseMsg as std::convert::TryFrom>::try_from$")]
    inv, seen = lib.panic_inventory(prog, K, ents, depth=3)
    ctx.ob("nopanic", "floor:decode path bodies", len(seen) >= 20, nontrivial=False, msg="%d bodies" % len(seen))
    ceil = {"time": (1, "record_from_proto: Instant::now() + Duration::from_secs(ttl as u64) with ttl a u32 (< 2^32 s ~ 136 years), inside every platform's Instant range")}
    counts = lib.check_inventory(ctx, "nopanic", "decode path", inv, ceil, seen)
    for k in ("unwrap", "index", "panic", "buf", "slice", "vecidx", "str", "assert:bounds"):
        ctx.ob("nopanic", "decode path: panic-capable `%s` sites <= 0" % k, len(counts.get(k, [])) == 0, counts[k][0][2].loc() if counts.get(k) else "", "%d site(s) %s" % (len(counts.get(k, [])), [("%s in %s" % (d, b.short[-40:])) for b, d, s in counts.get(k, [])][:4]))
    for b, k, det, s in inv:
        if k == "time":
            t = R(b, s)
            ctx.ob("nopanic", "the only Instant arithmetic adds a u32 number of seconds", t == "<web_time::Instant as std::ops::Add>::add(web_time::Instant::now(), web_time::Duration::from_secs((#1.ttl as u64)))", s.loc(), t)
    a = prog.adt(K, r"dht_pb::Record$")
    ty = {f["n"]: f["ty"] for f in a["variants"][0]["fields"]}
    ctx.ob("nopanic", "proto::Record.ttl is a u32", ty.get("ttl") == "u32", msg=str(ty.get("ttl")))
    # overflow asserts on attacker-controlled arithmetic
    ov = []
    by_path = {b.npath: b for b in prog.bodies(K)}
    for p in seen:
        b = by_path[p]
        for bi in sorted(b.live):
            t = b.blocks[bi]["term"]
            if t and t["k"] == "assert" and t["msg"].startswith("overflow"):
                ov.append("%s@%s" % (t["msg"], mir.Site(b, bi).loc()))
    ctx.ob("nopanic", "no checked arithmetic (overflow assert) on decoded data", not ov, msg=str(ov)[:300])

# thorough-tier sensitivity self-test (vrules/selftest.py): one-edit variants of the source that break the property
MUTANTS = [
    {"name": 'response FindNode encoded as GetProviders', "file": 'protocols/kad/src/protocol.rs',
     "find": '        KadResponseMsg::FindNode { closer_peers } => proto::Message {\n            r#type: proto::MessageType::FindNode as i32,',
     "replace": '        KadResponseMsg::FindNode { closer_peers } => proto::Message {\n            r#type: proto::MessageType::GetProviders as i32,',
     "expect": '^table/response: decode\\(encode\\(FindNode\\)\\)', "why": 'FindNode decodes as GetProviders'},
    {"name": 'publisher parsed with unwrap', "file": 'protocols/kad/src/protocol.rs',
     "find": '        PeerId::from_bytes(&record.publisher)\n            .map(Some)\n            .map_err(|_| invalid_data("Invalid publisher peer ID."))?',
     "replace": '        Some(PeerId::from_bytes(&record.publisher).unwrap())',
     "expect": '^nopanic/decode path: panic-capable `unwrap`', "why": 'remote-triggered panic'},
    {"name": 'request GetValue decoded as GetProviders', "file": 'protocols/kad/src/protocol.rs',
     "find": '        proto::MessageType::GetValue => Ok(KadRequestMsg::GetValue {\n            key: record::Key::from(message.key),\n        }),',
     "replace": '        proto::MessageType::GetValue => Ok(KadRequestMsg::GetProviders {\n            key: record::Key::from(message.key),\n        }),',
     "expect": '^table/request: decode\\(encode\\(GetValue\\)\\)', "why": 'wrong variant'},
    {"name": 'ttl clamp dropped', "file": 'protocols/kad/src/protocol.rs',
     "find": '                        .unwrap_or(u32::MAX)\n                        .max(1)\n',
     "replace": '                        .unwrap_or(u32::MAX)\n',
     "expect": '^expiry/every encoded ttl', "why": 'expiry lost in the round trip'},
]
