"""C56 WebRTC stream half-close state machine is safe — exact cell evaluation of the State functions over all 13 concrete states (K7), table closure, call-site domination (K1/K3/K4), panic inventory (K10)."""
import re

from .. import lib, lib_mux, mir
from ..mir import render
from ..lib_mux import CellEval, show_val

EXPLANATION = (
    "Every function of stream::state::State is pushed through its MIR once per concrete state (13 states = Open, ReadClosed, WriteClosed, "
    "ClosingRead x {write_closed} x {Requested, MessageSent}, ClosingWrite x {read_closed} x {..}, BothClosed x {reset}) and, for "
    "handle_inbound_flag, per flag; the resulting tables (result, successor state, panic / buffer-clear effects) are compared cell by cell "
    "with the reference tables: read_barrier Ok exactly for {Open, WriteClosed, ClosingWrite{read_closed:false}}, write_barrier Ok exactly "
    "for {Open, ReadClosed, ClosingRead{write_closed:false}}, BothClosed{reset:true} -> ConnectionReset in all four barriers, other "
    "refusals BrokenPipe (or the cross-closing error), close_*_barrier start/continue a close only from the states that own that half, "
    "handle_inbound_flag (Fin/StopSending/Reset rows, Reset clears the buffer and is absorbing), the four `unreachable!`-carrying transition "
    "methods are total exactly on their Closing* variant with the right `inner`. From the extracted (not the reference) tables it is then "
    "derived that: after Reset every barrier fails with ConnectionReset from then on; simulating Stream::poll_close / poll_close_read "
    "(barrier arm -> transition method as extracted from their MIR) from each of the 13 states never reaches a panicking cell; no state "
    "reachable after write_closed() lets close_write_barrier yield Some again (so `expect(\"to not close twice\")` is reached at most once). "
    "Stream: the transition methods are called only from poll_close / poll_close_read, each dominated by the barrier arm that makes it total "
    "and with no other State mutation between barrier and call; socket reads / buffer hand-out in poll_read are dominated by read_barrier's "
    "Ok edge and the barrier is re-evaluated after every inbound flag; start_send in poll_write is dominated by write_barrier's Ok edge "
    "evaluated after the flag-draining loop, which runs only while read_flags_in_async_write (== ReadClosed); close sends Fin / StopSending. "
    "Panic inventory of the Stream entry points is exactly the sites discharged above plus min-bounded slice operations.")
ASSUMPTIONS = ["bounded-exhaustive operation sequences are not executed: safety is an induction over the per-call tables and the call-site structure",
               "poll_flush has no barrier (it is not one of the operations the property lists); FIN received while ClosingWrite{read_closed:false} is ignored (reads stay allowed, table row 'unchanged')",
               "asynchronous_codec::Framed / the data channel are trusted"]
W = "libp2p_webrtc_utils"

SELFTEST = [
    {"mutation": "read_barrier: ReadClosed moved into the Ok arm", "caught_by": "table/read_barrier[ReadClosed]"},
    {"mutation": "write_barrier: BothClosed{reset:true} -> BrokenPipe", "caught_by": "table/write_barrier[BothClosed{reset: true}] + derived/after Reset every barrier reports ConnectionReset"},
    {"mutation": "handle_inbound_flag: (WriteClosed, Fin) -> ReadClosed", "caught_by": "table/handle_inbound_flag[WriteClosed,Fin]"},
    {"mutation": "handle_inbound_flag: Reset arm does not clear the buffer", "caught_by": "table/handle_inbound_flag[*,Reset] clears the read buffer"},
    {"mutation": "close_write_barrier: ReadClosed -> ClosingWrite{read_closed:false}", "caught_by": "table/close_write_barrier[ReadClosed]"},
    {"mutation": "write_closed: read_closed:true -> WriteClosed", "caught_by": "table/write_closed[ClosingWrite{read_closed: true, inner: MessageSent}]"},
    {"mutation": "Stream::poll_close: write_closed() called in the Requested arm instead of close_write_message_sent()", "caught_by": "stream/write_closed only on the MessageSent arm + derived/poll_close never panics"},
    {"mutation": "Stream::poll_read: read_barrier moved out of the loop (before it)", "caught_by": "stream/read_barrier re-evaluated after every inbound flag"},
    {"mutation": "Stream::poll_write: write_barrier moved before the flag-draining loop", "caught_by": "stream/write_barrier evaluated after the last inbound flag"},
    {"mutation": "Stream::poll_close sends StopSending", "caught_by": "stream/poll_close announces Fin"},
    {"mutation": "Stream::poll_read: n = read_buffer.len() (not min with buf.len())", "caught_by": "nopanic/poll_read copy length is min(read_buffer.len(), buf.len())"},
    {"mutation": "Stream::poll_close: handle_inbound_flag(Reset) inserted between the barrier and write_closed()", "caught_by": "stream/no state mutation between close_write_barrier and write_closed"},
    {"mutation": "(neutral, must stay silent) /verif/neutral/mux: 08/09.diff (reordered arms, added trace events), read_barrier `?` -> match", "caught_by": "silent"},
]

R, M = ("Requested", {}), ("MessageSent", {})


def _st(v, **f):
    return (v, f)


STATES = ([_st("Open"), _st("ReadClosed"), _st("WriteClosed")] +
          [_st("ClosingRead", write_closed=w, inner=i) for w in (False, True) for i in (R, M)] +
          [_st("ClosingWrite", read_closed=w, inner=i) for w in (False, True) for i in (R, M)] +
          [_st("BothClosed", reset=False), _st("BothClosed", reset=True)])
FLAGS = ["Fin", "StopSending", "Reset"]
RESET = _st("BothClosed", reset=True)
CLOSED = _st("BothClosed", reset=False)


def norm(v):
    """Normalise 0/1 written by constant aggregates to bools inside State values."""
    if isinstance(v, tuple) and len(v) == 2 and isinstance(v[1], dict):
        return (v[0], {k: (bool(x) if isinstance(x, int) and not isinstance(x, bool) and k in ("read_closed", "write_closed", "reset") else norm(x)) for k, x in v[1].items()})
    return v


def res_kind(ret):
    """Result of a barrier -> 'Ok' / 'Ok(None)' / 'Ok(Some(X))' / 'Err(Kind)'."""
    s = show_val(ret)
    m = re.match(r"^Ok\{0: (.*)\}$", s)
    if m:
        inner = m.group(1)
        if inner in ("tuple", "()"):
            return "Ok"
        if inner == "None":
            return "Ok(None)"
        m2 = re.match(r"^Some\{0: (\w+)\}$", inner)
        return "Ok(Some(%s))" % m2.group(1) if m2 else "Ok(%s)" % inner
    m = re.match(r"^Err\{0: into\((\w+)\)\}$", s)
    if m:
        return "Err(%s)" % m.group(1)
    m = re.match(r"^Err\{0: other\((.*)\)\}$", s)
    if m:
        return "Err(other)"
    return s


# ---------------------------------------------------------------------------- reference tables
def read_half_open(s):
    return s[0] in ("Open", "WriteClosed") or (s[0] == "ClosingWrite" and not s[1]["read_closed"])


def write_half_open(s):
    return s[0] in ("Open", "ReadClosed") or (s[0] == "ClosingRead" and not s[1]["write_closed"])


def ref_barrier(s, half_open):
    if half_open(s):
        return "Ok"
    return "Err(ConnectionReset)" if s == RESET else "Err(BrokenPipe)"


def ref_close_barrier(s, mine, other, own_closed, both_field):
    """mine = 'ClosingWrite' (for close_write) ..; returns (result, successor)."""
    own_flag = "read_closed" if mine == "ClosingWrite" else "write_closed"
    if s[0] == own_closed:
        return "Ok(None)", s
    if s[0] == mine:
        return "Ok(Some(%s))" % s[1]["inner"][0], s
    if s[0] == "Open":
        return "Ok(Some(Requested))", _st(mine, **{own_flag: False, "inner": R})
    if s[0] == ("ReadClosed" if mine == "ClosingWrite" else "WriteClosed"):
        return "Ok(Some(Requested))", _st(mine, **{own_flag: True, "inner": R})
    if s[0] == other:
        return ("Err(BrokenPipe)" if s[1][both_field] else "Err(other)"), s
    return ("Err(ConnectionReset)" if s == RESET else "Err(BrokenPipe)"), s


def ref_flag(s, f):
    if f == "Reset":
        return RESET
    t = {("Open", "Fin"): _st("ReadClosed"), ("WriteClosed", "Fin"): CLOSED, ("Open", "StopSending"): _st("WriteClosed"), ("ReadClosed", "StopSending"): CLOSED}
    return t.get((s[0], f), s)


def check(ctx):
    lib_mux.canon_roles(ctx.prog, 'libp2p_webrtc_utils')
    prog = ctx.prog
    fn = {n: ctx.body(W, r"^libp2p_webrtc_utils::stream::state::State::%s$" % n) for n in
          ("handle_inbound_flag", "write_closed", "close_write_message_sent", "read_closed", "close_read_message_sent", "read_flags_in_async_write",
           "read_barrier", "write_barrier", "close_write_barrier", "close_read_barrier")}
    adt = prog.adt(W, r"stream::state::State$")
    vs = sorted(v["name"] if isinstance(v, dict) else v for v in adt.get("variants", []))
    ctx.ob("table", "State has the six variants the 13-state partition is built from", vs == sorted(["Open", "ReadClosed", "WriteClosed", "ClosingRead", "ClosingWrite", "BothClosed"]), msg=str(vs))
    T = {}

    def run(name, s, extra=None):
        a = {1: s}
        a.update(extra or {})
        r = CellEval(fn[name]).run(a)
        r["state"] = norm(r["args"].get(1))
        return r

    def where(name):
        return "%s:%d" % (fn[name].file, fn[name].line)

    # ---- barriers
    for name, half in (("read_barrier", read_half_open), ("write_barrier", write_half_open)):
        for s in STATES:
            r = run(name, s)
            got = (r["kind"], res_kind(r["ret"]) if r["kind"] == "return" else r["why"], r["state"])
            T[(name, show_val(s))] = got
            ctx.ob("table", "%s[%s]" % (name, show_val(s)), got == ("return", ref_barrier(s, half), s), where(name), "%s -> %s, state %s (reference %s, unchanged)" % (show_val(s), got[1], show_val(got[2]), ref_barrier(s, half)))
    for name, mine, other, own_closed, both in (("close_write_barrier", "ClosingWrite", "ClosingRead", "WriteClosed", "write_closed"), ("close_read_barrier", "ClosingRead", "ClosingWrite", "ReadClosed", "read_closed")):
        for s in STATES:
            r = run(name, s)
            got = (r["kind"], res_kind(r["ret"]) if r["kind"] == "return" else r["why"], r["state"])
            T[(name, show_val(s))] = got
            wres, wst = ref_close_barrier(s, mine, other, own_closed, both)
            ctx.ob("table", "%s[%s]" % (name, show_val(s)), got == ("return", wres, wst), where(name), "%s -> %s, state %s (reference %s, %s)" % (show_val(s), got[1], show_val(got[2]), wres, show_val(wst)))
    # ---- inbound flags
    for s in STATES:
        for f in FLAGS:
            r = run("handle_inbound_flag", s, {2: (f, {}), 3: ("Bytes", {})})
            cleared = any(c.endswith("Bytes::clear") for c in r["calls"])
            T[("flag", show_val(s), f)] = (r["kind"], r["state"], cleared)
            ctx.ob("table", "handle_inbound_flag[%s,%s]" % (show_val(s), f), r["kind"] == "return" and r["state"] == ref_flag(s, f), where("handle_inbound_flag"),
                   "%s + %s -> %s (reference %s)" % (show_val(s), f, show_val(r["state"]), show_val(ref_flag(s, f))))
            ctx.ob("table", "handle_inbound_flag[*,%s] %s the read buffer" % (f, "clears" if f == "Reset" else "keeps"), cleared == (f == "Reset"), where("handle_inbound_flag"),
                   "%s + %s: Bytes::clear called = %s" % (show_val(s), f, cleared))
    # ---- transition methods that carry unreachable!
    trans = {"write_closed": ("ClosingWrite", "read_closed", M, _st("WriteClosed")), "read_closed": ("ClosingRead", "write_closed", M, _st("ReadClosed")),
             "close_write_message_sent": ("ClosingWrite", "read_closed", R, None), "close_read_message_sent": ("ClosingRead", "write_closed", R, None)}
    for name, (var, flag, need, half) in trans.items():
        for s in STATES:
            r = run(name, s)
            T[(name, show_val(s))] = (r["kind"], r["state"])
            live = s[0] == var and s[1]["inner"] == need
            if live:
                if half is not None:
                    want = CLOSED if s[1][flag] else half
                else:
                    want = _st(var, **{flag: s[1][flag], "inner": M})
                ctx.ob("table", "%s[%s]" % (name, show_val(s)), r["kind"] == "return" and r["state"] == want, where(name), "%s -> %s (reference %s)" % (show_val(s), show_val(r["state"]) if r["kind"] == "return" else r["kind"] + ":" + r["why"], show_val(want)))
            else:
                # outside its live cells the method must not silently change the state (it panics, incl. the debug assertion on `inner`)
                ctx.ob("table", "%s[%s]" % (name, show_val(s)), r["kind"] == "panic" or (r["kind"] == "return" and r["state"] == s), where(name), "%s -> %s" % (show_val(s), r["kind"] if r["kind"] != "return" else show_val(r["state"])))
    for s in STATES:
        r = run("read_flags_in_async_write", s)
        T[("rfw", show_val(s))] = (r["kind"], r["ret"])
        ctx.ob("table", "read_flags_in_async_write[%s]" % show_val(s), r["kind"] == "return" and bool(r["ret"]) == (s[0] == "ReadClosed"), where("read_flags_in_async_write"), "%s -> %s" % (show_val(s), r["ret"]))
    unk = sorted({k[0] for k, v in T.items() if v[0] == "unknown"})
    ctx.ob("table", "every cell was decided", not unk, msg="undecided cells in %s" % unk if unk else "%d cells evaluated" % len(T))

    # ---------------------------------------------------------------- derived from the extracted tables
    by = {show_val(s): s for s in STATES}
    # Reset is absorbing and every barrier reports it
    absorbing = all(T[("flag", show_val(RESET), f)][1] == RESET for f in FLAGS)
    barr = {n: T[(n, show_val(RESET))][1] for n in ("read_barrier", "write_barrier", "close_write_barrier", "close_read_barrier")}
    still = all(T[(n, show_val(RESET))][2] == RESET for n in barr)
    ctx.ob("derived", "after Reset every barrier reports ConnectionReset and the state never leaves BothClosed{reset:true}", absorbing and still and set(barr.values()) == {"Err(ConnectionReset)"}, where("handle_inbound_flag"), "%s, absorbing=%s" % (barr, absorbing))
    ctx.ob("derived", "an inbound Reset leads to BothClosed{reset:true} from every state", all(T[("flag", show_val(s), "Reset")][1] == RESET for s in STATES), where("handle_inbound_flag"), "13 states")
    # Stream close loops: arm -> method, extracted from MIR
    pc = ctx.body(W, r"^libp2p_webrtc_utils::<stream::Stream as futures::AsyncWrite>::poll_close$")
    pcr = ctx.body(W, r"^libp2p_webrtc_utils::stream::Stream::poll_close_read$")
    for body, barrier, sent, done in ((pc, "close_write_barrier", "close_write_message_sent", "write_closed"), (pcr, "close_read_barrier", "close_read_message_sent", "read_closed")):
        arms = {}
        for meth in (sent, done):
            for s in body.call_sites(r"stream::state::State::%s$" % meth):
                bsites = body.call_sites(r"stream::state::State::%s$" % barrier)
                labs = [l for t, ls, d_, c in body.guards_on_all_paths(s.bb) for l in ls if l in ("Requested", "MessageSent") and bsites
                        and (lib_mux._core_call(c) or (0, 0, 0, -1))[3] in lib.bbs(bsites)]
                for l in labs:
                    arms.setdefault(l, []).append(meth)
        ok_all, detail = True, []
        for s0 in STATES:
            s, steps = s0, 0
            while steps < 6:
                steps += 1
                k, res, s = T[(barrier, show_val(s))]
                if k != "return":
                    ok_all = False
                    detail.append("%s: barrier %s" % (show_val(s0), k))
                    break
                m = re.match(r"^Ok\(Some\((\w+)\)\)$", res)
                if not m:
                    break
                calls = arms.get(m.group(1), [])
                if len(calls) != 1:
                    ok_all = False
                    detail.append("%s: arm %s calls %s" % (show_val(s0), m.group(1), calls))
                    break
                k2, s2 = T[(calls[0], show_val(s))]
                if k2 != "return":
                    ok_all = False
                    detail.append("%s: %s() on %s %ss" % (show_val(s0), calls[0], show_val(s), k2))
                    break
                s = s2
                if calls[0] == done:
                    break
            else:
                ok_all = False
                detail.append("%s: close does not terminate" % show_val(s0))
        ctx.ob("derived", "%s never panics from any of the 13 states" % body.short.split("::")[-1], ok_all and set(arms) == {"Requested", "MessageSent"}, "%s:%d" % (body.file, body.line),
               "arms %s; %s" % (arms, "; ".join(detail) if detail else "all 13 simulations end in Ok/Err without reaching a panicking cell"))
    # `expect("to not close twice")`: states reachable after write_closed never make close_write_barrier return Some again
    seen, work = set(), [T[("write_closed", show_val(s))][1] for s in STATES if T[("write_closed", show_val(s))][0] == "return" and s[0] == "ClosingWrite" and s[1]["inner"] == M]
    while work:
        s = work.pop()
        if show_val(s) in seen or show_val(s) not in by:
            continue
        seen.add(show_val(s))
        for f in FLAGS:
            work.append(T[("flag", show_val(s), f)][1])
        for n in ("close_write_barrier", "close_read_barrier"):
            if T[(n, show_val(s))][0] == "return":
                work.append(T[(n, show_val(s))][2])
        for n in trans:
            if T[(n, show_val(s))][0] == "return":
                work.append(T[(n, show_val(s))][1])
    again = sorted(x for x in seen if T[("close_write_barrier", x)][1].startswith("Ok(Some"))
    ctx.ob("derived", "once write_closed() ran, close_write_barrier never yields Some again (drop notifier taken at most once)", bool(seen) and not again, where("write_closed"), "states reachable afterwards: %s" % sorted(seen))

    # ---------------------------------------------------------------- Stream structure
    MUT = r"stream::state::State::(handle_inbound_flag|write_closed|read_closed|close_write_message_sent|close_read_message_sent|close_write_barrier|close_read_barrier)$"
    for meth, owner, barrier, arm in (("close_write_message_sent", pc, "close_write_barrier", "Requested"), ("write_closed", pc, "close_write_barrier", "MessageSent"),
                                      ("close_read_message_sent", pcr, "close_read_barrier", "Requested"), ("read_closed", pcr, "close_read_barrier", "MessageSent")):
        callers = prog.callers(W, r"stream::state::State::%s$" % meth)
        ctx.ob("stream", "%s is called from exactly one place" % meth, len(callers) == 1 and callers[0].body is owner, callers[0].loc() if callers else "", str([c.body.short for c in callers]))
        for s in callers:
            b = s.body
            ctx.use(b)
            bs = b.call_sites(r"stream::state::State::%s$" % barrier)
            ae = set().union(*[lib_mux.result_edges(b, x, {arm}) for x in bs]) if bs else set()
            okg = bool(ae) and b.must_pass_edges(s.bb, ae)
            ctx.ob("stream", "%s only on the %s arm" % (meth, arm), okg, s.loc(), ("guard present on all paths: " if okg else "a path reaches this site without the guard: ") + "%s() returned Some(%s)" % (barrier, arm))
            if len(bs) == 1:
                region = b.reachable(b.succ[bs[0].bb], stop_nodes=[s.bb, bs[0].bb]) - {s.bb, bs[0].bb}
                bad = [x for x in b.call_sites(MUT) if x.bb in region and s.bb in b.reachable([x.bb], stop_nodes=[bs[0].bb])]
                bad += [x for x in b.field_write_sites("state") if x.bb in region]
                ctx.ob("stream", "no state mutation between %s and %s" % (barrier, meth), not bad, s.loc(), "%d mutating call(s)/store(s) in between" % len(bad))
            else:
                ctx.ob("stream", "no state mutation between %s and %s" % (barrier, meth), False, s.loc(), "%d barrier calls" % len(bs))
    # poll_read
    pr = lib_mux.canon_args(ctx.body(W, r"^libp2p_webrtc_utils::<stream::Stream as futures::AsyncRead>::poll_read$"), ["self", "cx", "buf"])

    def NS(t):
        return lib_mux.norm_self(t)
    rb = pr.call_sites(r"stream::state::State::read_barrier$")
    ctx.floor("stream", "read_barrier in poll_read", rb, 1, exact=True)
    if not rb:
        raise mir.RuleError("Stream::poll_read: no read_barrier call")
    okr = lib_mux.ok_edges(pr, rb[0])
    prh = lib_mux.inline_view(prog, pr)       # single-use private helpers of poll_read read as if inline
    io = lib_mux.scoped_sites(prog, pr, r"^libp2p_webrtc_utils::stream::io_poll_next$", prh) + lib_mux.scoped_sites(prog, pr, r"bytes::Bytes::split_to$", prh)
    ctx.floor("stream", "socket read + buffer hand-out in poll_read", io, 2)
    flags = pr.call_sites(r"stream::state::State::handle_inbound_flag$")
    ctx.floor("stream", "handle_inbound_flag in poll_read", flags, 2)
    for s, owner, via in io:
        nm = mir.strip_generics(owner.site_expr(s)[1]).split("::")[-1]
        at = s if via is None else via            # where the effect happens in poll_read itself
        ctx.ob("stream", "poll_read: %s only after read_barrier returned Ok" % nm, bool(okr) and pr.must_pass_edges(at.bb, okr), s.loc(), "dominated by the `?`-Continue edge of read_barrier")
        back = pr.reachable([x for f in flags for x in pr.succ[f.bb]], blocked_nodes=[rb[0].bb])
        ctx.ob("stream", "read_barrier re-evaluated after every inbound flag (before %s)" % nm, at.bb not in back, s.loc(), "no path from handle_inbound_flag to this site avoids read_barrier")
    ctx.ob("stream", "poll_read checks the barrier on the live state", NS(render(pr.site_expr(rb[0])[2][0])) == "this.state", rb[0].loc(), render(pr.site_expr(rb[0])[2][0]))
    # poll_write
    pw = lib_mux.canon_args(ctx.body(W, r"^libp2p_webrtc_utils::<stream::Stream as futures::AsyncWrite>::poll_write$"), ["self", "cx", "buf"])
    wb = pw.call_sites(r"stream::state::State::write_barrier$")
    ctx.floor("stream", "write_barrier in poll_write", wb, 1, exact=True)
    if not wb:
        raise mir.RuleError("Stream::poll_write: no write_barrier call")
    okw = lib_mux.ok_edges(pw, wb[0])
    ss = pw.call_sites(r"Sink>::start_send$|SinkExt::start_send_unpin$")
    ctx.floor("stream", "start_send in poll_write", ss, 1)
    wflags = pw.call_sites(r"stream::state::State::handle_inbound_flag$")
    for s in ss:
        ctx.ob("stream", "poll_write: data is sent only after write_barrier returned Ok", bool(okw) and pw.must_pass_edges(s.bb, okw), s.loc(), "dominated by the `?`-Continue edge of write_barrier")
        back = pw.reachable([x for f in wflags for x in pw.succ[f.bb]], blocked_nodes=[wb[0].bb])
        ctx.ob("stream", "write_barrier evaluated after the last inbound flag", s.bb not in back, s.loc(), "no path from handle_inbound_flag to start_send avoids write_barrier")
        e = render(pw.site_expr(s)[2][1])
        ctx.ob("stream", "poll_write sends a data message without flags", "Message{flag: std::option::Option::None{}, message: std::option::Option::Some{0: " in e, s.loc(), e[-120:][:120])
    for s in wflags + pw.call_sites(r"^libp2p_webrtc_utils::stream::io_poll_next$"):
        ctx.guarded("stream", "poll_write drains inbound messages only while the read half is closed", s,
                    lambda c, r, l: "State::read_flags_in_async_write(" in r and ((l == "true" and not r.startswith("Not(")) or (l == "false" and r.startswith("Not("))), "state.read_flags_in_async_write()")
    # close flags
    for body, flag in ((pc, "Fin"), (pcr, "StopSending")):
        sends = body.call_sites(r"SinkExt::start_send_unpin$|Sink>::start_send$")
        ctx.floor("stream", "%s start_send" % body.short.split("::")[-1], sends, 1, exact=True)
        for s in sends:
            e = render(body.site_expr(s)[2][1])
            ctx.ob("stream", "%s announces %s" % (body.short.split("::")[-1], flag), ("message::Flag::%s::" % flag) in e and "message: std::option::Option::None{}" in e, s.loc(), e[:160])
            bsx = body.call_sites(r"stream::state::State::close_(read|write)_barrier$")
            re_ = set().union(*[lib_mux.result_edges(body, x, {"Requested"}) for x in bsx]) if bsx else set()
            ctx.ob("stream", "%s: the flag is sent once, on the Requested arm" % body.short.split("::")[-1], bool(re_) and body.must_pass_edges(s.bb, re_), s.loc(), "barrier returned Some(Requested)")

    # ---------------------------------------------------------------- panic inventory of the entry points
    entries = [pr, pw, pc, pcr, ctx.body(W, r"^libp2p_webrtc_utils::<stream::Stream as futures::AsyncWrite>::poll_flush$"), ctx.body(W, r"^libp2p_webrtc_utils::stream::io_poll_next$")]
    inv, seen_b = lib.panic_inventory(prog, W, entries, depth=1)
    lib.check_inventory(ctx, "nopanic", "Stream entry points", inv, {
        "panic": (11, "4 unreachable! + 6 debug_assert!(inner) in the State transition methods (discharged by table + call-site rules) and debug_assert!(read_buffer.is_empty()) on the empty-buffer path"),
        "unwrap": (1, "drop_notifier.take().expect(..) right after write_closed(): reached at most once (derived rule)"),
        "index": (3, "buf[0..n] / data[..] with n = min(read_buffer.len(), buf.len()); buf[0..n] with n = min(buf.len(), MAX_DATA_LEN)"),
        "slice": (1, "copy_from_slice of two slices of length n"),
        "buf": (1, "read_buffer.split_to(n), n <= read_buffer.len()"),
    }, seen_b)
    md = prog.const(W, r"stream::MAX_DATA_LEN$").get("v")
    PRS = [pr] + [h for _, h in prh]
    mir.RENDER_MAX[0], old = 40, mir.RENDER_MAX[0]
    try:
        # n = the amount split off the read buffer; must be min(read_buffer.len(), buf.len())
        N = None
        for b, k, det, s in inv:
            if b in PRS and k == "buf":
                e = b.site_expr(s)
                N = NS(render(e[2][1]))
                isn = lib_mux.is_min_of(e[2][1], lambda x: NS(render(x)) == "bytes::Bytes::len(this.read_buffer)", lambda x: render(x) == "core::slice::len(buf)")
                ctx.ob("nopanic", "poll_read copy length is min(read_buffer.len(), buf.len())", isn and NS(render(e[2][0])) == "this.read_buffer", s.loc(), NS(render(e))[-150:])
        for b, k, det, s in inv:
            r = NS(render(b.site_expr(s))) if s.si is None else ""
            if b in PRS and k == "buf":
                pass
            elif b in PRS and k == "index":
                ok = N is not None and (r in ("core::slice::index::index_mut(buf, std::ops::Range::Range{start: 0, end: %s})" % N, "core::slice::index::index_mut(buf, std::ops::RangeTo::RangeTo{end: %s})" % N) or r.endswith("std::ops::RangeFull::RangeFull{})"))
                ctx.ob("nopanic", "poll_read slices buf[0..n] and data[..] only", ok, s.loc(), r[-120:])
            elif b in PRS and k == "slice":
                ctx.ob("nopanic", "poll_read copies n bytes into buf[0..n]", N is not None and ("end: %s})" % N) in r and ("split_to(this.read_buffer, %s)" % N) in r, s.loc(), r[-100:])
            elif b is pw and k == "index":
                e = b.site_expr(s)
                rng = e[2][1] if len(e[2]) == 2 else ("unknown", "?")
                end = dict(rng[4]).get("end") if rng[0] == "agg" else None
                ok = render(e[2][0]) == "buf" and end is not None and lib_mux.is_min_of(end, lambda x: render(x) == "core::slice::len(buf)", lambda x: lib_mux.cval(x) == md) and (dict(rng[4]).get("start") is None or lib_mux.cval(dict(rng[4])["start"]) == 0)
                ctx.ob("nopanic", "poll_write slices buf[0..min(buf.len(), MAX_DATA_LEN)]", ok, s.loc(), r[-140:])
            elif k == "unwrap":
                wc = pc.call_sites(r"stream::state::State::write_closed$")
                ctx.ob("nopanic", "the only expect() is the drop-notifier take right after write_closed()", b is pc and "to not close twice" in r and bool(wc) and pc.dominates(wc[0].bb, s.bb), s.loc(), r[-120:])
            elif k == "panic" and b is pr:
                ctx.guarded("nopanic", "debug assertion in poll_read sits on the empty-buffer path", s, lambda c, rr, l: l == "true" and lib_mux.norm_self(rr) == "bytes::Bytes::is_empty(this.read_buffer)", "read_buffer.is_empty() at loop entry")
            elif k == "panic":
                ctx.ob("nopanic", "panic sites outside poll_read belong to the State transition methods", b.short.split("::")[-1] in trans, s.loc(), b.short)
    finally:
        mir.RENDER_MAX[0] = old
    md = prog.const(W, r"stream::MAX_DATA_LEN$").get("v")
    mm = prog.const(W, r"stream::MAX_MSG_LEN$").get("v")
    ctx.ob("nopanic", "MAX_DATA_LEN = MAX_MSG_LEN - varint - protobuf overhead is positive", isinstance(md, int) and isinstance(mm, int) and 0 < md < mm == 16 * 1024, msg="MAX_DATA_LEN=%s MAX_MSG_LEN=%s" % (md, mm))
