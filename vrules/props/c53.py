"""C53 allow and block lists are enforced — polarity tables of Enforce::enforce (K7), enforce-dominates-Ok guards (K1), close-queue pairing (K2), who-may-mutate (K4)."""
import re

from .. import lib, lib_misc as lm, mir
from ..mir import render, strip_generics

EXPLANATION = ("The two impls of the private trait Enforce are the only ones; AllowedPeers::enforce returns Ok only on the `contains == true` "
               "edge and Err on every path of the false edge, BlockedPeers::enforce the converse, both testing the `peer` parameter against "
               "self.peers. handle_established_inbound_connection, handle_established_outbound_connection and "
               "handle_pending_outbound_connection each call enforce(self.state, <their peer argument>); every Ok result is reached only "
               "through the success edge of that call (pending outbound additionally through peer == None), the Err edge never reaches Ok and "
               "returns the `?` residual. block_peer inserts / disallow_peer removes the peer in state.peers and on the `changed` edge pushes "
               "that same peer onto close_connections exactly once and wakes a stored waker; allow_peer / unblock_peer perform the converse set "
               "operation. poll: every popped entry becomes exactly one Ready(ToSwarm::CloseConnection{peer_id: popped, connection: All}); "
               "Pending is returned only on the empty-queue edge and only after the waker was stored. Crate-wide: state.peers is mutated only "
               "by the four list methods, close_connections only by block_peer/disallow_peer (push_back) and poll (pop_front).")
ASSUMPTIONS = ["the Swarm executes ToSwarm::CloseConnection{All} by closing every established connection of the peer and calls the three "
               "handle_* hooks for every connection (C01/C06/C58)",
               "pending inbound connections have no peer id yet; they are checked when established",
               "HashSet / VecDeque semantics",
               "interleavings of list changes and in-flight dials are not executed (the hooks read the list at call time)"]
AB = "libp2p_allow_block_list"
NB = r"<Behaviour as libp2p_swarm::NetworkBehaviour>::"

SELFTEST = [
    {"mutation": "BlockedPeers::enforce: `if !self.peers.contains(peer)`", "caught_by": "polarity/BlockedPeers: Ok only when not listed"},
    {"mutation": "AllowedPeers::enforce: `if self.peers.contains(peer)`", "caught_by": "polarity/AllowedPeers: Ok only when listed"},
    {"mutation": "handle_established_inbound_connection: `let _ = self.state.enforce(&peer);`", "caught_by": "enforce/handle_established_inbound_connection: Ok only after enforce passed"},
    {"mutation": "handle_pending_outbound_connection: enforce call removed", "caught_by": "enforce/floor:handle_pending_outbound_connection enforce call"},
    {"mutation": "block_peer: push_back moved under `if !inserted`", "caught_by": "close/block_peer: newly listed peer queued for closing once"},
    {"mutation": "disallow_peer: push_back removed", "caught_by": "close/floor:disallow_peer push_back"},
    {"mutation": "poll: popped peer dropped, wake_by_ref + return Pending instead of the CloseConnection event",
     "caught_by": "poll/every popped peer yields one CloseConnection"},
    {"mutation": "poll: `self.close_connections.pop_back()` is accepted (order is not part of the property)", "caught_by": "(none, by design)"},
    {"mutation": "unblock_peer additionally clears close_connections", "caught_by": "who/close_connections mutators"},
    {"mutation": "NEUTRAL: rename Enforce/enforce, state, peers, close_connections; `?` rewritten as match / if let Err (neutral/misc/08.diff); debug_assert! (10.diff)",
     "caught_by": "(silent, by design: the private trait, method and fields are resolved by role; lm.result_edges accepts `?`, match, if-let and is_err shapes)"},
    {"mutation": "block_peer: waker.take()/wake() removed", "caught_by": "close/block_peer: stored waker consulted after queueing"},
    {"mutation": "poll: `self.waker = Some(..)` removed", "caught_by": "poll/waker stored before Pending"},
]


def result_defs(body):
    out = []
    for d in body.defs.get(0, []):
        site = mir.Site(body, d[1], d[2])
        if d[0] == "stmt":
            e = body.rvalue_expr(d[3])
            if e[0] == "agg" and e[1] == "adt" and strip_generics(e[2]).endswith("result::Result") and e[3] in ("Ok", "Err"):
                out.append((e[3], site))
            else:
                out.append(("other:" + render(e)[:60], site))
        else:
            n = strip_generics(body.call_name(d[3]))
            out.append(("residual" if n.endswith("FromResidual>::from_residual") else "other:" + n, site))
    return out


def norm_edges(body, pred):
    """Edges (bb, tgt) of switches; pred(cond, label) evaluated after stripping `Not`."""
    out = set()
    for bi in body.live:
        info = body.switch_info(bi)
        if not info:
            continue
        for tgt, ls in info[1].items():
            if not ls:
                continue
            ok = True
            for l in ls:
                c, lab = info[0], l
                while c[0] == "un" and c[1] == "Not" and lab in ("true", "false"):
                    c, lab = c[2], ("false" if lab == "true" else "true")
                if not pred(c, lab):
                    ok = False
            if ok:
                out.add((bi, tgt))
    return out


def check(ctx):
    prog = ctx.prog
    # ------------------------------------------------------------------ roles (private names are resolved, never spelled out)
    # the private enforcement trait = the crate-local trait implemented by the two public list types
    local = [i for i in prog.impls(AB) if (i.get("trait") or "").startswith("libp2p_allow_block_list::") and i["self"] in ("AllowedPeers", "BlockedPeers")]
    traits = {i["trait"] for i in local}
    if len(traits) != 1:
        raise mir.RuleError("enforcement trait: expected one crate-local trait implemented by AllowedPeers and BlockedPeers, found %s" % sorted(traits))
    TRAIT = traits.pop()
    imps = prog.impls(AB, "^" + re.escape(TRAIT) + "$")
    ctx.ob("polarity", "the enforcement trait is implemented by exactly AllowedPeers and BlockedPeers", sorted(i["self"] for i in imps) == ["AllowedPeers", "BlockedPeers"],
           msg="%s: %s" % (TRAIT, [i["self"] for i in imps]))
    meths = {i["self"]: [x for x in i.get("items", []) if prog.find(AB, "^" + re.escape(strip_generics(x)) + "$")] for i in imps}
    if any(len(v) != 1 for v in meths.values()):
        raise mir.RuleError("enforcement trait %s: expected exactly one method per impl, found %s" % (TRAIT, meths))
    METHOD = strip_generics(meths["AllowedPeers"][0]).rsplit("::", 1)[1]
    ENF = "^" + re.escape(TRAIT + "::" + METHOD) + "$"
    STATE = lm.field_by_type(prog, AB, r"^libp2p_allow_block_list::Behaviour$", r"^S$")
    QUEUE = lm.field_by_type(prog, AB, r"^libp2p_allow_block_list::Behaviour$", r"VecDeque<.*PeerId>")
    WAKER = lm.field_by_type(prog, AB, r"^libp2p_allow_block_list::Behaviour$", r"Option<std::task::Waker>")
    PEERS = {ty: lm.field_by_type(prog, AB, r"^libp2p_allow_block_list::%s$" % ty, r"HashSet<.*PeerId>") for ty in ("AllowedPeers", "BlockedPeers")}
    ctx.note("roles: trait=%s method=%s state=%s queue=%s waker=%s peers=%s" % (TRAIT, METHOD, STATE, QUEUE, WAKER, PEERS))
    # ------------------------------------------------------------------ polarity of the two impls
    for ty, listed_ok in (("AllowedPeers", True), ("BlockedPeers", False)):
        b = ctx.body(AB, "^" + re.escape(strip_generics(meths[ty][0])) + "$")
        SET, PEER = "self." + PEERS[ty], lm.pname(b, 2)
        where = "%s:%d" % (b.file, b.line)
        res = result_defs(b)
        oks = [s for k, s in res if k == "Ok"]
        errs = [s for k, s in res if k == "Err"]
        ctx.ob("polarity", ty + ": results are Ok or Err", all(k in ("Ok", "Err") for k, _ in res) and oks and errs, where, str([k for k, _ in res]))

        def is_contains(c):
            return c[0] == "call" and strip_generics(c[1]) == "std::collections::HashSet::contains" and render(c[2][0]) == SET and render(c[2][1]) == PEER
        listed = norm_edges(b, lambda c, l: is_contains(c) and l == "true")
        unlisted = norm_edges(b, lambda c, l: is_contains(c) and l == "false")
        ctx.ob("polarity", "floor:%s membership test self.peers.contains(peer)" % ty, len(listed) == 1 and len(unlisted) == 1, where,
               "%s / %s" % (sorted(listed), sorted(unlisted)), nontrivial=False)
        admit, deny = (listed, unlisted) if listed_ok else (unlisted, listed)
        what = "listed" if listed_ok else "not listed"
        for s in oks:
            ok = bool(admit) and b.must_pass_edges(s.bb, admit)
            ctx.ob("polarity", "%s: Ok only when %s" % (ty, what), ok, s.loc(),
                   "Ok is reached only through the `%s` edge of self.peers.contains(peer)" % what if ok else "Ok is reachable for a peer that is %s" % ("not listed" if listed_ok else "listed"))
        if deny:
            st = [t for _, t in deny]
            got = lib.count_range(b, st, b.return_blocks(), lib.bbs(oks))
            ctx.ob("polarity", "%s: %s peer never gets Ok" % (ty, "unlisted" if listed_ok else "listed"), got == (0, 0), where, "Ok results on the denying edge: %s" % (got,))
            got = lib.count_range(b, st, b.return_blocks(), lib.bbs(errs))
            ctx.ob("polarity", "%s: %s peer gets Err" % (ty, "unlisted" if listed_ok else "listed"), got == (1, 1), where, "Err results on the denying edge: %s" % (got,))

    # ------------------------------------------------------------------ enforcement sites: the trait method itself or a private wrapper around it
    def direct_sites(b):
        out = []
        for st in b.call_sites(ENF):
            e = b.site_expr(st)
            out.append((st, e[2][1], render(e[2][0]) in ("self." + STATE, "^self." + STATE, "^*self." + STATE)))
        return out
    WRAP = {}     # npath -> (body, index of the parameter whose verdict it returns)
    for _ in range(3):
        for wb in prog.bodies(AB):
            if wb.npath in WRAP or wb.parent or lm.is_api(wb):
                continue
            sites = direct_sites(wb) + [(st, wb.site_expr(st)[2][WRAP[n][1] - 1], render(wb.site_expr(st)[2][0]) == "self")
                                        for n in list(WRAP) for st in wb.call_sites("^" + re.escape(n) + "$")]
            for st, pe, recv_ok in sites:
                if not recv_ok or pe[0] != "arg":
                    continue
                rr = lm.ret_exprs(wb)
                tail = len(rr) == 1 and rr[0][2][0] == "call" and rr[0][2][3] == st.bb
                okr = [x for k, x in result_defs(wb) if k == "Ok"]
                cont, brk = lm.result_edges(wb, st)
                if tail or (okr and cont and all(wb.must_pass_edges(o.bb, cont) for o in okr) and lib.count_range(wb, [0], wb.return_blocks(), [st.bb]) == (1, 1)):
                    WRAP[wb.npath] = (wb, pe[1])
                    ctx.use(wb)
    if WRAP:
        ctx.note("private enforcement wrappers: %s" % sorted(x.split("::")[-1] for x in WRAP))

    def enf_sites(b):
        return direct_sites(b) + [(st, b.site_expr(st)[2][WRAP[n][1] - 1], render(b.site_expr(st)[2][0]) == "self") for n in WRAP for st in b.call_sites("^" + re.escape(n) + "$")]

    # ------------------------------------------------------------------ the three hooks
    for fn, none_ok in (("handle_established_inbound_connection", False), ("handle_established_outbound_connection", False),
                        ("handle_pending_outbound_connection", True)):
        b = ctx.body(AB, NB + fn + "$")
        PP = lm.param_by_type(b, r"PeerId")                       # PeerId / Option<PeerId> parameter, whatever its name
        peer_expr = PP + "@Some.0" if none_ok else PP
        where = "%s:%d" % (b.file, b.line)
        rets = b.return_blocks()
        esites = enf_sites(b)
        calls = [x[0] for x in esites]
        ctx.floor("enforce", fn + " enforce call", calls, 1, exact=True)
        res = result_defs(b)
        ctx.ob("enforce", fn + ": results are Ok / Err / `?` residual", all(k in ("Ok", "Err", "residual") for k, _ in res), where, str([k for k, _ in res]))
        oks = [s for k, s in res if k == "Ok"]
        ctx.floor("enforce", fn + " Ok results", oks, 1)
        none_edges = lib.switch_edges_on(b, r"^discr\(%s\)$" % re.escape(PP), {"None"}) if none_ok else set()
        if none_ok:
            ctx.ob("enforce", "floor:%s peer==None edge" % fn, len(none_edges) == 1, where, str(sorted(none_edges)), nontrivial=False)
        for s, pe, recv_ok in esites:
            e = b.site_expr(s)
            ctx.ob("enforce", fn + ": enforces the list on the connection's peer", recv_ok and render(pe) == peer_expr, s.loc(), render(e)[:160])
            cont, brk = lm.result_edges(b, s)     # `?`, match Ok/Err, if let Err, is_err()
            ctx.ob("enforce", "floor:%s pass/deny edges" % fn, len(cont) == 1 and len(brk) == 1, s.loc(), "%s / %s" % (sorted(cont), sorted(brk)), nontrivial=False)
            for o in oks:
                ok = bool(cont) and b.must_pass_edges(o.bb, cont | none_edges)
                ctx.ob("enforce", fn + ": Ok only after enforce passed", ok, o.loc(),
                       "every path to Ok passes the success edge of enforce" + (" or peer == None" if none_ok else "") if ok else
                       "Ok is reachable although enforce(..) did not succeed")
            if brk:
                got = lib.count_range(b, [t for _, t in brk], rets, lib.bbs(oks))
                ctx.ob("enforce", fn + ": denial is returned", got == (0, 0), s.loc(), "Ok results on paths from the Err edge: %s" % (got,))
            if none_ok:
                some = lib.switch_edges_on(b, r"^discr\(%s\)$" % re.escape(PP), {"Some"})
                got = lib.count_range(b, [t for _, t in some], rets, [s.bb]) if some else None
                ctx.ob("enforce", fn + ": known peer is always checked", got == (1, 1), s.loc(), "enforce calls on the Some(peer) edge: %s" % (got,))
            else:
                got = lib.count_range(b, [0], rets, [s.bb])
                ctx.ob("enforce", fn + ": checked on every path", got == (1, 1), s.loc(), "enforce calls on all paths: %s" % (got,))

    # ------------------------------------------------------------------ list changes
    # private queueing helpers: push their own parameter onto the close queue exactly once on every path
    EMIT = {}
    for hb in prog.bodies(AB):
        if hb.parent or lm.is_api(hb) or hb.argc < 2:
            continue
        pb = [x for x in hb.call_sites(r"VecDeque::push_(back|front)$") if render(hb.site_expr(x)[2][0]) == "self." + QUEUE and hb.site_expr(x)[2][1][0] == "arg"]
        if pb and lib.count_range(hb, [0], hb.return_blocks(), lib.bbs(pb)) == (1, 1):
            EMIT[hb.npath] = (hb, pb, hb.site_expr(pb[0])[2][1][1])
            ctx.use(hb)
    CHANGES = {"block_peer": ("insert", True), "disallow_peer": ("remove", True), "allow_peer": ("insert", False), "unblock_peer": ("remove", False)}
    for fn, (op, closes) in CHANGES.items():
        b = ctx.body(AB, r"^libp2p_allow_block_list::Behaviour::%s$" % fn)
        where = "%s:%d" % (b.file, b.line)
        rets = b.return_blocks()
        PEER = lm.pname(b, 2)
        PF = PEERS["AllowedPeers" if fn in ("allow_peer", "disallow_peer") else "BlockedPeers"]
        SETX = "self.%s.%s" % (STATE, PF)
        muts = lib.field_mut_calls(b, PF)
        names = [strip_generics(b.call_name(s.term)) for s in muts]
        ctx.ob("list", "%s: state.peers.%s(peer)" % (fn, op), names == ["std::collections::HashSet::" + op] and
               bool(muts) and [render(a) for a in b.site_expr(muts[0])[2]] == [SETX, PEER], muts[0].loc() if muts else where,
               "set operations: %s" % [render(b.site_expr(s))[:100] for s in muts])
        got = lib.count_range(b, [0], rets, lib.bbs(muts))
        ctx.ob("list", fn + ": set updated on every path", got == (1, 1), where, "set operations on all paths: %s" % (got,))
        pushes = [(s, b.site_expr(s)[2][1]) for s in b.call_sites(r"VecDeque::push_(back|front)$") if render(b.site_expr(s)[2][0]) == "self." + QUEUE]
        pushes += [(s, b.site_expr(s)[2][EMIT[n][2] - 1]) for n in EMIT for s in b.call_sites("^" + re.escape(n) + "$") if render(b.site_expr(s)[2][0]) == "self"]
        queued_peer = dict((s, pe) for s, pe in pushes)
        pushes = [s for s, _ in pushes]
        if not closes:
            continue
        ctx.floor("close", fn + " push_back", pushes, 1, exact=True)
        if not muts:
            continue
        changed = lm.unnot_edges(b, lambda c, r, l: l == "true" and bool(lib.value_leaves(b, c)) and all(x[0] == "call" and x[3] == muts[0].bb for x in lib.value_leaves(b, c)))
        ctx.ob("close", "floor:%s changed edge" % fn, len(changed) == 1, where, str(sorted(changed)), nontrivial=False)
        verb = "newly listed" if fn == "block_peer" else "newly unlisted"
        for _, t in sorted(changed):
            got = lib.count_range(b, [t], rets, lib.bbs(pushes))
            ctx.ob("close", "%s: %s peer queued for closing once" % (fn, verb), got == (1, 1), where, "close_connections.push_back on the changed edge: %s" % (got,))
            # the wake-up may live in the function or inside the queueing helper it calls
            wb, wstart, wrets = b, [t], rets
            helper = [EMIT[strip_generics(b.call_name(s.term))] for s in pushes if strip_generics(b.call_name(s.term)) in EMIT]
            if helper and not [s for s in b.call_sites(r"Option::take$") if render(b.site_expr(s)[2][0]) == "self." + WAKER]:
                wb, wstart, wrets = helper[0][0], helper[0][0].succ[helper[0][1][0].bb], helper[0][0].return_blocks()
            takes = [s for s in wb.call_sites(r"Option::take$") if render(wb.site_expr(s)[2][0]) == "self." + WAKER]
            wakes = wb.call_sites(r"task::Waker::wake(_by_ref)?$")
            got = lib.count_range(wb, wstart, wrets, lib.bbs(takes))
            ctx.ob("close", fn + ": stored waker consulted after queueing", got == (1, 1), where, "self.waker.take() on the changed edge: %s" % (got,))
            b_, rets_ = b, rets
            b, rets = wb, wrets
            for tk in takes:
                some = lib.switch_edges_on_site(b, tk, {"Some"}, r"^discr\(std::option::Option::take\(")
                got = lib.count_range(b, [x for _, x in some], rets, lib.bbs(wakes)) if some else None
                ctx.ob("close", fn + ": stored waker woken", got == (1, 1), tk.loc(), "wake() on the Some(waker) edge: %s" % (got,))
            b, rets = b_, rets_
        for s in pushes:
            e = b.site_expr(s)
            ctx.ob("close", fn + ": the queued peer is the changed peer", render(queued_peer[s]) == PEER, s.loc(), render(e)[:140])

    # ------------------------------------------------------------------ poll
    p = ctx.body(AB, NB + "poll$")
    where = "%s:%d" % (p.file, p.line)
    rets = p.return_blocks()
    pops = [s for s in p.call_sites(r"VecDeque::pop_(front|back)$") if render(p.site_expr(s)[2][0]) == "self." + QUEUE]
    ctx.floor("poll", "close_connections pop", pops, 1, exact=True)
    closes, pend, other = [], [], []
    for d in p.defs.get(0, []):
        site = mir.Site(p, d[1], d[2])
        e = p.site_expr(site)
        r = render(e)
        if r.startswith("std::task::Poll::Pending"):
            pend.append(site)
        elif r.startswith("std::task::Poll::Ready{0: libp2p_swarm::ToSwarm::CloseConnection{"):
            closes.append((site, e))
        else:
            other.append(r[:80])
    ctx.ob("poll", "results are Ready(CloseConnection) or Pending", not other and closes and pend, where, "other results: %s" % other)
    for s in pops:
        some = lib.switch_edges_on_site(p, s, {"Some"}, r"^discr\(std::collections::VecDeque::pop_(front|back)\(self\.%s\)\)$" % re.escape(QUEUE))
        none = lib.switch_edges_on_site(p, s, {"None"}, r"^discr\(std::collections::VecDeque::pop_(front|back)\(self\.%s\)\)$" % re.escape(QUEUE))
        ctx.ob("poll", "floor:pop Some/None edges", len(some) == 1 and len(none) == 1, s.loc(), "%s / %s" % (sorted(some), sorted(none)), nontrivial=False)
        if some:
            got = lib.count_range(p, [t for _, t in some], rets, lib.bbs([c for c, _ in closes]))
            ctx.ob("poll", "every popped peer yields one CloseConnection", got == (1, 1), s.loc(), "Ready(CloseConnection) results on the Some edge: %s" % (got,))
            got = lib.count_range(p, [t for _, t in some], rets, lib.bbs(pops))
            ctx.ob("poll", "at most one entry consumed per emitted event", got == (0, 0), s.loc(), "further pops after a successful pop before returning: %s" % (got,))
        for ps in pend:
            ok = bool(none) and p.must_pass_edges(ps.bb, none)
            ctx.ob("poll", "Pending only when the close queue is empty", ok, ps.loc(), "Poll::Pending dominated by pop == None")
    for site, e in closes:
        agg = [x for x in mir.walk(e) if x[0] == "agg" and x[3] == "CloseConnection" and strip_generics(x[2]).endswith("ToSwarm")]
        f = dict(agg[0][4]) if agg else {}
        pid = render(f.get("peer_id", ("unknown", "?")))
        conn = render(f.get("connection", ("unknown", "?")))
        ctx.ob("poll", "CloseConnection names the popped peer", re.match(r"^std::collections::VecDeque::pop_(front|back)\(self\.%s\)@Some\.0$" % re.escape(QUEUE), pid) is not None, site.loc(), "peer_id: " + pid)
        ctx.ob("poll", "CloseConnection closes all connections of the peer", conn == "libp2p_swarm::CloseConnection::All{}", site.loc(), "connection: " + conn)
    wsites = p.field_write_sites(WAKER)
    for ps in pend:
        ok = bool(wsites) and ps.bb not in p.reachable([0], blocked_nodes=lib.bbs(wsites))
        ctx.ob("poll", "waker stored before Pending", ok, ps.loc(), "self.waker = Some(cx.waker().clone()) on every path to Poll::Pending")
    for s in wsites:
        r = render(p.site_expr(s))
        ctx.ob("poll", "stored waker is the task's waker", r.startswith("std::option::Option::Some{0: ") and "std::task::Context::waker(%s)" % lm.pname(p, 2) in r, s.loc(), r[:160])

    # ------------------------------------------------------------------ who may mutate
    ALLOWED_PEERS = {("libp2p_allow_block_list::Behaviour::allow_peer", "insert"), ("libp2p_allow_block_list::Behaviour::disallow_peer", "remove"),
                     ("libp2p_allow_block_list::Behaviour::block_peer", "insert"), ("libp2p_allow_block_list::Behaviour::unblock_peer", "remove")}
    ALLOWED_Q = {("libp2p_allow_block_list::Behaviour::block_peer", "push"), ("libp2p_allow_block_list::Behaviour::disallow_peer", "push"),
                 ("libp2p_allow_block_list::<Behaviour as libp2p_swarm::NetworkBehaviour>::poll", "pop")}
    fp, fq = set(), set()
    for b in prog.bodies(AB):
        for s in [x for f in set(PEERS.values()) for x in lib.field_mut_calls(b, f)]:
            fp.add((lm.root_name(b.npath), strip_generics(b.call_name(s.term)).split("::")[-1]))
        for s in lib.field_mut_calls(b, QUEUE):
            for rt in (lm.entry_roots(prog, AB, b) if b.npath in EMIT else {lm.root_name(b.npath)}):
              fq.add((rt, re.sub(r"^(push|pop)_(back|front)$", r"\1", strip_generics(b.call_name(s.term)).split("::")[-1])))
        if "Default" in b.npath or "default" in b.npath.split("::")[-1]:
            continue
        for f in sorted(set(PEERS.values()) | {QUEUE, STATE}):
            for s in b.field_write_sites(f, r"libp2p_allow_block_list::"):
                (fp if f != QUEUE else fq).add((b.npath, "assign " + f))
    ctx.ob("who", "state.peers mutators", fp == ALLOWED_PEERS, msg=str(sorted(fp ^ ALLOWED_PEERS)) if fp != ALLOWED_PEERS else "exactly the four list methods")
    ctx.ob("who", "close_connections mutators", fq == ALLOWED_Q, msg=str(sorted(fq ^ ALLOWED_Q)) if fq != ALLOWED_Q else "push_back in block_peer/disallow_peer, pop_front in poll")
    # accessors hand out shared references only
    for fn in ("allowed_peers", "blocked_peers"):
        b = ctx.body(AB, r"^libp2p_allow_block_list::Behaviour::%s$" % fn)
        ty = b.locals[0] if isinstance(b.locals[0], str) else (b.locals[0].get("ty") if isinstance(b.locals[0], dict) else str(b.locals[0]))
        ctx.ob("who", fn + " returns a shared reference", "&mut" not in str(ty) and str(ty).lstrip().startswith("&"), "%s:%d" % (b.file, b.line), "return type %s" % ty)
