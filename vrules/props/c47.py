"""C47 relay resource limits — strict admission guards (K9), sibling agreement (K11), accept-implies-recorded path counting (K2), who-may-untrack (K4), counter definitions (K5)."""
import re

from .. import lib, mir
from ..mir import render, strip_generics

EXPLANATION = ("Behaviour::on_connection_handler_event. Reservations: the only admission-time store of Reservation::Active is dominated by the "
               "false edge of `sum(active per peer) >= max_reservations` and by either `renewed` or the false edge of `active(event_source) "
               ">= max_reservations_per_peer` (strict relations, right operands); every path that builds In::AcceptReservationReq passes that "
               "store exactly once (admission is recorded in the same invocation, so back-to-back requests are counted), deny paths never "
               "store. Circuits: the only CircuitsTracker::insert is dominated by the false edges of `len >= max_circuits` and of "
               "`num_circuits_of_peer(P) >= max_circuits_per_peer` for P = the inserted circuit's src_peer_id AND dst_peer_id (the counter "
               "counts both roles); NegotiateOutboundConnect is built only after exactly one insert, deny paths never insert. Counter "
               "definitions: per-peer/total reservation counts filter on Reservation::is_active (== Active); num_circuits_of_peer matches "
               "src or dst; len is the map length; circuit ids are fresh (+1). Un-tracking (circuit remove / reservation remove) happens only "
               "in the arms that report the end of the circuit/reservation and on connection close; timed-out and closed connections are "
               "removed on every path.")
ASSUMPTIONS = ["the handler reports ReservationReqAccepted / CircuitReqAccepted only for requests this behaviour admitted, and reports every end of a "
               "circuit or reservation (handler-side timers are not analysed)",
               "`renewed` reported by the handler is accurate (a renewal does not add a reservation)",
               "rate limiters (C48) only ever deny", "HashMap semantics"]
RL = "libp2p_relay"
H = r"<behaviour::Behaviour as libp2p_swarm::NetworkBehaviour>::on_connection_handler_event$"
ARM = r"^discr\(event@Left\.0\)$"

SELFTEST = [
    {"mutation": "seeded/C47: eager `insert(connection, Reservation::Active)` removed from the accept branch", "caught_by": "reservation/accept => recorded as Active in the same invocation"},
    {"mutation": "per-peer reservation guard `>` (the tree before the F12 fix 921088d)", "caught_by": "reservation/new reservation only below max_reservations_per_peer"},
    {"mutation": "circuit per-peer guard `>` (the tree before the F12 fix)", "caught_by": "circuit/src_peer_id below max_circuits_per_peer"},
    {"mutation": "destination guard missing (the tree before the F12 fix) / applied to event_source twice", "caught_by": "circuit/dst_peer_id below max_circuits_per_peer"},
    {"mutation": "`(renewed && count >= max)` instead of `(!renewed && ..)`", "caught_by": "reservation/new reservation only below max_reservations_per_peer"},
    {"mutation": "total circuits guard `>`", "caught_by": "circuit/total below max_circuits"},
    {"mutation": "total reservations compared with max_reservations_per_peer * 1000", "caught_by": "reservation/total below max_reservations"},
    {"mutation": "num_circuits_of_peer counts only src", "caught_by": "counter/num_circuits_of_peer counts both roles"},
    {"mutation": "CircuitReqAccepted arm calls circuits.remove", "caught_by": "untrack/circuits are un-tracked only when they ended"},
    {"mutation": "is_active compares with Reservation::None", "caught_by": "counter/is_active <=> Active"},
    {"mutation": "on_connection_established stores Reservation::Active", "caught_by": "reservation/Reservation::Active is stored only on admission and on the handler's confirmation"},
    {"mutation": "CircuitsTracker::insert: next_id + 0", "caught_by": "counter/circuit ids are fresh (no tracked circuit is overwritten)"},
    {"mutation": "remove_by_connection: `is_src && is_dst`", "caught_by": "untrack/remove_by_connection keeps a circuit only if neither end is the closed connection"},
]


def ret_exprs(b):
    return [(mir.Site(b, d[1], d[2]), b.site_expr(mir.Site(b, d[1], d[2]))) for d in b.defs.get(0, [])]


def root_local(b, o, depth=0):
    """Named/first local an operand is a plain copy of (through single-def temporaries)."""
    if o.get("k") not in ("copy", "move") or "pr" in o["p"] or depth > 6:
        return None
    l = o["p"]["l"]
    ds = b.defs.get(l, [])
    if l not in b.names and len(ds) == 1 and ds[0][0] == "stmt" and ds[0][3]["k"] == "use" and ds[0][3]["o"].get("k") in ("copy", "move") and "pr" not in ds[0][3]["o"]["p"]:
        return root_local(b, ds[0][3]["o"], depth + 1)
    return l


def arm_of(h, entries, bb):
    return sorted(a for a, t in entries.items() if bb in h.reachable([t]))


def check(ctx):
    mir.RENDER_MAX[0] = 30
    try:
        _check(ctx, ctx.prog)
    finally:
        mir.RENDER_MAX[0] = 14


def _check(ctx, prog):
    h = ctx.body(RL, H)
    rets = h.return_blocks()
    entries = {}
    for bi in h.live:
        info = h.switch_info(bi)
        if info and re.search(ARM, render(info[0])):
            for tgt, ls in info[1].items():
                for l in ls:
                    entries[l] = tgt
    ctx.ob("arms", "floor:handler::Event arms", len(entries) >= 14, nontrivial=False, msg=str(sorted(entries)))

    # ================================================================= reservations
    act = []
    for b in prog.bodies(RL):
        for s in b.call_sites(r"HashMap::insert$"):
            e = b.site_expr(s)
            if len(e[2]) == 3 and render(e[2][2]) == "libp2p_relay::behaviour::Reservation::Active{}":
                act.append(s)
    ctx.floor("reservation", "stores of Reservation::Active", act, 2)
    where = sorted((s.body.npath, tuple(arm_of(h, entries, s.bb)) if s.body is h else ()) for s in act)
    ctx.ob("reservation", "Reservation::Active is stored only on admission and on the handler's confirmation",
           where == [(h.npath, ("ReservationReqAccepted",)), (h.npath, ("ReservationReqReceived",))], msg=str(where))
    adm = [s for s in act if s.body is h and arm_of(h, entries, s.bb) == ["ReservationReqReceived"]]
    ent = entries.get("ReservationReqReceived")
    PEER_CNT = r"^std::option::Option::unwrap_or\(std::option::Option::map\(std::collections::HashMap::get\(self\.connections, event_source\), closure:[^\[]*\[\]\), 0\)$"
    TOT_CNT = r"^std::iter::Iterator::sum\(std::iter::Iterator::map\(std::collections::HashMap::values\(self\.connections\), closure:[^\[]*\[\]\)\)$"
    for s in adm:
        e = h.site_expr(s)
        ctx.ob("reservation", "admission is recorded for the requesting peer and connection", render(e[2][0]) == "std::collections::hash_map::Entry::or_default(std::collections::HashMap::entry(self.connections, event_source))" and
               render(e[2][1]) == "connection", s.loc(), render(e)[:200])
        lib.limit_guard(ctx, "reservation", "total below max_reservations", s, TOT_CNT, r"^self\.config\.max_reservations$",
                        "sum of active reservations < max_reservations")
        good, weak = lib.strict_limit_edges(h, PEER_CNT, r"^self\.config\.max_reservations_per_peer$")
        ren = lib.switch_edges_on(h, r"^event@Left\.0@ReservationReqReceived\.renewed$", {"true"})
        ok = bool(good) and bool(ren) and h.must_pass_edges(s.bb, set(good) | set(ren), ent)
        msg = "every path to the store is a renewal or passes `active(event_source) < max_reservations_per_peer`"
        if not ok:
            msg = "a new reservation is admitted without a strict per-peer guard"
            if weak and h.must_pass_edges(s.bb, set(good) | set(weak) | set(ren), ent):
                msg += " — only `count > max_reservations_per_peer` protects it, which admits max + 1"
        ctx.ob("reservation", "new reservation only below max_reservations_per_peer", ok, s.loc(), msg)
    # counter definitions
    for bi in h.live:
        info = h.switch_info(bi)
        if not info or info[0][0] != "bin":
            continue
        for side in (info[0][2], info[0][3]):
            r = render(side)
            which = "per-peer" if re.search(PEER_CNT, r) else ("total" if re.search(TOT_CNT, r) else None)
            if which is None:
                continue
            cl = lib.closure_of(prog, h, side)
            ok = False
            txt = ""
            if cl is not None:
                ctx.use(cl)
                rs = ret_exprs(cl)
                txt = render(rs[0][1]) if len(rs) == 1 else ""
                ok = re.match(r"^<std::iter::Filter as std::iter::Iterator>::count\(std::iter::Iterator::filter\(std::collections::HashMap::values\(cs\), closure:", txt) is not None
                inner = lib.closure_of(prog, cl, rs[0][1]) if ok else None
                if inner is not None:
                    ctx.use(inner)
                    ir = [render(x) for _, x in ret_exprs(inner)]
                    ok = ir == ["libp2p_relay::behaviour::Reservation::is_active(status)"]
                    txt += " / " + str(ir)
                else:
                    ok = False
            ctx.ob("counter", "%s reservation count = number of active entries" % which, ok, "%s:%d" % (h.file, h.blocks[bi]["term"].get("l", 0)), txt[:220])
    ia = ctx.body(RL, r"^libp2p_relay::behaviour::Reservation::is_active$")
    r = [render(x) for _, x in ret_exprs(ia)]
    ctx.ob("counter", "is_active <=> Active", r == ["libp2p_relay::<behaviour::Reservation as std::cmp::PartialEq>::eq(self, libp2p_relay::behaviour::Reservation::Active{})"], "%s:%d" % (ia.file, ia.line), str(r))
    # accept => recorded ; deny => not recorded
    if ent is not None:
        region = h.reachable([ent])
        acc = [s for s in h.agg_sites(r"^libp2p_relay::behaviour::handler::In$", "AcceptReservationReq") if s.bb in region]
        den = [s for s in h.agg_sites(r"^libp2p_relay::behaviour::handler::In$", "DenyReservationReq") if s.bb in region]
        ctx.floor("reservation", "In::AcceptReservationReq", acc, 1)
        ctx.floor("reservation", "In::DenyReservationReq", den, 1)
        for s in acc:
            got = lib.count_range(h, [ent], [s.bb], lib.bbs(adm))
            ctx.ob("reservation", "accept => recorded as Active in the same invocation", got == (1, 1), s.loc(),
                   "stores of Reservation::Active on every path to In::AcceptReservationReq: %s (expected (1, 1)); an accepted request that is not counted lets "
                   "back-to-back requests pass the limits" % (got,))
        for s in den:
            got = lib.count_range(h, [ent], [s.bb], lib.bbs(adm))
            ctx.ob("reservation", "deny => not recorded", got == (0, 0), s.loc(), "stores on paths to In::DenyReservationReq: %s" % (got,))
    # ================================================================= circuits
    ins = prog.callers(RL, r"^libp2p_relay::behaviour::CircuitsTracker::insert$")
    ctx.floor("circuit", "CircuitsTracker::insert call sites", ins, 1)
    ctx.ob("circuit", "circuits are created only when a circuit request is admitted", all(s.body is h and arm_of(h, entries, s.bb) == ["CircuitReqReceived"] for s in ins),
           msg=str([(s.body.short, arm_of(h, entries, s.bb) if s.body is h else None) for s in ins]))
    cent = entries.get("CircuitReqReceived")
    for s in ins:
        if s.body is not h:
            continue
        c = h.site_expr(s)[2][1]
        f = dict(c[4]) if c[0] == "agg" else {}
        ctx.ob("circuit", "the tracked circuit names the requester and its connection", render(f.get("src_peer_id", ("unknown", "?"))) == "event_source" and
               render(f.get("src_connection_id", ("unknown", "?"))) == "connection", s.loc(), render(c)[:200])
        lib.limit_guard(ctx, "circuit", "total below max_circuits", s, r"^libp2p_relay::behaviour::CircuitsTracker::len\(self\.circuits\)$", r"^self\.config\.max_circuits$", "circuits.len() < max_circuits")
        for role in ("src_peer_id", "dst_peer_id"):
            p = f.get(role)
            if p is None:
                ctx.ob("circuit", "%s below max_circuits_per_peer" % role, False, s.loc(), "field not found")
                continue
            lib.limit_guard(ctx, "circuit", "%s below max_circuits_per_peer" % role, s,
                            r"^libp2p_relay::behaviour::CircuitsTracker::num_circuits_of_peer\(self\.circuits, %s\)$" % re.escape(render(p)), r"^self\.config\.max_circuits_per_peer$",
                            "num_circuits_of_peer(%s) < max_circuits_per_peer (the counter counts both roles, so both ends must be below the limit)" % render(p)[-60:])
    if cent is not None:
        region = h.reachable([cent])
        neg = [s for s in h.agg_sites(r"^libp2p_relay::behaviour::handler::In$", "NegotiateOutboundConnect") if s.bb in region]
        den = [s for s in h.agg_sites(r"^libp2p_relay::behaviour::handler::In$", "DenyCircuitReq") if s.bb in region]
        ctx.floor("circuit", "In::NegotiateOutboundConnect", neg, 1)
        ctx.floor("circuit", "In::DenyCircuitReq in the request arm", den, 2)
        mine = lib.bbs([s for s in ins if s.body is h])
        for s in neg:
            got = lib.count_range(h, [cent], [s.bb], mine)
            ctx.ob("circuit", "accept => tracked in the same invocation", got == (1, 1), s.loc(), "CircuitsTracker::insert on every path to In::NegotiateOutboundConnect: %s" % (got,))
            r = render(h.site_expr(s))
            ctx.ob("circuit", "the negotiated circuit is the tracked one", "circuit_id: libp2p_relay::behaviour::CircuitsTracker::insert(self.circuits," in r, s.loc(), r[:160])
        for s in den:
            got = lib.count_range(h, [cent], [s.bb], mine)
            ctx.ob("circuit", "deny => not tracked", got == (0, 0), s.loc(), "inserts on paths to In::DenyCircuitReq: %s" % (got,))
    # tracker definitions
    tl = ctx.body(RL, r"^libp2p_relay::behaviour::CircuitsTracker::len$")
    r = [render(x) for _, x in ret_exprs(tl)]
    ctx.ob("counter", "CircuitsTracker::len = circuits.len()", r == ["std::collections::HashMap::len(self.circuits)"], "%s:%d" % (tl.file, tl.line), str(r))
    nc = ctx.body(RL, r"^libp2p_relay::behaviour::CircuitsTracker::num_circuits_of_peer$")
    rs = ret_exprs(nc)
    ok = len(rs) == 1 and re.match(r"^<std::iter::Filter as std::iter::Iterator>::count\(std::iter::Iterator::filter\(std::collections::HashMap::iter\(self\.circuits\), closure:[^\[]*\[peer\]\)\)$", render(rs[0][1])) is not None
    cl = lib.closure_of(prog, nc, rs[0][1]) if ok else None
    leaves = []
    if cl is not None:
        ctx.use(cl)
        # value of the closure: `src == peer || dst == peer` lowers to: switch(eq(src)) true -> const true, false -> eq(dst)
        rr = ret_exprs(cl)
        conds = [render(cl.switch_info(bi)[0]) for bi in cl.live if cl.switch_info(bi)]
        vals = sorted(render(x) for _, x in rr)
        both = {"src_peer_id", "dst_peer_id"}
        seen = set()
        for t in conds + vals:
            m = re.match(r"^<libp2p_core::PeerId as std::cmp::PartialEq>::eq\(arg2\.1\.(src_peer_id|dst_peer_id), \^peer\)$", t)
            if m:
                seen.add(m.group(1))
        consts = [x for _, x in rr if x[0] == "const"]
        ok = seen == both and all(x[1] == 1 for x in consts) and len(conds) == 1
        for s_, x in rr:
            if x[0] == "const" and x[1] == 1:
                ok = ok and bool(cl.guards_on_all_paths(s_.bb)) and all(lbl == frozenset({"true"}) for _, lbl, _, _ in cl.guards_on_all_paths(s_.bb))
        leaves = conds + vals
    ctx.ob("counter", "num_circuits_of_peer counts both roles", bool(ok), "%s:%d" % (nc.file, nc.line), str(leaves)[:260])
    ti = ctx.body(RL, r"^libp2p_relay::behaviour::CircuitsTracker::insert$")
    wr = ti.field_write_sites("next_id")
    mins = [s for s in ti.call_sites(r"HashMap::insert$") if render(ti.site_expr(s)[2][0]) == "self.circuits"]
    ok = len(wr) == 1 and len(mins) == 1 and render(ti.site_expr(wr[0])) == "libp2p_relay::<behaviour::CircuitId as std::ops::Add>::add(self.next_id, 1)"
    why = "next_id = next_id + 1; circuits.insert(id, circuit) with id copied before the increment"
    if ok:
        x = root_local(ti, mins[0].term["args"][1])
        rd = ti.defs.get(0, [])
        ok = x is not None
        if ok:
            xd = ti.defs.get(x, [])
            ok = len(xd) == 1 and xd[0][0] == "stmt" and render(ti.rvalue_expr(xd[0][3])) == "self.next_id" and \
                ((xd[0][1] == wr[0].bb and xd[0][2] < (wr[0].si if wr[0].si is not None else 10 ** 6)) or (xd[0][1] != wr[0].bb and ti.dominates(xd[0][1], wr[0].bb)))
            ok = ok and len(rd) == 1 and rd[0][0] == "stmt" and rd[0][3]["k"] == "use" and root_local(ti, rd[0][3]["o"]) == x
    ctx.ob("counter", "circuit ids are fresh (no tracked circuit is overwritten)", ok, "%s:%d" % (ti.file, ti.line), why)
    wh = set()
    for b in prog.bodies(RL):
        for s in b.call_sites(r"HashMap::(insert|entry)$"):
            if render(b.site_expr(s)[2][0]) == "self.circuits" and "CircuitsTracker" in b.npath:
                wh.add(b.npath)
        for s in lib.field_mut_calls(b, "circuits"):
            if "behaviour::CircuitsTracker" in b.npath:
                wh.add(b.npath + " via " + strip_generics(b.call_name(s.term)).split("::")[-1])
    ctx.ob("counter", "the circuit map is mutated only by insert / accepted / remove / remove_by_connection",
           {w.split(" via ")[0] for w in wh} <= {"libp2p_relay::behaviour::CircuitsTracker::" + n for n in ("insert", "accepted", "remove", "remove_by_connection")}, msg=str(sorted(wh)))
    add = ctx.body(RL, r"^libp2p_relay::<behaviour::CircuitId as std::ops::Add>::add$")
    r = [render(x) for _, x in ret_exprs(add)]
    ctx.ob("counter", "CircuitId + n adds to the inner counter", len(r) == 1 and re.match(r"^libp2p_relay::behaviour::CircuitId::CircuitId\{0: AddWithOverflow\(self\.0, rhs\)\.0\}$", r[0]) is not None, "%s:%d" % (add.file, add.line), str(r))
    # ================================================================= un-tracking only at the end of life
    rm = prog.callers(RL, r"^libp2p_relay::behaviour::CircuitsTracker::remove$")
    ctx.floor("untrack", "CircuitsTracker::remove call sites", rm, 4)
    allowed = {"CircuitReqDenied", "CircuitReqDenyFailed", "CircuitReqAcceptFailed", "CircuitClosed"}
    for s in rm:
        arms = arm_of(h, entries, s.bb) if s.body is h else None
        ok = arms is not None and len(arms) == 1 and arms[0] in allowed
        ctx.ob("untrack", "circuits are un-tracked only when they ended", ok, s.loc(), "CircuitsTracker::remove in %s arm %s" % (s.body.short[-40:], arms))
        if ok:
            a = render(h.site_expr(s)[2][1])
            ctx.ob("untrack", "%s: the un-tracked circuit is the reported one" % arms[0], re.match(r"^event@Left\.0@%s\.circuit_id(@Some\.0)?$" % arms[0], a) is not None, s.loc(), a)
    for arm in ("CircuitReqAcceptFailed", "CircuitClosed"):
        t = entries.get(arm)
        mine = [s.bb for s in rm if s.body is h and t is not None and s.bb in h.reachable([t])]
        got = lib.count_range(h, [t], rets, mine) if t is not None else None
        ctx.ob("untrack", "%s: circuit removed on every path" % arm, got == (1, 1), msg="CircuitsTracker::remove in the arm: %s" % (got,))
    for arm in ("CircuitReqDenied", "CircuitReqDenyFailed"):
        t = entries.get(arm)
        some = lib.switch_edges_on(h, r"^discr\(event@Left\.0@%s\.circuit_id\)$" % arm, {"Some"})
        mine = [s.bb for s in rm if s.body is h and t is not None and s.bb in h.reachable([t])]
        got = lib.count_range(h, [x for _, x in some], rets, mine) if some else None
        ctx.ob("untrack", "%s: a tracked circuit is removed on every path" % arm, got == (1, 1), msg="on the Some(circuit_id) edge: %s" % (got,))
    t = entries.get("OutboundConnectNegotiationFailed")
    if t is not None:
        den = [s for s in h.agg_sites(r"^libp2p_relay::behaviour::handler::In$", "DenyCircuitReq") if s.bb in h.reachable([t])]
        ok = len(den) == 1 and "circuit_id: std::option::Option::Some{0: event@Left.0@OutboundConnectNegotiationFailed.circuit_id}" in render(h.site_expr(den[0]))
        ctx.ob("untrack", "a failed outbound negotiation hands the tracked id back for removal", ok, den[0].loc() if den else "", render(h.site_expr(den[0]))[:160] if den else "")
    rbc = prog.callers(RL, r"^libp2p_relay::behaviour::CircuitsTracker::remove_by_connection$")
    cc = ctx.body(RL, r"^libp2p_relay::behaviour::Behaviour::on_connection_closed$")
    ctx.ob("untrack", "remove_by_connection is used only on connection close", len(rbc) == 1 and rbc[0].body is cc and
           render(cc.site_expr(rbc[0])) == "libp2p_relay::behaviour::CircuitsTracker::remove_by_connection(self.circuits, arg2.peer_id, arg2.connection_id)", rbc[0].loc() if rbc else "", "")
    if rbc:
        got = lib.count_range(cc, [0], cc.return_blocks(), [rbc[0].bb])
        ctx.ob("untrack", "a closed connection's circuits are removed on every path", got == (1, 1), rbc[0].loc(), str(got))
    rb = ctx.body(RL, r"^libp2p_relay::behaviour::CircuitsTracker::remove_by_connection::\{closure#0\}$")
    drops = [s for s, x in ret_exprs(rb) if x[0] == "const" and x[1] == 0]
    keeps = [s for s, x in ret_exprs(rb) if x[0] == "const" and x[1] == 1]
    flags = {}
    for name in ("is_src", "is_dst"):
        l = lib.local_by_name(rb, name)
        flags[name] = sorted(render(rb.site_expr(mir.Site(rb, d[1], d[2]))) for d in rb.defs.get(l, []))
    want = {"is_src": ["0", "<libp2p_swarm::ConnectionId as std::cmp::PartialEq>::eq(circuit.src_connection_id, ^connection_id)"],
            "is_dst": ["0", "<libp2p_swarm::ConnectionId as std::cmp::PartialEq>::eq(circuit.dst_connection_id, ^connection_id)"]}
    ok = flags == want and len(drops) == 1 and len(keeps) == 1
    if ok:
        e_keep = lib.switch_edges_on(rb, r"^is_src$", {"false"}) , lib.switch_edges_on(rb, r"^is_dst$", {"false"})
        ok = all(e_keep) and rb.must_pass_edges(keeps[0].bb, e_keep[0]) and rb.must_pass_edges(keeps[0].bb, e_keep[1])
    ctx.ob("untrack", "remove_by_connection keeps a circuit only if neither end is the closed connection", ok, "%s:%d" % (rb.file, rb.line), str(flags)[:200])
    # reservations: removal sites
    rrem = []
    for b in prog.bodies(RL):
        if "behaviour::Behaviour" not in b.npath or "behaviour::handler" in b.npath:
            continue
        for s in b.call_sites(r"HashMap::remove$|OccupiedEntry::remove$|HashMap::clear$|HashMap::retain$"):
            r0 = render(b.site_expr(s)[2][0])
            if r0 in ("std::collections::hash_map::OccupiedEntry::get_mut(peer)", "peer") or "self.connections" in r0:
                rrem.append(s)
    ctx.floor("untrack", "removals from `connections`", rrem, 4)
    for s in rrem:
        arms = arm_of(h, entries, s.bb) if s.body is h else None
        ok = (s.body is cc) or (arms == ["ReservationTimedOut"])
        ctx.ob("untrack", "reservations are un-tracked only on timeout or connection close", ok, s.loc(), "%s in %s %s" % (strip_generics(s.body.call_name(s.term)).split("::")[-1], s.body.short[-40:], arms or ""))
    t = entries.get("ReservationTimedOut")
    if t is not None:
        occ = lib.switch_edges_on(h, r"^discr\(std::collections::HashMap::entry\(self\.connections, event_source\)\)$", {"Occupied"})
        occ = [(a, b_) for a, b_ in occ if b_ in h.reachable([t])]
        inner = [s.bb for s in rrem if s.body is h and render(h.site_expr(s)) == "std::collections::HashMap::remove(std::collections::hash_map::OccupiedEntry::get_mut(peer), connection)"]
        got = lib.count_range(h, [x for _, x in occ], rets, inner) if occ else None
        ctx.ob("untrack", "a timed-out reservation is removed on every path", got == (1, 1), msg="connections[event_source].remove(connection): %s" % (got,))
    occ = lib.switch_edges_on(cc, r"^discr\(std::collections::HashMap::entry\(self\.connections, arg2\.peer_id\)\)$", {"Occupied"})
    inner = [s.bb for s in rrem if s.body is cc and render(cc.site_expr(s)) == "std::collections::HashMap::remove(std::collections::hash_map::OccupiedEntry::get_mut(peer), arg2.connection_id)"]
    got = lib.count_range(cc, [x for _, x in occ], cc.return_blocks(), inner) if occ else None
    ctx.ob("untrack", "a closed connection's reservation is removed on every path", got == (1, 1), "%s:%d" % (cc.file, cc.line), "connections[peer].remove(connection_id): %s" % (got,))
    ce = ctx.body(RL, r"^libp2p_relay::behaviour::Behaviour::on_connection_established$")
    r = [render(ce.site_expr(s)) for s in ce.call_sites(r"HashMap::insert$")]
    ctx.ob("reservation", "a new connection starts without a reservation", r == ["std::collections::HashMap::insert(std::collections::hash_map::Entry::or_default(std::collections::HashMap::entry(self.connections, arg2.peer_id)), arg2.connection_id, libp2p_relay::behaviour::Reservation::None{})"],
           "%s:%d" % (ce.file, ce.line), str(r)[:200])
