"""C47 relay resource limits — strict admission guards (K9), sibling agreement (K11), accept-implies-recorded path counting (K2), who-may-untrack (K4), counter definitions (K5)."""
import re

from .. import lib, mir
from .. import lib_proto as P
from ..mir import strip_generics

EXPLANATION = ("Behaviour::on_connection_handler_event. Reservations: the only admission-time store of Reservation::Active is dominated by the "
               "false edge of `sum(active per peer) >= max_reservations` and by either `renewed` or the false edge of `active(event_source) "
               ">= max_reservations_per_peer` (strict relations, right operands); every path that builds In::AcceptReservationReq passes that "
               "store exactly once (admission is recorded in the same invocation, so back-to-back requests are counted), deny paths never "
               "store. Circuits: the only CircuitsTracker::insert is dominated by the false edges of `len >= max_circuits` and of "
               "`num_circuits_of_peer(P) >= max_circuits_per_peer` for P = the inserted circuit's src_peer_id AND dst_peer_id (the counter "
               "counts both roles); NegotiateOutboundConnect is built only after exactly one insert, deny paths never insert. Counter "
               "definitions: per-peer/total reservation counts filter on Reservation::is_active (== Active); num_circuits_of_peer matches "
               "src or dst; len is the map length; circuit ids are fresh (+1). Un-tracking (circuit remove / reservation remove) happens only "
               "in the arms that report the end of the circuit/reservation and on connection close; timed-out and closed connections are "
               "removed on every path.")
ASSUMPTIONS = ["the handler reports ReservationReqAccepted / CircuitReqAccepted only for requests this behaviour admitted, and reports every end of a "
               "circuit or reservation (handler-side timers are not analysed)",
               "`renewed` reported by the handler is accurate (a renewal does not add a reservation)",
               "rate limiters (C48) only ever deny", "HashMap semantics"]
RL = "libp2p_relay"
H = r"<behaviour::Behaviour as libp2p_swarm::NetworkBehaviour>::on_connection_handler_event$"
BADT = r"^libp2p_relay::behaviour::Behaviour$"
TADT = r"^libp2p_relay::behaviour::CircuitsTracker$"
ACTIVE = "libp2p_relay::behaviour::Reservation::Active{}"
NONE_ = "libp2p_relay::behaviour::Reservation::None{}"

SELFTEST = [
    {"mutation": "seeded/C47: eager `insert(connection, Reservation::Active)` removed from the accept branch", "caught_by": "reservation/accept => recorded as Active in the same invocation"},
    {"mutation": "per-peer reservation guard `>` (the tree before the F12 fix 921088d)", "caught_by": "reservation/new reservation only below max_reservations_per_peer"},
    {"mutation": "circuit per-peer guard `>` (the tree before the F12 fix)", "caught_by": "circuit/requester below max_circuits_per_peer"},
    {"mutation": "destination guard missing (the tree before the F12 fix) / applied to event_source twice", "caught_by": "circuit/destination below max_circuits_per_peer"},
    {"mutation": "`(renewed && count >= max)` instead of `(!renewed && ..)`", "caught_by": "reservation/new reservation only below max_reservations_per_peer"},
    {"mutation": "total circuits guard `>`", "caught_by": "circuit/total below max_circuits"},
    {"mutation": "total reservations compared with max_reservations_per_peer * 1000", "caught_by": "reservation/total below max_reservations"},
    {"mutation": "num_circuits_of_peer counts only src", "caught_by": "counter/num_circuits_of_peer counts both roles"},
    {"mutation": "CircuitReqAccepted arm calls circuits.remove", "caught_by": "untrack/circuits are un-tracked only when they ended"},
    {"mutation": "is_active compares with Reservation::None", "caught_by": "counter/is_active <=> Active"},
    {"mutation": "on_connection_established stores Reservation::Active", "caught_by": "reservation/Reservation::Active is stored only on admission and on the handler's confirmation"},
    {"mutation": "CircuitsTracker::insert: next_id + 0", "caught_by": "counter/circuit ids are fresh (no tracked circuit is overwritten)"},
    {"mutation": "remove_by_connection: `is_src && is_dst`", "caught_by": "untrack/remove_by_connection keeps a circuit only if neither end is the closed connection"},
]


def root_local(b, o, depth=0):
    """Named/first local an operand is a plain copy of (through single-def temporaries)."""
    if o.get("k") not in ("copy", "move") or "pr" in o["p"] or depth > 6:
        return None
    l = o["p"]["l"]
    ds = b.defs.get(l, [])
    if l not in b.names and len(ds) == 1 and ds[0][0] == "stmt" and ds[0][3]["k"] == "use" and ds[0][3]["o"].get("k") in ("copy", "move") and "pr" not in ds[0][3]["o"]["p"]:
        return root_local(b, ds[0][3]["o"], depth + 1)
    return l


def arm_of(h, entries, bb):
    return sorted(a for a, t in entries.items() if bb in h.reachable([t]))


def in_variants(e, adt, variant):
    return [x for x in mir.walk(e) if x[0] == "agg" and x[1] == "adt" and strip_generics(x[2]) == adt and x[3] == variant]


def check(ctx):
    _check(ctx, ctx.prog)


def _check(ctx, prog):
    F_CONN = P.field_by_type(prog, RL, BADT, r"^std::collections::HashMap<libp2p_core::PeerId, std::collections::HashMap<")   # connections
    F_CIRC = P.field_by_type(prog, RL, BADT, r"CircuitsTracker$")
    F_CFG = P.field_by_type(prog, RL, BADT, r"^behaviour::Config$")
    T_MAP = P.field_by_type(prog, RL, TADT, r"^std::collections::HashMap<")
    T_NEXT = P.field_by_type(prog, RL, TADT, r"CircuitId$")
    CONN, CIRC, CFG = "self." + F_CONN, "self." + F_CIRC, "self." + F_CFG
    # on_connection_handler_event(self, event_source = $2, connection = $3, event = $4)
    h = ctx.body(RL, H)
    N = P.Norm(h)
    rets = h.return_blocks()
    entries = {}
    for bi in h.live:
        info = h.switch_info(bi)
        if info and N.r(info[0]) == "discr($4@Left)":
            for tgt, ls in info[1].items():
                for l in ls:
                    entries[l] = tgt
    ctx.ob("arms", "floor:handler::Event arms", len(entries) >= 14, nontrivial=False, msg=str(sorted(entries)))
    IN = "libp2p_relay::behaviour::handler::In"
    # ---- private methods by role
    TRK = "libp2p_relay::behaviour::CircuitsTracker::"

    def trk_in_arm(arm, pick=None):
        t_ = entries.get(arm)
        if t_ is None:
            raise mir.RuleError("arm %s not found" % arm)
        # only the arm's own blocks: stop at blocks reachable from another arm's entry
        own = h.reachable([t_])
        cs = {cb.npath: cb for s_, cb in P.crate_callees(prog, h, own) if cb.npath.startswith(TRK) and (pick is None or pick(s_, cb))}
        if len(cs) != 1:
            raise mir.RuleError("arm %s: tracker method not identified among %s" % (arm, sorted(cs)))
        return next(iter(cs.values()))
    T_INSERT = trk_in_arm("CircuitReqReceived", lambda s_, cb: any(x[0] == "agg" and x[1] == "adt" and strip_generics(x[2]) == "libp2p_relay::behaviour::Circuit" for x in h.site_expr(s_)[2][1:]))
    T_REMOVE = trk_in_arm("CircuitClosed")
    T_ACCEPTED = trk_in_arm("CircuitReqAccepted")
    T_LEN = T_NUM = None
    for bi in sorted(h.live):
        info = h.switch_info(bi)
        c_ = P.cmpnf(info[0]) if info else None
        if not c_:
            continue
        for a_, b_ in ((c_[1], c_[2]), (c_[2], c_[1])):
            if a_[0] == "call" and strip_generics(a_[1]).startswith(TRK):
                if N.r(b_) == CFG + ".max_circuits":
                    T_LEN = strip_generics(a_[1])
                elif N.r(b_) == CFG + ".max_circuits_per_peer":
                    T_NUM = strip_generics(a_[1])
    if not T_LEN or not T_NUM:
        raise mir.RuleError("circuit counters compared with max_circuits / max_circuits_per_peer not identified (%s, %s)" % (T_LEN, T_NUM))
    osw = ctx.body(RL, r"<behaviour::Behaviour as libp2p_swarm::NetworkBehaviour>::on_swarm_event$")
    is_ev = (lambda e: e[0] == "arg" and e[1] == 2)
    cc = ctx.use(P.fn_in_arm(prog, osw, is_ev, "ConnectionClosed", lambda cb: cb.names.get(1) == "self" and "::Behaviour::" in cb.npath))
    ce = ctx.use(P.fn_in_arm(prog, osw, is_ev, "ConnectionEstablished", lambda cb: cb.names.get(1) == "self" and "::Behaviour::" in cb.npath))
    rbcs = {cb.npath: cb for _, cb in P.crate_callees(prog, cc) if cb.npath.startswith(TRK)}
    if len(rbcs) != 1:
        raise mir.RuleError("on connection close: tracker method not identified among %s" % sorted(rbcs))
    rbf = ctx.use(next(iter(rbcs.values())))

    def in_sites(variant, region):
        return [s for s in h.agg_sites(r"^libp2p_relay::behaviour::handler::In$", variant) if s.bb in region]

    # ================================================================= reservations
    act = []
    for b in prog.bodies(RL):
        BN = P.Norm(b)
        for s in b.call_sites(r"HashMap::insert$"):
            e = b.site_expr(s)
            if len(e[2]) == 3 and BN.r(e[2][2]) == ACTIVE:
                act.append(s)
    ctx.floor("reservation", "stores of Reservation::Active", act, 2)
    where = sorted((s.body.npath, tuple(arm_of(h, entries, s.bb)) if s.body is h else ()) for s in act)
    ctx.ob("reservation", "Reservation::Active is stored only on admission and on the handler's confirmation",
           where == [(h.npath, ("ReservationReqAccepted",)), (h.npath, ("ReservationReqReceived",))], msg=str(where))
    adm = [s for s in act if s.body is h and arm_of(h, entries, s.bb) == ["ReservationReqReceived"]]
    ent = entries.get("ReservationReqReceived")
    PEER_CNT = "std::option::Option::unwrap_or(std::option::Option::map(std::collections::HashMap::get(%s, $2), closure[]), 0)" % CONN
    TOT_CNT = "std::iter::Iterator::sum(std::iter::Iterator::map(std::collections::HashMap::values(%s), closure[]))" % CONN

    def strict(count, limit):
        return P.rel_edges(h, lambda op, a, b: op == "Lt" and N.r(a) == count and N.r(b) == limit)

    def weak(count, limit):
        return P.rel_edges(h, lambda op, a, b: op == "Le" and N.r(a) == count and N.r(b) == limit)

    def limit_ob(rule, inst, s, count, limit, desc, extra=(), start=0):
        good, wk = strict(count, limit), weak(count, limit)
        ok = bool(good) and h.must_pass_edges(s.bb, set(good) | set(extra), start)
        msg = "bounded: " + desc
        if not ok:
            msg = "not bounded: " + desc
            if wk and h.must_pass_edges(s.bb, set(good) | set(wk) | set(extra), start):
                msg += " — only a non-strict guard (`count <= limit`) protects this site, which admits limit + 1"
        ctx.ob(rule, inst, ok, s.loc(), msg)
    for s in adm:
        e = h.site_expr(s)
        ctx.ob("reservation", "admission is recorded for the requesting peer and connection", N.r(e[2][0]) in ("std::collections::hash_map::Entry::or_default(std::collections::HashMap::entry(%s, $2))" % CONN,
                                                                                                         "std::collections::HashMap::get_mut(%s, $2)@+" % CONN) and N.r(e[2][1]) == "$3", s.loc(), N.r(e)[:200])
        limit_ob("reservation", "total below max_reservations", s, TOT_CNT, CFG + ".max_reservations", "sum of active reservations < max_reservations", start=ent or 0)
        ren = P.truth_edges(h, lambda y: N.r(y) == "$4@Left@ReservationReqReceived.renewed", True)
        good = strict(PEER_CNT, CFG + ".max_reservations_per_peer")
        wk = weak(PEER_CNT, CFG + ".max_reservations_per_peer")
        ok = bool(good) and bool(ren) and h.must_pass_edges(s.bb, set(good) | set(ren), ent)
        msg = "every path to the store is a renewal or passes `active(event_source) < max_reservations_per_peer`"
        if not ok:
            msg = "a new reservation is admitted without a strict per-peer guard"
            if wk and h.must_pass_edges(s.bb, set(good) | set(wk) | set(ren), ent):
                msg += " — only `count <= max_reservations_per_peer` protects it, which admits max + 1"
        ctx.ob("reservation", "new reservation only below max_reservations_per_peer", ok, s.loc(), msg)
    # counter definitions
    seen_cnt = set()
    PRED = {}
    for bi in sorted(h.live):
        info = h.switch_info(bi)
        c = P.cmpnf(info[0]) if info else None
        if not c:
            continue
        for side in (c[1], c[2]):
            r = N.r(side)
            which = "per-peer" if r == PEER_CNT else ("total" if r == TOT_CNT else None)
            if which is None or which in seen_cnt:
                continue
            seen_cnt.add(which)
            cs = P.closures_in(prog, h, side)
            ok = False
            txt = ""
            if cs:
                cl = cs[0][1]
                ctx.use(cl)
                rs = P.ret_exprs(cl)
                txt = P.Norm(cl).r(rs[0][1]) if len(rs) == 1 else ""
                ok = txt == "<std::iter::Filter as std::iter::Iterator>::count(std::iter::Iterator::filter(std::collections::HashMap::values($2), closure[]))"
                inner = P.closures_in(prog, cl, rs[0][1]) if ok else []
                ir = [P.Norm(ic).r(x) for _, ic in inner[:1] for _, x in P.ret_exprs(ic)]
                pcal = [cb_ for _, ic in inner[:1] for _, cb_ in P.crate_callees(prog, ic)]
                ok = ok and len(pcal) == 1 and ir == [pcal[0].npath + "($2)"] and "behaviour::Reservation::" in pcal[0].npath
                if ok:
                    PRED[pcal[0].npath] = pcal[0]
                txt += " / " + str(ir)
            ctx.ob("counter", "%s reservation count = number of active entries" % which, ok, "%s:%d" % (h.file, h.blocks[bi]["term"].get("l", 0)), txt[:220])
    ctx.ob("counter", "floor:reservation counters", seen_cnt == {"per-peer", "total"}, nontrivial=False, msg=str(sorted(seen_cnt)))
    ctx.ob("counter", "floor:one predicate counts active reservations", len(PRED) == 1, nontrivial=False, msg=str(sorted(PRED)))
    for ia in PRED.values():
        ctx.use(ia)
        rs_ = P.ret_exprs(ia)
        r = [P.Norm(ia).r(x) for _, x in rs_]
        ok = len(r) == 1 and r[0].startswith("Eq(") and ACTIVE in r[0] and "self" in r[0]
        if not ok and rs_ and all(P.const_val(x) is not None for _, x in rs_):
            # matches!(self, Reservation::Active): true exactly on the Active edge
            vs = lib.matches_variants(ia)
            ok = vs == {"Active"}
        ctx.ob("counter", "is_active <=> Active", ok, "%s:%d" % (ia.file, ia.line), str(r))
    if ent is not None:
        region = h.reachable([ent])
        acc, den = in_sites("AcceptReservationReq", region), in_sites("DenyReservationReq", region)
        ctx.floor("reservation", "In::AcceptReservationReq", acc, 1)
        ctx.floor("reservation", "In::DenyReservationReq", den, 1)
        for s in acc:
            got = lib.count_range(h, [ent], [s.bb], lib.bbs(adm))
            ctx.ob("reservation", "accept => recorded as Active in the same invocation", got == (1, 1), s.loc(),
                   "stores of Reservation::Active on every path to In::AcceptReservationReq: %s (expected (1, 1)); an accepted request that is not counted lets "
                   "back-to-back requests pass the limits" % (got,))
        for s in den:
            got = lib.count_range(h, [ent], [s.bb], lib.bbs(adm))
            ctx.ob("reservation", "deny => not recorded", got == (0, 0), s.loc(), "stores on paths to In::DenyReservationReq: %s" % (got,))
    # ================================================================= circuits
    ins = prog.callers(RL, "^" + re.escape(T_INSERT.npath) + "$")
    ctx.floor("circuit", "CircuitsTracker::insert call sites", ins, 1)
    ctx.ob("circuit", "circuits are created only when a circuit request is admitted", all(s.body is h and arm_of(h, entries, s.bb) == ["CircuitReqReceived"] for s in ins),
           msg=str([(s.body.short, arm_of(h, entries, s.bb) if s.body is h else None) for s in ins]))
    cent = entries.get("CircuitReqReceived")
    cadt = prog.adt(RL, r"^libp2p_relay::behaviour::Circuit$")
    peer_fields = [f["n"] for v in cadt["variants"] for f in v["fields"] if f["ty"] == "libp2p_core::PeerId"]
    conn_fields = [f["n"] for v in cadt["variants"] for f in v["fields"] if f["ty"] == "libp2p_swarm::ConnectionId"]
    ROLE = {}
    for s in ins:
        if s.body is not h:
            continue
        c = h.site_expr(s)[2][1]
        f = dict(c[4]) if c[0] == "agg" else {}
        vals = {k: N.r(v) for k, v in f.items()}
        srcp = [k for k in peer_fields if vals.get(k) == "$2"]
        srcc = [k for k in conn_fields if vals.get(k) == "$3"]
        ctx.ob("circuit", "the tracked circuit names the requester and its connection", len(srcp) == 1 and len(srcc) == 1 and len(peer_fields) == 2 and len(conn_fields) == 2, s.loc(), str(vals)[:200])
        if len(srcp) == 1 and len(srcc) == 1 and len(peer_fields) == 2 and len(conn_fields) == 2:
            ROLE = {"srcp": srcp[0], "srcc": srcc[0], "dstp": [k for k in peer_fields if k != srcp[0]][0], "dstc": [k for k in conn_fields if k != srcc[0]][0]}
        limit_ob("circuit", "total below max_circuits", s, "%s(%s)" % (T_LEN, CIRC), CFG + ".max_circuits", "circuits.len() < max_circuits", start=cent or 0)
        for k in peer_fields:
            role = "requester" if vals.get(k) == "$2" else "destination"
            limit_ob("circuit", "%s below max_circuits_per_peer" % role, s, "%s(%s, %s)" % (T_NUM, CIRC, vals.get(k)), CFG + ".max_circuits_per_peer",
                     "num_circuits_of_peer(%s) < max_circuits_per_peer (the counter counts both roles, so both ends must be below the limit)" % str(vals.get(k))[-60:], start=cent or 0)
    if cent is not None:
        region = h.reachable([cent])
        neg, den = in_sites("NegotiateOutboundConnect", region), in_sites("DenyCircuitReq", region)
        ctx.floor("circuit", "In::NegotiateOutboundConnect", neg, 1)
        ctx.floor("circuit", "In::DenyCircuitReq in the request arm", den, 2)
        mine = lib.bbs([s for s in ins if s.body is h])
        for s in neg:
            got = lib.count_range(h, [cent], [s.bb], mine)
            ctx.ob("circuit", "accept => tracked in the same invocation", got == (1, 1), s.loc(), "CircuitsTracker::insert on every path to In::NegotiateOutboundConnect: %s" % (got,))
            f = dict(h.site_expr(s)[4])
            cid = f.get("circuit_id")
            ctx.ob("circuit", "the negotiated circuit is the tracked one", cid is not None and cid[0] == "call" and cid[3] in mine, s.loc(), N.r(cid)[:120] if cid else "")
        for s in den:
            got = lib.count_range(h, [cent], [s.bb], mine)
            ctx.ob("circuit", "deny => not tracked", got == (0, 0), s.loc(), "inserts on paths to In::DenyCircuitReq: %s" % (got,))
    # ---- tracker definitions
    tl = ctx.body(RL, "^" + re.escape(T_LEN) + "$")
    r = [P.Norm(tl).r(x) for _, x in P.ret_exprs(tl)]
    ctx.ob("counter", "CircuitsTracker::len = circuits.len()", r == ["std::collections::HashMap::len(self.%s)" % T_MAP], "%s:%d" % (tl.file, tl.line), str(r))
    nc = ctx.body(RL, "^" + re.escape(T_NUM) + "$")
    rs = P.ret_exprs(nc)
    ok = len(rs) == 1 and P.Norm(nc).r(rs[0][1]) == "<std::iter::Filter as std::iter::Iterator>::count(std::iter::Iterator::filter(std::collections::HashMap::iter(self.%s), closure[$2]))" % T_MAP
    leaves = []
    if ok:
        cl = P.closures_in(prog, nc, rs[0][1])[0][1]
        ctx.use(cl)
        # value of the closure: `src == peer || dst == peer`: collect every equality test / result and which field it compares with the captured peer
        seen = set()
        exprs = [x for _, x in P.ret_exprs(cl)] + [cl.switch_info(bi)[0] for bi in cl.live if cl.switch_info(bi)]
        for x in exprs:
            c = P.cmpnf(x)
            if c and c[0] == "Eq":
                for a_, b_ in ((c[1], c[2]), (c[2], c[1])):
                    if a_[0] == "field" and P.Norm(cl).r(b_) == "^0":
                        seen.add(a_[2])
            leaves.append(P.Norm(cl).r(x))
        consts = [x for _, x in P.ret_exprs(cl) if P.const_val(x) is not None]
        ok = seen == set(peer_fields) and all(P.const_val(x) == 1 for x in consts)
        for s_, x in P.ret_exprs(cl):
            if P.const_val(x) == 1:
                te = P.rel_edges(cl, lambda op, a_, b_: op == "Eq")
                ok = ok and P.must_pass(cl, s_.bb, te)
    ctx.ob("counter", "num_circuits_of_peer counts both roles", bool(ok), "%s:%d" % (nc.file, nc.line), str(leaves)[:260])
    ti = ctx.use(T_INSERT)
    TI = P.Norm(ti)
    wr = ti.field_write_sites(T_NEXT)
    mins = [s for s in ti.call_sites(r"HashMap::insert$") if TI.r(ti.site_expr(s)[2][0]) == "self." + T_MAP]
    ok = len(wr) == 1 and len(mins) == 1 and TI.site(wr[0]) in ("libp2p_relay::<behaviour::CircuitId as std::ops::Add>::add(self.%s, 1)" % T_NEXT, "AddWithOverflow(self.%s.0, 1).0" % T_NEXT)
    why = "next_id = next_id + 1; circuits.insert(id, circuit) with id copied before the increment"
    if ok:
        x = root_local(ti, mins[0].term["args"][1])
        rd = ti.defs.get(0, [])
        ok = x is not None
        if ok:
            xd = ti.defs.get(x, [])
            ok = len(xd) == 1 and xd[0][0] == "stmt" and TI.r(ti.rvalue_expr(xd[0][3])) == "self." + T_NEXT and \
                ((xd[0][1] == wr[0].bb and xd[0][2] < (wr[0].si if wr[0].si is not None else 10 ** 6)) or (xd[0][1] != wr[0].bb and ti.dominates(xd[0][1], wr[0].bb)))
            ok = ok and len(rd) == 1 and rd[0][0] == "stmt" and rd[0][3]["k"] == "use" and root_local(ti, rd[0][3]["o"]) == x
    ctx.ob("counter", "circuit ids are fresh (no tracked circuit is overwritten)", ok, "%s:%d" % (ti.file, ti.line), why)
    wh = set()
    for b in prog.bodies(RL):
        if "behaviour::CircuitsTracker" not in b.npath:
            continue
        for s in lib.field_mut_calls(b, T_MAP):
            wh.add(b.npath)
    ctx.ob("counter", "the circuit map is mutated only by insert / accepted / remove / remove_by_connection",
           wh <= {T_INSERT.npath, T_ACCEPTED.npath, T_REMOVE.npath, rbf.npath} and len(wh) >= 3, msg=str(sorted(wh)))
    add = ctx.body(RL, r"^libp2p_relay::<behaviour::CircuitId as std::ops::Add>::add$")
    r = [P.Norm(add).r(x) for _, x in P.ret_exprs(add)]
    ctx.ob("counter", "CircuitId + n adds to the inner counter", r == ["libp2p_relay::behaviour::CircuitId::CircuitId{0: AddWithOverflow(self.0, $2).0}"], "%s:%d" % (add.file, add.line), str(r))
    # ================================================================= un-tracking only at the end of life
    rm = prog.callers(RL, "^" + re.escape(T_REMOVE.npath) + "$")
    ctx.floor("untrack", "CircuitsTracker::remove call sites", rm, 4)
    allowed = {"CircuitReqDenied", "CircuitReqDenyFailed", "CircuitReqAcceptFailed", "CircuitClosed"}
    for s in rm:
        arms = arm_of(h, entries, s.bb) if s.body is h else None
        ok = arms is not None and len(arms) == 1 and arms[0] in allowed
        ctx.ob("untrack", "circuits are un-tracked only when they ended", ok, s.loc(), "CircuitsTracker::remove in %s arm %s" % (s.body.short[-40:], arms))
        if ok:
            a = N.r(h.site_expr(s)[2][1])
            ctx.ob("untrack", "%s: the un-tracked circuit is the reported one" % arms[0], re.match(r"^\$4@Left@%s\.circuit_id(@\+)?$" % arms[0], a) is not None, s.loc(), a)
    for arm in ("CircuitReqAcceptFailed", "CircuitClosed"):
        t = entries.get(arm)
        mine = [s.bb for s in rm if s.body is h and t is not None and s.bb in h.reachable([t])]
        got = lib.count_range(h, [t], rets, mine) if t is not None else None
        ctx.ob("untrack", "%s: circuit removed on every path" % arm, got == (1, 1), msg="CircuitsTracker::remove in the arm: %s" % (got,))
    for arm in ("CircuitReqDenied", "CircuitReqDenyFailed"):
        t = entries.get(arm)
        some = P.outcome_edges(h, lambda y, arm=arm: N.r(y) == "$4@Left@%s.circuit_id" % arm, True)
        mine = [s.bb for s in rm if s.body is h and t is not None and s.bb in h.reachable([t])]
        got = lib.count_range(h, P.targets(some), rets, mine) if some else None
        ctx.ob("untrack", "%s: a tracked circuit is removed on every path" % arm, got == (1, 1), msg="on the Some(circuit_id) edge: %s" % (got,))
    t = entries.get("OutboundConnectNegotiationFailed")
    if t is not None:
        den = in_sites("DenyCircuitReq", h.reachable([t]))
        ok = len(den) == 1 and N.r(dict(h.site_expr(den[0])[4]).get("circuit_id", ("unknown", "?"))) == "std::option::Option::Some{0: $4@Left@OutboundConnectNegotiationFailed.circuit_id}"
        ctx.ob("untrack", "a failed outbound negotiation hands the tracked id back for removal", ok, den[0].loc() if den else "", N.r(h.site_expr(den[0]))[:160] if den else "")
    rbc = prog.callers(RL, "^" + re.escape(rbf.npath) + "$")
    CC = P.Norm(cc)
    ctx.ob("untrack", "remove_by_connection is used only on connection close", len(rbc) == 1 and rbc[0].body is cc and
           CC.site(rbc[0]) == "%s(%s, $2.peer_id, $2.connection_id)" % (rbf.npath, CIRC), rbc[0].loc() if rbc else "", CC.site(rbc[0]) if rbc else "")
    if rbc:
        got = lib.count_range(cc, [0], cc.return_blocks(), [rbc[0].bb])
        ctx.ob("untrack", "a closed connection's circuits are removed on every path", got == (1, 1), rbc[0].loc(), str(got))
    # remove_by_connection(self, peer_id = $2, connection_id = $3): retain closure keeps a circuit only if neither (peer, connection) pair matches
    rt = [s for s in rbf.call_sites(r"HashMap::retain$") if P.Norm(rbf).r(rbf.site_expr(s)[2][0]) == "self." + T_MAP]
    ok = False
    detail = ""
    if len(rt) == 1 and ROLE:
        rb, ups = P.upvar_sources(prog, rbf, rbf.site_expr(rt[0]))
        ctx.use(rb)
        RB = P.Norm(rb)
        upr = [P.Norm(rbf).r(u) for u in ups]
        drops = [s for s, x in P.ret_exprs(rb) if P.const_val(x) == 0]
        keeps = [s for s, x in P.ret_exprs(rb) if P.const_val(x) == 1]
        # facts "circuit.<field> == captured": collect per bool flag local (is_src / is_dst): defs are 0 or Eq(conn field, captured conn) guarded by Eq(peer field, captured peer)
        pairs = set()
        flags = {}
        for l, ds in rb.defs.items():
            if not isinstance(l, int) or len(ds) != 2:
                continue
            vals = [rb.site_expr(mir.Site(rb, d[1], d[2])) for d in ds]
            cm = [P.cmpnf(v) for v in vals if P.const_val(v) is None]
            if len(cm) != 1 or cm[0] is None or cm[0][0] != "Eq" or sorted(P.const_val(v) for v in vals if P.const_val(v) is not None) != [0]:
                continue
            connf = [a_[2] for a_ in (cm[0][1], cm[0][2]) if a_[0] == "field"]
            d = [d for d in ds if P.const_val(rb.site_expr(mir.Site(rb, d[1], d[2]))) is None][0]
            peerf = set()
            for text, labels, _, c in rb.guards_on_all_paths(d[1]):
                c2 = P.cmpnf(c)
                if c2 and c2[0] == "Eq" and set(labels) == {"true"}:
                    peerf |= {a_[2] for a_ in (c2[1], c2[2]) if a_[0] == "field"}
            if len(connf) == 1 and len(peerf) == 1:
                pairs.add((next(iter(peerf)), connf[0]))
                flags[l] = True
        want_pairs = {(ROLE["srcp"], ROLE["srcc"]), (ROLE["dstp"], ROLE["dstc"])}
        ok = pairs == want_pairs and len(drops) == 1 and len(keeps) == 1 and sorted(upr)[:2] == ["$2", "$3"]
        if ok:
            for l in flags:
                ef = P.truth_edges(rb, lambda y, l=l: y[0] == "local" and y[1] == l, False)
                ok = ok and P.must_pass(rb, keeps[0].bb, ef)
        detail = "pairs compared: %s (expected %s)" % (sorted(pairs), sorted(want_pairs))
    ctx.ob("untrack", "remove_by_connection keeps a circuit only if neither end is the closed connection", ok, "%s:%d" % (rbf.file, rbf.line), detail)
    # ---- reservations: removal sites (inner map of `connections`, or the peer's whole entry)
    rrem = []
    for b in prog.bodies(RL):
        if "behaviour::Behaviour" not in b.npath or "behaviour::handler" in b.npath:
            continue
        BN = P.Norm(b, ids=True)
        occ_locals = {l for l in b.names if re.match(r"^std::collections::HashMap::entry\(%s, .*\)@Occupied$" % re.escape(CONN), P.Norm(b).r(b.init_expr(l)))}
        for s in b.call_sites(r"HashMap::remove$|OccupiedEntry::remove$|OccupiedEntry::remove_entry$|HashMap::clear$|HashMap::retain$"):
            a0 = b.site_expr(s)[2][0]
            base = [y for y in mir.walk(a0) if y[0] == "local" and y[1] in occ_locals]
            if base or (CONN in P.Norm(b).r(a0)):
                rrem.append(s)
    ctx.floor("untrack", "removals from `connections`", rrem, 4)
    for s in rrem:
        arms = arm_of(h, entries, s.bb) if s.body is h else None
        ok = (s.body is cc) or (arms == ["ReservationTimedOut"])
        ctx.ob("untrack", "reservations are un-tracked only on timeout or connection close", ok, s.loc(), "%s in %s %s" % (strip_generics(s.body.call_name(s.term)).split("::")[-1], s.body.short[-40:], arms or ""))

    def inner_removes(b, key):
        BN = P.Norm(b)
        return [s for s in rrem if s.body is b and strip_generics(b.call_name(s.term)).endswith("HashMap::remove") and BN.r(b.site_expr(s)[2][1]) == key]
    t = entries.get("ReservationTimedOut")
    if t is not None:
        occ = P.variant_edges(h, lambda y: N.r(y) == "std::collections::HashMap::entry(%s, $2)" % CONN, {"Occupied"})
        occ = [(a, b_) for a, b_ in occ if b_ in h.reachable([t])]
        got = lib.count_range(h, P.targets(occ), rets, lib.bbs(inner_removes(h, "$3"))) if occ else None
        ctx.ob("untrack", "a timed-out reservation is removed on every path", got == (1, 1), msg="connections[event_source].remove(connection): %s" % (got,))
    occ = P.variant_edges(cc, lambda y: CC.r(y) == "std::collections::HashMap::entry(%s, $2.peer_id)" % CONN, {"Occupied"})
    got = lib.count_range(cc, P.targets(occ), cc.return_blocks(), lib.bbs(inner_removes(cc, "$2.connection_id"))) if occ else None
    ctx.ob("untrack", "a closed connection's reservation is removed on every path", got == (1, 1), "%s:%d" % (cc.file, cc.line), "connections[peer].remove(connection_id): %s" % (got,))
    r = [P.Norm(ce).site(s) for s in ce.call_sites(r"HashMap::insert$")]
    ctx.ob("reservation", "a new connection starts without a reservation", r == ["std::collections::HashMap::insert(std::collections::hash_map::Entry::or_default(std::collections::HashMap::entry(%s, $2.peer_id)), $2.connection_id, %s)" % (CONN, NONE_)],
           "%s:%d" % (ce.file, ce.line), str(r)[:200])
