"""C41 MemoryStore behaves like a bounded map — limits (K9), guards (K1), per-edge effect counting incl. remove-before-insert ordering (K2/K3), who-may-write (K4)."""
import re

from .. import lib, mir
from .. import lib_kad as lk
from ..mir import render, strip_generics
from ..lib_kad import R, cnt, tg, K

EXPLANATION = (
    "put: every insertion is on the false edge of `value.len() >= max_value_bytes`; a vacant key is inserted only on the false edge of "
    "`records.len() >= max_records`; an occupied key is replaced through OccupiedEntry::insert; Ok is returned after exactly one insertion of the "
    "given record under its own key, every Err after none; get/remove/records read and delete in the same `records` map, which nothing else writes. "
    "add_provider: a new key is created only on the not-at-limit edge of max_provided_keys; a provider equal to an existing one is overwritten in "
    "place (no push); a push happens only when no equal provider was found and `len == max_providers_per_key` is false (unit increments), a full list "
    "changes nothing. The local index `provided`: every mutation of it is on a true edge of `local_key.preimage() == <that record>.provider`; "
    "the in-place update of a local record performs remove(old) *before* insert(new) exactly once each (HashSet::insert never replaces an equal "
    "element and ProviderRecord equality/hash is (key, provider) only), a first-time local push inserts once, a non-local record never touches it; "
    "remove_provider removes at the position of the matching provider, drops it from `provided` exactly once iff it is the local node's, and deletes the "
    "key only when its list became empty. providers()/provided() read those same collections.")
ASSUMPTIONS = ["std HashMap/HashSet/SmallVec semantics (HashSet::insert keeps an existing equal element)"]
SELFTEST = [
    {"mutation": "seeded C41: drop `self.provided.remove(p)` in the in-place update branch", "caught_by": "provided/in-place update of a local record: remove(old) then insert(new)"},
    {"mutation": "put: `>=` -> `>` for max_value_bytes", "caught_by": "put/value size strictly below max_value_bytes"},
    {"mutation": "put: `num_records >= max_records` -> `>`", "caught_by": "put/new key only below max_records"},
    {"mutation": "add_provider: drop the max_providers_per_key early return", "caught_by": "providers/push only below max_providers_per_key"},
    {"mutation": "add_provider push path: `==` -> `!=` in the local-provider test", "caught_by": "provided/mutated only for the local node's records"},
    {"mutation": "remove_provider: drop `self.provided.remove(&p)`", "caught_by": "provided/removing the local node's record drops it from provided exactly once"},
    {"mutation": "add_provider in-place branch: also push", "caught_by": "providers/in-place update does not grow the list"},
]

MS = r"record::store::memory::MemoryStore as record::store::RecordStore>::"
LOCAL = r"^std::cmp::impls::(?:eq|ne)\(libp2p_kad::kbucket::key::Key::preimage\(self\.local_key\), (.*)\.provider\)$|^std::cmp::impls::(?:eq|ne)\((.*)\.provider, libp2p_kad::kbucket::key::Key::preimage\(self\.local_key\)\)$"


def local_edges(b, want):
    """edges on which `local == X.provider` has truth value `want`; returns {edge: X}"""
    out = {}
    for bi in b.live:
        info = b.switch_info(bi)
        if not info:
            continue
        m = re.match(LOCAL, render(info[0]))
        if not m:
            continue
        neg = render(info[0]).startswith("std::cmp::impls::ne(")
        w = want if not neg else ("false" if want == "true" else "true")
        for t, ls in info[1].items():
            if ls == {w}:
                out[(bi, t)] = m.group(1) or m.group(2)
    return out


def check(ctx):
    prog = ctx.prog
    check_put(ctx, prog)
    check_add(ctx, prog)
    check_remove(ctx, prog)
    check_who(ctx, prog)


def check_put(ctx, prog):
    b = ctx.body(K, MS + r"put$")
    W = lk.where(b)
    rets = b.return_blocks()
    occ = b.call_sites(r"hash_map::OccupiedEntry::insert$")
    vac = b.call_sites(r"hash_map::VacantEntry::insert$")
    ctx.floor("put", "entry inserts", occ + vac, 2)
    ctx.ob("put", "floor:one replace, one fresh insert", len(occ) == 1 and len(vac) == 1, W, nontrivial=False, msg="%d %d" % (len(occ), len(vac)))
    VL, MV = r"^std::vec::Vec::len\(r\.value\)$", r"^self\.config\.max_value_bytes$"
    RL, MR = r"^std::collections::HashMap::len\(self\.records\)$", r"^self\.config\.max_records$"
    for s in occ + vac:
        lib.limit_guard(ctx, "put", "value size strictly below max_value_bytes", s, VL, MV, "r.value.len() < max_value_bytes on every path to the insertion")
        e = b.site_expr(s)
        ctx.ob("put", "stores the given record", render(e[2][-1]) == "r", s.loc(), render(e[2][-1]))
        ctx.ob("put", "under the record's own key", re.match(r"^std::collections::HashMap::entry\(self\.records, libp2p_kad::<record::Key as std::clone::Clone>::clone\(r\.key\)\)@(Vacant|Occupied)\.0$", render(b.init_expr(e[2][0][1])) if e[2][0][0] == "local" else render(e[2][0])) is not None, s.loc(), render(e[2][0])[:160])
    for s in vac:
        lib.limit_guard(ctx, "put", "new key only below max_records", s, RL, MR, "records.len() < max_records on every path to VacantEntry::insert")
        ctx.guarded("put", "fresh insert only for a vacant key", s, lambda c, r, l: l == "Vacant" and r.startswith("discr(std::collections::HashMap::entry(self.records, "), "entry is Vacant")
    for s in occ:
        ctx.guarded("put", "replace only for an occupied key", s, lambda c, r, l: l == "Occupied" and r.startswith("discr(std::collections::HashMap::entry(self.records, "), "entry is Occupied")
        weak = lib.cmp_guard(b, RL, MR, None)
        dom = [x for x in weak if b.dominates(x[0], s.bb)]
        ctx.ob("put", "replacing an existing key is not subject to max_records", not dom, s.loc(), "put replaces even when the store is full")
    res = {}
    for s in lk.ret_sites(b):
        t = R(b, s)
        m = re.search(r"Result::(Ok|Err)\{0: (?:libp2p_kad::record::store::Error::(\w+))?", t)
        res.setdefault(m.group(2) or m.group(1) if m else "?", []).append(s)
    ctx.ob("put", "floor:results", set(res) == {"Ok", "ValueTooLarge", "MaxRecords"}, W, nontrivial=False, msg=str({k: len(v) for k, v in res.items()}))
    for s in res.get("Ok", []):
        got = cnt(b, [0], [s.bb], occ + vac)
        ctx.ob("put", "Ok <=> exactly one insertion", got == (1, 1), s.loc(), str(got))
    for k in ("ValueTooLarge", "MaxRecords"):
        for s in res.get(k, []):
            got = cnt(b, [0], [s.bb], occ + vac)
            ctx.ob("put", "Err(%s) <=> nothing stored" % k, got == (0, 0), s.loc(), str(got))
            e = lib.at_limit_edges(b, VL, MV) if k == "ValueTooLarge" else lib.at_limit_edges(b, RL, MR)
            ctx.ob("put", "Err(%s) only at its limit" % k, bool(e) and b.must_pass_edges(s.bb, e), s.loc(), "")
    for fn, want in (("get", "std::option::Option::map(std::collections::HashMap::get(self.records, k), fn:std::borrow::Cow::Borrowed)"),
                     ("records", "std::iter::Iterator::map(std::collections::HashMap::values(self.records), fn:std::borrow::Cow::Borrowed)"),
                     ("providers", None), ("provided", "std::iter::Iterator::map(std::collections::HashSet::iter(self.provided), fn:std::borrow::Cow::Borrowed)")):
        f = ctx.body(K, MS + fn + "$")
        rs = [R(f, s) for s in lk.ret_sites(f)]
        if want is None:
            ok = len(rs) == 1 and rs[0].startswith("std::option::Option::map_or_else(std::collections::HashMap::get(self.providers, key), fn:std::vec::Vec::new, closure:")
        else:
            ok = rs == [want]
        ctx.ob("put", "%s() reads the collection that the mutators write" % fn, ok, lk.where(f), str(rs)[:200])
    rm = ctx.body(K, MS + r"remove$")
    cs = [R(rm, s) for s in rm.call_sites()]
    ctx.ob("put", "remove() deletes the key from records", "std::collections::HashMap::remove(self.records, k)" in cs, lk.where(rm), str(cs))


def check_add(ctx, prog):
    b = ctx.body(K, MS + r"add_provider$")
    W = lk.where(b)
    rets = b.return_blocks()
    oiw = b.call_sites(r"hash_map::Entry::(or_insert_with|or_default|or_insert)$")
    ctx.floor("providers", "entry(..).or_insert_with", oiw, 1, exact=True)
    vac = tg(lib.switch_edges_on(b, r"^discr\(std::collections::HashMap::entry\(self\.providers, libp2p_kad::<record::Key as std::clone::Clone>::clone\(record\.key\)\)\)$", {"Vacant"}))
    ctx.ob("providers", "floor:vacant-key edge", len(vac) == 1, W, nontrivial=False, msg=str(vac))
    KL, MK = r"^std::collections::HashMap::len\(self\.providers\)$", r"^self\.config\.max_provided_keys$"
    good, weak = lib.strict_limit_edges(b, KL, MK, True)
    for s in oiw:
        ok = bool(good) and bool(vac) and b.must_pass_edges(s.bb, good, start=vac[0])
        ctx.ob("providers", "a new key is created only below max_provided_keys", ok, s.loc(), "every path from the Vacant edge to or_insert_with passes the not-at-limit edge (== with unit increments)")
    lens = [s for s in b.call_sites(r"^std::collections::HashMap::len$") if render(b.site_expr(s)[2][0]) == "self.providers"]
    ent = [s for s in b.call_sites(r"^std::collections::HashMap::entry$")]
    ctx.ob("providers", "key count is read before the entry is taken", len(lens) == 1 and len(ent) == 1 and b.dominates(lens[0].bb, ent[0].bb), W, "")
    at = lib.at_limit_edges(b, KL, MK)
    for s in [x for x in lk.ret_sites(b) if "MaxProvidedKeys" in R(b, x)]:
        ctx.ob("providers", "Err(MaxProvidedKeys) only for a new key at the limit", bool(at) and b.must_pass_edges(s.bb, at) and bool(vac) and b.must_pass_nodes([0], [s.bb], vac), s.loc(), "")
    # list operations
    push = b.call_sites(r"smallvec::SmallVec::push$")
    ctx.floor("providers", "push", push, 1, exact=True)
    over = [s for s in b.stmt_sites(lambda st: st["k"] == "assign" and st["p"].get("pr") and all(pr["k"] == "deref" for pr in st["p"]["pr"]) and b.names.get(st["p"]["l"]) == "p")]
    ctx.floor("providers", "in-place overwrite `*p = record`", over, 1, exact=True)
    same = lib.switch_edges_on(b, r"^<libp2p_core::PeerId as std::cmp::PartialEq>::eq\(p\.provider, record\.provider\)$|^<libp2p_core::PeerId as std::cmp::PartialEq>::eq\(record\.provider, p\.provider\)$", {"true"})
    heads = b.call_sites(r"slice::IterMut as std::iter::Iterator>::next$")
    exhausted = set()
    for h in heads:
        exhausted |= lib.switch_edges_on_site(b, h, {"None"})
    PL, MP = r"^smallvec::SmallVec::len\(std::collections::hash_map::Entry::or_insert_with\(", r"^self\.config\.max_providers_per_key$"
    for s in over:
        ctx.ob("providers", "overwrite only the entry of the same provider", bool(same) and b.must_pass_edges(s.bb, same), s.loc(), "p.provider == record.provider")
        ctx.ob("providers", "overwrite stores the new record", R(b, s) == "record", s.loc(), R(b, s))
        src = render(b.init_expr(s.stmt["p"]["l"]))
        ctx.ob("providers", "overwritten element belongs to this key's list", src == "<std::slice::IterMut as std::iter::Iterator>::next(iter)@Some.0", s.loc(), src)
    st_ = tg(same)
    if st_:
        got = cnt(b, st_, rets, push), cnt(b, st_, rets, over)
        ctx.ob("providers", "in-place update does not grow the list", got == ((0, 0), (1, 1)), W, "on the same-provider edge: push %s, overwrite %s" % got)
        ok_ret = {R(b, s) for s in lk.ret_sites(b) if s.bb in b.reachable(st_, stop_nodes=lib.bbs(heads))}
        ctx.ob("providers", "in-place update returns Ok", ok_ret == {"std::result::Result::Ok{0: tuple{}}"}, W, str(ok_ret))
    for s in push:
        lib.limit_guard(ctx, "providers", "push only below max_providers_per_key", s, PL, MP, "providers.len() != max_providers_per_key (unit increments)", unit_increment=True)
        ctx.ob("providers", "push only when no record of this provider exists", bool(exhausted) and b.must_pass_edges(s.bb, exhausted), s.loc(), "the scan over existing providers ended without a match")
        e = b.site_expr(s)
        ctx.ob("providers", "pushes the given record into this key's list", render(e[2][1]) == "record" and render(e[2][0]).startswith("std::collections::hash_map::Entry::or_insert_with("), s.loc(), R(b, s)[:160])
    full = tg(lib.at_limit_edges(b, PL, MP))
    if full:
        got = cnt(b, full, rets, push + over + lk.recv_calls(b, r"HashSet::(insert|remove|replace)$", r"^self\.provided$"))
        ctx.ob("providers", "a full list ignores a new provider", got == (0, 0), W, str(got))
    # ---- provided
    pins = lk.recv_calls(b, r"^std::collections::HashSet::insert$", r"^self\.provided$")
    prem = lk.recv_calls(b, r"^std::collections::HashSet::remove$", r"^self\.provided$")
    prep = lk.recv_calls(b, r"^std::collections::HashSet::replace$", r"^self\.provided$")
    ctx.floor("provided", "add_provider: provided mutations", pins + prem + prep, 2)
    loc_t = local_edges(b, "true")
    loc_f = local_edges(b, "false")
    ctx.ob("provided", "floor:local-provider tests", len(loc_t) >= 2 and len(loc_f) >= 2, W, nontrivial=False, msg="%s %s" % (loc_t, loc_f))
    for s in pins + prem + prep:
        ed = {e for e, x in loc_t.items() if x == "record"}
        ctx.ob("provided", "mutated only for the local node's records", bool(ed) and b.must_pass_edges(s.bb, ed), s.loc(), "local_key.preimage() == record.provider on every path to %s" % R(b, s)[:80])
    for s in pins + prep:
        a = render(b.site_expr(s)[2][1])
        ctx.ob("provided", "the indexed record is the stored record", a == "libp2p_kad::<record::ProviderRecord as std::clone::Clone>::clone(record)", s.loc(), a)
    # in-place arm
    inpl_t = [t for (x, t), r in loc_t.items() if st_ and x in b.reachable(st_, stop_nodes=lib.bbs(heads))]
    inpl_f = [t for (x, t), r in loc_f.items() if st_ and x in b.reachable(st_, stop_nodes=lib.bbs(heads))]
    ctx.ob("provided", "floor:in-place local test", len(inpl_t) == 1 and len(inpl_f) == 1, W, nontrivial=False, msg="%s %s" % (inpl_t, inpl_f))
    if inpl_t:
        r_, i_, p_ = cnt(b, inpl_t, rets, prem), cnt(b, inpl_t, rets, pins), cnt(b, inpl_t, rets, prep)
        two = r_ == (1, 1) and i_ == (1, 1) and p_ == (0, 0)
        one = r_ == (0, 0) and i_ == (0, 0) and p_ == (1, 1)
        order = True
        if two:
            rb = [s.bb for s in prem if s.bb in b.reachable(inpl_t)]
            ib = [s.bb for s in pins if s.bb in b.reachable(inpl_t, stop_nodes=lib.bbs(heads))]
            order = all(b.dominates(r, i) and r != i for r in rb for i in ib)
            for s in prem:
                if s.bb in b.reachable(inpl_t):
                    a = render(b.site_expr(s)[2][1])
                    ctx.ob("provided", "in-place update removes the old element", a == "p", s.loc(), a)
        ctx.ob("provided", "in-place update of a local record: remove(old) then insert(new)", (two and order) or one, W,
               "HashSet::insert keeps an existing equal element, so the stale record must be removed first (or HashSet::replace used): remove %s, insert %s, replace %s, remove-before-insert %s" % (r_, i_, p_, order))
        ob = [s.bb for s in over]
        mb = [s.bb for s in prem + pins + prep if s.bb in b.reachable(inpl_t, stop_nodes=lib.bbs(heads))]
        ctx.ob("provided", "provided is updated before the old element is overwritten", bool(ob) and all(b.dominates(m, o) or m not in b.reachable(b.succ[o]) for m in mb for o in ob), W, "remove(p) reads the old record")
    if inpl_f:
        got = cnt(b, inpl_f, rets, prem + pins + prep)
        ctx.ob("provided", "in-place update of a foreign record leaves provided alone", got == (0, 0), W, str(got))
    # push arm
    push_t = [t for (x, t), r in loc_t.items() if t not in inpl_t]
    push_f = [t for (x, t), r in loc_f.items() if t not in inpl_f]
    if push_t and push_f and push:
        got = cnt(b, push_t, rets, pins + prep), cnt(b, push_t, rets, prem), cnt(b, push_t, rets, push)
        ctx.ob("provided", "first local record: indexed exactly once and pushed", got == ((1, 1), (0, 0), (1, 1)), W, "insert %s remove %s push %s" % got)
        got = cnt(b, push_f, rets, pins + prem + prep), cnt(b, push_f, rets, push)
        ctx.ob("provided", "first foreign record: pushed, provided untouched", got == ((0, 0), (1, 1)), W, "provided mutations %s push %s" % got)
        for s in push:
            tests = [x for (x, t) in list(loc_t) + list(loc_f) if t in push_t + push_f]
            ctx.ob("provided", "every push is preceded by the local-provider test", bool(tests) and b.must_pass_nodes([0], [s.bb], tests), s.loc(), "")
    eq = ctx.body(K, r"record::ProviderRecord as std::cmp::PartialEq>::eq$")
    flds = sorted(set(re.findall(r"self\.(\w+)", " ".join(R(eq, s) for s in eq.call_sites()))))
    hs = ctx.body(K, r"record::ProviderRecord as std::hash::Hash>::hash$")
    hf = sorted(set(re.findall(r"self\.(\w+)", " ".join(R(hs, s) for s in hs.call_sites()))))
    ctx.ob("provided", "ProviderRecord identity (Eq and Hash) is (key, provider)", flds == ["key", "provider"] and hf == ["key", "provider"], lk.where(eq), "eq over %s, hash over %s" % (flds, hf))


def check_remove(ctx, prog):
    b = ctx.body(K, MS + r"remove_provider$")
    W = lk.where(b)
    rets = b.return_blocks()
    rm = b.call_sites(r"smallvec::SmallVec::remove$")
    ctx.floor("provided", "remove_provider: SmallVec::remove", rm, 1, exact=True)
    prem = lk.recv_calls(b, r"^std::collections::HashSet::remove$", r"^self\.provided$")
    ctx.floor("provided", "remove_provider: provided.remove", prem, 1)
    other = lk.recv_calls(b, r"^std::collections::HashSet::(insert|replace|clear|retain)$", r"^self\.provided$")
    ctx.ob("provided", "remove_provider never adds to provided", not other, W, str([R(b, s)[:60] for s in other]))
    for s in rm:
        e = b.site_expr(s)
        idx = render(e[2][1])
        ctx.ob("providers", "remove_provider removes at the position of the matching provider", idx.startswith("<std::slice::Iter as std::iter::Iterator>::position(") and idx.endswith("[provider])@Some.0"), s.loc(), idx[-120:])
        ctx.ob("providers", "remove_provider works on the list of the given key", "std::collections::hash_map::OccupiedEntry::get_mut(e)" == render(e[2][0]) and render(b.init_expr(lib.local_by_name(b, "e"))) == "std::collections::HashMap::entry(self.providers, libp2p_kad::<record::Key as std::clone::Clone>::clone(key))@Occupied.0", s.loc(), render(e[2][0]))
    cl = ctx.body(K, MS + r"remove_provider::\{closure#0\}$")
    rs = [R(cl, s) for s in lk.ret_sites(cl)]
    ctx.ob("providers", "remove_provider matches on the provider id", rs in (["std::cmp::impls::eq(p.provider, ^provider)"], ["std::cmp::impls::eq(^provider, p.provider)"]), lk.where(cl), str(rs))
    loc_t, loc_f = local_edges(b, "true"), local_edges(b, "false")
    ctx.ob("provided", "floor:remove_provider local test", len(loc_t) == 1 and len(loc_f) == 1, W, nontrivial=False, msg=str(loc_t))
    for s in prem:
        ok = bool(loc_t) and b.must_pass_edges(s.bb, set(loc_t)) and all(x.startswith("smallvec::SmallVec::remove(") for x in loc_t.values())
        ctx.ob("provided", "remove_provider: provided shrinks only for the local node's record", ok, s.loc(), "removed.provider == local_key.preimage()")
        a = render(b.site_expr(s)[2][1])
        ctx.ob("provided", "remove_provider: drops the record that was removed from the list", a.startswith("smallvec::SmallVec::remove(std::collections::hash_map::OccupiedEntry::get_mut(e), "), s.loc(), a[:100])
    if loc_t:
        got = cnt(b, tg(loc_t), rets, prem)
        ctx.ob("provided", "removing the local node's record drops it from provided exactly once", got == (1, 1), W, str(got))
    if loc_f:
        got = cnt(b, tg(loc_f), rets, prem)
        ctx.ob("provided", "removing a foreign record leaves provided alone", got == (0, 0), W, str(got))
    for s in rm:
        tests = [x for (x, t) in list(loc_t) + list(loc_f)]
        ctx.ob("provided", "every removal from a list is followed by the local-provider test", bool(tests) and b.must_pass_nodes(b.succ[s.bb], rets, tests), s.loc(), "")
    er = b.call_sites(r"hash_map::OccupiedEntry::remove(_entry)?$")
    for s in er:
        ctx.guarded("providers", "a key is deleted only when its provider list is empty", s, lambda c, r, l: l == "true" and r == "smallvec::SmallVec::is_empty(std::collections::hash_map::OccupiedEntry::get_mut(e))", "providers.is_empty()")
    ctx.floor("providers", "empty-list cleanup", er, 1)


def check_who(ctx, prog):
    MUT = r"(HashMap|HashSet)::(insert|remove|remove_entry|entry|retain|clear|drain|extend|replace|take|get_mut|values_mut|iter_mut|get_or_insert_with|extract_if)$"
    who = {"records": set(), "providers": set(), "provided": set()}
    for b in prog.bodies(K):
        if "record::store::memory" not in b.npath:
            continue
        for s in b.call_sites(MUT):
            r = render(b.site_expr(s)[2][0])
            for f in who:
                if r == "self." + f:
                    who[f].add(b.npath.split("::")[-1] + ":" + strip_generics(b.call_name(s.term)).split("::")[-1])
    ctx.ob("who", "records written only by put (entry), remove, retain", who["records"] == {"put:entry", "remove:remove", "retain:retain"}, msg=str(sorted(who["records"])))
    ctx.ob("who", "providers written only by add_provider / remove_provider (entry)", who["providers"] == {"add_provider:entry", "remove_provider:entry"}, msg=str(sorted(who["providers"])))
    ctx.ob("who", "provided written only by add_provider / remove_provider", who["provided"] == {"add_provider:insert", "add_provider:remove", "remove_provider:remove"} or who["provided"] == {"add_provider:insert", "add_provider:replace", "remove_provider:remove"}, msg=str(sorted(who["provided"])))
    wc = ctx.body(K, r"record::store::memory::MemoryStore::with_config$")
    ag = [R(wc, s) for s in wc.agg_sites(r"memory::MemoryStore$")]
    ok = len(ag) == 1 and "local_key: libp2p_kad::<kbucket::key::Key as std::convert::From>::from(local_id)" in ag[0] and ag[0].count("as std::default::Default>::default()") == 3 and "config: config" in ag[0]
    ctx.ob("who", "a new store is empty, keyed by the given local id, with the given limits", ok, lk.where(wc), str(ag)[:300])
