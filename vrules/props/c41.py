"""C41 MemoryStore behaves like a bounded map — limits (K9), guards (K1), per-edge effect counting incl. remove-before-insert ordering (K2/K3), who-may-write (K4)."""
import re

from .. import lib, mir
from .. import lib_kad as lk
from ..mir import render, strip_generics
from ..lib_kad import R, cnt, tg, K

EXPLANATION = (
    "put: every insertion is on the false edge of `value.len() >= max_value_bytes`; a vacant key is inserted only on the false edge of "
    "`records.len() >= max_records`; an occupied key is replaced through OccupiedEntry::insert; Ok is returned after exactly one insertion of the "
    "given record under its own key, every Err after none; get/remove/records read and delete in the same `records` map, which nothing else writes. "
    "add_provider: a new key is created only on the not-at-limit edge of max_provided_keys; a provider equal to an existing one is overwritten in "
    "place (no push); a push happens only when no equal provider was found and `len == max_providers_per_key` is false (unit increments), a full list "
    "changes nothing. The local index `provided`: every mutation of it is on a true edge of `local_key.preimage() == <that record>.provider`; "
    "the in-place update of a local record performs remove(old) *before* insert(new) exactly once each (HashSet::insert never replaces an equal "
    "element and ProviderRecord equality/hash is (key, provider) only), a first-time local push inserts once, a non-local record never touches it; "
    "remove_provider removes at the position of the matching provider, drops it from `provided` exactly once iff it is the local node's, and deletes the "
    "key only when its list became empty. providers()/provided() read those same collections.")
ASSUMPTIONS = ["std HashMap/HashSet/SmallVec semantics (HashSet::insert keeps an existing equal element)"]
TECHNIQUE = ("All patterns are evaluated on a normalised view of the MIR facts (vrules/lib_kad.canon): parameters by position, every "
             "single-definition local expanded to its initialiser, closure captures by index, trivial crate-local helpers (accessors, one-comparison "
             "predicates, one-line constructors) replaced by their bodies, private fields resolved by their type, comparisons normalised over operand "
             "order / mirrored operators / method-call form / `!`, guard sets closed under bool hoisting. Behaviour-preserving refactorings that must stay "
             "silent are archived in /verif/neutral/kad (01-12 and x1-author-combinators.diff).")
SELFTEST = [
    {"mutation": "seeded C41: drop `self.provided.remove(p)` in the in-place update branch", "caught_by": "provided/in-place update of a local record: remove(old) then insert(new)"},
    {"mutation": "put: `>=` -> `>` for max_value_bytes", "caught_by": "put/value size strictly below max_value_bytes"},
    {"mutation": "put: `num_records >= max_records` -> `>`", "caught_by": "put/new key only below max_records"},
    {"mutation": "add_provider: drop the max_providers_per_key early return", "caught_by": "providers/push only below max_providers_per_key"},
    {"mutation": "add_provider push path: `==` -> `!=` in the local-provider test", "caught_by": "provided/mutated only for the local node's records"},
    {"mutation": "remove_provider: drop `self.provided.remove(&p)`", "caught_by": "provided/removing the local node's record drops it from provided exactly once"},
    {"mutation": "add_provider in-place branch: also push", "caught_by": "providers/in-place update does not grow the list"},
]

MS = r"record::store::memory::MemoryStore as record::store::RecordStore>::"


class F:
    pass


def resolve(prog):
    ms = r"record::store::memory::MemoryStore$"
    F.local_key = lk.fld(prog, ms, r"^kbucket::key::Key<")
    F.config = lk.fld(prog, ms, r"MemoryStoreConfig$")
    F.records = lk.fld(prog, ms, r"^std::collections::HashMap<record::Key, record::Record>$")
    F.providers = lk.fld(prog, ms, r"^std::collections::HashMap<record::Key, smallvec::SmallVec<")
    F.provided = lk.fld(prog, ms, r"^std::collections::HashSet<")
    F.pre = lk.fld(prog, r"kbucket::key::Key$", r"^T$")
    F.LOCAL = r"(?:self\.%s\.%s|libp2p_kad::kbucket::key::Key::preimage\(self\.%s\))" % (F.local_key, F.pre, F.local_key)


PROG = None
PROBLEMS = []
ANALYSED = set()


def recv(b, callee_pat, recv_pat):
    """like lk.recv_calls, plus calls of private helpers that perform exactly one such call on every path"""
    return lk.with_helpers(PROG, b, lambda x: lk.recv_calls(x, callee_pat, recv_pat), PROBLEMS, ANALYSED)


def local_edges(b, want):
    """edges on which `local == X.provider` has truth value `want`; returns {edge: X}"""
    out = {}
    for bi in b.live:
        info = b.switch_info(bi)
        if not info:
            continue
        c = lk.as_cmp(info[0])
        if not c or c[0] not in ("Eq", "Ne"):
            continue
        x, y = render(c[1]), render(c[2])
        subj = None
        for u, v in ((x, y), (y, x)):
            if re.match("^" + F.LOCAL + "$", u) and v.endswith(".provider"):
                subj = v[:-len(".provider")]
        if subj is None:
            continue
        for t, ls in info[1].items():
            if len(ls) != 1:
                continue
            truth = (list(ls)[0] == "true") == (c[0] == "Eq")
            if ("true" if truth else "false") == want:
                out[(bi, t)] = subj
    return out


def check(ctx):
    global PROG
    prog = PROG = lk.canon(ctx)
    del PROBLEMS[:]
    ANALYSED.clear()
    ANALYSED.update(x.npath for x in prog.find(K, MS))
    resolve(prog)
    check_put(ctx, prog)
    check_add(ctx, prog)
    check_remove(ctx, prog)
    check_who(ctx, prog)
    ctx.ob("who", "every helper that mutates the store has a path-independent effect (summarised at its call sites)", not PROBLEMS, msg=str(sorted(set(PROBLEMS)))[:300])


def entry_key(b, s):
    """(map, key) of the HashMap::entry call an Occupied/VacantEntry operand derives from"""
    for c in mir.calls_in(b.site_expr(s)[2][0], r"^std::collections::HashMap::entry$"):
        return render(c[2][0]), render(c[2][1])
    return None, None


def check_put(ctx, prog):
    b = ctx.body(K, MS + r"put$")
    W = lk.where(b)
    occ = b.call_sites(r"hash_map::OccupiedEntry::insert$")
    vac = b.call_sites(r"hash_map::VacantEntry::insert$")
    ctx.floor("put", "entry inserts", occ + vac, 2)
    ctx.ob("put", "floor:one replace, one fresh insert", len(occ) == 1 and len(vac) == 1, W, nontrivial=False, msg="%d %d" % (len(occ), len(vac)))
    VL, MV = r"^std::vec::Vec::len\(#2\.value\)$", r"^self\.%s\.max_value_bytes$" % F.config
    RL, MR = r"^std::collections::HashMap::len\(self\.%s\)$" % F.records, r"^self\.%s\.max_records$" % F.config
    ENTRY = r"^discr\(std::collections::HashMap::entry\(self\.%s, " % F.records
    for s in occ + vac:
        lk.limit(ctx, "put", "value size strictly below max_value_bytes", s, VL, MV, "r.value.len() < max_value_bytes on every path to the insertion")
        e = b.site_expr(s)
        ctx.ob("put", "stores the given record", render(e[2][-1]) == "#2", s.loc(), render(e[2][-1]))
        m, k = entry_key(b, s)
        ctx.ob("put", "under the record's own key", m == "self.%s" % F.records and k in ("libp2p_kad::<record::Key as std::clone::Clone>::clone(#2.key)", "#2.key"), s.loc(), "%s[%s]" % (m, k))
    for s in vac:
        lk.limit(ctx, "put", "new key only below max_records", s, RL, MR, "records.len() < max_records on every path to VacantEntry::insert")
        ctx.guarded("put", "fresh insert only for a vacant key", s, lambda c, r, l: l == "Vacant" and re.match(ENTRY, r) is not None, "entry is Vacant")
    for s in occ:
        ctx.guarded("put", "replace only for an occupied key", s, lambda c, r, l: l == "Occupied" and re.match(ENTRY, r) is not None, "entry is Occupied")
        dom = [x for x in lk.all_rel_edges(b, RL, MR) if b.dominates(x[0], s.bb)]
        ctx.ob("put", "replacing an existing key is not subject to max_records", not dom, s.loc(), "put replaces even when the store is full")
    res = {}
    for s in lk.ret_sites(b):
        t = R(b, s)
        m = re.search(r"Result::(Ok|Err)\{0: (?:libp2p_kad::record::store::Error::(\w+))?", t)
        res.setdefault(m.group(2) or m.group(1) if m else "?", []).append(s)
    ctx.ob("put", "floor:results", set(res) == {"Ok", "ValueTooLarge", "MaxRecords"}, W, nontrivial=False, msg=str({k: len(v) for k, v in res.items()}))
    for s in res.get("Ok", []):
        got = cnt(b, [0], [s.bb], occ + vac)
        ctx.ob("put", "Ok <=> exactly one insertion", got == (1, 1), s.loc(), str(got))
    for k in ("ValueTooLarge", "MaxRecords"):
        for s in res.get(k, []):
            got = cnt(b, [0], [s.bb], occ + vac)
            ctx.ob("put", "Err(%s) <=> nothing stored" % k, got == (0, 0), s.loc(), str(got))
            e = lk.rel_edges(b, VL, MV, ">=") if k == "ValueTooLarge" else lk.rel_edges(b, RL, MR, ">=")
            ctx.ob("put", "Err(%s) only at its limit" % k, lk.passes(b, s.bb, e), s.loc(), "")
    for fn, want in (("get", r"^std::option::Option::map\(std::collections::HashMap::get\(self\.%s, #2\), fn:std::borrow::Cow::Borrowed\)$" % F.records),
                     ("records", r"^std::iter::Iterator::map\(std::collections::HashMap::values\(self\.%s\), fn:std::borrow::Cow::Borrowed\)$" % F.records),
                     ("providers", r"^std::option::Option::map_or_else\(std::collections::HashMap::get\(self\.%s, #2\), fn:std::vec::Vec::new, closure:" % F.providers),
                     ("provided", r"^std::iter::Iterator::map\(std::collections::HashSet::iter\(self\.%s\), fn:std::borrow::Cow::Borrowed\)$" % F.provided)):
        f = ctx.body(K, MS + fn + "$")
        rs = [R(f, s) for s in lk.ret_sites(f)]
        ctx.ob("put", "%s() reads the collection that the mutators write" % fn, len(rs) == 1 and re.match(want, rs[0]) is not None, lk.where(f), str(rs)[:200])
    rm = ctx.body(K, MS + r"remove$")
    cs = [R(rm, s) for s in rm.call_sites()]
    ctx.ob("put", "remove() deletes the key from records", "std::collections::HashMap::remove(self.%s, #2)" % F.records in cs, lk.where(rm), str(cs))


def check_add(ctx, prog):
    b = ctx.body(K, MS + r"add_provider$")
    W = lk.where(b)
    rets = b.return_blocks()
    PROVIDERS, PROVIDED = "self.%s" % F.providers, r"^self\.%s$" % F.provided
    oiw = b.call_sites(r"hash_map::Entry::(or_insert_with|or_default|or_insert)$")
    ctx.floor("providers", "entry(..).or_insert_with", oiw, 1, exact=True)
    ent = [s for s in b.call_sites(r"^std::collections::HashMap::entry$") if render(b.site_expr(s)[2][0]) == PROVIDERS]
    ctx.floor("providers", "providers.entry(key)", ent, 1, exact=True)
    vac = set()
    for s in ent:
        vac |= lib.switch_edges_on_site(b, s, {"Vacant"})
        k = render(b.site_expr(s)[2][1])
        ctx.ob("providers", "the entry is that of the record's own key", k in ("libp2p_kad::<record::Key as std::clone::Clone>::clone(#2.key)", "#2.key"), s.loc(), k)
    vac = tg(vac)
    ctx.ob("providers", "floor:vacant-key edge", len(vac) == 1, W, nontrivial=False, msg=str(vac))
    KL, MK = r"^std::collections::HashMap::len\(self\.%s\)$" % F.providers, r"^self\.%s\.max_provided_keys$" % F.config
    good = lk.rel_edges(b, KL, MK, "<") | lk.rel_edges(b, KL, MK, "!=")
    for s in oiw:
        ok = bool(vac) and lk.passes(b, s.bb, good, start=vac[0])
        ctx.ob("providers", "a new key is created only below max_provided_keys", ok, s.loc(), "every path from the Vacant edge to or_insert_with passes the not-at-limit edge (== with unit increments)")
    lens = [s for s in b.call_sites(r"^std::collections::HashMap::len$") if render(b.site_expr(s)[2][0]) == PROVIDERS]
    ctx.ob("providers", "key count is read before the entry is taken", len(lens) >= 1 and len(ent) == 1 and all(b.dominates(l.bb, ent[0].bb) for l in lens), W, "")
    at = lk.rel_edges(b, KL, MK, ">=")
    for s in [x for x in lk.ret_sites(b) if "MaxProvidedKeys" in R(b, x)]:
        ctx.ob("providers", "Err(MaxProvidedKeys) only for a new key at the limit", lk.passes(b, s.bb, at) and bool(vac) and b.must_pass_nodes([0], [s.bb], vac), s.loc(), "")
    # list operations
    push = b.call_sites(r"smallvec::SmallVec::push$")
    ctx.floor("providers", "push", push, 1, exact=True)
    heads = [s for s in b.call_sites(r"slice::IterMut as std::iter::Iterator>::next$")]
    ctx.floor("providers", "scan over the existing providers", heads, 1, exact=True)
    ELEM = (R(b, heads[0]) + "@Some.0") if heads else "?"
    over = []
    for bi in sorted(b.live):
        for si, st in enumerate(b.blocks[bi]["stmts"]):
            if st["k"] == "assign" and st["p"].get("pr") and all(pr["k"] == "deref" for pr in st["p"]["pr"]) and render(b.place_expr(st["p"])) == ELEM:
                over.append(mir.Site(b, bi, si))
    ctx.floor("providers", "in-place overwrite `*p = record`", over, 1, exact=True)
    same = lk.rel_edges(b, "^" + re.escape(ELEM) + r"\.provider$", r"^#2\.provider$", "==")
    exhausted = set()
    for h in heads:
        exhausted |= lib.switch_edges_on_site(b, h, {"None"})
    LIST = r"std::collections::hash_map::Entry::(or_insert_with|or_default|or_insert)\("
    PL, MP = r"^smallvec::SmallVec::len\(" + LIST, r"^self\.%s\.max_providers_per_key$" % F.config
    for s in over:
        ctx.ob("providers", "overwrite only the entry of the same provider", lk.passes(b, s.bb, same), s.loc(), "p.provider == record.provider")
        ctx.ob("providers", "overwrite stores the new record", R(b, s) == "#2", s.loc(), R(b, s))
        ctx.ob("providers", "overwritten element belongs to this key's list", bool(oiw) and R(b, oiw[0]) in ELEM, s.loc(), ELEM[:200])
    st_ = tg(same)
    if st_:
        got = cnt(b, st_, rets, push), cnt(b, st_, rets, over)
        ctx.ob("providers", "in-place update does not grow the list", got == ((0, 0), (1, 1)), W, "on the same-provider edge: push %s, overwrite %s" % got)
        ok_ret = {R(b, s) for s in lk.ret_sites(b) if s.bb in b.reachable(st_, stop_nodes=lib.bbs(heads))}
        ctx.ob("providers", "in-place update returns Ok", ok_ret == {"std::result::Result::Ok{0: tuple{}}"}, W, str(ok_ret))
    for s in push:
        lk.limit(ctx, "providers", "push only below max_providers_per_key", s, PL, MP, "providers.len() != max_providers_per_key (unit increments)", unit_increment=True)
        ctx.ob("providers", "push only when no record of this provider exists", lk.passes(b, s.bb, exhausted), s.loc(), "the scan over existing providers ended without a match")
        e = b.site_expr(s)
        ctx.ob("providers", "pushes the given record into this key's list", render(e[2][1]) == "#2" and bool(oiw) and render(e[2][0]) == R(b, oiw[0]), s.loc(), R(b, s)[:160])
    full = tg(lk.rel_edges(b, PL, MP, ">="))
    pmut = recv(b, r"HashSet::(insert|remove|replace)$", PROVIDED)
    if full:
        got = cnt(b, full, rets, push + over + pmut)
        ctx.ob("providers", "a full list ignores a new provider", got == (0, 0), W, str(got))
    # ---- provided
    pins = recv(b, r"^std::collections::HashSet::insert$", PROVIDED)
    prem = recv(b, r"^std::collections::HashSet::remove$", PROVIDED)
    prep = recv(b, r"^std::collections::HashSet::replace$", PROVIDED)
    ctx.floor("provided", "add_provider: provided mutations", pins + prem + prep, 2)
    loc_t = local_edges(b, "true")
    loc_f = local_edges(b, "false")
    ctx.ob("provided", "floor:local-provider tests", len(loc_t) >= 1 and len(loc_f) >= 1, W, nontrivial=False, msg="%s %s" % (loc_t, loc_f))
    ed_t = lk.hoisted(b, {e for e, x in loc_t.items() if x == "#2"})
    ed_f = lk.hoisted(b, {e for e, x in loc_f.items() if x == "#2"})
    for s in pins + prem + prep:
        ctx.ob("provided", "mutated only for the local node's records", lk.passes(b, s.bb, ed_t), s.loc(), "local_key.preimage() == record.provider on every path to %s" % R(b, s)[:80])
    for s in pins + prep:
        a = render(lk.eff_expr(b, s)[2][1])
        ctx.ob("provided", "the indexed record is the stored record", a == "libp2p_kad::<record::ProviderRecord as std::clone::Clone>::clone(#2)", s.loc(), a)
    # in-place arm: the region after the same-provider edge up to the return
    inpl = b.reachable(st_, stop_nodes=lib.bbs(heads)) if st_ else set()
    in_mut = [s for s in pins + prem + prep if s.bb in inpl]
    in_t = [t for (x, t) in ed_t if x in inpl]
    in_f = [t for (x, t) in ed_f if x in inpl]
    ctx.ob("provided", "floor:in-place local test", len(in_t) == 1 and len(in_f) == 1, W, nontrivial=False, msg="%s %s" % (in_t, in_f))
    if in_t:
        r_, i_, p_ = cnt(b, in_t, rets, prem), cnt(b, in_t, rets, pins), cnt(b, in_t, rets, prep)
        two = r_ == (1, 1) and i_ == (1, 1) and p_ == (0, 0)
        one = r_ == (0, 0) and i_ == (0, 0) and p_ == (1, 1)
        order = True
        if two:
            rb = [s.bb for s in prem if s.bb in inpl]
            ib = [s.bb for s in pins if s.bb in inpl]
            order = all(b.dominates(r, i) and r != i for r in rb for i in ib)
            for s in prem:
                if s.bb in inpl:
                    a = render(lk.eff_expr(b, s)[2][1])
                    ctx.ob("provided", "in-place update removes the old element", a == ELEM, s.loc(), a[:160])
        ctx.ob("provided", "in-place update of a local record: remove(old) then insert(new)", (two and order) or one, W,
               "HashSet::insert keeps an existing equal element, so the stale record must be removed first (or HashSet::replace used): remove %s, insert %s, replace %s, remove-before-insert %s" % (r_, i_, p_, order))
        ob = [s.bb for s in over]
        mb = [s.bb for s in in_mut]
        ctx.ob("provided", "provided is updated before the old element is overwritten", bool(ob) and all(b.dominates(m, o) or m not in b.reachable(b.succ[o]) for m in mb for o in ob), W, "remove(p) reads the old record")
    if in_f:
        got = cnt(b, in_f, rets, prem + pins + prep)
        ctx.ob("provided", "in-place update of a foreign record leaves provided alone", got == (0, 0), W, str(got))
    # push arm: after the scan is exhausted
    pa = b.reachable(tg(exhausted)) if exhausted else set()
    push_t = [t for (x, t) in ed_t if x in pa and x not in inpl]
    push_f = [t for (x, t) in ed_f if x in pa and x not in inpl]
    ctx.ob("provided", "floor:push-path local test", len(push_t) == 1 and len(push_f) == 1, W, nontrivial=False, msg="%s %s" % (push_t, push_f))
    if push_t and push_f and push:
        got = cnt(b, push_t, rets, pins + prep), cnt(b, push_t, rets, prem), cnt(b, push_t, rets, push)
        ctx.ob("provided", "first local record: indexed exactly once and pushed", got == ((1, 1), (0, 0), (1, 1)), W, "insert %s remove %s push %s" % got)
        got = cnt(b, push_f, rets, pins + prem + prep), cnt(b, push_f, rets, push)
        ctx.ob("provided", "first foreign record: pushed, provided untouched", got == ((0, 0), (1, 1)), W, "provided mutations %s push %s" % got)
        for s in push:
            tests = [x for (x, t) in ed_t | ed_f if t in push_t + push_f]
            ctx.ob("provided", "every push is preceded by the local-provider test", bool(tests) and b.must_pass_nodes([0], [s.bb], tests), s.loc(), "")
    eq = ctx.body(K, r"record::ProviderRecord as std::cmp::PartialEq>::eq$")
    flds = sorted(set(re.findall(r"self\.(\w+)", " ".join(R(eq, s) for s in eq.call_sites()) + " " + " ".join(render(eq.switch_info(bi)[0]) for bi in eq.live if eq.switch_info(bi)))))
    hs = ctx.body(K, r"record::ProviderRecord as std::hash::Hash>::hash$")
    hf = sorted(set(re.findall(r"self\.(\w+)", " ".join(R(hs, s) for s in hs.call_sites()))))
    ctx.ob("provided", "ProviderRecord identity (Eq and Hash) is (key, provider)", flds == ["key", "provider"] and hf == ["key", "provider"], lk.where(eq), "eq over %s, hash over %s" % (flds, hf))


def check_remove(ctx, prog):
    b = ctx.body(K, MS + r"remove_provider$")
    W = lk.where(b)
    rets = b.return_blocks()
    PROVIDED = r"^self\.%s$" % F.provided
    rm = b.call_sites(r"smallvec::SmallVec::remove$")
    ctx.floor("provided", "remove_provider: SmallVec::remove", rm, 1, exact=True)
    prem = recv(b, r"^std::collections::HashSet::remove$", PROVIDED)
    ctx.floor("provided", "remove_provider: provided.remove", prem, 1)
    other = lk.recv_calls(b, r"^std::collections::HashSet::(insert|replace|clear|retain)$", PROVIDED)
    ctx.ob("provided", "remove_provider never adds to provided", not other, W, str([R(b, s)[:60] for s in other]))
    LISTRX = r"^std::collections::hash_map::OccupiedEntry::(get_mut|into_mut)\(std::collections::HashMap::entry\(self\.%s, (libp2p_kad::<record::Key as std::clone::Clone>::clone\(#2\)|#2)\)@Occupied\.0\)$" % F.providers
    for s in rm:
        e = b.site_expr(s)
        idx = e[2][1]
        pos = [c for c in mir.calls_in(idx, r"Iterator>?::position$")]
        ok = len(pos) == 1 and render(idx).endswith("@Some.0") and [render(x) for c in mir.walk(pos[0]) if c[0] == "closure" for x in c[2]] == ["#3"]
        ctx.ob("providers", "remove_provider removes at the position of the matching provider", ok, s.loc(), render(idx)[-160:])
        ctx.ob("providers", "remove_provider works on the list of the given key", re.match(LISTRX, render(e[2][0])) is not None, s.loc(), render(e[2][0])[:200])
    cls = [c for c in prog.bodies(K) if c.kind == "closure" and lk.root_fn(prog, c) is b]
    es = [c.site_expr(s) for c in cls for s in lk.ret_sites(c)]
    ok = len(es) == 1 and lk.cmp_norm(es[0], r"^#2\.provider$", r"^\^0$") == "Eq"
    ctx.ob("providers", "remove_provider matches on the provider id", ok, W, str([render(e) for e in es]))
    loc_t, loc_f = local_edges(b, "true"), local_edges(b, "false")
    ctx.ob("provided", "floor:remove_provider local test", len(loc_t) == 1 and len(loc_f) == 1, W, nontrivial=False, msg=str(loc_t)[:200])
    for s in prem:
        ok = lk.passes(b, s.bb, set(loc_t)) and all(x.startswith("smallvec::SmallVec::remove(") for x in loc_t.values())
        ctx.ob("provided", "remove_provider: provided shrinks only for the local node's record", ok, s.loc(), "removed.provider == local_key.preimage()")
        a = render(lk.eff_expr(b, s)[2][1])
        ctx.ob("provided", "remove_provider: drops the record that was removed from the list", bool(rm) and a == R(b, rm[0]), s.loc(), a[:100])
    if loc_t:
        got = cnt(b, tg(loc_t), rets, prem)
        ctx.ob("provided", "removing the local node's record drops it from provided exactly once", got == (1, 1), W, str(got))
    if loc_f:
        got = cnt(b, tg(loc_f), rets, prem)
        ctx.ob("provided", "removing a foreign record leaves provided alone", got == (0, 0), W, str(got))
    for s in rm:
        tests = [x for (x, t) in list(loc_t) + list(loc_f)]
        ctx.ob("provided", "every removal from a list is followed by the local-provider test", bool(tests) and b.must_pass_nodes(b.succ[s.bb], rets, tests), s.loc(), "")
    er = b.call_sites(r"hash_map::OccupiedEntry::remove(_entry)?$")
    for s in er:
        ctx.guarded("providers", "a key is deleted only when its provider list is empty", s, lambda c, r, l: (l == "true" and r.startswith("smallvec::SmallVec::is_empty(std::collections::hash_map::OccupiedEntry::"))
                    or (l == "true" and re.match(r"^Eq\(smallvec::SmallVec::len\(.*\), 0\)$", r) is not None), "providers.is_empty()")
    ctx.floor("providers", "empty-list cleanup", er, 1)


def check_who(ctx, prog):
    MUT = r"(HashMap|HashSet)::(insert|remove|remove_entry|entry|retain|clear|drain|extend|replace|take|get_mut|values_mut|iter_mut|get_or_insert_with|extract_if)$"
    MSP = "libp2p_kad::<record::store::memory::MemoryStore as record::store::RecordStore>::"
    tab = {F.records: {MSP + "put": {"entry"}, MSP + "remove": {"remove"}, "libp2p_kad::record::store::memory::MemoryStore::retain": {"retain"}},
           F.providers: {MSP + "add_provider": {"entry"}, MSP + "remove_provider": {"entry"}},
           F.provided: {MSP + "add_provider": {"insert", "remove", "replace"}, MSP + "remove_provider": {"remove"}}}
    seen = {f: set() for f in tab}
    for b in prog.bodies(K):
        if "record::store::memory" not in b.npath:
            continue
        root = lk.root_fn(prog, b)
        for s in b.call_sites(MUT):
            r = render(b.site_expr(s)[2][0])
            for f in tab:
                if r == "self." + f:
                    m = strip_generics(b.call_name(s.term)).split("::")[-1]
                    seen[f].add(root.npath.split("::")[-1] + ":" + m)
                    ok = m in lk.allowed_kinds(prog, K, root, tab[f])
                    what = {F.records: "records written only by put (entry), remove, retain", F.providers: "providers written only by add_provider / remove_provider (entry)",
                            F.provided: "provided written only by add_provider / remove_provider"}[f]
                    ctx.ob("who", what, ok, s.loc(), "%s.%s in %s (private helpers inherit what all their callers may do)" % (f, m, root.short))
    ctx.ob("who", "floor:store mutation sites", all(len(v) >= 2 for v in seen.values()), nontrivial=False, msg=str({k: sorted(v) for k, v in seen.items()}))
    wc = ctx.body(K, r"record::store::memory::MemoryStore::with_config$")
    ags = wc.agg_sites(r"memory::MemoryStore$")
    f = {k: render(v) for k, v in wc.site_expr(ags[0])[4]} if len(ags) == 1 else {}
    ok = (f.get(F.local_key) == "libp2p_kad::<kbucket::key::Key as std::convert::From>::from(#1)" and f.get(F.config) == "#2"
          and all("as std::default::Default>::default()" in f.get(x, "") or "::new()" in f.get(x, "") for x in (F.records, F.providers, F.provided)))
    ctx.ob("who", "a new store is empty, keyed by the given local id, with the given limits", ok, lk.where(wc), str(f)[:300])

# thorough-tier sensitivity self-test (vrules/selftest.py): one-edit variants of the source that break the property
MUTANTS = [
    {"name": 'put: value limit >', "file": 'protocols/kad/src/record/store/memory.rs',
     "find": 'if r.value.len() >= self.config.max_value_bytes {',
     "replace": 'if r.value.len() > self.config.max_value_bytes {',
     "expect": '^put/value size strictly below', "why": 'value of exactly max_value_bytes accepted'},
    {"name": 'put: record limit >', "file": 'protocols/kad/src/record/store/memory.rs',
     "find": 'if num_records >= self.config.max_records {',
     "replace": 'if num_records > self.config.max_records {',
     "expect": '^put/new key only below max_records', "why": 'max_records + 1'},
    {"name": 'remove_provider: provided not updated', "file": 'protocols/kad/src/record/store/memory.rs',
     "find": '                if &p.provider == self.local_key.preimage() {\n                    self.provided.remove(&p);\n                }\n',
     "replace": '',
     "expect": '^provided/', "why": 'provided() lists a removed record'},
    {"name": 'add_provider: per-key limit dropped', "file": 'protocols/kad/src/record/store/memory.rs',
     "find": '        if providers.len() == self.config.max_providers_per_key {\n            return Ok(());\n        }\n',
     "replace": '',
     "expect": '^providers/push only below max_providers_per_key', "why": 'unbounded provider list'},
]
