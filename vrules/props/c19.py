"""C19 plaintext and pnet upgrades preserve data and reject mismatches — guards (K1), origin (K5), order (K3), literal agreement (K11), panic lint (K10/K13)."""
import re

from .. import lib, mir
from ..mir import render

EXPLANATION = ("plaintext: the handshake returns Ok only when the announced peer id equals the announced key's peer id, returns that key, "
               "and hands the codec's unread buffer to Output, whose poll_read serves that buffer before touching the socket. pnet: "
               "CryptWriter::poll_write flushes its buffer before accepting bytes and applies the keystream exactly once to exactly "
               "buf[0..count]; PnetOutput::poll_read decrypts exactly buf[..size] once and returns the inner result; the key-file header "
               "literals written by to_key_file are the ones from_str requires; PreSharedKey::from_str has no panic-capable site that "
               "text can reach: str range indexing is only allowed under an is_ascii guard.")
ASSUMPTIONS = ["XSalsa20 keystream symmetry; partial-write schedules are not executed", "prost_codec framing is C57"]
P = "libp2p_plaintext"
N = "libp2p_pnet"


def oks(b):
    return [mir.Site(b, x[1], x[2]) for x in b.defs[0] if x[0] == "stmt" and render(b.rvalue_expr(x[3])).startswith("std::result::Result::Ok{")]


def check(ctx):
    prog = ctx.prog
    h = ctx.body(P, r"handshake::handshake::\{closure#0\}$", "coroutine")
    ho = oks(h)
    ctx.floor("plaintext", "Ok return of handshake", ho, 1)
    for s in ho:
        ctx.guarded("plaintext", "Ok only if announced id == id of announced key", s,
                    lambda c, r, l: l == "false" and r.startswith("std::cmp::PartialEq::ne(") and "to_peer_id(" in r, "peer_id == public_key.to_peer_id()")
        r = render(h.site_expr(s))
        ctx.ob("plaintext", "leftover bytes come from the codec's read buffer", "2: bytes::BytesMut::freeze(asynchronous_codec::Framed::into_parts(framed_socket).read_buffer)" in r, s.loc(), r[-160:])
        ctx.ob("plaintext", "socket is the codec's io", "0: asynchronous_codec::Framed::into_parts(framed_socket).io" in r, s.loc(), r[:160])
    mm = h.agg_sites(r"error::Error$", "PeerIdMismatch")
    for s in mm:
        ctx.guarded("plaintext", "PeerIdMismatch exactly on mismatch", s, lambda c, r, l: l == "true" and r.startswith("std::cmp::PartialEq::ne("), "peer_id != public_key.to_peer_id()")
    ne = [bi for bi in h.live if h.switch_info(bi) and render(h.switch_info(bi)[0]).startswith("std::cmp::PartialEq::ne(")]
    mir.RENDER_MAX[0] = 30
    for bi in ne:
        cond = h.switch_info(bi)[0]
        a, b2 = render(cond[2][0]), render(cond[2][1])
        ctx.ob("plaintext", "compared id is the announced id, key is the announced key",
               "PeerId::from_bytes(" in a and ".id" in a and "to_peer_id(" in b2 and "try_decode_protobuf(" in b2 and ".pubkey" in b2, "%s:%d" % (h.file, h.blocks[bi]["term"].get("l", 0)), (a + " != " + b2)[:400])
    for s in ho:
        r = render(h.site_expr(s))
        ctx.ob("plaintext", "returned key is the announced (checked) key", re.search(r"1: <std::result::Result as std::ops::Try>::branch\(libp2p_identity::PublicKey::try_decode_protobuf\(", r) is not None, s.loc(), r[:300])
    mir.RENDER_MAX[0] = 14
    up = ctx.body(P, r"^libp2p_plaintext::Config::handshake::\{closure#0\}$", "coroutine")
    outs = up.agg_sites(r"^libp2p_plaintext::Output$")
    ctx.floor("plaintext", "Output construction", outs, 1)
    for s in outs:
        r = render(up.site_expr(s))
        ctx.ob("plaintext", "Output.read_buffer = handshake's leftover bytes", re.search(r"read_buffer: .*@Continue\.0\.2", r) is not None, s.loc(), r[-200:])
    pr = ctx.body(P, r"<Output as futures::AsyncRead>::poll_read$")
    sock = pr.call_sites(r"AsyncRead>::poll_read$|AsyncRead::poll_read$")
    ctx.floor("plaintext", "socket read", sock, 1)
    for s in sock:
        ctx.guarded("plaintext", "socket read only when the handshake buffer is empty", s,
                    lambda c, r, l: (l == "true" and re.match(r"^bytes::Bytes::is_empty\(.*read_buffer\)$", r) is not None) or (l == "false" and r.startswith("Not(bytes::Bytes::is_empty(")), "read_buffer.is_empty()")
    sp = pr.call_sites(r"Bytes::split_to$")
    cp = pr.call_sites(r"copy_from_slice$")
    ok = len(sp) == 1 and re.search(r"split_to\(.*read_buffer, std::cmp::min\(core::slice::len\(buf\), bytes::Bytes::len\(.*read_buffer\)\)\)$", render(pr.site_expr(sp[0]))) is not None
    ctx.ob("plaintext", "buffered bytes are handed out in order, n = min(buf.len, buffered)", ok and len(cp) == 1, sp[0].loc() if sp else "", render(pr.site_expr(sp[0]))[:200] if sp else "")
    # ---- pnet writer
    w = ctx.body(N, r"crypt_writer::CryptWriter as futures::AsyncWrite>::poll_write$")
    fl = w.call_sites(r"crypt_writer::poll_flush_buf$")
    bw = w.call_sites(r"<std::vec::Vec as futures::AsyncWrite>::poll_write$")
    ak = w.call_sites(r"StreamCipher::apply_keystream$")
    ctx.floor("pnet-write", "flush / buffer write / keystream", fl + bw + ak, 4)
    for s in bw:
        ctx.guarded("pnet-write", "bytes accepted only after the buffer was flushed", s,
                    lambda c, r, l: l == "Continue" and "poll_flush_buf(" in r and "@Ready.0" in r, "poll_flush_buf == Ready(Ok)")
    for s in ak:
        ctx.guarded("pnet-write", "keystream applied only to accepted bytes", s, lambda c, r, l: l == "Ok" and "AsyncWrite>::poll_write(" in r and r.endswith("@Ready.0)"), "buffer write == Ready(Ok(count))")
        r = render(w.site_expr(s))
        ctx.ob("pnet-write", "keystream over exactly buf[0..count]", re.search(r"apply_keystream\(this\.cipher, <std::vec::Vec as std::ops::IndexMut>::index_mut\(this\.buf, std::ops::Range::Range\{start: 0, end: .*@Ready\.0@Ok\.0\}\)\)$", r) is not None, s.loc(), r[:260])
    # poll_flush_buf: bytes the inner writer accepted are removed from the buffer before *any* exit (otherwise the next
    # flush sends the same ciphertext again and the peer's keystream position no longer matches)
    fb = ctx.body(N, r"crypt_writer::poll_flush_buf$")
    acc = []          # sites where progress is recorded: <counter> = <counter> + <poll_write(..)@Ready@Ok>
    for l, ds in fb.defs.items():
        if not isinstance(l, int):
            continue
        for d in ds:
            if d[0] == "stmt":
                r = render(fb.rvalue_expr(d[3]))
                if r.startswith("AddWithOverflow(") and r.endswith(".0") and "AsyncWrite::poll_write(" in r and "@Ready.0@Ok.0" in r:
                    acc.append((l, mir.Site(fb, d[1], d[2])))
    drains = [s for s in fb.call_sites(r"Vec::drain$|Vec::drain::<|Vec::split_off$|Vec::clear$|Vec::truncate$")]
    ctx.floor("pnet-flush", "progress accumulation", acc, 1)
    ctx.floor("pnet-flush", "buffer drain", drains, 1)
    for l, s in acc:
        nm = fb.names.get(l) or "_%d" % l
        # leaving without the drain is only fine on the `counter == 0` side of a test of that same counter
        zero = set()
        for bi in fb.live:
            info = fb.switch_info(bi)
            if not info:
                continue
            c = info[0]
            if c[0] == "bin" and c[2][0] == "local" and c[2][1] == l and c[3][0] == "const" and c[3][1] == 0:
                for tgt, ls in info[1].items():
                    if (c[1], tuple(sorted(ls))) in (("Gt", ("false",)), ("Ne", ("false",)), ("Eq", ("true",))):
                        zero.add((bi, tgt))
        r = fb.reachable_bool([s.bb], blocked_nodes=lib.bbs(drains), blocked_edges=zero)
        bad = sorted(set(fb.return_blocks()) & r)
        ctx.ob("pnet-flush", "accepted bytes are drained from the buffer before every exit", not bad, s.loc(),
               "every path from `%s += n` to a return passes buf.drain(..%s)" % (nm, nm) if not bad else
               "a return is reachable after progress without draining the buffer (return blocks %s)" % bad)
    for s in drains:
        e = render(fb.site_expr(s))
        ctx.ob("pnet-flush", "drain removes exactly the written prefix", any(("end: %s" % (fb.names.get(l) or "")) in e for l, _ in acc) and "RangeTo" in e, s.loc(), e[:160])
    okw = lib.switch_edges_on(w, r"^discr\(<std::vec::Vec as futures::AsyncWrite>::poll_write\(.*@Ready\.0\)$", {"Ok"})
    for _, t in okw:
        got = lib.count_range(w, [t], w.return_blocks(), lib.bbs(ak))
        ctx.ob("pnet-write", "keystream applied exactly once per accepted write", got == (1, 1), msg="apply_keystream on the Ok(count) edge: %s" % (got,))
    res = [mir.Site(w, x[1], x[2]) for x in w.defs[0] if x[0] == "stmt" and "AsyncWrite>::poll_write(" in render(w.rvalue_expr(x[3]))]
    ctx.ob("pnet-write", "reports the accepted byte count", len(res) == 1, msg="result = res")
    wr = ctx.body(N, r"<PnetOutput as futures::AsyncRead>::poll_read$")
    ak2 = wr.call_sites(r"StreamCipher::apply_keystream$")
    ctx.floor("pnet-read", "keystream in poll_read", ak2, 1)
    for s in ak2:
        ctx.guarded("pnet-read", "decrypt only what was read", s, lambda c, r, l: l == "Ok" and "poll_read(" in r and r.endswith("@Ready.0)"), "inner read == Ready(Ok(size))")
        r = render(wr.site_expr(s))
        ctx.ob("pnet-read", "keystream over exactly buf[..size]", re.search(r"apply_keystream\(.*\.read_cipher, core::slice::index::index_mut\(buf, std::ops::RangeTo::RangeTo\{end: .*poll_read\(.*@Ready\.0@Ok\.0\}\)\)$", r) is not None, s.loc(), r[:260])
    okr = lib.switch_edges_on(wr, r"^discr\(.*poll_read\(.*@Ready\.0\)$", {"Ok"})
    for _, t in okr:
        got = lib.count_range(wr, [t], wr.return_blocks(), lib.bbs(ak2))
        ctx.ob("pnet-read", "keystream applied exactly once per read", got == (1, 1), msg="apply_keystream on the Ok(size) edge: %s" % (got,))
    r0 = [render(wr.site_expr(mir.Site(wr, x[1], x[2]))) for x in wr.defs[0]]
    ctx.ob("pnet-read", "inner result returned unchanged", len(r0) == 1 and (r0[0] == "result" or "poll_read(" in r0[0]), msg=str(r0)[:160])
    # ---- key file literals
    tk = ctx.body(N, r"^libp2p_pnet::PreSharedKey::to_key_file$")
    lit = None
    for s in tk.call_sites(r"fmt::Arguments::new"):
        for x in mir.walk(tk.site_expr(s)):
            if x[0] in ("const", "str"):
                t = x[2] if x[0] == "const" else x[1]
                if t and "/key/swarm/psk" in str(t):
                    lit = str(t)
    fs = ctx.body(N, r"<PreSharedKey as std::str::FromStr>::from_str$")
    req = []
    for bi in sorted(fs.live):
        info = fs.switch_info(bi)
        if info:
            m = re.search(r"ne\(.*\[(\d)\], '([^']*)'\)$", render(info[0]))
            if m:
                req.append((int(m.group(1)), m.group(2)))
    req.sort()
    ctx.ob("keyfile", "from_str requires the two header lines", [x for _, x in req] == ["/key/swarm/psk/1.0.0/", "/base16/"], "%s:%d" % (fs.file, fs.line), str(req))
    ctx.ob("keyfile", "to_key_file writes exactly those header lines", lit is not None and len(req) == 2 and (req[0][1] + "\\n" + req[1][1] + "\\n") in lit, "%s:%d" % (tk.file, tk.line), "format literal: %s" % lit)
    ph = fs.call_sites(r"^libp2p_pnet::parse_hex_key$")
    ok = len(ph) == 1 and "[2]" in render(fs.site_expr(ph[0]))
    ctx.ob("keyfile", "third line is the hex key", ok, ph[0].loc() if ph else "", render(fs.site_expr(ph[0]))[:160] if ph else "")
    # ---- no panic on arbitrary text
    inv, seen = lib.panic_inventory(prog, N, [fs], depth=2)
    pk = ctx.body(N, r"^libp2p_pnet::parse_hex_key$")
    stridx = [(b, s) for b, k, det, s in inv if k == "index" and re.search(r"core::str::traits::.*index", b.call_name(s.term))]
    for b, s in stridx:
        ctx.guarded("nopanic", "str range index only on ASCII text (byte offsets are char boundaries)", s,
                    lambda c, r, l: l == "true" and re.match(r"^core::str::<impl str>::is_ascii\(s\)$|^core::str::is_ascii\(s\)$", r) is not None, "s.is_ascii()")
        ctx.guarded("nopanic", "str range index only within the checked length", s, lambda c, r, l: l == "true" and r.startswith("Eq(core::str::len(s), ") or (l == "true" and "len(s)" in r and r.startswith("Eq(")), "s.len() == KEY_SIZE * 2")
    rest = [(b, k, det, s) for b, k, det, s in inv if not (k == "index" and (b, s) in stridx)]
    lib.check_inventory(ctx, "nopanic", "PreSharedKey::from_str", rest, {
        "assert:bounds": (1, "r[i] with i in 0..KEY_SIZE over [u8; KEY_SIZE]"),
    }, seen)
    ctx.ob("nopanic", "floor:from_str reaches parse_hex_key", pk.npath in seen, nontrivial=False, msg=str(seen))
