"""C19 plaintext and pnet upgrades preserve data and reject mismatches — guards (K1), origin (K5), order (K3), literal agreement (K11), panic lint (K10/K13)."""
import re

from .. import lib, mir
from .. import lib_sec as S
from ..mir import render, strip_generics

EXPLANATION = ("plaintext: the handshake returns Ok only when the announced peer id equals the announced key's peer id, returns that key, "
               "and hands the codec's unread buffer to Output, whose poll_read serves that buffer before touching the socket. pnet: "
               "CryptWriter::poll_write flushes its buffer before accepting bytes and applies the keystream exactly once to exactly "
               "buf[0..count]; PnetOutput::poll_read decrypts exactly buf[..size] once and returns the inner result; the key-file header "
               "literals written by to_key_file are the ones from_str requires; PreSharedKey::from_str has no panic-capable site that "
               "text can reach: str range indexing is only allowed under an is_ascii guard.")
ASSUMPTIONS = ["XSalsa20 keystream symmetry; partial-write schedules are not executed", "prost_codec framing is C57"]
P = "libp2p_plaintext"
N = "libp2p_pnet"


def oks(b):
    return S.ok_sites(b)


def field_of_type(prog, crate, adt_pat, ty_pat, default):
    a = prog.adt(crate, adt_pat)
    hits = [f["n"] for f in a["variants"][0]["fields"] if re.search(ty_pat, f.get("ty") or "")]
    return hits[0] if len(hits) == 1 else default


def callee_is(e, pat):
    return e[0] == "call" and re.search(pat, strip_generics(e[1])) is not None


def check(ctx):
    prog = ctx.prog
    h = ctx.body(P, r"handshake::handshake::\{closure#0\}$", "coroutine")
    ho = oks(h)
    ctx.floor("plaintext", "Ok return of handshake", ho, 1)

    def announced_id(e):      # PeerId::from_bytes(<received exchange>.id ..)
        return S.has_call(e, r"PeerId::from_bytes$") and S.has_field(e, "id") and not S.has_call(e, r"PublicKey::to_peer_id$")

    def announced_key_id(e):  # PublicKey::try_decode_protobuf(<received exchange>.pubkey ..).to_peer_id()
        e = S.peel(e)
        return callee_is(e, r"PublicKey::to_peer_id$") and S.has_call(e, r"PublicKey::try_decode_protobuf$") and S.has_field(e, "pubkey")
    ids = S.rel_edges(h, announced_id, announced_key_id)
    for s in ho:
        S.guarded(ctx, "plaintext", "Ok only if announced id == id of announced key", s, ids["eq"], "peer_id == public_key.to_peer_id()")
        tup = dict(h.site_expr(s)[4]).get("0", ("unknown", ""))
        parts = dict(tup[4]) if tup[0] == "agg" else {}

        def codec_part(x, fld):
            x = S.peel(x)
            if callee_is(x, r"BytesMut::freeze$"):
                x = S.peel(x[2][0])
            return (x[0] == "field" and x[2] == fld and callee_is(x[1], r"Framed::into_parts$") and callee_is(S.expand(h, x[1][2][0]), r"Framed::new$")
                    and S.has(S.expand(h, x[1][2][0]), lambda y: y[0] == "upvar"))
        ctx.ob("plaintext", "leftover bytes come from the codec's read buffer", "2" in parts and codec_part(parts["2"], "read_buffer"), s.loc(), S.nrender(parts.get("2", tup))[-160:])
        ctx.ob("plaintext", "socket is the codec's io", "0" in parts and codec_part(parts["0"], "io"), s.loc(), S.nrender(parts.get("0", tup))[:160])
    mm = h.agg_sites(r"error::Error$", "PeerIdMismatch")
    for s in mm:
        S.guarded(ctx, "plaintext", "PeerIdMismatch exactly on mismatch", s, ids["ne"] - ids["lt"] - ids["gt"], "peer_id != public_key.to_peer_id()")
    cmps = [bi for bi in h.live if h.switch_info(bi) and S.cmp_of(h.switch_info(bi)[0]) and
            any(announced_id(x) for x in S.cmp_of(h.switch_info(bi)[0])[1:]) and any(announced_key_id(x) for x in S.cmp_of(h.switch_info(bi)[0])[1:])]
    ctx.ob("plaintext", "compared id is the announced id, key is the announced key", len(cmps) >= 1, "%s:%d" % (h.file, h.blocks[cmps[0]]["term"].get("l", 0)) if cmps else "",
           "PeerId::from_bytes(remote.id) is compared with try_decode_protobuf(remote.pubkey).to_peer_id()")
    checked_keys = []
    for bi in cmps:
        for x in S.cmp_of(h.switch_info(bi)[0])[1:]:
            if announced_key_id(x):
                checked_keys.append(S.peel(S.peel(x)[2][0]))
    for s in ho:
        tup = dict(h.site_expr(s)[4]).get("0", ("unknown", ""))
        k = S.peel(dict(tup[4]).get("1", ("unknown", ""))) if tup[0] == "agg" else ("unknown", "")
        ctx.ob("plaintext", "returned key is the announced (checked) key", any(S.same(k, c) for c in checked_keys), s.loc(), S.nrender(k)[:300])
    up = ctx.body(P, r"^libp2p_plaintext::Config::handshake::\{closure#0\}$", "coroutine")
    outs = up.agg_sites(r"^libp2p_plaintext::Output$")
    ctx.floor("plaintext", "Output construction", outs, 1)
    RB = field_of_type(prog, P, r"^libp2p_plaintext::Output$", r"Bytes$", "read_buffer")
    for s in outs:
        x = S.norm(dict(up.site_expr(s)[4]).get(RB, ("unknown", "")))
        ok = x[0] == "field" and x[2] == "2" and callee_is(x[1], r"^ok$") and S.has_call(x[1], r"handshake::handshake(::\{closure#0\})?$")
        ctx.ob("plaintext", "Output.read_buffer = handshake's leftover bytes", ok, s.loc(), render(x)[-200:])
    pr = S.canon_args(ctx.body(P, r"<Output as futures::AsyncRead>::poll_read$"), ["self", "cx", "buf"])
    rnp = S.recv_norm(pr)
    VP = S.view(pr)
    sock = pr.call_sites(r"AsyncRead>::poll_read$|AsyncRead::poll_read$")
    ctx.floor("plaintext", "socket read", sock, 1)
    drained, _ = S.truth_edges(pr, lambda c: callee_is(c, r"Bytes::is_empty$") and S.self_field(rnp(c[2][0]), RB))
    blen = S.rel_edges(pr, lambda e: callee_is(e, r"Bytes::len$") and S.self_field(rnp(e[2][0]), RB), lambda e: S.cval(e) == 0)
    for s in sock:
        S.guarded(ctx, "plaintext", "socket read only when the handshake buffer is empty", s, drained | blen["le"], "read_buffer.is_empty()")
    sp = pr.call_sites(r"Bytes::split_to$")
    cp = pr.call_sites(r"copy_from_slice$")
    RBX = re.escape("self." + RB)
    ok = len(sp) == 1 and re.search(r"split_to\(%s, std::cmp::min\((core::slice::len\(buf\), bytes::Bytes::len\(%s\)|bytes::Bytes::len\(%s\), core::slice::len\(buf\))\)\)$" % (RBX, RBX, RBX), VP(pr.site_expr(sp[0]))) is not None
    ctx.ob("plaintext", "buffered bytes are handed out in order, n = min(buf.len, buffered)", ok and len(cp) == 1, sp[0].loc() if sp else "", VP(pr.site_expr(sp[0]))[:200] if sp else "")
    # ---- pnet writer
    w = S.canon_args(ctx.body(N, r"crypt_writer::CryptWriter as futures::AsyncWrite>::poll_write$"), ["self", "cx", "buf"])
    VW = S.view(w)
    WB = field_of_type(prog, N, r"crypt_writer::CryptWriter$", r"Vec<u8>$", "buf")
    fl = w.call_sites(r"crypt_writer::poll_flush_buf$")
    bw = w.call_sites(r"<std::vec::Vec as futures::AsyncWrite>::poll_write$")
    ak = w.call_sites(r"StreamCipher::apply_keystream$")
    ctx.floor("pnet-write", "flush / buffer write / keystream", fl + bw + ak, 4)
    flushed = set()
    for s in fl:
        flushed |= S.call_outcome_edges(w, s)[0]
    accepted = set()
    for s in bw:
        accepted |= S.call_outcome_edges(w, s)[0]
    for s in bw:
        S.guarded(ctx, "pnet-write", "bytes accepted only after the buffer was flushed", s, flushed, "poll_flush_buf == Ready(Ok)")
    for s in ak:
        S.guarded(ctx, "pnet-write", "keystream applied only to accepted bytes", s, accepted, "buffer write == Ready(Ok(count))")
        r = VW(w.site_expr(s))
        ctx.ob("pnet-write", "keystream over exactly buf[0..count]", re.search(r"apply_keystream\(self\.\w+, <std::vec::Vec as std::ops::IndexMut>::index_mut\(self\.%s, std::ops::Range::Range\{start: 0, end: ok\(ready\(<std::vec::Vec as futures::AsyncWrite>::poll_write\(.*\)\)\)\}\)\)$" % re.escape(WB), r) is not None, s.loc(), r[:260])
    # poll_flush_buf: bytes the inner writer accepted are removed from the buffer before *any* exit (otherwise the next
    # flush sends the same ciphertext again and the peer's keystream position no longer matches)
    fb = ctx.body(N, r"crypt_writer::poll_flush_buf$")
    acc = []          # sites where progress is recorded: <counter> = <counter> + <poll_write(..)@Ready@Ok>
    for l, ds in fb.defs.items():
        if not isinstance(l, int):
            continue
        for d in ds:
            if d[0] == "stmt":
                r = S.nrender(fb.rvalue_expr(d[3]))
                if r.startswith("AddWithOverflow(") and r.endswith(".0") and "AsyncWrite::poll_write(" in r and "ok(ready(" in r:
                    acc.append((l, mir.Site(fb, d[1], d[2])))
    drains = [s for s in fb.call_sites(r"Vec::drain$|Vec::drain::<|Vec::split_off$|Vec::clear$|Vec::truncate$")]
    ctx.floor("pnet-flush", "progress accumulation", acc, 1)
    ctx.floor("pnet-flush", "buffer drain", drains, 1)
    for l, s in acc:
        nm = fb.names.get(l) or "_%d" % l
        # leaving without the drain is only fine on the `counter == 0` side of a test of that same counter
        zero = set()
        for bi in fb.live:
            info = fb.switch_info(bi)
            if not info:
                continue
            c = info[0]
            if c[0] == "bin" and c[2][0] == "local" and c[2][1] == l and c[3][0] == "const" and c[3][1] == 0:
                for tgt, ls in info[1].items():
                    if (c[1], tuple(sorted(ls))) in (("Gt", ("false",)), ("Ne", ("false",)), ("Eq", ("true",))):
                        zero.add((bi, tgt))
        r = fb.reachable_bool([s.bb], blocked_nodes=lib.bbs(drains), blocked_edges=zero)
        bad = sorted(set(fb.return_blocks()) & r)
        ctx.ob("pnet-flush", "accepted bytes are drained from the buffer before every exit", not bad, s.loc(),
               "every path from `%s += n` to a return passes buf.drain(..%s)" % (nm, nm) if not bad else
               "a return is reachable after progress without draining the buffer (return blocks %s)" % bad)
    for s in drains:
        e = fb.site_expr(s)
        rng = e[2][1] if len(e[2]) > 1 else ("unknown", "")
        end = dict(rng[4]).get("end") if rng[0] == "agg" and "RangeTo" in strip_generics(rng[2]) and "Inclusive" not in strip_generics(rng[2]) else None
        ctx.ob("pnet-flush", "drain removes exactly the written prefix", end is not None and any(S.is_local(end, l) for l, _ in acc), s.loc(), render(e)[:160])
    for _, t in set().union(*[S.call_outcome_edges(w, x, close=False)[0] for x in bw]):
        got = lib.count_range(w, [t], w.return_blocks(), lib.bbs(ak))
        ctx.ob("pnet-write", "keystream applied exactly once per accepted write", got == (1, 1), msg="apply_keystream on the Ok(count) edge: %s" % (got,))
    res = [x for x in S.ret_sites(w) if callee_is(w.site_expr(x), r"<std::vec::Vec as futures::AsyncWrite>::poll_write$")]
    ctx.ob("pnet-write", "reports the accepted byte count", len(res) == 1, msg="result = res")
    wr = S.canon_args(ctx.body(N, r"<PnetOutput as futures::AsyncRead>::poll_read$"), ["self", "cx", "buf"])
    VR = S.view(wr)
    ak2 = wr.call_sites(r"StreamCipher::apply_keystream$")
    ctx.floor("pnet-read", "keystream in poll_read", ak2, 1)
    inner_reads = wr.call_sites(r"AsyncRead>::poll_read$|AsyncRead::poll_read$")
    got_bytes = set()
    for s in inner_reads:
        got_bytes |= S.call_outcome_edges(wr, s)[0]
    for s in ak2:
        S.guarded(ctx, "pnet-read", "decrypt only what was read", s, got_bytes, "inner read == Ready(Ok(size))")
        r = VR(wr.site_expr(s))
        ctx.ob("pnet-read", "keystream over exactly buf[..size]", re.search(r"apply_keystream\(self\.\w+, core::slice::index::index_mut\(buf, std::ops::RangeTo::RangeTo\{end: ok\(ready\(futures::(io::)?AsyncRead::poll_read\(.*, cx, buf\)\)\)\}\)\)$", r) is not None, s.loc(), r[:260])
    for _, t in set().union(*[S.call_outcome_edges(wr, x, close=False)[0] for x in inner_reads]):
        got = lib.count_range(wr, [t], wr.return_blocks(), lib.bbs(ak2))
        ctx.ob("pnet-read", "keystream applied exactly once per read", got == (1, 1), msg="apply_keystream on the Ok(size) edge: %s" % (got,))
    r0 = [wr.site_expr(x) for x in S.ret_sites(wr)]
    ctx.ob("pnet-read", "inner result returned unchanged", len(r0) == 1 and len(inner_reads) == 1 and r0[0][0] == "call" and r0[0][3] == inner_reads[0].bb, msg=str([render(x) for x in r0])[:160])
    # ---- key file literals
    tk = ctx.body(N, r"^libp2p_pnet::PreSharedKey::to_key_file$")
    lit = None
    for s in tk.call_sites(r"fmt::Arguments::new"):
        for x in mir.walk(tk.site_expr(s)):
            if x[0] in ("const", "str"):
                t = x[2] if x[0] == "const" else x[1]
                if t and "/key/swarm/psk" in str(t):
                    lit = str(t)
    fs = ctx.body(N, r"<PreSharedKey as std::str::FromStr>::from_str$")
    req = []
    hdr_eq = {}
    for bi in sorted(fs.live):
        info = fs.switch_info(bi)
        cm = S.cmp_of(info[0]) if info else None
        if cm and cm[0] in ("eq", "ne"):
            for x, y in ((cm[1], cm[2]), (cm[2], cm[1])):
                if y[0] == "str" and x[0] == "cindex" and not x[3]:
                    req.append((x[2], y[1]))
                    hdr_eq[(x[2], y[1])] = S.rel_edges(fs, lambda e, x=x: S.same(e, x), lambda e, y=y: e[0] == "str" and e[1] == y[1])["eq"]
    ctx.ob("keyfile", "from_str requires the two header lines", [x for _, x in req] == ["/key/swarm/psk/1.0.0/", "/base16/"], "%s:%d" % (fs.file, fs.line), str(req))
    ctx.ob("keyfile", "to_key_file writes exactly those header lines", lit is not None and len(req) == 2 and (req[0][1] + "\\n" + req[1][1] + "\\n") in lit, "%s:%d" % (tk.file, tk.line), "format literal: %s" % lit)
    ph = fs.call_sites(r"^libp2p_pnet::parse_hex_key$")
    for (k, lit), edges in sorted(hdr_eq.items()):
        for x in ph:
            S.guarded(ctx, "keyfile", "key line is parsed only after header line %d matched" % k, x, edges, "lines[%d] == %r" % (k, lit))
    ok = len(ph) == 1 and "[2]" in render(fs.site_expr(ph[0]))
    ctx.ob("keyfile", "third line is the hex key", ok, ph[0].loc() if ph else "", render(fs.site_expr(ph[0]))[:160] if ph else "")
    # ---- no panic on arbitrary text
    inv, seen = lib.panic_inventory(prog, N, [fs], depth=2)
    pk = S.canon_args(ctx.body(N, r"^libp2p_pnet::parse_hex_key$"), ["s"])
    stridx = [(b, s) for b, k, det, s in inv if k == "index" and re.search(r"core::str::traits::.*index", b.call_name(s.term))]
    for b, s in stridx:
        ctx.guarded("nopanic", "str range index only on ASCII text (byte offsets are char boundaries)", s,
                    lambda c, r, l: l == "true" and re.match(r"^core::str::<impl str>::is_ascii\(s\)$|^core::str::is_ascii\(s\)$", r) is not None, "s.is_ascii()")
        ctx.guarded("nopanic", "str range index only within the checked length", s, lambda c, r, l: l == "true" and r.startswith("Eq(core::str::len(s), ") or (l == "true" and "len(s)" in r and r.startswith("Eq(")), "s.len() == KEY_SIZE * 2")
    rest = [(b, k, det, s) for b, k, det, s in inv if not (k == "index" and (b, s) in stridx)]
    lib.check_inventory(ctx, "nopanic", "PreSharedKey::from_str", rest, {
        "assert:bounds": (1, "r[i] with i in 0..KEY_SIZE over [u8; KEY_SIZE]"),
    }, seen)
    ctx.ob("nopanic", "floor:from_str reaches parse_hex_key", pk.npath in seen, nontrivial=False, msg=str(seen))
