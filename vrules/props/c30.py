"""C30 gossipsub accepts only messages valid for the validation mode — finite-partition evaluation of the per-message validation (K7), guards (K1), origin (K5), sign/verify sibling agreement (K11)."""
import itertools
import re

from .. import lib, mir
from ..mir import render

EXPLANATION = ("GossipsubCodec::decode, one iteration of the loop over rpc.publish: the body is evaluated abstractly over every cell of "
               "(validation mode x size-too-large x signature/seqno/from present x verify_signature result x seqno empty / wrong length x "
               "from empty x PeerId parse result); in each cell the set of reached pushes (`messages` with its source / sequence_number / "
               "signature fields, or `invalid_messages`) equals the reference table: Strict verifies signature, seqno and source; Permissive "
               "verifies what is present; Anonymous rejects any message carrying a signature, seqno or source; None checks nothing; a message "
               "reaches `messages` only if every required check passed. Every iteration pushes exactly once. verify_signature returns true "
               "only as the result of PublicKey::verify, reached only when `from` parses as a PeerId, a signature is present and "
               "source == public_key.to_peer_id(); the verified bytes are SIGNING_PREFIX ++ encode(message with signature and key cleared); "
               "the key is message.key if it decodes, otherwise the key inlined in the source id. The signing side (build_raw_message) "
               "signs SIGNING_PREFIX ++ encode(message with signature: None, key: None) and publishes the fields it signed.")
ASSUMPTIONS = ["cryptographic validity of PublicKey::verify / Keypair::sign is trusted",
               "prost encode_to_vec is deterministic and covers exactly from/data/seqno/topic when signature and key are None",
               "which ValidationError kind is reported for an invalid message is not part of the table (only valid vs invalid and the surfaced fields)"]
G = "libp2p_gossipsub"
CONFIGS = [{"name": "gossipsub-features", "packages": ["libp2p-gossipsub"], "features": "metrics,partial-messages"}]
M = r"<std::vec::IntoIter as std::iter::Iterator>::next\(iter\)@Some\.0"
SELFTEST = [
    {"mutation": "Strict arm: `verify_signature = true` deleted", "caught_by": "table/per-message validation/table"},
    {"mutation": "Anonymous arm: `else if message.from.is_some()` branch deleted", "caught_by": "table/per-message validation/table"},
    {"mutation": "build_raw_message: signed proto::Message built with `key: Some(Vec::new())`", "caught_by": "sign/signed message has signature: None and key: None"},
    {"mutation": "`seq_no.len() != 8` -> `seq_no.len() > 8`", "caught_by": "table/per-message validation/no-unmodelled-guards"},
    {"mutation": "verify_signature: `message_sig.key = None` deleted", "caught_by": "verify/signature and key are cleared before encoding"},
    {"mutation": "verify_signature: `source != public_key.to_peer_id()` replaced by `false`", "caught_by": "verify/verify only if source == public_key.to_peer_id()"} ,
    {"mutation": "verify_signature: `return true` when no signature is provided", "caught_by": "verify/true only from PublicKey::verify"},
    {"mutation": "messages.push: `source` replaced by `None`", "caught_by": "table/per-message validation/table"},
]


def _last_def_render(body, l, env):
    d = env.get(l)
    if d is None:
        return None
    if d[0] == "stmt":
        return render(body.rvalue_expr(body.blocks[d[1]]["stmts"][d[2]]["r"]))
    return render(body.call_expr(body.blocks[d[1]]["term"], d[1]))


def check(ctx):
    prog = ctx.prog
    d = ctx.body(G, r"protocol::GossipsubCodec as asynchronous_codec::Decoder>::decode$")
    where = "%s:%d" % (d.file, d.line)
    pushes = d.call_sites(r"Vec::push$")
    valid = [s for s in pushes if render(d.site_expr(s)[2][0]) == "messages"]
    invalid = [s for s in pushes if render(d.site_expr(s)[2][0]) == "invalid_messages"]
    ctx.floor("table", "messages.push", valid, 1, exact=True)
    ctx.floor("table", "invalid_messages.push", invalid, 6)
    if not valid:
        return
    # ---- the per-message loop
    head = None
    for text, labels, sw, cond in d.guards_on_all_paths(valid[0].bb):
        if re.match(r"^discr\(<std::vec::IntoIter as std::iter::Iterator>::next\(iter\)\)$", text) and labels == frozenset({"Some"}):
            head = sw
    ctx.ob("table", "floor:publish loop", head is not None, nontrivial=False, msg="loop head bb%s" % head)
    if head is None:
        return
    info = d.switch_info(head)
    start = [t for t, ls in info[1].items() if "Some" in ls]
    nxt = [s[3] for s in mir.walk(info[0]) if s[0] == "call"][:1]     # block of the `next()` call = loop head
    it_init = [render(d.init_expr(k)) for k, v in d.names.items() if v == "iter"]
    ctx.ob("table", "loop iterates rpc.publish", any("into_iter(" in x and x.rstrip(")").endswith(".publish") for x in it_init), where, str(it_init)[:200])
    for s in invalid:
        ctx.ob("table", "floor:invalid push inside the loop", s.bb in d.reachable(start, stop_nodes=nxt), s.loc(), nontrivial=False)
    # every iteration classifies the message exactly once
    lib.expect_count(ctx, "table", "every message is pushed exactly once (valid or invalid)", d, start, nxt, lib.bbs(valid + invalid), (1, 1),
                     "pushes per loop iteration", where)
    atom_map = [
        (r"^discr\(self\.validation_mode\)$", "mode"),
        (r"^std::option::Option::is_some_and\(libp2p_gossipsub::protocol::GossipsubCodec::max_transmit_size_for_topic\(", "big"),
        (r"^std::option::Option::is_some\(%s\.signature\)$" % M, "sig"),
        (r"^std::option::Option::is_some\(%s\.seqno\)$" % M, "seq"),
        (r"^discr\(%s\.seqno\)$" % M, "seqd"),
        (r"^std::option::Option::is_some\(%s\.from\)$" % M, "from"),
        (r"^discr\(%s\.from\)$" % M, "fromd"),
        (r"^libp2p_gossipsub::protocol::GossipsubCodec::verify_signature\(%s\)$" % M, "vsig"),
        (r"^std::vec::Vec::is_empty\(%s\.seqno@Some\.0\)$" % M, "seq_empty"),
        (r"^Ne\(std::vec::Vec::len\(%s\.seqno@Some\.0\), 8\)$" % M, "seq_badlen"),
        (r"^std::vec::Vec::is_empty\(%s\.from@Some\.0\)$" % M, "from_empty"),
        (r"^discr\(libp2p_identity::PeerId::from_bytes\((<std::vec::Vec as std::ops::Deref>::deref\()?%s\.from@Some\.0\)?\)\)$" % M, "pid"),
        (r"^discr\(std::option::Option::take\(invalid_kind\)\)$", "inv"),
    ]
    B = ["true", "false"]
    domain = {"mode": ["Strict", "Permissive", "Anonymous", "None"], "big": B, "sig": B, "seq": B, "from": B, "vsig": B,
              "seq_empty": B, "seq_badlen": B, "from_empty": B, "pid": ["Ok", "Err"]}
    inv_locals = [k for k, v in d.names.items() if v == "invalid_kind"]

    def ref(a):
        """Reference table (DESIGN A.10 + the checks that follow it).  Returns (expected invalid_kind present, value) ;
        value None = don't-care (cell infeasible given verify_signature's own preconditions)."""
        if a["big"] == "true":
            return None, "invalid"
        sig, seq, frm = a["sig"] == "true", a["seq"] == "true", a["from"] == "true"
        mode = a["mode"]
        if mode == "Strict":
            vs, vq, vf = True, True, True
        elif mode == "Permissive":
            vs, vq, vf = sig, seq, frm
        elif mode == "Anonymous":
            if sig or seq or frm:
                return True, "invalid"
            vs = vq = vf = False
        else:
            vs = vq = vf = False
        if vs and a["vsig"] == "false":
            return False, "invalid"
        if vs and not (frm and a["from_empty"] == "false" and a["pid"] == "Ok"):
            return False, None          # verify_signature cannot have returned true without a parseable `from`
        if vs and not sig:
            return False, None          # nor without a signature
        q = "none"
        if vq:
            if not seq:
                return False, "invalid"
            if a["seq_empty"] == "true":
                q = "none"
            elif a["seq_badlen"] == "true":
                return False, "invalid"
            else:
                q = "u64(seqno)"
        s = "none"
        if vf and frm and a["from_empty"] == "false":
            if a["pid"] == "Err":
                return False, "invalid"
            s = "peer(from)"
        return False, "valid(source=%s, seq=%s, sig=message.signature)" % (s, q)

    def value_of(site, env):
        e = d.site_expr(site)
        if render(e[2][0]) == "invalid_messages":
            return "invalid"
        agg = e[2][1]
        if not (agg[0] == "agg" and agg[1] == "adt"):
            return "?" + render(agg)[:60]
        out = {}
        for fname, fe in agg[4]:
            r = render(fe)
            if fe[0] == "local" and fe[1] in env:
                r = _last_def_render(d, fe[1], env)
            out[fname] = r
        src, sq, sg = out.get("source", "?"), out.get("sequence_number", "?"), out.get("signature", "?")
        if src == "std::option::Option::None{}":
            s = "none"
        elif re.match(r"^std::option::Option::Some\{0: libp2p_identity::PeerId::from_bytes\((<std::vec::Vec as std::ops::Deref>::deref\()?%s\.from@Some\.0\)?\)@Ok\.0\}$" % M, src):
            s = "peer(from)"
        else:
            s = "?" + src[:60]
        if sq == "std::option::Option::None{}":
            q = "none"
        elif re.match(r"^std::option::Option::Some\{0: <byteorder::BigEndian as byteorder::ByteOrder>::read_u64\((<std::vec::Vec as std::ops::Deref>::deref\()?%s\.seqno@Some\.0\)?\)\}$" % M, sq):
            q = "u64(seqno)"
        else:
            q = "?" + sq[:60]
        g = "message.signature" if re.match(r"^%s\.signature$" % M, sg) else "?" + sg[:60]
        return "valid(source=%s, seq=%s, sig=%s)" % (s, q, g)

    by_bb = {}
    for s in valid + invalid:
        by_bb.setdefault(s.bb, []).append(s)
    result_bbs = set(by_bb) | set(nxt)
    atoms = list(domain)
    bad, unknown_all, ncells, seen_vals = [], set(), 0, set()
    try:
        for combo in itertools.product(*[domain[a] for a in atoms]):
            asg = dict(zip(atoms, combo))
            asg["seqd"] = "Some" if asg["seq"] == "true" else "None"
            asg["fromd"] = "Some" if asg["from"] == "true" else "None"
            inv_want, want = ref(asg)
            if want is None:
                continue
            for inv in (["Some", "None"] if inv_want is None else ["Some" if inv_want else "None"]):
                asg["inv"] = inv
                ncells += 1
                paths, unk = lib.cell_paths(d, asg, atom_map, result_bbs, start[0], limit=60000)
                unknown_all |= unk
                vals = set()
                for b, env in paths:
                    # feasibility: the Some/None edge taken at `invalid_kind.take()` must agree with the last assignment on this path
                    if inv_locals and inv_locals[0] in env and inv_want is not None:
                        r = _last_def_render(d, inv_locals[0], env)
                        actual = "Some" if r.startswith("std::option::Option::Some") else "None"
                        if actual != inv and b in by_bb and _passes_take(d, b, start[0]):
                            continue
                    if b is None or b in nxt:
                        vals.add("<no push>")
                        continue
                    for s in by_bb[b]:
                        vals.add(value_of(s, env))
                seen_vals |= vals
                if vals != {want}:
                    if len(bad) < 5:
                        bad.append("%s -> got %s want %s" % ({k: v for k, v in asg.items() if k not in ("seqd", "fromd")}, sorted(vals), want))
                    else:
                        bad.append("")
    except mir.RuleError as ex:
        bad.append(str(ex))
    unknown_all = {u for u in unknown_all if not re.search(r"^enabled$|^discr\(<std::vec::IntoIter as std::iter::Iterator>::next\(iter\)\)$", u)}
    ctx.ob("table", "per-message validation/no-unmodelled-guards", not unknown_all, where, "conditions outside the table's atoms: %s" % sorted(unknown_all)[:4])
    ctx.ob("table", "per-message validation/table", not bad and ncells > 0, where,
           "abstract evaluation over %d cells of %s: %s" % (ncells, atoms + ["inv"], "all equal to the reference table (values %s)" % sorted(seen_vals)
                                                           if not bad else "; ".join(x for x in bad if x) + " (%d cells differ)" % len(bad)))
    # ---- direct guards on the accepting push (redundant with the table, better diagnostics)
    for s in valid:
        ctx.guarded("guard", "valid only if not over the topic's size limit", s, lambda c, r, l: l == "false" and re.search(atom_map[1][0], r) is not None, "!is_some_and(encoded_len > max)")
        ctx.guarded("guard", "valid only if the mode-specific precheck found nothing", s, lambda c, r, l: l == "None" and re.search(atom_map[12][0], r) is not None, "invalid_kind is None")
    # Strict arm sets all three flags; checked per flag so that the diagnostic names it
    arm = lib.arm_entry(d, r"^discr\(self\.validation_mode\)$", "Strict")
    join = [bi for bi in d.live if d.switch_info(bi) and re.search(atom_map[12][0], render(d.switch_info(bi)[0]))]
    for flag in ("verify_signature", "verify_sequence_no", "verify_source"):
        ls = [k for k, v in d.names.items() if v == flag]
        sets = [mir.Site(d, x[1], x[2]) for l in ls for x in d.defs.get(l, []) if x[0] == "stmt" and render(d.rvalue_expr(x[3])) == "1"]
        ok = bool(arm) and bool(join) and bool(sets) and d.must_pass_nodes([t for _, t in arm], join, lib.bbs(sets))
        ctx.ob("guard", "Strict sets %s" % flag, ok, sets[0].loc() if sets else where, "every path through the Strict arm assigns %s = true" % flag)
        sw = [bi for bi in d.live if d.switch_info(bi) and render(d.switch_info(bi)[0]) == flag]
        ctx.ob("guard", "floor:%s is tested" % flag, len(sw) == 1, nontrivial=False, msg=str(sw))
    # the size closure compares the encoded length with the topic's maximum
    big = [bi for bi in d.live if d.switch_info(bi) and re.search(atom_map[1][0], render(d.switch_info(bi)[0]))]
    for bi in big:
        cl = lib.closure_of(prog, d, d.switch_info(bi)[0])
        r0 = [render(cl.site_expr(mir.Site(cl, x[1], x[2]))) for x in cl.defs[0]] if cl else []
        ctx.ob("guard", "size test is encoded_len(message) > max", len(r0) == 1 and re.match(r"^Gt\(libp2p_gossipsub::<rpc_proto::proto::gossipsub_pb::Message as prost::Message>::encoded_len\(\^message\), max\)$", r0[0]) is not None,
               cl and "%s:%d" % (cl.file, cl.line) or where, str(r0)[:200])
    # ---- verify_signature
    v = ctx.body(G, r"protocol::GossipsubCodec::verify_signature$")
    vw = "%s:%d" % (v.file, v.line)
    ver = v.call_sites(r"libp2p_identity::PublicKey::verify$")
    ctx.floor("verify", "PublicKey::verify call", ver, 1, exact=True)
    n_false = 0
    for x in v.defs[0]:
        site = mir.Site(v, x[1], x[2])
        if x[0] == "stmt":
            r = render(v.rvalue_expr(x[3]))
            ok = r == "0"
            n_false += ok
            ctx.ob("verify", "true only from PublicKey::verify", ok, site.loc(), "return value assigned %s" % r[:80])
        else:
            ok = re.search(r"PublicKey::verify$", mir.strip_generics(v.call_name(x[3]))) is not None
            ctx.ob("verify", "true only from PublicKey::verify", ok, site.loc(), "return value = %s" % mir.strip_generics(v.call_name(x[3])))
    ctx.ob("verify", "floor:failure returns", n_false >= 1, nontrivial=False, msg="%d `return false`" % n_false)
    FROM = r"std::option::Option::as_ref\(message\.from\)"
    SRC = r"libp2p_identity::PeerId::from_bytes\((<std::vec::Vec as std::ops::Deref>::deref\()?%s@Some\.0\)?\)" % FROM
    for s in ver:
        ctx.guarded("verify", "verify only if a source is given", s, lambda c, r, l: l == "Some" and re.match(r"^discr\(%s\)$" % FROM, r) is not None, "message.from is Some")
        ctx.guarded("verify", "verify only if the source is a valid PeerId", s, lambda c, r, l: l == "Ok" and re.match(r"^discr\(%s\)$" % SRC, r) is not None, "PeerId::from_bytes(from) is Ok")
        ctx.guarded("verify", "verify only if a signature is given", s, lambda c, r, l: l == "Some" and r == "discr(std::option::Option::as_ref(message.signature))", "message.signature is Some")
        ctx.guarded("verify", "verify only if source == public_key.to_peer_id()", s,
                    lambda c, r, l: (l == "false" and re.match(r"^std::cmp::PartialEq::ne\(%s@Ok\.0, libp2p_identity::PublicKey::to_peer_id\(public_key\)\)$" % SRC, r) is not None) or
                                    (l == "true" and re.match(r"^std::cmp::PartialEq::eq\(%s@Ok\.0, libp2p_identity::PublicKey::to_peer_id\(public_key\)\)$" % SRC, r) is not None),
                    "source == public_key.to_peer_id()")
        e = v.site_expr(s)
        a = [render(x) for x in e[2]]
        ctx.ob("verify", "the key that is checked against the source is the key that verifies", a[0] == "public_key", s.loc(), a[0][:80])
        ctx.ob("verify", "verified bytes are signature_bytes", re.match(r"^(<std::vec::Vec as std::ops::Deref>::deref\()?signature_bytes\)?$", a[1]) is not None, s.loc(), a[1][:80])
        ctx.ob("verify", "verified signature is message.signature", re.match(r"^(<std::vec::Vec as std::ops::Deref>::deref\()?std::option::Option::as_ref\(message\.signature\)@Some\.0\)?$", a[2]) is not None, s.loc(), a[2][:120])
    # signature_bytes = SIGNING_PREFIX ++ encode(message_sig), message_sig = message.clone() with signature/key = None
    sb = [k for k, n in v.names.items() if n == "signature_bytes"]
    init = [render(v.init_expr(k)) for k in sb]
    ctx.ob("verify", "signature_bytes starts with SIGNING_PREFIX", init == ["std::slice::to_vec(const:libp2p_gossipsub::protocol::SIGNING_PREFIX)"], vw, str(init))
    ext = [s for s in v.call_sites(r"Vec::extend_from_slice$|Vec as std::iter::Extend>::extend$") if render(v.site_expr(s)[2][0]) == "signature_bytes"]
    ctx.floor("verify", "signature_bytes.extend", ext, 1, exact=True)
    allmut = [s for s in v.call_sites() if s.term["args"] and render(v.site_expr(s)[2][0]) == "signature_bytes" and not re.search(r"Deref>::deref$", mir.strip_generics(v.call_name(s.term)))]
    ctx.ob("verify", "signature_bytes is only extended once", len(allmut) == len(ext) == 1, vw, str([mir.strip_generics(v.call_name(s.term)) for s in allmut]))
    enc = v.call_sites(r"prost::Message::encode_to_vec$|Message>::encode_to_vec$")
    ctx.floor("verify", "encode_to_vec", enc, 1, exact=True)
    for s in ext:
        r = render(v.site_expr(s)[2][1])
        ctx.ob("verify", "appended bytes are the encoded cleared message", re.match(r"^(<std::vec::Vec as std::ops::Deref>::deref\()?prost::Message::encode_to_vec\(message_sig\)\)?$", r) is not None, s.loc(), r[:120])
        if ver:
            lib.precedes(ctx, "verify", "prefix+message assembled before verification", v, [s.bb], lib.bbs(ver), "extend_from_slice precedes PublicKey::verify", s.loc())
    ms = [k for k, n in v.names.items() if n == "message_sig"]
    init = [render(v.init_expr(k)) for k in ms]
    ctx.ob("verify", "message_sig is a clone of the received message", len(init) == 1 and re.match(r"^libp2p_gossipsub::<rpc_proto::proto::gossipsub_pb::Message as std::clone::Clone>::clone\(message\)$", init[0]) is not None, vw, str(init)[:160])
    cleared = {}
    for l in ms:
        for x in v.defs.get((l, "partial"), []):
            if x[0] != "stmt":
                continue
            prs = x[4].get("pr", ())
            fld = [pr["n"] for pr in prs if pr["k"] == "field"]
            cleared.setdefault(fld[-1] if fld else "?", []).append((mir.Site(v, x[1], x[2]), render(v.rvalue_expr(x[3]))))
    ok_fields = True
    for f in ("signature", "key"):
        ws = cleared.get(f, [])
        ok = bool(ws) and all(r == "std::option::Option::None{}" for _, r in ws) and bool(enc) and \
            enc[0].bb not in v.reachable([0], blocked_nodes=lib.bbs([w for w, _ in ws]))
        ok_fields &= ok
        ctx.ob("verify", "signature and key are cleared before encoding", ok, ws[0][0].loc() if ws else vw, "message_sig.%s = None on every path to encode_to_vec: %s" % (f, ok))
    other = sorted(set(cleared) - {"signature", "key"})
    ctx.ob("verify", "no signed field is altered before encoding", not other, vw, "other fields of message_sig written: %s" % other)
    # key selection
    pk = [k for k, n in v.names.items() if n == "public_key"]
    pdefs = []
    for l in pk:
        for x in v.defs.get(l, []):
            pdefs.append(render(v.rvalue_expr(x[3])) if x[0] == "stmt" else render(v.call_expr(x[3], x[1])))
    want_key = r"^std::option::Option::map\(std::option::Option::as_deref\(message\.key\), fn:libp2p_identity::PublicKey::try_decode_protobuf\)@Some\.0@Ok\.0$"
    want_inl = r"^libp2p_identity::PublicKey::try_decode_protobuf\(<std::vec::Vec as std::ops::Index>::index\(libp2p_identity::PeerId::to_bytes\(%s@Ok\.0\), std::ops::RangeFrom::RangeFrom\{start: 2\}\)\)@Ok\.0$" % SRC
    ctx.ob("verify", "key is message.key if it decodes, else the key inlined in the source id",
           len(pdefs) == 2 and any(re.match(want_key, x) for x in pdefs) and any(re.match(want_inl, x) for x in pdefs), vw, str(pdefs)[:400])
    # ---- decode calls verify_signature on the loop's message
    vs_calls = d.call_sites(r"protocol::GossipsubCodec::verify_signature$")
    ctx.floor("verify", "verify_signature call in decode", vs_calls, 1, exact=True)
    for s in vs_calls:
        r = render(d.site_expr(s)[2][0])
        ctx.ob("verify", "the message verified is the message pushed", re.match("^%s$" % M, r) is not None, s.loc(), r[:120])
    callers = prog.callers(G, r"protocol::GossipsubCodec::verify_signature$")
    ctx.ob("verify", "verify_signature is only consulted by decode", {s.body.npath for s in callers} == {d.npath}, vw, str(sorted({s.body.npath for s in callers})))
    # ---- K11: the signing side signs the same byte string
    b = ctx.body(G, r"behaviour::Behaviour::build_raw_message$")
    sg = b.call_sites(r"libp2p_identity::Keypair::sign$")
    ctx.floor("sign", "Keypair::sign call", sg, 1, exact=True)
    sbl = [k for k, n in b.names.items() if n == "signature_bytes"]
    init = [render(b.init_expr(k)) for k in sbl]
    ctx.ob("sign", "signed bytes start with SIGNING_PREFIX", init == ["std::slice::to_vec(const:libp2p_gossipsub::protocol::SIGNING_PREFIX)"], "%s:%d" % (b.file, b.line), str(init))
    mir.RENDER_MAX[0] = 30
    try:
        bext = [s for s in b.call_sites(r"Vec::extend_from_slice$|Vec as std::iter::Extend>::extend$") if render(b.site_expr(s)[2][0]) == "signature_bytes"]
        ctx.floor("sign", "signature_bytes.extend", bext, 1, exact=True)
        for s in bext:
            e = b.site_expr(s)[2][1]
            aggs = [x for x in mir.walk(e) if x[0] == "agg" and x[1] == "adt" and re.search(r"gossipsub_pb::Message$", mir.strip_generics(x[2]))]
            ok = len(aggs) == 1 and "encode_to_vec(" in render(e)
            ctx.ob("sign", "appended bytes are an encoded proto::Message", ok, s.loc(), render(e)[:100])
            if aggs:
                f = dict((k, render(x)) for k, x in aggs[0][4])
                ctx.ob("sign", "signed message has signature: None and key: None", f.get("signature") == "std::option::Option::None{}" and f.get("key") == "std::option::Option::None{}", s.loc(),
                       "signature=%s key=%s" % (f.get("signature"), f.get("key")))
                ctx.ob("sign", "signed `from` is the author", re.match(r"^std::option::Option::Some\{0: libp2p_identity::PeerId::to_bytes\(self\.publish_config@Signing\.author\)\}$", f.get("from", "")) is not None, s.loc(), f.get("from", "")[:120])
                ctx.ob("sign", "signed seqno is the big-endian sequence number", re.match(r"^std::option::Option::Some\{0: std::slice::to_vec\(core::num::to_be_bytes\(libp2p_gossipsub::behaviour::SequenceNumber::next\(self\.publish_config@Signing\.last_seq_no\)\)\)\}$", f.get("seqno", "")) is not None, s.loc(), f.get("seqno", "")[:160])
                ctx.ob("sign", "signed data / topic are the published data / topic", "clone(data)" in f.get("data", "") and "clone(topic)" in f.get("topic", ""), s.loc(), "data=%s topic=%s" % (f.get("data", "")[:60], f.get("topic", "")[:80]))
            if sg:
                lib.precedes(ctx, "sign", "prefix+message assembled before signing", b, [s.bb], lib.bbs(sg), "extend_from_slice precedes Keypair::sign", s.loc())
        for s in sg:
            a = [render(x) for x in b.site_expr(s)[2]]
            ctx.ob("sign", "signs signature_bytes with the configured keypair", a[0] == "self.publish_config@Signing.keypair" and re.match(r"^(<std::vec::Vec as std::ops::Deref>::deref\()?signature_bytes\)?$", a[1]) is not None, s.loc(), str(a)[:160])
        # the RawMessage published on the Signing arm carries what was signed
        oks = [mir.Site(b, x[1], x[2]) for x in b.defs[0] if x[0] == "stmt"]
        signing = [s for s in oks if "Keypair::sign(" in render(b.site_expr(s))]
        ctx.floor("sign", "signed RawMessage", signing, 1, exact=True)
        for s in signing:
            e = b.site_expr(s)
            aggs = [x for x in mir.walk(e) if x[0] == "agg" and x[1] == "adt" and re.search(r"types::RawMessage$", mir.strip_generics(x[2]))]
            f = dict((k, render(x)) for k, x in aggs[0][4]) if aggs else {}
            ctx.ob("sign", "published source / sequence_number are the signed ones",
                   f.get("source") == "std::option::Option::Some{0: self.publish_config@Signing.author}" and
                   f.get("sequence_number") == "std::option::Option::Some{0: libp2p_gossipsub::behaviour::SequenceNumber::next(self.publish_config@Signing.last_seq_no)}" and
                   f.get("data") == "data" and f.get("topic") == "topic", s.loc(), str({k: f.get(k, "")[:70] for k in ("source", "sequence_number", "data", "topic")}))
            ctx.ob("sign", "published signature is the signature just made", re.match(r"^std::option::Option::Some\{0: <std::result::Result as std::ops::Try>::branch\(libp2p_identity::Keypair::sign\(", f.get("signature", "")) is not None, s.loc(), f.get("signature", "")[:100])
        nseq = b.call_sites(r"behaviour::SequenceNumber::next$")
        ctx.ob("sign", "one sequence number per message (signed == published)", len(nseq) == 1, "%s:%d" % (b.file, b.line), "%d SequenceNumber::next calls" % len(nseq))
    finally:
        mir.RENDER_MAX[0] = 14
    pre = prog.const(G, r"protocol::SIGNING_PREFIX$")
    ctx.ob("sign", "SIGNING_PREFIX == b\"libp2p-pubsub:\"", pre.get("s") == "libp2p-pubsub:" or pre.get("v") == "libp2p-pubsub:" or "libp2p-pubsub:" in str(pre), msg=str(pre)[:160])


def _passes_take(d, b, start):
    """Does every path start -> b pass the `invalid_kind.take()` test?  (pushes before the test are unaffected by it)"""
    take = [bi for bi in d.live if d.switch_info(bi) and render(d.switch_info(bi)[0]) == "discr(std::option::Option::take(invalid_kind))"]
    if not take:
        return False
    return b not in d.reachable([start], blocked_nodes=take)
