"""C30 gossipsub accepts only messages valid for the validation mode — finite-partition evaluation of the per-message validation (K7), guards (K1), origin (K5), sign/verify sibling agreement (K11)."""
import re

from .. import lib, lib_gs2, mir
from ..lib_gs2 import Canon, VarDim, BoolDim, NumDim, Cells
from ..mir import render, strip_generics

EXPLANATION = ("GossipsubCodec::decode, one iteration of the loop over rpc.publish: the body is evaluated abstractly over every cell of "
               "(validation mode x size-too-large x signature/seqno/from present x verify_signature result x length class of seqno "
               "{0, 1..7, 8, >8 and every other constant the code compares it with} x from empty x PeerId parse result); conditions are "
               "normalised (is_some / if-let / match, mirrored or negated comparisons, literal or named constants, renamed locals) and the "
               "flags / Option-valued locals are followed along each path; in each cell the set of reached pushes (into the vector that "
               "becomes RpcIn.messages, with its source / sequence_number / signature fields, or into invalid_messages) equals the reference "
               "table: Strict verifies signature, seqno and source; Permissive verifies what is present; Anonymous rejects any message "
               "carrying a signature, seqno or source; None checks nothing. Every iteration pushes exactly once. verify_signature returns "
               "true only as the result of PublicKey::verify, reached only when `from` parses as a PeerId, a signature is present and "
               "source == key.to_peer_id() for the key that verifies; the verified bytes are SIGNING_PREFIX ++ encode(message with signature "
               "and key cleared); the key is message.key if it decodes, otherwise the key inlined in the source id. The signing side "
               "(build_raw_message) signs the same prefix ++ encode(message with signature: None, key: None) and publishes the fields it signed.")
ASSUMPTIONS = ["cryptographic validity of PublicKey::verify / Keypair::sign is trusted",
               "prost encode_to_vec is deterministic and covers exactly from/data/seqno/topic when signature and key are None",
               "which ValidationError kind is reported for an invalid message is not part of the table (only valid vs invalid and the surfaced fields)"]
G = "libp2p_gossipsub"
CONFIGS = [{"name": "gossipsub-features", "packages": ["libp2p-gossipsub"], "features": "metrics,partial-messages"}]
SELFTEST = [
    {"mutation": "Strict arm: `verify_signature = true` deleted", "caught_by": "table/per-message validation/table"},
    {"mutation": "Anonymous arm: `else if message.from.is_some()` branch deleted", "caught_by": "table/per-message validation/table"},
    {"mutation": "`seq_no.len() != 8` -> `seq_no.len() > 8`", "caught_by": "table/per-message validation/table"},
    {"mutation": "verify_signature: `message_sig.key = None` deleted", "caught_by": "verify/signature and key are cleared before encoding"},
    {"mutation": "verify_signature: `source != public_key.to_peer_id()` replaced by `false`", "caught_by": "verify/verify only if source == key.to_peer_id()"},
    {"mutation": "verify_signature: `return true` when no signature is provided", "caught_by": "verify/true only from PublicKey::verify"},
    {"mutation": "messages.push: `source` replaced by `None`", "caught_by": "table/per-message validation/table"},
    {"mutation": "build_raw_message: signed proto::Message built with `key: Some(Vec::new())`", "caught_by": "sign/signed message has signature: None and key: None"},
    {"mutation": "neutral/gs/10 (named constant for the literal 8)", "caught_by": "(silent, as required)"},
]
NEXT = r"<[^()]*? as std::iter::Iterator>::next\(it\)@Some\.0"


def resolve_buffer(cx, e):
    """Where a byte buffer value is built: (canon, body, local, via) — in the same body when `e` is a local, or one level down when it is
    the result of a crate-local helper whose return value is a local buffer (helper parameters are bound to the call's arguments, so its
    expressions read in the caller's frame)."""
    if e[0] == "local":
        return cx, cx.b, e[1], None
    if e[0] == "call":
        hc = cx.helper(e)
        if hc is not None:
            rets = hc.returns()
            if len(rets) == 1 and rets[0][1][0] == "local":
                return hc, hc.b, rets[0][1][1], e
    return None


def check(ctx):
    prog = ctx.prog
    d = ctx.body(G, r"protocol::GossipsubCodec as asynchronous_codec::Decoder>::decode$")
    where = "%s:%d" % (d.file, d.line)
    cx0 = Canon(prog, d)
    # ---- the two result vectors: the locals that end up in RpcIn.messages / HandlerEvent::Message.invalid_messages
    roles = {}
    for s, e in cx0.returns():
        for a in mir.walk(e):
            if a[0] == "agg" and a[1] == "adt" and re.search(r"(types::RpcIn|handler::HandlerEvent)$", strip_generics(a[2])):
                for f, v in a[4]:
                    if f in ("messages", "invalid_messages") and v[0] == "local":
                        roles[v[1]] = f
    ctx.ob("table", "floor:result vectors", sorted(roles.values()) == ["invalid_messages", "messages"], where, str(roles), nontrivial=False)
    cx = Canon(prog, d, roles)
    pushes = d.call_sites(r"Vec::push$")
    valid = [s for s in pushes if render(cx.args(s)[0]) == "messages"]
    invalid = [s for s in pushes if render(cx.args(s)[0]) == "invalid_messages"]
    ctx.floor("table", "push into RpcIn.messages", valid, 1, exact=True)
    ctx.floor("table", "push into invalid_messages", invalid, 1)
    if not valid:
        return
    # ---- the per-message loop: innermost enclosing `for` whose element the pushed message is built from
    head = None
    for text, labels, sw, cond in d.guards_on_all_paths(valid[0].bb):
        if labels == frozenset({"Some"}) and cond[0] == "discr" and cond[1][0] == "call" and re.search(r"iter::Iterator>::next$", strip_generics(cond[1][1])) and cond[1][2] and cond[1][2][0][0] == "local":
            head = (sw, cond[1][2][0][1], cond[1][3])
    ctx.ob("table", "floor:publish loop", head is not None, nontrivial=False, msg=str(head))
    if head is None:
        return
    sw, itl, nxt_bb = head
    roles[itl] = "it"
    cx = Canon(prog, d, roles)
    info = d.switch_info(sw)
    start = [t for t, ls in info[1].items() if "Some" in ls]
    nxt = [nxt_bb]
    it_init = cx.init(itl)
    src_ok = False
    if it_init is not None and re.search(r"\.publish\)+$", render(it_init)):
        txt = render(it_init)
        for l in lib_gs2.locals_in(it_init):
            li = cx.init(l)
            if li is not None:
                txt += " <- " + render(li)
        src_ok = "Decoder>::decode(" in txt
    ctx.ob("table", "loop iterates the decoded rpc's publish list", src_ok, where, render(it_init)[:200] if it_init else "")
    for s in invalid:
        ctx.ob("table", "floor:invalid push inside the loop", s.bb in d.reachable(start, stop_nodes=nxt), s.loc(), nontrivial=False)
    lib.expect_count(ctx, "table", "every message is pushed exactly once (valid or invalid)", d, start, nxt, lib.bbs(valid + invalid), (1, 1), "pushes per loop iteration", where)
    E = NEXT
    dims = [
        VarDim("mode", r"^\$1\.validation_mode$", ["Strict", "Permissive", "Anonymous", "None"]),
        BoolDim("big", r"^std::option::Option::is_some_and\(.*max_transmit_size_for_topic\("),
        VarDim("sig", r"^%s\.signature$" % E, ["Some", "None"]),
        VarDim("seq", r"^%s\.seqno$" % E, ["Some", "None"]),
        VarDim("from", r"^%s\.from$" % E, ["Some", "None"]),
        BoolDim("vsig", r"^libp2p_gossipsub::protocol::GossipsubCodec::verify_signature\(%s\)$" % E),
        NumDim("seqlen", r"^std::vec::Vec::len\(%s\.seqno@Some\.0\)$" % E, consts={0, 8}),
        NumDim("fromlen", r"^std::vec::Vec::len\(%s\.from@Some\.0\)$" % E, consts={0}),
        VarDim("pid", r"^libp2p_identity::PeerId::from_bytes\(%s\.from@Some\.0\)$" % E, ["Ok", "Err"]),
    ]
    cells = Cells(cx, dims)

    def ref(a):
        """Reference table (DESIGN A.10 + the checks that follow it); None = don't-care (infeasible given verify_signature's own
        preconditions)."""
        if a["big"]:
            return "invalid"
        sig, seq, frm = a["sig"] == "Some", a["seq"] == "Some", a["from"] == "Some"
        from_empty = a["fromlen"] == (0, 0)
        mode = a["mode"]
        if mode == "Strict":
            vs, vq, vf = True, True, True
        elif mode == "Permissive":
            vs, vq, vf = sig, seq, frm
        elif mode == "Anonymous":
            if sig or seq or frm:
                return "invalid"
            vs = vq = vf = False
        else:
            vs = vq = vf = False
        if vs and not a["vsig"]:
            return "invalid"
        if vs and not (frm and not from_empty and a["pid"] == "Ok" and sig):
            return None
        q = "none"
        if vq:
            if not seq:
                return "invalid"
            if a["seqlen"] == (0, 0):
                q = "none"
            elif a["seqlen"] != (8, 8):
                return "invalid"
            else:
                q = "u64(seqno)"
        s = "none"
        if vf and frm and not from_empty:
            if a["pid"] == "Err":
                return "invalid"
            s = "peer(from)"
        return "valid(source=%s, seq=%s, sig=message.signature)" % (s, q)

    def value_of(site, env):
        args = cx.args(site)
        if render(args[0]) == "invalid_messages":
            return "invalid"
        agg = args[1]
        if not (agg[0] == "agg" and agg[1] == "adt"):
            return "?" + render(agg)[:60]
        out = {f: render(cells._env_value(v, env)) for f, v in agg[4]}
        src, sq, sg = out.get("source", "?"), out.get("sequence_number", "?"), out.get("signature", "?")
        if src == "std::option::Option::None{}":
            s = "none"
        elif re.match(r"^std::option::Option::Some\{0: libp2p_identity::PeerId::from_bytes\(%s\.from@Some\.0\)@Ok\.0\}$" % E, src):
            s = "peer(from)"
        else:
            s = "?" + src[:60]
        if sq == "std::option::Option::None{}":
            q = "none"
        elif re.match(r"^std::option::Option::Some\{0: <byteorder::BigEndian as byteorder::ByteOrder>::read_u64\(%s\.seqno@Some\.0\)\}$" % E, sq):
            q = "u64(seqno)"
        else:
            q = "?" + sq[:60]
        g = "message.signature" if re.match(r"^%s\.signature$" % E, sg) else "?" + sg[:60]
        return "valid(source=%s, seq=%s, sig=%s)" % (s, q, g)

    by_bb = {}
    for s in valid + invalid:
        by_bb.setdefault(s.bb, []).append(s)
    result_bbs = set(by_bb) | set(nxt)
    bad, ncells, seen_vals = [], 0, set()
    try:
        for cell in cells.cells():
            want = ref(cell)
            if want is None:
                continue
            ncells += 1
            vals = set()
            for b_, env in cells.run(cell, start, result_bbs):
                if b_ is None or b_ in nxt:
                    vals.add("<no push>")
                    continue
                for s in by_bb[b_]:
                    vals.add(value_of(s, env))
            seen_vals |= vals
            if vals != {want}:
                bad.append("%s -> got %s want %s" % (cell, sorted(vals), want) if len(bad) < 4 else "")
    except mir.RuleError as ex:
        bad.append(str(ex))
    unknown = {u for u in cells.unknown if not re.search(r"Iterator>::next\(it\)$", u)}
    ctx.ob("table", "per-message validation/no-unmodelled-guards", not unknown, where, "conditions outside the table's dimensions: %s" % sorted(unknown)[:4])
    ctx.ob("table", "per-message validation/table", not bad and ncells > 0, where,
           "abstract evaluation over %d cells of %s (seqno length classes %s): %s" % (ncells, [x.name for x in dims], dims[6].domain, "all equal to the reference table (values %s)" % sorted(seen_vals)
                                                                                      if not bad else "; ".join(x for x in bad if x) + " (%d cells differ)" % len(bad)))
    # ---- direct guard on the accepting push (redundant with the table, better diagnostics)
    BIG = r"^std::option::Option::is_some_and\(.*max_transmit_size_for_topic\("
    for s in valid:
        ok = cx.dominated(s.bb, cx.edges(lib_gs2.bool_pred(BIG, False)))
        ctx.ob("guard", "valid only if not over the topic's size limit", ok, s.loc(), "!max_transmit_size_for_topic(topic).is_some_and(|max| encoded_len > max)")
    for bi in sorted(d.live):
        swc = cx.switch(bi)
        if swc and re.search(BIG, render(swc[0])):
            for cl in cx.closures_in(d.switch_info(bi)[0]):
                rets = cl.returns()
                ok = len(rets) == 1 and any(lib_gs2.rel_pred(r"encoded_len\(%s\)$" % E, r"^c\$2$", "Gt")(a) for a in lib_gs2.atoms_of(rets[0][1], {"true"}))
                ctx.ob("guard", "size test is encoded_len(message) > max", ok, "%s:%d" % (cl.b.file, cl.b.line), str([render(e) for _, e in rets])[:200])
    # ---- verify_signature
    v = ctx.body(G, r"protocol::GossipsubCodec::verify_signature$")
    cv = Canon(prog, v)
    vw = "%s:%d" % (v.file, v.line)
    ver = v.call_sites(r"libp2p_identity::PublicKey::verify$")
    ctx.floor("verify", "PublicKey::verify call", ver, 1, exact=True)
    n_false = 0
    for s, e in cv.returns():
        if e[0] == "const":
            ok = e[1] == 0
            n_false += ok
            ctx.ob("verify", "true only from PublicKey::verify", ok, s.loc(), "return value assigned %s" % render(e)[:80])
        else:
            ok = e[0] == "call" and re.search(r"PublicKey::verify$", strip_generics(e[1])) is not None
            ctx.ob("verify", "true only from PublicKey::verify", ok, s.loc(), "return value = %s" % render(e)[:100])
    ctx.ob("verify", "floor:failure returns", n_false >= 1, nontrivial=False, msg="%d `return false`" % n_false)
    SRC = r"libp2p_identity::PeerId::from_bytes\(\$1\.from@Some\.0\)"
    vconst = set()
    for s in ver:
        a = cv.args(s)
        key = render(a[0])
        ctx.ob("verify", "verify only if a source is given", cv.dominated(s.bb, cv.edges(lib_gs2.var_pred(r"^\$1\.from$", {"Some"}))), s.loc(), "message.from is Some")
        ctx.ob("verify", "verify only if the source is a valid PeerId", cv.dominated(s.bb, cv.edges(lib_gs2.var_pred("^%s$" % SRC, {"Ok"}))), s.loc(), "PeerId::from_bytes(from) is Ok")
        ctx.ob("verify", "verify only if a signature is given", cv.dominated(s.bb, cv.edges(lib_gs2.var_pred(r"^\$1\.signature$", {"Some"}))), s.loc(), "message.signature is Some")
        ctx.ob("verify", "verify only if source == key.to_peer_id()", cv.dominated(s.bb, cv.edges(lib_gs2.rel_pred("^%s@Ok\\.0$" % SRC, r"^libp2p_identity::PublicKey::to_peer_id\(%s\)$" % re.escape(key), "Eq"))), s.loc(),
               "source == to_peer_id(key) for the key passed to verify (%s)" % key)
        ctx.ob("verify", "verified signature is message.signature", render(a[2]) == "$1.signature@Some.0", s.loc(), render(a[2])[:120])
        # the verified bytes
        rb = resolve_buffer(cv, a[1])
        ctx.ob("verify", "floor:verified bytes are a buffer built here or in a crate-local helper", rb is not None, s.loc(), render(a[1])[:80], nontrivial=False)
        if rb is None:
            continue
        cz, zb, sbl, via = rb
        zw = "%s:%d" % (zb.file, zb.line)
        bufr = render(cz.x(("local", sbl, None)))
        init = cz.init(sbl)
        vconst |= {x[1] for x in mir.walk(init) if x[0] == "namedconst"} if init else set()
        pre = [x for x in mir.walk(init)] if init else []
        cpath = [x[1] for x in pre if x[0] == "namedconst"]
        okp = init is not None and init[0] == "call" and re.search(r"slice::to_vec$|Vec::from$|borrow::ToOwned", strip_generics(init[1])) is not None and len(cpath) == 1
        ctx.ob("verify", "signature_bytes starts with SIGNING_PREFIX", okp, zw, render(init)[:120] if init else "no single initialiser")
        muts = [m for m in zb.call_sites() if m.term["args"] and render(cz.args(m)[0]) == bufr and not (zb is v and m == s) and not lib_gs2.TRANSPARENT.search(strip_generics(zb.call_name(m.term)))]
        ctx.ob("verify", "signature_bytes is only extended once", len(muts) == 1 and re.search(r"extend_from_slice$|Extend>::extend$|append$", strip_generics(zb.call_name(muts[0].term))) is not None, zw, str([strip_generics(zb.call_name(m.term)) for m in muts]))
        for m in muts[:1]:
            app = cz.args(m)[1]
            okm = app[0] == "call" and re.search(r"encode_to_vec$", strip_generics(app[1])) is not None and app[2] and app[2][0][0] == "local"
            ctx.ob("verify", "appended bytes are the encoded cleared message", okm, m.loc(), render(app)[:120])
            if zb is v:
                lib.precedes(ctx, "verify", "prefix+message assembled before verification", v, [m.bb], [s.bb], "extend precedes PublicKey::verify", m.loc())
            else:
                ctx.ob("verify", "prefix+message assembled before verification", zb.must_pass_nodes([0], zb.return_blocks(), [m.bb]), m.loc(), "the helper extends the buffer on every path before returning it")
            if not okm:
                continue
            ml = app[2][0][1]
            enc_bb = app[3]
            mi = cz.init(ml)
            ctx.ob("verify", "the encoded message is a copy of the received message", mi is not None and render(mi) == "$1", zw, render(mi)[:100] if mi else "")
            cleared = {}
            for x in zb.defs.get((ml, "partial"), []):
                if x[0] != "stmt":
                    continue
                fld = [pr["n"] for pr in x[4].get("pr", ()) if pr["k"] == "field"]
                cleared.setdefault(fld[-1] if fld else "?", []).append((mir.Site(zb, x[1], x[2]), cz.r(zb.rvalue_expr(x[3]))))
            for f in ("signature", "key"):
                ws = cleared.get(f, [])
                ok = bool(ws) and all(r == "std::option::Option::None{}" for _, r in ws) and enc_bb not in zb.reachable([0], blocked_nodes=lib.bbs([w for w, _ in ws]))
                ctx.ob("verify", "signature and key are cleared before encoding", ok, ws[0][0].loc() if ws else zw, "copy.%s = None on every path to encode_to_vec: %s" % (f, ok))
            other = sorted(set(cleared) - {"signature", "key"})
            ctx.ob("verify", "no signed field is altered before encoding", not other, zw, "other fields of the copy written: %s" % other)
        # key selection
        if a[0][0] == "local":
            kd = [r for _, r in cv.defs(a[0][1])]
            from_key = [x for x in kd if "try_decode_protobuf" in x and "$1.key" in x and x.endswith("@Ok.0")]
            from_src = [x for x in kd if re.search(r"try_decode_protobuf\(.*libp2p_identity::PeerId::to_bytes\(%s@Ok\.0\).*\)@Ok\.0$" % SRC, x) and "$1.key" not in x]
            ctx.ob("verify", "key is message.key if it decodes, else the key inlined in the source id",
                   len(kd) >= 1 and len(from_key) + len(from_src) == len(kd) and len(from_src) >= 1, vw, str(kd)[:400])
    # ---- decode calls verify_signature on the loop's message
    vs_calls = d.call_sites(r"protocol::GossipsubCodec::verify_signature$")
    ctx.floor("verify", "verify_signature call in decode", vs_calls, 1, exact=True)
    for s in vs_calls:
        r = render(cx.args(s)[0])
        ctx.ob("verify", "the message verified is the message pushed", re.match("^%s$" % E, r) is not None, s.loc(), r[:120])
    callers = prog.callers(G, r"protocol::GossipsubCodec::verify_signature$")
    ctx.ob("verify", "verify_signature is only consulted by decode", {s.body.npath for s in callers} == {d.npath}, vw, str(sorted({s.body.npath for s in callers})))
    # ---- K11: the signing side signs the same byte string
    b = ctx.body(G, r"behaviour::Behaviour::build_raw_message$")
    cb = Canon(prog, b)
    bw = "%s:%d" % (b.file, b.line)
    sg = b.call_sites(r"libp2p_identity::Keypair::sign$")
    ctx.floor("sign", "Keypair::sign call", sg, 1, exact=True)
    mir.RENDER_MAX[0] = 30
    try:
        sconst = set()
        signed = {}
        cb0, b0 = cb, b
        for s in sg:
            cb, b = cb0, b0
            a = cb.args(s)
            KP = r"^\$1\.\w+@Signing\.\w+$"
            ctx.ob("sign", "signs with the configured keypair", re.match(KP, render(a[0])) is not None, s.loc(), render(a[0])[:100])
            rb = resolve_buffer(cb, a[1])
            ctx.ob("sign", "floor:signed bytes are a buffer built here or in a crate-local helper", rb is not None, s.loc(), render(a[1])[:80], nontrivial=False)
            if rb is None:
                continue
            cb, b, sl, via = rb
            bufr = render(cb.x(("local", sl, None)))
            init = cb.init(sl)
            sconst |= {x[1] for x in mir.walk(init) if x[0] == "namedconst"} if init else set()
            muts = [m for m in b.call_sites() if m.term["args"] and render(cb.args(m)[0]) == bufr and not (b is b0 and m == s) and not lib_gs2.TRANSPARENT.search(strip_generics(b.call_name(m.term)))]
            ctx.ob("sign", "signed bytes = prefix extended exactly once", init is not None and len(muts) == 1 and re.search(r"extend_from_slice$|Extend>::extend$|append$", strip_generics(b.call_name(muts[0].term))) is not None, bw,
                   "init %s; mutators %s" % (render(init)[:80] if init else None, [strip_generics(b.call_name(m.term)) for m in muts]))
            for m in muts[:1]:
                app = cb.args(m)[1]
                aggs = [x for x in mir.walk(app) if x[0] == "agg" and x[1] == "adt" and re.search(r"gossipsub_pb::Message$", strip_generics(x[2]))]
                ok = len(aggs) == 1 and app[0] == "call" and re.search(r"encode_to_vec$", strip_generics(app[1])) is not None
                ctx.ob("sign", "appended bytes are an encoded proto::Message", ok, m.loc(), render(app)[:100])
                if b is b0:
                    lib.precedes(ctx, "sign", "prefix+message assembled before signing", b, [m.bb], [s.bb], "extend precedes Keypair::sign", m.loc())
                else:
                    ctx.ob("sign", "prefix+message assembled before signing", b.must_pass_nodes([0], b.return_blocks(), [m.bb]), m.loc(), "the helper extends the buffer on every path before returning it")
                if aggs:
                    f = dict((k, render(x)) for k, x in aggs[0][4])
                    ctx.ob("sign", "signed message has signature: None and key: None", f.get("signature") == "std::option::Option::None{}" and f.get("key") == "std::option::Option::None{}", m.loc(),
                           "signature=%s key=%s" % (f.get("signature"), f.get("key")))
                    mfrom = re.match(r"^std::option::Option::Some\{0: libp2p_identity::PeerId::to_bytes\((.*)\)\}$", f.get("from", ""))
                    mseq = re.match(r"^std::option::Option::Some\{0: std::slice::to_vec\(core::num::to_be_bytes\((.*)\)\)\}$", f.get("seqno", ""))
                    signed["from"] = mfrom.group(1) if mfrom else None
                    signed["seq"] = mseq.group(1) if mseq else None
                    ctx.ob("sign", "signed `from` is a peer id, signed seqno a big-endian number", mfrom is not None and mseq is not None, m.loc(), "from=%s seqno=%s" % (f.get("from", "")[:80], f.get("seqno", "")[:100]))
                    ctx.ob("sign", "signed data / topic are the published data / topic", f.get("data") == "std::option::Option::Some{0: $3}" and re.match(r"^libp2p_gossipsub::topic::TopicHash::into_string\(\$2\)$", f.get("topic", "")) is not None, m.loc(), "data=%s topic=%s" % (f.get("data", "")[:60], f.get("topic", "")[:80]))
        cb, b = cb0, b0
        # the RawMessage published on the Signing arm carries what was signed
        signing = [(s, e) for s, e in cb.returns() if "Keypair::sign(" in render(e) and any(x[0] == "agg" and x[1] == "adt" and re.search(r"types::RawMessage$", strip_generics(x[2])) for x in mir.walk(e))]
        ctx.floor("sign", "signed RawMessage", signing, 1, exact=True)
        for s, e in signing:
            aggs = [x for x in mir.walk(e) if x[0] == "agg" and x[1] == "adt" and re.search(r"types::RawMessage$", strip_generics(x[2]))]
            f = dict((k, render(x)) for k, x in aggs[0][4]) if aggs else {}
            ctx.ob("sign", "published source / sequence_number are the signed ones",
                   signed.get("from") is not None and f.get("source") == "std::option::Option::Some{0: %s}" % signed["from"] and
                   signed.get("seq") is not None and f.get("sequence_number") == "std::option::Option::Some{0: %s}" % signed["seq"] and
                   f.get("data") == "$3" and f.get("topic") == "$2", s.loc(), str({k: f.get(k, "")[:70] for k in ("source", "sequence_number", "data", "topic")}))
            ctx.ob("sign", "published signature is the signature just made", re.match(r"^std::option::Option::Some\{0: libp2p_identity::Keypair::sign\(.*\)@Ok\.0\}$", f.get("signature", "")) is not None, s.loc(), f.get("signature", "")[:100])
        nseq = b.call_sites(r"behaviour::SequenceNumber::next$")
        ctx.ob("sign", "one sequence number per message (signed == published)", len(nseq) == 1, bw, "%d SequenceNumber::next calls" % len(nseq))
    finally:
        mir.RENDER_MAX[0] = 14
    ctx.ob("sign", "sign and verify use the same prefix constant", len(vconst) == 1 and vconst == sconst, msg="verify: %s sign: %s" % (sorted(vconst), sorted(sconst)))
    for p in sorted(vconst):
        pre = prog.const(G, "^" + re.escape(p) + "$")
        ctx.ob("sign", "the signing prefix is b\"libp2p-pubsub:\"", pre.get("s") == "libp2p-pubsub:", msg=str(pre)[:160])
