"""C12 listen / external address views equal the fold of their events — path counting (K2), guards (K1), changed-flag discipline (K13)."""
import re

from .. import lib, mir
from .. import lib_sw as S
from ..mir import render

EXPLANATION = ("Swarm::handle_transport_event per arm: NewAddress pushes into this listener's entry only when absent from it and emits one "
               "FromSwarm::NewListenAddr + one SwarmEvent::NewListenAddr; AddressExpired retains != addr and emits both events; "
               "ListenerClosed removes the listener's entry, emits ExpiredListenAddr per removed address and SwarmEvent::ListenerClosed "
               "carrying exactly the removed vector; add/remove_external_address update the set and notify once. Helpers: the value "
               "returned by {External,Listen,Peer}Addresses::on_swarm_event and by PeerAddresses::add/remove is built only from "
               "constants `false`, reports of mutator calls with the right polarity (insert(..).is_none(), remove(..).is_some(), "
               "HashSet::insert/remove), or a constant `true` dominated by a definite mutation; a flag written inside a loop "
               "accumulates (`|=`); no mutator's bool result is discarded; ExternalAddresses evicts when len > MAX directly after its "
               "single insert.  Parameters, locals and private fields are identified by position / type / role.")
ASSUMPTIONS = ["LRU recency order of hashlink::LruCache", "Vec/HashSet semantics"]
SW = "libp2p_swarm"
FS = r"behaviour::FromSwarm$"
SE = r"^libp2p_swarm::SwarmEvent$"


def beh(b, variant):
    return lib.calls_with_variant(b, r"NetworkBehaviour::on_swarm_event$", FS, variant)


def swe(b, variant, ev_q):
    out = []
    for s in b.call_sites(r"VecDeque::push_back$"):
        e = b.site_expr(s)
        if S.has_field(e[2][0], ev_q) and variant in lib.agg_variants(e[2][1], SE):
            out.append(s)
    return out


# ------------------------------------------------------------------------------- changed-flag discipline
MUT_BOOL = r"(HashSet::(insert|remove)|BTreeSet::(insert|remove))$"
INS = r"(LruCache|HashMap|BTreeMap)::insert$"
REM = r"(LruCache|HashMap|BTreeMap|VecDeque|Vec)::remove$|HashSet::take$"
DEFINITE = [r"(Vec::remove|Vec::insert)$"]      # + crate-local helpers that front-insert (resolved by what they do, see check())


def _report(leaf, trusted):
    """classification of one leaf of a returned `changed` value: 'ok' / reason it is not acceptable"""
    if leaf[0] != "call":
        return "not the report of a mutation: %s" % render(leaf)[:100]
    name = mir.strip_generics(leaf[1])
    if re.search(MUT_BOOL, name):
        return "ok"
    if any(name == t for t in trusted):
        return "ok"
    if re.search(r"Option::is_none$", name) and leaf[2] and leaf[2][0][0] == "call":
        inner = mir.strip_generics(leaf[2][0][1])
        if re.search(INS, inner):
            return "ok"
        if re.search(REM, inner):
            return "inverted: `remove(..).is_none()` is true exactly when nothing was removed"
    if re.search(r"Option::is_some$", name) and leaf[2] and leaf[2][0][0] == "call":
        inner = mir.strip_generics(leaf[2][0][1])
        if re.search(REM, inner):
            return "ok"
        if re.search(INS, inner):
            return "inverted: `insert(..).is_some()` is true exactly when the key was already present"
    return "not the report of a mutation: %s" % render(leaf)[:100]


def _definite_blocks(b):
    """blocks after which the container has definitely changed: positional Vec mutations, and an insert of a key into a map on
    the edge where a lookup of that very key in that very map found nothing"""
    out = set(lib.bbs(b.call_sites("|".join(DEFINITE))))
    for s in b.call_sites(INS):
        e = b.site_expr(s)
        if len(e[2]) < 2:
            continue
        recv, key = render(e[2][0]), render(e[2][1])
        miss = S.edges_of(b, lambda c, r: c[0] == "discr" and S.is_call(c[1], r"(LruCache|HashMap|BTreeMap)::(get_mut|get|peek|peek_mut)$") and
                          len(c[1][2]) >= 2 and render(c[1][2][0]) == recv and render(c[1][2][1]) == key, {"None"})
        if miss and b.must_pass_edges(s.bb, miss):
            out.add(s.bb)
    return out


def flag_discipline(ctx, b, ty, trusted):
    definite = _definite_blocks(b)
    loops = {bi for bi in b.live if bi in b.reachable(b.succ[bi])}
    seen_locals = set()
    for site in S.ret_sites(b):
        e = b.site_expr(site)
        for leaf in lib.value_leaves(b, e):
            r = render(leaf)
            if leaf[0] == "const" and leaf[1] == 0:
                continue
            if leaf[0] == "const" and leaf[1] == 1:
                # where is this `true` written?  (the return place itself, or a flag local)
                wsites = [site] if e[0] == "const" else [s for l in S.locals_in(e) for s, x in S.defs_exprs(b, l) if x[0] == "const" and x[1] == 1]
                for w in wsites:
                    ok = bool(definite) and w.bb not in b.reachable([0], blocked_nodes=definite)
                    ctx.ob("changed-flag", "%s: constant `true` only after a definite mutation" % ty, ok, w.loc(),
                           "`true` is returned on a path without a definite mutation (positional Vec change / insert of an absent key)" if not ok else "`true` dominated by a definite mutation")
                continue
            why = _report(leaf, trusted)
            ctx.ob("changed-flag", "%s: result derives from a mutator's report" % ty, why == "ok", site.loc(), "return value leaf: %s%s" % (r[:120], "" if why == "ok" else " — " + why))
        # a flag that is (re)written inside a loop must accumulate
        for l in S.locals_in(e):
            if l in seen_locals:
                continue
            seen_locals.add(l)
            still_false = S.truth_edges(b, lambda c, r_, l=l: c[0] == "local" and c[1] == l, False)

            def keeps(x, at, depth=0, l=l):
                """with the flag already true, the value x (assigned at block `at`) is true again"""
                if (x[0] == "local" and x[1] == l) or (x[0] == "const" and x[1] == 1):
                    return True
                if still_false and b.must_pass_edges(at, still_false):
                    return True         # only evaluated while the flag is still false
                if x[0] == "bin" and x[1] == "BitOr":
                    return keeps(x[2], at, depth + 1) or keeps(x[3], at, depth + 1)
                if x[0] == "call" and re.search(r"BitOr(Assign)?>?::bitor(_assign)?$", mir.strip_generics(x[1])):
                    return any(keeps(y, at, depth + 1) for y in x[2])
                if x[0] == "local" and depth < 4:
                    ds = S.defs_exprs(b, x[1])
                    return bool(ds) and all(keeps(y, w2.bb, depth + 1) for w2, y in ds)
                return False
            for w, x in S.defs_exprs(b, l):
                if w.bb not in loops:
                    continue
                acc = keeps(x, w.bb)
                ctx.ob("changed-flag", "%s: flag written in a loop accumulates" % ty, acc, w.loc(),
                       "`changed` is %s inside the loop: %s" % ("accumulated" if acc else "overwritten", render(x)[:120]))
    # discarded mutator results
    for s in b.call_sites(MUT_BOOL + "|" + INS + "|" + REM + ("|" + "|".join(re.escape(t) + "$" for t in trusted) if trusted else "")):
        name = mir.strip_generics(b.call_name(s.term))
        if not (re.search(MUT_BOOL, name) or name in trusted):
            continue
        dl = s.term["d"]
        if "pr" in dl:
            continue
        used = lib.local_uses(b, dl["l"]) > 0 or dl["l"] == 0
        ctx.ob("changed-flag", "%s: mutator result not discarded" % ty, used, s.loc(), "%s result is %s" % (name.split("::")[-1], "used" if used else "discarded"))


def check(ctx):
    prog = ctx.prog
    F_LISTEN = S.role(prog, "swarm.listened")
    F_EXT = S.role(prog, "swarm.external")
    EV_Q = S.role(prog, "swarm.events")
    t = S.nbody(ctx, r"^libp2p_swarm::Swarm::handle_transport_event$")
    rets = t.return_blocks()
    i_ev = S.param_of_type(t, r"TransportEvent<")
    EV = "p%d" % i_ev
    listen_map = "self." + F_LISTEN

    def arm(name):
        ents = lib.arm_entry(t, r"^discr\(%s\)$" % EV, name)
        ctx.ob("arm", "floor:arm " + name, len(ents) == 1, nontrivial=False, msg=str(ents))
        return [ents[0][1]] if ents else []
    # NewAddress
    a = arm("NewAddress")
    push = [s for s in t.call_sites(r"(Vec|SmallVec)::push$") if S.has_field(t.site_expr(s)[2][0], F_LISTEN)]
    ctx.floor("arm", "listened_addrs push", push, 1)
    for s in push:
        e = t.site_expr(s)
        recv = render(e[2][0])

        def absent(c, r, l, recv=recv):
            c, l = S.unnot(c, l)
            if l != "false" or c[0] != "call" or not re.search(r"::contains$", mir.strip_generics(c[1])) or len(c[2]) < 2:
                return False
            v = c[2][0]
            while v[0] == "call" and re.search(r"Deref>::deref$|as_slice$", mir.strip_generics(v[1])):
                v = v[2][0]
            return render(v) == recv and render(c[2][1]).endswith("@NewAddress.listen_addr")
        ctx.guarded("arm", "NewAddress: push only when absent", s, absent, "!addrs.contains(&listen_addr) on this listener's own entry")
        ok = ("HashMap::entry(%s, %s@NewAddress.listener_id)" % (listen_map, EV)) in render(e) and "@NewAddress.listen_addr" in render(e[2][1])
        ctx.ob("arm", "NewAddress: pushes into this listener's entry", ok, s.loc(), render(e)[:200])
    if a:
        for k, v, want in (("FromSwarm::NewListenAddr", beh(t, "NewListenAddr"), (1, 1)), ("SwarmEvent::NewListenAddr", swe(t, "NewListenAddr", EV_Q), (1, 1)),
                           ("listened_addrs.push", push, (0, 1))):
            lib.expect_count(ctx, "arm", "NewAddress/" + k, t, a, rets, lib.bbs(v), want, "NewAddress arm: " + k)
    # AddressExpired
    a = arm("AddressExpired")
    ret = [s for s in t.call_sites(r"(Vec|SmallVec)::retain$") if S.has_field(t.site_expr(s)[2][0], F_LISTEN)]
    ctx.floor("arm", "listened_addrs retain", ret, 1)
    if a:
        for k, v, want in (("FromSwarm::ExpiredListenAddr", [s for s in beh(t, "ExpiredListenAddr") if s.bb in t.reachable(a)], (1, 1)),
                           ("SwarmEvent::ExpiredListenAddr", swe(t, "ExpiredListenAddr", EV_Q), (1, 1)), ("addrs.retain", ret, (0, 1))):
            lib.expect_count(ctx, "arm", "AddressExpired/" + k, t, a, rets, lib.bbs(v), want, "AddressExpired arm: " + k)
    lookup = "HashMap::get_mut(%s, %s@AddressExpired.listener_id)" % (listen_map, EV)
    for s in ret:
        ctx.guarded("arm", "AddressExpired: retain on this listener's entry", s, lambda c, r, l: l == "Some" and lookup in r,
                    "listened_addrs.get_mut(listener_id) is Some")
        ctx.ob("arm", "AddressExpired: the vector filtered is this listener's entry", lookup in render(t.site_expr(s)[2][0]), s.loc(), render(t.site_expr(s)[2][0])[:160])
        # whenever the listener is known the address is dropped
        some = S.edges_of(t, lambda c, r: lookup in r and c[0] == "discr", {"Some"})
        got = lib.count_range(t, [x for _, x in some], rets, [s.bb])
        ctx.ob("arm", "AddressExpired: known listener => address dropped", got == (1, 1), s.loc(), "retain on the Some edge: %s" % (got,))
        cl = S.closure_at(prog, t, s)
        _, caps = S.closure_captures(t, t.site_expr(s))
        r0 = S.ret_exprs(cl)
        ok = len(r0) == 1 and S.is_call(r0[0], r"::ne$") and len(caps) == 1 and render(caps[0]).endswith("@AddressExpired.listen_addr") and \
            sorted(re.sub(r"\^\*?u0", "U", render(x)) for x in r0[0][2]) == ["U", "p2"]
        ctx.ob("arm", "AddressExpired: retain keeps a != expired", ok, "%s:%d" % (cl.file, cl.line), str([render(x) for x in r0])[:160])
    # ListenerClosed
    a = arm("ListenerClosed")
    rem = [s for s in t.call_sites(r"HashMap::remove$") if render(t.site_expr(s)).startswith("std::collections::HashMap::remove(%s, %s@ListenerClosed.listener_id)" % (listen_map, EV))]
    ctx.floor("arm", "listened_addrs.remove(listener)", rem, 1)
    if a and rem:
        lib.expect_count(ctx, "arm", "ListenerClosed/listened_addrs.remove", t, a, rets, lib.bbs(rem), (1, 1), "ListenerClosed arm removes the listener entry")
        lib.expect_count(ctx, "arm", "ListenerClosed/FromSwarm::ListenerClosed", t, a, rets, lib.bbs(beh(t, "ListenerClosed")), (1, 1), "one FromSwarm::ListenerClosed")
        lib.expect_count(ctx, "arm", "ListenerClosed/SwarmEvent::ListenerClosed", t, a, rets, lib.bbs(swe(t, "ListenerClosed", EV_Q)), (1, 1), "one SwarmEvent::ListenerClosed")
        exp = [s for s in beh(t, "ExpiredListenAddr") if s.bb in t.reachable(a)]
        ctx.floor("arm", "ListenerClosed ExpiredListenAddr", exp, 1)

        def from_removed(e):
            """e (following local definitions) derives from the vector removed from listened_addrs"""
            return any(x[0] == "call" and x[3] == rem[0].bb for x in S.deep_walk(t, e))
        nx = [s for s in t.call_sites(r"Iterator>::next$|Iterator::next$") if s.bb in t.reachable(a)]
        nx_removed = [n for n in nx if from_removed(t.site_expr(n))]
        ctx.ob("arm", "ListenerClosed: iterates the removed vector", len(nx_removed) >= 1, msg="loops over the removed addresses: %d" % len(nx_removed))
        for n in nx_removed:
            some = [x for _, x in lib.switch_edges_on_site(t, n, {"Some"})]
            got = lib.count_range(t, some, [n.bb], lib.bbs(exp))
            ctx.ob("arm", "ListenerClosed: one ExpiredListenAddr per removed address", got == (1, 1), n.loc(), "per element: %s" % (got,))
        for s in exp:
            e = t.site_expr(s)
            ok = any(S.call_at(e, n.bb) is not None for n in nx_removed) and re.search(r"Iterator>::next\([^()]*\)@Some\.0\}", render(e)) is not None
            ctx.ob("arm", "ListenerClosed: expired address is an element of the removed vector", ok, s.loc(), render(e)[-160:])
        for s in swe(t, "ListenerClosed", EV_Q):
            e = t.site_expr(s)
            addrs = None
            for x in mir.walk(e):
                if x[0] == "agg" and x[3] == "ListenerClosed" and re.search(SE, mir.strip_generics(x[2])):
                    addrs = dict(x[4]).get("addresses")
            ok = addrs is not None and S.call_at(addrs, rem[0].bb) is not None and re.match(r"^(std::slice::to_vec|core::slice::<impl \[T\]>::to_vec|slice::to_vec|smallvec::SmallVec::(to_vec|into_vec)|<.* as std::clone::Clone>::clone|std::iter::Iterator::collect)\(", render(addrs)) is not None
            ctx.ob("arm", "SwarmEvent::ListenerClosed.addresses = removed vector", ok, s.loc(), render(addrs)[-220:] if addrs is not None else "no addresses field")
        src = render(t.site_expr(rem[0]))
        users = []
        for cs in t.call_sites():
            ce = t.site_expr(cs)
            if cs.bb != rem[0].bb and ce[2] and ce[2][0][0] == "call" and ce[2][0][3] == rem[0].bb:
                users.append(render(ce))
        ctx.ob("arm", "ListenerClosed: addrs = listened_addrs.remove(id).unwrap_or_default()",
               any(u.startswith("std::option::Option::unwrap_or_default(" + src) or u.startswith("std::option::Option::unwrap_or(" + src) for u in users), msg=str(users)[:300])
    # external addresses on the swarm
    for fn, variant, call in (("add_external_address", "ExternalAddrConfirmed", r"HashSet::insert$"), ("remove_external_address", "ExternalAddrExpired", r"HashSet::remove$")):
        b = S.nbody(ctx, r"^libp2p_swarm::Swarm::%s$" % fn)
        ev = beh(b, variant)
        up = [s for s in b.call_sites(call) if render(b.site_expr(s)[2][0]) == "self." + F_EXT]
        lib.expect_count(ctx, "external", fn + "/event", b, [0], b.return_blocks(), lib.bbs(ev), (1, 1), "one FromSwarm::" + variant)
        lib.expect_count(ctx, "external", fn + "/set update", b, [0], b.return_blocks(), lib.bbs(up), (1, 1), "confirmed_external_addr updated once")
    for fn, fld in (("listeners", F_LISTEN), ("external_addresses", F_EXT)):
        b = S.nbody(ctx, r"^libp2p_swarm::Swarm::%s$" % fn)
        txt = " ".join(render(b.site_expr(s)) for s in b.call_sites())
        ctx.ob("external", "Swarm::%s reads %s" % (fn, "listened_addrs" if fld == F_LISTEN else "confirmed_external_addr"), "self." + fld in txt, "%s:%d" % (b.file, b.line), txt[:160])
    who = set()
    for fld, what in ((F_LISTEN, "Swarm.listened_addrs"), (F_EXT, "Swarm.confirmed_external_addr")):
        for b, s, k, c in S.field_uses(prog, SW, fld, r"^libp2p_swarm::Swarm$"):
            if k in ("mutate", "inner-mut", "capture-mut", "write"):
                who.add(b.npath)
    ctx.ob("who", "writers of listened_addrs / confirmed_external_addr", who <= {"libp2p_swarm::Swarm::handle_transport_event", "libp2p_swarm::Swarm::add_external_address",
           "libp2p_swarm::Swarm::remove_external_address"} and len(who) == 3, msg=str(sorted(who)))
    # ---- helpers: changed-flag discipline
    F_ADDRS = S.field_by_type(prog, r"external_addresses::ExternalAddresses$", r"^std::vec::Vec<libp2p_core::Multiaddr>$")
    front = [b for b in prog.bodies(SW) if re.search(r"external_addresses::ExternalAddresses::\w+$", b.npath) and
             any(render(b.site_expr(s)[2][0]) == "self." + F_ADDRS for s in b.call_sites(r"Vec::insert$")) and not b.npath.endswith("::on_swarm_event")]
    PF = "|".join(re.escape(b.npath) + "$" for b in front) or r"^\b$"
    if len(DEFINITE) == 1:
        DEFINITE.append(PF)
    else:
        DEFINITE[1] = PF
    PA = "libp2p_swarm::behaviour::peer_addresses::PeerAddresses::"
    for mod, ty, trusted in (("external_addresses", "ExternalAddresses", []), ("listen_addresses", "ListenAddresses", []),
                             ("peer_addresses", "PeerAddresses", [PA + "add", PA + "remove"])):
        b = S.nbody(ctx, r"behaviour::%s::%s::on_swarm_event$" % (mod, ty))
        flag_discipline(ctx, b, ty, trusted)
    # the mutators whose report PeerAddresses::on_swarm_event forwards obey the same discipline
    for fn in ("add", "remove"):
        b = S.nbody(ctx, r"behaviour::peer_addresses::PeerAddresses::%s$" % fn)
        flag_discipline(ctx, b, "PeerAddresses::" + fn, [])
    # ExternalAddresses capacity
    ea = S.nbody(ctx, r"behaviour::external_addresses::ExternalAddresses::on_swarm_event$")
    mx = prog.const(SW, r"external_addresses::MAX_LOCAL_EXTERNAL_ADDRS$")

    def over_cap(c, r, l):
        """edge on which len(self.addresses) > MAX holds (any mirrored / negated spelling)"""
        c, l = S.unnot(c, l)
        if c[0] != "bin" or c[1] not in ("Gt", "Lt", "Le", "Ge"):
            return False
        def is_len(x):
            return S.is_call(x, r"Vec::len$") and render(x[2][0]) == "self." + F_ADDRS
        def is_max(x):
            return (x[0] == "namedconst" and x[1].endswith("MAX_LOCAL_EXTERNAL_ADDRS")) or (x[0] == "const" and x[1] == mx.get("v"))
        op = c[1]
        if is_len(c[2]) and is_max(c[3]):
            pass
        elif is_len(c[3]) and is_max(c[2]):
            op = {"Gt": "Lt", "Lt": "Gt", "Le": "Ge", "Ge": "Le"}[op]
        else:
            return False
        return (op, l) in (("Gt", "true"), ("Le", "false"))
    pops = ea.call_sites(r"Vec::pop$")
    ctx.floor("capacity", "ExternalAddresses pop", pops, 1)
    for s in pops:
        ctx.guarded("capacity", "evict only when over capacity", s, over_cap, "len > MAX_LOCAL_EXTERNAL_ADDRS")
    over = ea.guard_edges(over_cap)
    got = lib.count_range(ea, [x for _, x in over], ea.return_blocks(), lib.bbs(pops))
    ctx.ob("capacity", "over capacity => exactly one eviction", got == (1, 1), msg="pop on the over-capacity edge: %s" % (got,))
    pf = ea.call_sites(PF)
    tests = sorted({bi for bi, _ in over})
    new_push = [s for s in pf if s.bb not in ea.reachable(lib.bbs(ea.call_sites(r"Vec::remove$")))]
    ctx.ob("capacity", "capacity test follows the insert of a new address", len(new_push) == 1 and len(tests) == 1 and
           ea.must_pass_nodes(ea.succ[new_push[0].bb], ea.return_blocks(), tests), new_push[0].loc() if new_push else "", "every path after inserting a new address tests len > MAX")
    # most-recent-first order: `addresses` is only ever mutated by front insertion, positional removal and pop
    allowed = {"std::vec::Vec::insert", "std::vec::Vec::remove", "std::vec::Vec::pop"}
    muts = []
    for b, s, k, c in S.field_uses(prog, SW, F_ADDRS, r"external_addresses::ExternalAddresses$"):
        if k in ("mutate", "inner-mut", "capture-mut", "write"):
            muts.append((b, s, c))
    ctx.floor("order", "mutations of ExternalAddresses.addresses", muts, 4)
    for b, s, name in muts:
        ctx.ob("order", "addresses mutated only by front-insert / remove / pop", name in allowed, s.loc(), "&mut self.addresses passed to %s" % name)
        if name == "std::vec::Vec::insert":
            e = b.site_expr(s)
            ctx.ob("order", "insertion is at the front", e[2][1][0] == "const" and e[2][1][1] == 0, s.loc(), "Vec::insert index = %s" % render(e[2][1]))
    # refresh of a known address: removed at its position and re-inserted at the front, exactly once each
    pos_some = lib.switch_edges_on(ea, r"^discr\(<std::slice::Iter as std::iter::Iterator>::position\(", {"Some"})
    i_eev = S.param_of_type(ea, r"FromSwarm<")
    conf = [(b_, t_) for (b_, t_) in pos_some if t_ in ea.reachable([x for _, x in lib.arm_entry(ea, r"^discr\(p%d\)$" % i_eev, "ExternalAddrConfirmed")])]
    ctx.ob("order", "floor:refresh edge", len(conf) >= 1, nontrivial=False, msg=str(conf))
    rm = lib.bbs(ea.call_sites(r"Vec::remove$"))
    for _, t_ in conf[:1]:
        got_r = lib.count_range(ea, [t_], ea.return_blocks(), rm)
        got_p = lib.count_range(ea, [t_], ea.return_blocks(), lib.bbs(pf))
        ctx.ob("order", "refresh = remove(pos) + push_front", got_r == (1, 1) and got_p == (1, 1), msg="on the known-address edge: remove %s, push_front %s" % (got_r, got_p))
    ctx.ob("capacity", "MAX_LOCAL_EXTERNAL_ADDRS evaluated", isinstance(mx.get("v"), int) and mx["v"] > 0, msg="MAX_LOCAL_EXTERNAL_ADDRS = %s" % mx.get("v"))
