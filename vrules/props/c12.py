"""C12 listen / external address views equal the fold of their events — path counting (K2), guards (K1), changed-flag discipline (K13)."""
import re

from .. import lib, mir
from ..mir import render

EXPLANATION = ("Swarm::handle_transport_event per arm: NewAddress pushes only when absent and emits one FromSwarm::NewListenAddr + one "
               "SwarmEvent::NewListenAddr; AddressExpired retains != addr and emits both events; ListenerClosed removes the listener's "
               "entry, emits ExpiredListenAddr per removed address and SwarmEvent::ListenerClosed carrying exactly the removed vector; "
               "add/remove_external_address update the set and notify once. Helpers: the value returned by "
               "{External,Listen,Peer}Addresses::on_swarm_event is built only from constants `false`, results of mutator calls, or a "
               "constant `true` dominated by a definite mutation; no mutator's bool result is discarded; ExternalAddresses evicts when "
               "len > MAX directly after its single insert.")
ASSUMPTIONS = ["LRU recency order of hashlink::LruCache", "Vec/HashSet semantics"]
SW = "libp2p_swarm"
FS = r"behaviour::FromSwarm$"
SE = r"^libp2p_swarm::SwarmEvent$"


def beh(b, variant):
    return lib.calls_with_variant(b, r"NetworkBehaviour::on_swarm_event$", FS, variant)


def swe(b, variant):
    out = []
    for s in b.call_sites(r"VecDeque::push_back$"):
        e = b.site_expr(s)
        if "pending_swarm_events" in render(e[2][0]) and variant in lib.agg_variants(e[2][1], SE):
            out.append(s)
    return out


def check(ctx):
    prog = ctx.prog
    t = ctx.body(SW, r"^libp2p_swarm::Swarm::handle_transport_event$")
    rets = t.return_blocks()

    def arm(name):
        ents = lib.arm_entry(t, r"^discr\(event\)$", name)
        ctx.ob("arm", "floor:arm " + name, len(ents) == 1, nontrivial=False, msg=str(ents))
        return [ents[0][1]] if ents else []
    # NewAddress
    a = arm("NewAddress")
    push = [s for s in t.call_sites(r"Vec::push$") if "listened_addrs" in render(t.site_expr(s))]
    ctx.floor("arm", "listened_addrs push", push, 1)
    for s in push:
        ctx.guarded("arm", "NewAddress: push only when absent", s, lambda c, r, l: l == "false" and "contains(" in r and "listened_addrs" in r, "!addrs.contains(&listen_addr)")
        e = render(t.site_expr(s))
        ctx.ob("arm", "NewAddress: pushes into this listener's entry", "HashMap::entry(self.listened_addrs, event@NewAddress.listener_id)" in e and "@NewAddress.listen_addr" in e, s.loc(), e[:200])
    if a:
        for k, v, want in (("FromSwarm::NewListenAddr", beh(t, "NewListenAddr"), (1, 1)), ("SwarmEvent::NewListenAddr", swe(t, "NewListenAddr"), (1, 1)),
                           ("listened_addrs.push", push, (0, 1))):
            lib.expect_count(ctx, "arm", "NewAddress/" + k, t, a, rets, lib.bbs(v), want, "NewAddress arm: " + k)
    # AddressExpired
    a = arm("AddressExpired")
    ret = [s for s in t.call_sites(r"Vec::retain$") if "listened_addrs" in render(t.site_expr(s))]
    ctx.floor("arm", "listened_addrs retain", ret, 1)
    if a:
        for k, v, want in (("FromSwarm::ExpiredListenAddr", [s for s in beh(t, "ExpiredListenAddr") if s.bb in t.reachable(a)], (1, 1)),
                           ("SwarmEvent::ExpiredListenAddr", swe(t, "ExpiredListenAddr"), (1, 1)), ("addrs.retain", ret, (0, 1))):
            lib.expect_count(ctx, "arm", "AddressExpired/" + k, t, a, rets, lib.bbs(v), want, "AddressExpired arm: " + k)
    for s in ret:
        ctx.guarded("arm", "AddressExpired: retain on this listener's entry", s, lambda c, r, l: l == "Some" and "HashMap::get_mut(self.listened_addrs, event@AddressExpired.listener_id)" in r,
                    "listened_addrs.get_mut(listener_id) is Some")
        # whenever the listener is known the address is dropped
        some = lib.switch_edges_on(t, r"HashMap::get_mut\(self\.listened_addrs, event@AddressExpired\.listener_id\)", {"Some"})
        got = lib.count_range(t, [x for _, x in some], rets, [s.bb])
        ctx.ob("arm", "AddressExpired: known listener => address dropped", got == (1, 1), s.loc(), "retain on the Some edge: %s" % (got,))
        cl = lib.closure_of(prog, t, t.site_expr(s))
        r0 = [render(cl.site_expr(mir.Site(cl, x[1], x[2]))) for x in cl.defs[0]] if cl else []
        ctx.ob("arm", "AddressExpired: retain keeps a != expired", len(r0) == 1 and r0[0].startswith("std::cmp::PartialEq::ne(a, ") or (len(r0) == 1 and "::ne(" in r0[0]), cl and "%s:%d" % (cl.file, cl.line) or "", str(r0)[:160])
    # ListenerClosed
    a = arm("ListenerClosed")
    rem = [s for s in t.call_sites(r"HashMap::remove$") if render(t.site_expr(s)).startswith("std::collections::HashMap::remove(self.listened_addrs, event@ListenerClosed.listener_id)")]
    ctx.floor("arm", "listened_addrs.remove(listener)", rem, 1)
    if a:
        lib.expect_count(ctx, "arm", "ListenerClosed/listened_addrs.remove", t, a, rets, lib.bbs(rem), (1, 1), "ListenerClosed arm removes the listener entry")
        lib.expect_count(ctx, "arm", "ListenerClosed/FromSwarm::ListenerClosed", t, a, rets, lib.bbs(beh(t, "ListenerClosed")), (1, 1), "one FromSwarm::ListenerClosed")
        lib.expect_count(ctx, "arm", "ListenerClosed/SwarmEvent::ListenerClosed", t, a, rets, lib.bbs(swe(t, "ListenerClosed")), (1, 1), "one SwarmEvent::ListenerClosed")
        exp = [s for s in beh(t, "ExpiredListenAddr") if s.bb in t.reachable(a)]
        ctx.floor("arm", "ListenerClosed ExpiredListenAddr", exp, 1)
        nx = [s for s in t.call_sites(r"slice::Iter as std::iter::Iterator>::next$") if s.bb in t.reachable(a)]
        for n in nx:
            some = [x for _, x in lib.switch_edges_on_site(t, n, {"Some"})]
            got = lib.count_range(t, some, [n.bb], lib.bbs(exp))
            ctx.ob("arm", "ListenerClosed: one ExpiredListenAddr per removed address", got == (1, 1), n.loc(), "per element: %s" % (got,))
        for s in exp:
            e = render(t.site_expr(s))
            ctx.ob("arm", "ListenerClosed: expired address is an element of the removed vector", "Iterator>::next(iter)@Some.0" in e, s.loc(), e[-160:])
        l = [k for k, v in t.names.items() if v == "iter"]
        its = [render(t.init_expr(x)) for x in l]
        ctx.ob("arm", "ListenerClosed: iterates the removed vector", any("iter(" in x and "addrs" in x for x in its), msg=str(its)[:200])
        for s in swe(t, "ListenerClosed"):
            e = render(t.site_expr(s))
            ctx.ob("arm", "SwarmEvent::ListenerClosed.addresses = removed vector", re.search(r"addresses: (core::slice::<impl \[T\]>::|slice::)?to_vec\(.*addrs", e) is not None or "addresses: std::slice::to_vec(" in e and "addrs" in e, s.loc(), e[-220:])
        la = lib.local_by_name(t, "addrs") if [k for k, v in t.names.items() if v == "addrs"].__len__() == 1 else None
    adr = [k for k, v in t.names.items() if v == "addrs"]
    inits = [render(t.init_expr(k)) for k in adr]
    ctx.ob("arm", "ListenerClosed: addrs = listened_addrs.remove(id).unwrap_or_default()",
           any(x.startswith("std::option::Option::unwrap_or_default(std::collections::HashMap::remove(self.listened_addrs, event@ListenerClosed.listener_id))") for x in inits), msg=str(inits)[:300])
    # external addresses on the swarm
    for fn, variant, call in (("add_external_address", "ExternalAddrConfirmed", r"HashSet::insert$"), ("remove_external_address", "ExternalAddrExpired", r"HashSet::remove$")):
        b = ctx.body(SW, r"^libp2p_swarm::Swarm::%s$" % fn)
        ev = beh(b, variant)
        up = [s for s in b.call_sites(call) if "self.confirmed_external_addr" in render(b.site_expr(s))]
        lib.expect_count(ctx, "external", fn + "/event", b, [0], b.return_blocks(), lib.bbs(ev), (1, 1), "one FromSwarm::" + variant)
        lib.expect_count(ctx, "external", fn + "/set update", b, [0], b.return_blocks(), lib.bbs(up), (1, 1), "confirmed_external_addr updated once")
    for fn, fld in (("listeners", "listened_addrs"), ("external_addresses", "confirmed_external_addr")):
        b = ctx.body(SW, r"^libp2p_swarm::Swarm::%s$" % fn)
        txt = " ".join(render(b.site_expr(s)) for s in b.call_sites())
        ctx.ob("external", "Swarm::%s reads %s" % (fn, fld), "self." + fld in txt, "%s:%d" % (b.file, b.line), txt[:160])
    who = set()
    for b in prog.bodies(SW):
        for s in b.call_sites(r"(HashMap|HashSet|Vec)::(insert|remove|push|retain|clear|entry)$"):
            r = render(b.site_expr(s)[2][0])
            if "self.listened_addrs" in r or "self.confirmed_external_addr" in r:
                who.add(b.npath)
    ctx.ob("who", "writers of listened_addrs / confirmed_external_addr", who <= {"libp2p_swarm::Swarm::handle_transport_event", "libp2p_swarm::Swarm::add_external_address",
           "libp2p_swarm::Swarm::remove_external_address"} and len(who) == 3, msg=str(sorted(who)))
    # ---- helpers: changed-flag discipline
    MUT = r"(HashSet::(insert|remove)|PeerAddresses::(add|remove)|LruCache::(insert|remove))$"
    DEFINITE = r"(Vec::remove|ExternalAddresses::push_front|Vec::insert)$"
    for mod, ty in (("external_addresses", "ExternalAddresses"), ("listen_addresses", "ListenAddresses"), ("peer_addresses", "PeerAddresses")):
        b = ctx.body(SW, r"behaviour::%s::%s::on_swarm_event$" % (mod, ty))
        definite = lib.bbs(b.call_sites(DEFINITE))
        n_true = 0
        for d in b.defs[0]:
            site = mir.Site(b, d[1], d[2])
            e = b.site_expr(site)
            for leaf in lib.value_leaves(b, e):
                r = render(leaf)
                if leaf[0] == "const" and leaf[1] == 0:
                    continue
                if leaf[0] == "const" and leaf[1] == 1:
                    n_true += 1
                    ok = bool(definite) and site.bb not in b.reachable([0], blocked_nodes=definite)
                    ctx.ob("changed-flag", "%s: constant `true` only after a definite mutation" % ty, ok, site.loc(),
                           "`true` is returned on a path without Vec::remove/insert/push_front" if not ok else "`true` dominated by a definite mutation")
                    continue
                ok = leaf[0] == "call" and re.search(MUT, mir.strip_generics(leaf[1])) is not None
                ctx.ob("changed-flag", "%s: result derives from a mutator's report" % ty, ok, site.loc(), "return value leaf: %s" % r[:120])
        # discarded mutator results
        for s in b.call_sites(MUT):
            dl = s.term["d"]
            if "pr" in dl:
                continue
            used = lib.local_uses(b, dl["l"]) > 0 or dl["l"] == 0
            ctx.ob("changed-flag", "%s: mutator result not discarded" % ty, used, s.loc(), "%s result is %s" % (mir.strip_generics(b.call_name(s.term)).split("::")[-1], "used" if used else "discarded"))
    # ExternalAddresses capacity
    ea = ctx.body(SW, r"behaviour::external_addresses::ExternalAddresses::on_swarm_event$")
    pops = ea.call_sites(r"Vec::pop$")
    ctx.floor("capacity", "ExternalAddresses pop", pops, 1)
    for s in pops:
        ctx.guarded("capacity", "evict only when over capacity", s, lambda c, r, l: l == "true" and r == "Gt(std::vec::Vec::len(self.addresses), const:libp2p_swarm::behaviour::external_addresses::MAX_LOCAL_EXTERNAL_ADDRS)",
                    "len > MAX_LOCAL_EXTERNAL_ADDRS")
    over = lib.switch_edges_on(ea, r"^Gt\(std::vec::Vec::len\(self\.addresses\), const:.*MAX_LOCAL_EXTERNAL_ADDRS\)$", {"true"})
    got = lib.count_range(ea, [x for _, x in over], ea.return_blocks(), lib.bbs(pops))
    ctx.ob("capacity", "over capacity => exactly one eviction", got == (1, 1), msg="pop on the over-capacity edge: %s" % (got,))
    pf = ea.call_sites(r"ExternalAddresses::push_front$")
    tests = [bi for bi in ea.live if ea.switch_info(bi) and render(ea.switch_info(bi)[0]).startswith("Gt(std::vec::Vec::len(self.addresses)")]
    new_push = [s for s in pf if s.bb not in ea.reachable(lib.bbs(ea.call_sites(r"Vec::remove$")))]
    ctx.ob("capacity", "capacity test follows the insert of a new address", len(new_push) == 1 and len(tests) == 1 and
           ea.must_pass_nodes(ea.succ[new_push[0].bb], ea.return_blocks(), tests), new_push[0].loc() if new_push else "", "every path after inserting a new address tests len > MAX")
    # most-recent-first order: `addresses` is only ever mutated by front insertion, positional removal and pop
    allowed = {"std::vec::Vec::insert", "std::vec::Vec::remove", "std::vec::Vec::pop"}
    muts = []
    for b in prog.bodies(SW):
        if "external_addresses::ExternalAddresses" in b.npath and b.kind != "closure":
            for s in lib.field_mut_calls(b, "addresses"):
                muts.append((b, s, mir.strip_generics(b.call_name(s.term))))
    ctx.floor("order", "mutations of ExternalAddresses.addresses", muts, 4)
    for b, s, name in muts:
        ctx.ob("order", "addresses mutated only by front-insert / remove / pop", name in allowed, s.loc(), "&mut self.addresses passed to %s" % name)
        if name == "std::vec::Vec::insert":
            e = b.site_expr(s)
            ctx.ob("order", "insertion is at the front", e[2][1][0] == "const" and e[2][1][1] == 0, s.loc(), "Vec::insert index = %s" % render(e[2][1]))
    # refresh of a known address: removed at its position and re-inserted at the front, exactly once each
    pos_some = lib.switch_edges_on(ea, r"^discr\(<std::slice::Iter as std::iter::Iterator>::position\(", {"Some"})
    conf = [(b_, t_) for (b_, t_) in pos_some if t_ in ea.reachable([x for _, x in lib.arm_entry(ea, r"^discr\(event\)$", "ExternalAddrConfirmed")])]
    ctx.ob("order", "floor:refresh edge", len(conf) >= 1, nontrivial=False, msg=str(conf))
    rm = lib.bbs(ea.call_sites(r"Vec::remove$"))
    for _, t_ in conf[:1]:
        got_r = lib.count_range(ea, [t_], ea.return_blocks(), rm)
        got_p = lib.count_range(ea, [t_], ea.return_blocks(), lib.bbs(pf))
        ctx.ob("order", "refresh = remove(pos) + push_front", got_r == (1, 1) and got_p == (1, 1), msg="on the known-address edge: remove %s, push_front %s" % (got_r, got_p))
    mx = prog.const(SW, r"external_addresses::MAX_LOCAL_EXTERNAL_ADDRS$")
    ctx.ob("capacity", "MAX_LOCAL_EXTERNAL_ADDRS evaluated", isinstance(mx.get("v"), int) and mx["v"] > 0, msg="MAX_LOCAL_EXTERNAL_ADDRS = %s" % mx.get("v"))
