"""C25 mplex framing round-trips and bounds hostile input — tag tables encode vs decode (K11), size limit before allocation (K1/K3/K6), decoder FSM (K8), panic inventory (K10)."""
import re

from .. import lib, lib_mux, mir
from ..mir import render

EXPLANATION = (
    "Codec::encode: the (Frame variant, role) -> header-tag table is extracted from the match (tag = constant OR-ed into `num << 3`, "
    "num and payload taken from the matched variant); Codec::decode: the `header & 7` switch -> (Frame variant, RemoteStreamId role) table, "
    "stream number = `header >> 3`, payload = the `len` bytes split off; the two tables compose to the identity on (variant, role) for the 7 "
    "tags and are a bijection, the mask equals 2^shift-1 with the same shift on both sides, every other tag value reaches only `Err`; "
    "RemoteStreamId::into_local keeps the number and flips the role. Size limit: MAX_FRAME_SIZE == 1 MiB; every *fresh* construction of the "
    "state HasHeaderAndLen(_, len) is dominated by the `len <= MAX_FRAME_SIZE` edge on the very value that is stored, and every "
    "BytesMut::reserve / split_to in decode takes its length from that state field (or is itself dominated by such an edge), so nothing is "
    "reserved, awaited or split for an oversize declaration; the encoder refuses with the same relation and constant, and writes header, "
    "length-of-the-payload, payload in that order only on the accepting edge. Decoder state machine: successor states per arm, the state "
    "restored (same variant, the arm's own fields) before every `Ok(None)`, reset to Begin before every `Ok(Some)`, Poisoned -> Err, no "
    "continue with the poison state. No-panic: the only panic-capable site reachable in decode is split_to(len), dominated by "
    "`src.len() >= len`; the `len - src.len()` subtraction is on the `src.len() < len` edge; shifts are by a constant < 64.")
ASSUMPTIONS = ["value round-trip inside unsigned-varint (Uvi::decode / encode::u64) is trusted",
               "all byte-split schedules are not executed: split-independence is claimed only through the state-restoration clauses",
               "`len as usize` is lossless (64-bit targets)"]
MP = "libp2p_mplex"

SELFTEST = [
    {"mutation": "seeded/C25: len > MAX_FRAME_SIZE check moved into HasHeaderAndLen after the need-more-bytes return",
     "caught_by": "size-limit/fresh HasHeaderAndLen state only for len <= MAX_FRAME_SIZE + size-limit/reserve bounded"},
    {"mutation": "decode: `len as usize > MAX_FRAME_SIZE` -> `>=`", "caught_by": "size-limit/encoder and decoder accept the same lengths"},
    {"mutation": "decode: swap tags 3 and 4 (Close listener/dialer)", "caught_by": "tags/decode(encode(Close, ...)) is the same frame"},
    {"mutation": "decode: None arm of HasHeader restores CodecDecodeState::Begin", "caught_by": "fsm/HasHeader: Ok(None) restores the same state"},
    {"mutation": "decode: HasHeaderAndLen Ok(None) path does not restore the state", "caught_by": "fsm/HasHeaderAndLen: state restored before every Ok(None)"},
    {"mutation": "decode: `if src.len() < len` -> `if src.len() + 1 < len`", "caught_by": "nopanic/split_to only when len bytes are buffered"},
    {"mutation": "decode: `self.decoder_state = Begin` before Ok(Some(out)) removed", "caught_by": "fsm/HasHeaderAndLen: decoder reset to Begin before every Ok(Some(frame))"},
    {"mutation": "decode: size check deleted", "caught_by": "size-limit/reserve bounded by MAX_FRAME_SIZE, split_to bounded, floor"},
    {"mutation": "(negative) size check moved to the top of the HasHeaderAndLen arm, before the need-more-bytes test", "caught_by": "silent, as it should be"},
    {"mutation": "encode: Reset/Dialer tag 6 -> 5", "caught_by": "tags/encoder tags are distinct"},
    {"mutation": "into_local: role: self.role (not flipped)", "caught_by": "tags/into_local mirrors the role"},
    {"mutation": "encode: length prefix written from header_bytes.len()", "caught_by": "encode/length prefix is the payload length"},
    {"mutation": "(neutral, must stay silent) /verif/neutral/mux: 01.diff (named constants), 02.diff (check extracted into a Result helper), a bool helper `fits_frame`, `?` -> match in the Begin arm", "caught_by": "silent"},
]


def _tag_of(e, shift_out):
    """header expression of the encoder -> (tag, rendered num expr) or None.  Constants are matched by value."""
    if e[0] == "bin" and e[1] == "BitOr":
        for sh, k in ((e[2], e[3]), (e[3], e[2])):
            if sh[0] == "bin" and sh[1] == "Shl" and lib_mux.cval(k) is not None and lib_mux.cval(sh[3]) is not None:
                shift_out.add(lib_mux.cval(sh[3]))
                return lib_mux.cval(k), render(sh[2])
        return None
    if e[0] == "bin" and e[1] == "Shl" and lib_mux.cval(e[3]) is not None:
        shift_out.add(lib_mux.cval(e[3]))
        return 0, render(e[2])
    return None


def _dispatch(dec):
    """The state dispatch `match mem::replace(&mut self.<field>, Poison)`: (switch bb, state expr text, field name)."""
    for bi in sorted(dec.live):
        info = dec.switch_info(bi)
        if not info or info[0][0] != "discr":
            continue
        c = info[0][1]
        if c[0] == "call" and mir.strip_generics(c[1]).endswith("mem::replace") and c[2] and c[2][0][0] == "field":
            labs = {l for ls in info[1].values() for l in ls}
            if "HasHeaderAndLen" in labs:
                return bi, render(c), c[2][0][2]
    raise mir.RuleError("decoder state dispatch (match mem::replace(&mut self.<state>, ..)) not found")


def check(ctx):
    lib_mux.canon_roles(ctx.prog, 'libp2p_mplex')
    prog = ctx.prog
    mx = prog.const(MP, r"codec::MAX_FRAME_SIZE$").get("v")
    ctx.ob("const", "MAX_FRAME_SIZE == 1 MiB", mx == 1024 * 1024, msg="MAX_FRAME_SIZE = %s" % mx)
    dec = lib_mux.canon_args(ctx.body(MP, r"codec::Codec as asynchronous_codec::Decoder>::decode$"), ["self", "src"])
    enc = lib_mux.canon_args(ctx.body(MP, r"codec::Codec as asynchronous_codec::Encoder>::encode$"), ["self", "item", "dst"])
    wd, we = "%s:%d" % (dec.file, dec.line), "%s:%d" % (enc.file, enc.line)
    dsw, STX, SFIELD = _dispatch(dec)
    HDR, LENF = STX + "@HasHeaderAndLen.0", STX + "@HasHeaderAndLen.1"
    SRCLEN = "asynchronous_codec::BytesMut::len(src)"
    is_max = lambda e: lib_mux.cval(e) == mx and mx is not None
    anyx = lambda e: True

    # ------------------------------------------------------------------ helper constructors
    roles = {}
    for nm in ("dialer", "listener"):
        b = lib_mux.canon_args(ctx.body(MP, r"codec::RemoteStreamId::%s$" % nm), ["num"])
        aggs = b.agg_sites(r"codec::RemoteStreamId$")
        r = render(b.site_expr(aggs[0])) if len(aggs) == 1 else ""
        m = re.match(r"^libp2p_mplex::codec::RemoteStreamId::RemoteStreamId\{num: num, role: libp2p_core::Endpoint::(\w+)\{\}\}$", r)
        roles[nm] = m.group(1) if m else None
        ctx.ob("tags", "RemoteStreamId::%s builds {num, role: %s}" % (nm, nm.capitalize()), bool(m) and m.group(1) == nm.capitalize(), "%s:%d" % (b.file, b.line), r)
    il = ctx.body(MP, r"codec::RemoteStreamId::into_local$")
    aggs = il.agg_sites(r"codec::LocalStreamId$")
    r = render(il.site_expr(aggs[0])) if len(aggs) == 1 else ""
    ctx.ob("tags", "into_local mirrors the role", r == "libp2p_mplex::codec::LocalStreamId::LocalStreamId{num: self.num, role: <libp2p_core::Endpoint as std::ops::Not>::not(self.role)}",
           "%s:%d" % (il.file, il.line), r)

    # ------------------------------------------------------------------ encoder table
    hs = enc.call_sites(r"unsigned_varint::encode::u64$")
    ctx.floor("tags", "encode::u64(header)", hs, 1, exact=True)
    harg = enc.site_expr(hs[0])[2][0] if hs else ("unknown", "?")
    tl = None
    for x in mir.walk(harg):
        if x[0] == "local":
            tl = x[1]
    if tl is None:
        raise mir.RuleError("encoder header is not a match-result local: %s" % render(harg))
    etab, shifts, rows = {}, set(), 0
    for d in enc.defs.get(tl, []):
        if d[0] != "stmt":
            continue
        e = enc.rvalue_expr(d[3])
        site = mir.Site(enc, d[1], d[2])
        if not (e[0] == "agg" and len(e[4]) == 2):
            ctx.ob("tags", "encoder arm yields (header, data)", False, site.loc(), render(e)[:160])
            continue
        rows += 1
        hdr, data = e[4][0][1], e[4][1][1]
        gs = enc.guards_on_all_paths(d[1])
        var = [l for t, ls, _, c in gs if t == "discr(item)" for l in ls]
        rl = [l for t, ls, _, c in gs if re.match(r"^discr\(item@\w+\.stream_id\.role\)$", t) for l in ls]
        tg = _tag_of(hdr, shifts)
        if len(var) != 1 or tg is None or len(rl) > 1:
            ctx.ob("tags", "encoder arm is a (variant, role) -> tag row", False, site.loc(), "variant %s role %s header %s" % (var, rl, render(hdr)))
            continue
        v = var[0]
        tag, num = tg
        ctx.ob("tags", "encode %s/%s: stream number is the frame's own" % (v, rl[0] if rl else "*"), num == "item@%s.stream_id.num" % v, site.loc(), num)
        dr = render(data)
        ctx.ob("tags", "encode %s/%s: payload" % (v, rl[0] if rl else "*"),
               dr == ("item@Data.data" if v == "Data" else "asynchronous_codec::Bytes::new()"), site.loc(), dr)
        for role in (rl or ["Dialer", "Listener"]):
            etab[(v, role)] = tag
    ctx.floor("tags", "encoder rows", range(rows), 7)
    ctx.ob("tags", "encoder covers every (variant, role)", set(etab) == {(v, r) for v in ("Open", "Data", "Close", "Reset") for r in ("Dialer", "Listener")}, we, str(sorted(etab)))
    nonopen = [t for (v, r), t in etab.items() if v != "Open"]
    ctx.ob("tags", "encoder tags are distinct", len(set(nonopen)) == len(nonopen) and etab.get(("Open", "Dialer")) not in nonopen, we, str(sorted(etab.items())))

    # ------------------------------------------------------------------ decoder table
    msw, mask = [], None
    for bi in sorted(dec.live):
        info = dec.switch_info(bi)
        c = info[0] if info else None
        while c is not None and c[0] == "cast":
            c = c[1]
        if c is not None and c[0] == "bin" and c[1] == "BitAnd":
            for h, k in ((c[2], c[3]), (c[3], c[2])):
                if render(h) == HDR and lib_mux.cval(k) is not None:
                    msw.append(bi)
                    mask = lib_mux.cval(k)
    ctx.floor("tags", "decoder tag switch", msw, 1, exact=True)
    dtab, explicit = {}, []
    frames = dec.agg_sites(r"codec::Frame$")
    ctx.floor("tags", "decoder Frame constructions", frames, 7)
    if len(msw) == 1:
        labs = dec.switch_info(msw[0])[1]
        explicit = sorted(l for ls in labs.values() for l in ls if isinstance(l, int))
        for s in frames:
            e = dec.site_expr(s)
            gs = [g for g in dec.guards_on_all_paths(s.bb) if g[2] == msw[0]]
            tags = sorted(gs[0][1], key=str) if gs else []
            fields = dict(e[4])
            sid = fields.get("stream_id", ("unknown", "?"))
            ctor, sh = None, None
            if sid[0] == "call" and len(sid[2]) == 1 and sid[2][0][0] == "bin" and sid[2][0][1] == "Shr" and render(sid[2][0][2]) == HDR:
                m = re.search(r"codec::RemoteStreamId::(dialer|listener)$", mir.strip_generics(sid[1]))
                ctor, sh = (m.group(1) if m else None), lib_mux.cval(sid[2][0][3])
            ok = len(tags) == 1 and isinstance(tags[0], int) and ctor is not None and sh is not None
            ctx.ob("tags", "decode tag %s: one tag, id = RemoteStreamId::<role>(header >> shift)" % (tags[0] if tags else "?"), ok, s.loc(), "%s -> %s" % (tags, render(sid)[-60:]))
            if not ok:
                continue
            shifts.add(sh)
            dtab[tags[0]] = (e[3], roles.get(ctor))
            if e[3] == "Data":
                want = "asynchronous_codec::BytesMut::freeze(asynchronous_codec::BytesMut::split_to(src, %s))" % LENF
                got = render(fields.get("data", ("unknown", "?")))
                ctx.ob("tags", "decode tag %s: payload is exactly the declared `len` bytes" % tags[0], got == want, s.loc(), got[-90:])
        ctx.ob("tags", "shift is the same constant in encoder and decoder and mask == 2^shift - 1",
               len(shifts) == 1 and None not in shifts and mask == (1 << list(shifts)[0]) - 1, wd, "shifts %s mask %s" % (sorted(map(str, shifts)), mask))
        ctx.ob("tags", "decoder handles exactly the tags the encoder emits", sorted(dtab) == explicit == sorted(set(etab.values())), wd,
               "decoder tags %s, switch labels %s, encoder tags %s" % (sorted(dtab), explicit, sorted(set(etab.values()))))
        for (v, role), tag in sorted(etab.items()):
            got = dtab.get(tag)
            want = (v, "Dialer") if v == "Open" else (v, role)
            ctx.ob("tags", "decode(encode(%s, %s)) is the same frame" % (v, role if v != "Open" else "*"), got == want, wd,
                   "tag %s decodes to %s, expected %s" % (tag, got, want))
        # every other tag value is rejected
        other = [(msw[0], t) for t, ls in labs.items() if "otherwise" in ls]
        ctx.floor("tags", "unknown-tag edge", other, 1, exact=True)
        z = lib_mux.zero_assigns(dec)
        for bi, t in other:
            reach = dec.reachable([t])
            res = sorted({("Err" if lib_mux.is_err_result(z[b]) else z[b][:40]) for b in reach if b in z})
            ctx.ob("tags", "unknown tag reaches only Err", res == ["Err"], wd, str(res))
            st = [s for s in dec.field_write_sites(SFIELD) if s.bb in reach]
            ctx.ob("tags", "unknown tag leaves the decoder poisoned", not st, wd, "state stores after the unknown-tag edge: %d" % len(st))

    # ------------------------------------------------------------------ size limit before buffering
    drel = lib_mux.rel_edges(dec, anyx, is_max, prog)
    erel = lib_mux.rel_edges(enc, anyx, is_max, prog)
    ctx.floor("size-limit", "decoder comparison with MAX_FRAME_SIZE", drel, 1)
    ctx.floor("size-limit", "encoder comparison with MAX_FRAME_SIZE", erel, 1)
    dacc = {x["rel"] for x in drel if x["rel"] in ("le", "lt")}
    eacc = {x["rel"] for x in erel if x["rel"] in ("le", "lt")}
    ctx.ob("size-limit", "encoder and decoder accept the same lengths", dacc == {"le"} and eacc == {"le"}, wd,
           "decoder accepts on `len %s MAX`, encoder on `len %s MAX` (both must accept exactly len <= MAX_FRAME_SIZE)" % (sorted(dacc), sorted(eacc)))
    ele = lib_mux.edges_with(erel, {"le", "lt"})
    stores = [s for s in dec.agg_sites(r"codec::CodecDecodeState$", "HasHeaderAndLen")]
    ctx.floor("size-limit", "HasHeaderAndLen constructions", stores, 2)
    fresh, invariant, fresh_obs = [], True, []
    for s in stores:
        f1 = render(dict(dec.site_expr(s)[4])["1"])
        if f1 == LENF:
            continue       # restoring the arm's own (already bounded) length
        fresh.append(s)
        edges = {x["edge"] for x in drel if x["rel"] in ("le", "lt") and render(x["lhs"]) == f1}
        ok = bool(edges) and dec.must_pass_edges(s.bb, edges)
        invariant = invariant and ok
        fresh_obs.append((ok, s.loc(), "stored length %s %s" % (f1[-70:], "is the value tested against MAX_FRAME_SIZE on every path" if ok else "is stored on a path without the `<= MAX_FRAME_SIZE` edge on that value")))
    allocs = dec.call_sites(r"BytesMut::(reserve|split_to|split_off|resize|advance)$|BytesMut::with_capacity$")
    ctx.floor("size-limit", "reserve/split_to in decode", allocs, 2)
    need_invariant = False
    for s in allocs:
        e = dec.site_expr(s)
        nm = mir.strip_generics(e[1]).split("::")[-1]
        arg = e[2][-1]
        lv = _leaves(arg)
        from_state = any(render(x) == LENF for x in lv) and all(render(x) in (LENF, SRCLEN) or lib_mux.cval(x) is not None for x in lv)
        edges = {x["edge"] for x in drel if x["rel"] in ("le", "lt") and any(render(x["lhs"]) == render(y) for y in lv)}
        local = bool(edges) and dec.must_pass_edges(s.bb, edges)
        need_invariant = need_invariant or not local
        ok = local or (from_state and invariant)
        ctx.ob("size-limit", "%s bounded by MAX_FRAME_SIZE" % nm, ok, s.loc(),
               "length %s: %s" % (render(arg)[-80:], "own guard" if local else ("taken from the bounded state field" if ok else "neither guarded here nor taken from a state whose every fresh construction is guarded")))
        arms = [l for t, ls, d_, c in dec.guards_on_all_paths(s.bb) if d_ == dsw for l in ls]
        ctx.ob("size-limit", "%s only in the state that holds a checked length" % nm, arms == ["HasHeaderAndLen"] or local, s.loc(), "arm(s) %s" % arms)
    if need_invariant:
        # some site relies on "every HasHeaderAndLen state holds a length <= MAX_FRAME_SIZE": then every fresh construction must be guarded
        ctx.floor("size-limit", "fresh HasHeaderAndLen constructions", fresh, 1)
        for ok, where, msg in fresh_obs:
            ctx.ob("size-limit", "fresh HasHeaderAndLen state only for len <= MAX_FRAME_SIZE", ok, where, msg)
    # encoder side
    puts = enc.call_sites(r"BufMut>::put$|BufMut::put$|BytesMut::reserve$|BufMut>::put_slice$|BytesMut::extend_from_slice$")
    ctx.floor("encode", "dst.reserve / dst.put", puts, 4)
    for i, s in enumerate(puts):
        ok = bool(ele) and enc.must_pass_edges(s.bb, ele)
        ctx.ob("encode", "write #%d only for payloads <= MAX_FRAME_SIZE" % i, ok, s.loc(), "dominated by the data_len <= MAX_FRAME_SIZE edge" if ok else "reachable without the size test")
    only_put = [s for s in puts if "::put" in render(enc.site_expr(s))]
    args = [render(enc.site_expr(s)[2][1]) for s in only_put]
    PAY = args[2] if len(args) == 3 else "?"
    PAYLEN = ("core::slice::len(<asynchronous_codec::Bytes as std::convert::AsRef>::as_ref(%s))" % PAY, "asynchronous_codec::Bytes::len(%s)" % PAY)
    for x in erel:
        if x["rel"] in ("le", "lt"):
            ctx.ob("encode", "the tested length is the payload's", render(x["lhs"]) in PAYLEN, we, render(x["lhs"])[-100:] + (" (via %s)" % x["via"].split("::")[-1] if x["via"] else ""))
    ok_order = (len(args) == 3 and args[0].startswith("unsigned_varint::encode::u64(") and args[1].startswith("unsigned_varint::encode::usize(")
                and re.match(r"^_\d+\.1$", args[2]) is not None)
    ctx.ob("encode", "wire order is header, length, payload", ok_order and enc.dominates(only_put[0].bb, only_put[1].bb) and enc.dominates(only_put[1].bb, only_put[2].bb), we, str([a[:50] for a in args]))
    if len(args) == 3:
        ctx.ob("encode", "length prefix is the payload length", any(args[1].startswith("unsigned_varint::encode::usize(%s, " % pl) for pl in PAYLEN), we, args[1][:140])
        ctx.ob("encode", "header written is the match result", re.match(r"^unsigned_varint::encode::u64\(_%d\.0, " % tl, args[0]) is not None and args[2] == "_%d.1" % tl, we, args[0][:80])

    # ------------------------------------------------------------------ decoder state machine
    def classify(r):
        if r.startswith("std::result::Result::Ok{0: std::option::Option::None"):
            return "Ok(None)"
        if r.startswith("std::result::Result::Ok{0: std::option::Option::Some"):
            return "Ok(Some)"
        if r.startswith("std::result::Result::Err"):
            return "Err"
        return "other"
    rel, head = lib_mux.fsm_extract_field(dec, r"codec::CodecDecodeState$", SFIELD, classify=classify)
    for rec in rel.values():       # `?` and an explicit `return Err(..)` are the same exit
        if "residual" in rec["exits"]:
            rec["exits"] = (rec["exits"] - {"residual"}) | {"Err"}
        if "residual" in rec["on"]:
            rec["on"].setdefault("Err", []).extend(rec["on"].pop("residual"))
    table = {
        "Begin": {"next": {"HasHeader"}, "must": {"Ok(None)"}, "may": {"Err"}},
        "HasHeader": {"next": {"HasHeaderAndLen"}, "must": {"Ok(None)"}, "may": {"Err"}},
        "HasHeaderAndLen": {"next": set(), "must": {"Ok(None)", "Ok(Some)", "Err"}, "may": set()},
        "Poisoned": {"next": set(), "must": {"Err"}, "may": set()},
    }
    ctx.ob("fsm", "arms", set(rel) == set(table), wd, str(sorted(rel)))
    own = {"Begin": {}, "HasHeader": {"0": "@HasHeader.0"}, "HasHeaderAndLen": {"0": "@HasHeaderAndLen.0", "1": "@HasHeaderAndLen.1"}}
    for arm, want in table.items():
        rec = rel.get(arm)
        if rec is None:
            continue
        nxt = {v for v, _, _ in rec["next"]}
        ctx.ob("fsm", "%s: successor states" % arm, nxt == want["next"], wd, "continue-edges store %s, reference %s" % (sorted(nxt), sorted(want["next"])))
        ctx.ob("fsm", "%s: exit kinds" % arm, want["must"] <= rec["exits"] <= (want["must"] | want["may"]), wd,
               "exits %s, reference %s (+ optional %s)" % (sorted(rec["exits"]), sorted(want["must"]), sorted(want["may"])))
        ctx.ob("fsm", "%s: no continue with the poison state" % arm, not rec["continue_unstored"], wd, "loop continues with Poisoned left in place" if rec["continue_unstored"] else "every continue re-assigns the state")
        if "Ok(None)" in want["must"]:
            rs = rec["on"].get("Ok(None)", [])
            ctx.ob("fsm", "%s: state restored before every Ok(None)" % arm, bool(rs) and all(v is not None for v, _, _ in rs), wd,
                   "restores: %s" % [v for v, _, _ in rs])
            for v, fields, site in rs:
                if v is None:
                    continue
                ok = v == arm and set(fields) == set(own[arm]) and all(fields[f] == STX + suf for f, suf in own[arm].items())
                ctx.ob("fsm", "%s: Ok(None) restores the same state" % arm, ok, site.loc(), "restored %s%s" % (v, {f: x[-24:] for f, x in fields.items()}))
        if "Ok(Some)" in want["must"]:
            rs = rec["on"].get("Ok(Some)", [])
            ctx.ob("fsm", "%s: decoder reset to Begin before every Ok(Some(frame))" % arm, [v for v, _, _ in rs] == ["Begin"], wd, str([v for v, _, _ in rs]))
        rs = rec["on"].get("Err", [])
        ctx.ob("fsm", "%s: error exits leave no half-updated state" % arm, all(v is None for v, _, _ in rs), wd, str([v for v, _, _ in rs]), nontrivial=bool(rs))
    VAR = r"Uvi as asynchronous_codec::Decoder>::decode\(self\.\w+, src\)\)?(@Continue\.0)?(@Ok\.0)?@Some\.0"
    for v, fields, site in rel.get("Begin", {}).get("next", []):
        ctx.ob("fsm", "Begin->HasHeader carries the decoded header", re.search(VAR + "$", fields.get("0", "")) is not None, site.loc(), fields.get("0", "")[-80:])
    for v, fields, site in rel.get("HasHeader", {}).get("next", []):
        ctx.ob("fsm", "HasHeader->HasHeaderAndLen keeps the header", fields.get("0") == STX + "@HasHeader.0", site.loc(), fields.get("0", "")[-60:])
        ctx.ob("fsm", "HasHeader->HasHeaderAndLen carries the decoded length", re.search(VAR + r"( as usize\))?$", fields.get("1", "")) is not None, site.loc(), fields.get("1", "")[-80:])

    # ------------------------------------------------------------------ no panic in decode
    inv, seen = lib.panic_inventory(prog, MP, [dec], depth=1)
    lib.check_inventory(ctx, "nopanic", "Codec::decode", inv, {"buf": (1, "src.split_to(len) on the `src.len() >= len` edge")}, seen)
    for b, k, det, s in inv:
        if k == "buf" and b is dec:
            arg = render(dec.site_expr(s)[2][-1])
            ge = lib_mux.edges_with(lib_mux.rel_edges(dec, lambda e: render(e) == SRCLEN, lambda e, arg=arg: render(e) == arg), {"ge", "gt"})
            ok = bool(ge) and dec.must_pass_edges(s.bb, ge)
            ctx.ob("nopanic", "split_to only when len bytes are buffered", ok, s.loc(), ("guard present on all paths: " if ok else "a path reaches this site without the guard: ") + "src.len() >= len for the very len split off")
    ov = lib_mux.overflow_asserts(dec)
    ctx.floor("nopanic", "arithmetic overflow checks in decode", ov, 2)
    for bi in sorted(dec.live):
        t = dec.blocks[bi]["term"]
        if not (t and t["k"] == "assert" and t["msg"].startswith("overflow")):
            continue
        c = dec.operand_expr(t["c"])
        s = mir.Site(dec, bi)
        if c[0] == "bin" and c[1] == "Lt" and lib_mux.cval(c[2]) is not None and lib_mux.cval(c[3]) is not None:
            ctx.ob("nopanic", "shift amount is a constant below the bit width", lib_mux.cval(c[2]) < lib_mux.cval(c[3]), s.loc(), render(c))
            continue
        if c[0] == "field" and c[1][0] == "bin" and c[1][1] == "SubWithOverflow":
            a, bsub = render(c[1][2]), render(c[1][3])
            le = lib_mux.edges_with(lib_mux.rel_edges(dec, lambda e, bsub=bsub: render(e) == bsub, lambda e, a=a: render(e) == a), {"le", "lt"})
            ok = bool(le) and dec.must_pass_edges(bi, le)
            ctx.ob("nopanic", "len - src.len() only when src.len() < len", ok, s.loc(), ("guard present on all paths: " if ok else "a path reaches this site without the guard: ") + "%s <= %s" % (bsub[-40:], a[-40:]))
            continue
        ctx.ob("nopanic", "unexpected checked arithmetic on received values", False, s.loc(), "%s (%s)" % (render(c)[:120], t["msg"]))


def _leaves(e):
    """Leaf operands of an arithmetic expression (through bin/un/cast/tuple-field of checked ops)."""
    t = e[0]
    if t == "bin":
        return _leaves(e[2]) + _leaves(e[3])
    if t == "un":
        return _leaves(e[2])
    if t == "cast":
        return _leaves(e[1])
    if t == "field" and e[1][0] == "bin":
        return _leaves(e[1])
    return [e]
