"""C25 mplex framing round-trips and bounds hostile input — tag tables encode vs decode (K11), size limit before allocation (K1/K3/K6), decoder FSM (K8), panic inventory (K10)."""
import re

from .. import lib, lib_mux, mir
from ..mir import render

EXPLANATION = (
    "Codec::encode: the (Frame variant, role) -> header-tag table is extracted from the match (tag = constant OR-ed into `num << 3`, "
    "num and payload taken from the matched variant); Codec::decode: the `header & 7` switch -> (Frame variant, RemoteStreamId role) table, "
    "stream number = `header >> 3`, payload = the `len` bytes split off; the two tables compose to the identity on (variant, role) for the 7 "
    "tags and are a bijection, the mask equals 2^shift-1 with the same shift on both sides, every other tag value reaches only `Err`; "
    "RemoteStreamId::into_local keeps the number and flips the role. Size limit: MAX_FRAME_SIZE == 1 MiB; every *fresh* construction of the "
    "state HasHeaderAndLen(_, len) is dominated by the `len <= MAX_FRAME_SIZE` edge on the very value that is stored, and every "
    "BytesMut::reserve / split_to in decode takes its length from that state field (or is itself dominated by such an edge), so nothing is "
    "reserved, awaited or split for an oversize declaration; the encoder refuses with the same relation and constant, and writes header, "
    "length-of-the-payload, payload in that order only on the accepting edge. Decoder state machine: successor states per arm, the state "
    "restored (same variant, the arm's own fields) before every `Ok(None)`, reset to Begin before every `Ok(Some)`, Poisoned -> Err, no "
    "continue with the poison state. No-panic: the only panic-capable site reachable in decode is split_to(len), dominated by "
    "`src.len() >= len`; the `len - src.len()` subtraction is on the `src.len() < len` edge; shifts are by a constant < 64.")
ASSUMPTIONS = ["value round-trip inside unsigned-varint (Uvi::decode / encode::u64) is trusted",
               "all byte-split schedules are not executed: split-independence is claimed only through the state-restoration clauses",
               "`len as usize` is lossless (64-bit targets)"]
MP = "libp2p_mplex"
ST = r"std::mem::replace\(self\.decoder_state, libp2p_mplex::codec::CodecDecodeState::Poisoned\{\}\)"
MAXC = "const:libp2p_mplex::codec::MAX_FRAME_SIZE"

SELFTEST = [
    {"mutation": "seeded/C25: len > MAX_FRAME_SIZE check moved into HasHeaderAndLen after the need-more-bytes return",
     "caught_by": "size-limit/fresh HasHeaderAndLen state only for len <= MAX_FRAME_SIZE + size-limit/reserve bounded"},
    {"mutation": "decode: `len as usize > MAX_FRAME_SIZE` -> `>=`", "caught_by": "size-limit/encoder and decoder accept the same lengths"},
    {"mutation": "decode: swap tags 3 and 4 (Close listener/dialer)", "caught_by": "tags/decode(encode(Close, ...)) is the same frame"},
    {"mutation": "decode: None arm of HasHeader restores CodecDecodeState::Begin", "caught_by": "fsm/HasHeader: Ok(None) restores the same state"},
    {"mutation": "decode: HasHeaderAndLen Ok(None) path does not restore the state", "caught_by": "fsm/HasHeaderAndLen: state restored before every Ok(None)"},
    {"mutation": "decode: `if src.len() < len` -> `if src.len() + 1 < len`", "caught_by": "nopanic/split_to only when len bytes are buffered"},
    {"mutation": "decode: `self.decoder_state = Begin` before Ok(Some(out)) removed", "caught_by": "fsm/HasHeaderAndLen: decoder reset to Begin before every Ok(Some(frame))"},
    {"mutation": "decode: size check deleted", "caught_by": "size-limit/reserve bounded by MAX_FRAME_SIZE, split_to bounded, floor"},
    {"mutation": "(negative) size check moved to the top of the HasHeaderAndLen arm, before the need-more-bytes test", "caught_by": "silent, as it should be"},
    {"mutation": "encode: Reset/Dialer tag 6 -> 5", "caught_by": "tags/encoder tags are distinct"},
    {"mutation": "into_local: role: self.role (not flipped)", "caught_by": "tags/into_local mirrors the role"},
    {"mutation": "encode: length prefix written from header_bytes.len()", "caught_by": "encode/length prefix is the payload length"},
]


def _tag_of(e, shift_out):
    """header expression of the encoder -> (tag, rendered num expr) or None."""
    if e[0] == "bin" and e[1] == "BitOr" and e[3][0] == "const" and e[2][0] == "bin" and e[2][1] == "Shl":
        shift_out.add(e[2][3][1] if e[2][3][0] == "const" else None)
        return e[3][1], render(e[2][2])
    if e[0] == "bin" and e[1] == "Shl":
        shift_out.add(e[3][1] if e[3][0] == "const" else None)
        return 0, render(e[2])
    return None


def check(ctx):
    prog = ctx.prog
    mx = prog.const(MP, r"codec::MAX_FRAME_SIZE$").get("v")
    ctx.ob("const", "MAX_FRAME_SIZE == 1 MiB", mx == 1024 * 1024, msg="MAX_FRAME_SIZE = %s" % mx)
    dec = ctx.body(MP, r"codec::Codec as asynchronous_codec::Decoder>::decode$")
    enc = ctx.body(MP, r"codec::Codec as asynchronous_codec::Encoder>::encode$")
    wd, we = "%s:%d" % (dec.file, dec.line), "%s:%d" % (enc.file, enc.line)

    # ------------------------------------------------------------------ helper constructors
    roles = {}
    for nm in ("dialer", "listener"):
        b = ctx.body(MP, r"codec::RemoteStreamId::%s$" % nm)
        aggs = b.agg_sites(r"codec::RemoteStreamId$")
        r = render(b.site_expr(aggs[0])) if len(aggs) == 1 else ""
        m = re.match(r"^libp2p_mplex::codec::RemoteStreamId::RemoteStreamId\{num: num, role: libp2p_core::Endpoint::(\w+)\{\}\}$", r)
        roles[nm] = m.group(1) if m else None
        ctx.ob("tags", "RemoteStreamId::%s builds {num, role: %s}" % (nm, nm.capitalize()), bool(m) and m.group(1) == nm.capitalize(), "%s:%d" % (b.file, b.line), r)
    il = ctx.body(MP, r"codec::RemoteStreamId::into_local$")
    aggs = il.agg_sites(r"codec::LocalStreamId$")
    r = render(il.site_expr(aggs[0])) if len(aggs) == 1 else ""
    ctx.ob("tags", "into_local mirrors the role", r == "libp2p_mplex::codec::LocalStreamId::LocalStreamId{num: self.num, role: <libp2p_core::Endpoint as std::ops::Not>::not(self.role)}",
           "%s:%d" % (il.file, il.line), r)

    # ------------------------------------------------------------------ encoder table
    hs = enc.call_sites(r"unsigned_varint::encode::u64$")
    ctx.floor("tags", "encode::u64(header)", hs, 1, exact=True)
    harg = enc.site_expr(hs[0])[2][0]
    tl = None
    for s in mir.walk(harg):
        if s[0] == "local":
            tl = s[1]
    if tl is None:
        raise mir.RuleError("encoder header is not a match-result local: %s" % render(harg))
    etab, shifts, rows = {}, set(), 0
    for d in enc.defs.get(tl, []):
        if d[0] != "stmt":
            continue
        e = enc.rvalue_expr(d[3])
        site = mir.Site(enc, d[1], d[2])
        if not (e[0] == "agg" and len(e[4]) == 2):
            ctx.ob("tags", "encoder arm yields (header, data)", False, site.loc(), render(e)[:160])
            continue
        rows += 1
        hdr, data = e[4][0][1], e[4][1][1]
        gs = enc.guards_on_all_paths(d[1])
        var = [l for t, ls, _, c in gs if t == "discr(item)" for l in ls]
        rl = [l for t, ls, _, c in gs if re.match(r"^discr\(item@\w+\.stream_id\.role\)$", t) for l in ls]
        tg = _tag_of(hdr, shifts)
        if len(var) != 1 or tg is None or len(rl) > 1:
            ctx.ob("tags", "encoder arm is a (variant, role) -> tag row", False, site.loc(), "variant %s role %s header %s" % (var, rl, render(hdr)))
            continue
        v = var[0]
        tag, num = tg
        ctx.ob("tags", "encode %s/%s: stream number is the frame's own" % (v, rl[0] if rl else "*"), num == "item@%s.stream_id.num" % v, site.loc(), num)
        dr = render(data)
        ctx.ob("tags", "encode %s/%s: payload" % (v, rl[0] if rl else "*"),
               dr == ("item@Data.data" if v == "Data" else "asynchronous_codec::Bytes::new()"), site.loc(), dr)
        for role in (rl or ["Dialer", "Listener"]):
            etab[(v, role)] = tag
    ctx.floor("tags", "encoder rows", range(rows), 7)
    ctx.ob("tags", "encoder covers every (variant, role)", set(etab) == {(v, r) for v in ("Open", "Data", "Close", "Reset") for r in ("Dialer", "Listener")}, we, str(sorted(etab)))
    nonopen = [t for (v, r), t in etab.items() if v != "Open"]
    ctx.ob("tags", "encoder tags are distinct", len(set(nonopen)) == len(nonopen) and etab.get(("Open", "Dialer")) not in nonopen, we, str(sorted(etab.items())))

    # ------------------------------------------------------------------ decoder table
    msw = [bi for bi in sorted(dec.live) if dec.switch_info(bi) and re.match(r"^BitAnd\(%s@HasHeaderAndLen\.0, \d+\)$" % ST, render(dec.switch_info(bi)[0]))]
    ctx.floor("tags", "decoder tag switch", msw, 1, exact=True)
    cond, labs = dec.switch_info(msw[0])
    mask = cond[3][1]
    explicit = sorted(l for ls in labs.values() for l in ls if isinstance(l, int))
    dtab = {}
    frames = dec.agg_sites(r"codec::Frame$")
    ctx.floor("tags", "decoder Frame constructions", frames, 7)
    for s in frames:
        e = dec.site_expr(s)
        gs = [g for g in dec.guards_on_all_paths(s.bb) if g[2] == msw[0]]
        tags = sorted(gs[0][1]) if gs else []
        fields = dict((f, render(x)) for f, x in e[4])
        m = re.match(r"^libp2p_mplex::codec::RemoteStreamId::(dialer|listener)\(Shr\(%s@HasHeaderAndLen\.0, (\d+)\)\)$" % ST, fields.get("stream_id", ""))
        ok = len(tags) == 1 and isinstance(tags[0], int) and m is not None
        ctx.ob("tags", "decode tag %s: one tag, id = RemoteStreamId::<role>(header >> shift)" % (tags[0] if tags else "?"), ok, s.loc(), "%s -> %s" % (tags, fields.get("stream_id", "")[-60:]))
        if not ok:
            continue
        shifts.add(int(m.group(2)))
        dtab[tags[0]] = (e[3], roles.get(m.group(1)))
        if e[3] == "Data":
            want = "asynchronous_codec::BytesMut::freeze(asynchronous_codec::BytesMut::split_to(src, " + ST.replace("\\", "") + "@HasHeaderAndLen.1))"
            ctx.ob("tags", "decode tag %s: payload is exactly the declared `len` bytes" % tags[0], fields.get("data") == want, s.loc(), fields.get("data", "")[-90:])
    ctx.ob("tags", "shift is the same constant in encoder and decoder and mask == 2^shift - 1",
           len(shifts) == 1 and None not in shifts and mask == (1 << list(shifts)[0]) - 1, wd, "shifts %s mask %s" % (sorted(map(str, shifts)), mask))
    ctx.ob("tags", "decoder handles exactly the tags the encoder emits", sorted(dtab) == explicit == sorted(set(etab.values())), wd,
           "decoder tags %s, switch labels %s, encoder tags %s" % (sorted(dtab), explicit, sorted(set(etab.values()))))
    for (v, role), tag in sorted(etab.items()):
        got = dtab.get(tag)
        want = (v, "Dialer") if v == "Open" else (v, role)
        ctx.ob("tags", "decode(encode(%s, %s)) is the same frame" % (v, role if v != "Open" else "*"), got == want, wd,
               "tag %s decodes to %s, expected %s" % (tag, got, want))
    # every other tag value is rejected
    other = [(bi, t) for bi, t in lib.arm_entry(dec, r"^BitAnd\(.*@HasHeaderAndLen\.0, \d+\)$", "otherwise")]
    ctx.floor("tags", "unknown-tag edge", other, 1, exact=True)
    z = lib_mux.zero_assigns(dec)
    for bi, t in other:
        reach = dec.reachable([t])
        res = sorted({z[b][:26] for b in reach if b in z})
        ctx.ob("tags", "unknown tag reaches only Err", res == ["std::result::Result::Err{0"], wd, str(res))
        st = [s for s in dec.field_write_sites("decoder_state") if s.bb in reach]
        ctx.ob("tags", "unknown tag leaves the decoder poisoned", not st, wd, "state stores after the unknown-tag edge: %d" % len(st))

    # ------------------------------------------------------------------ size limit before buffering
    is_max = lambda t: t == MAXC
    dle, dlt, dfound = lib_mux.accept_edges_le(dec, lambda t: True, is_max)
    ele, elt, efound = lib_mux.accept_edges_le(enc, lambda t: True, is_max)
    ctx.floor("size-limit", "decoder comparison with MAX_FRAME_SIZE", dfound, 1)
    ctx.floor("size-limit", "encoder comparison with MAX_FRAME_SIZE", efound, 1)
    ctx.ob("size-limit", "encoder and decoder accept the same lengths", bool(dle) and bool(ele) and not dlt and not elt, wd,
           "decoder tests %s, encoder tests %s (both must accept exactly len <= MAX_FRAME_SIZE)" % ([o for _, o, _ in dfound], [o for _, o, _ in efound]))
    stores = [s for s in dec.agg_sites(r"codec::CodecDecodeState$", "HasHeaderAndLen")]
    ctx.floor("size-limit", "HasHeaderAndLen constructions", stores, 2)
    fresh, invariant, fresh_obs = [], True, []
    for s in stores:
        f1 = render(dict(dec.site_expr(s)[4])["1"])
        if f1 == ST.replace("\\", "") + "@HasHeaderAndLen.1":
            continue       # restoring the arm's own (already bounded) length
        fresh.append(s)
        edges = {(bi, t) for (bi, t) in dle if any(b == bi and l == f1 for b, _, l in dfound)}
        ok = bool(edges) and dec.must_pass_edges(s.bb, edges)
        invariant = invariant and ok
        fresh_obs.append((ok, s.loc(), "stored length %s %s" % (f1[-70:], "is the value tested against MAX_FRAME_SIZE on every path" if ok else "is stored on a path without the `<= MAX_FRAME_SIZE` edge on that value")))
    ctx.floor("size-limit", "fresh HasHeaderAndLen constructions", fresh, 1)
    allocs = dec.call_sites(r"BytesMut::(reserve|split_to|split_off|resize|advance)$|BytesMut::with_capacity$")
    ctx.floor("size-limit", "reserve/split_to in decode", allocs, 2)
    need_invariant = False
    for s in allocs:
        e = dec.site_expr(s)
        nm = mir.strip_generics(e[1]).split("::")[-1]
        arg = e[2][-1]
        lv = _leaves(arg)
        from_state = any("HasHeaderAndLen.1" in render(x) for x in lv) and all(("HasHeaderAndLen.1" in render(x)) or render(x) == "asynchronous_codec::BytesMut::len(src)" or x[0] == "const" for x in lv)
        edges = {(bi, t) for (bi, t) in dle if any(b == bi and l in render(arg) for b, _, l in dfound)}
        local = bool(edges) and dec.must_pass_edges(s.bb, edges)
        need_invariant = need_invariant or not local
        ok = local or (from_state and invariant)
        ctx.ob("size-limit", "%s bounded by MAX_FRAME_SIZE" % nm, ok, s.loc(),
               "length %s: %s" % (render(arg)[-80:], "own guard" if local else ("taken from the bounded state field" if ok else "neither guarded here nor taken from a state whose every fresh construction is guarded")))
        gs = dec.guards_on_all_paths(s.bb)
        arms = [l for t, ls, _, c in gs if re.match(r"^discr\(%s\)$" % ST, t) for l in ls]
        ctx.ob("size-limit", "%s only in the state that holds a checked length" % nm, arms == ["HasHeaderAndLen"] or local, s.loc(), "arm(s) %s" % arms)
    if need_invariant:
        # some site relies on "every HasHeaderAndLen state holds a length <= MAX_FRAME_SIZE": then every fresh construction must be guarded
        for ok, where, msg in fresh_obs:
            ctx.ob("size-limit", "fresh HasHeaderAndLen state only for len <= MAX_FRAME_SIZE", ok, where, msg)
    # encoder side
    puts = enc.call_sites(r"BufMut>::put$|BufMut::put$|BytesMut::reserve$|BufMut>::put_slice$|BytesMut::extend_from_slice$")
    ctx.floor("encode", "dst.reserve / dst.put", puts, 4)
    for i, s in enumerate(puts):
        ok = bool(ele) and enc.must_pass_edges(s.bb, ele)
        ctx.ob("encode", "write #%d only for payloads <= MAX_FRAME_SIZE" % i, ok, s.loc(), "dominated by the data_len <= MAX_FRAME_SIZE edge" if ok else "reachable without the size test")
    for _, op, l in efound:
        ctx.ob("encode", "the tested length is the payload's", re.match(r"^core::slice::len\(<asynchronous_codec::Bytes as std::convert::AsRef>::as_ref\(_\d+\.1\)\)$", l) is not None, we, l)
    only_put = [s for s in puts if "::put" in render(enc.site_expr(s))]
    args = [render(enc.site_expr(s)[2][1]) for s in only_put]
    ok_order = (len(args) == 3 and args[0].startswith("unsigned_varint::encode::u64(") and args[1].startswith("unsigned_varint::encode::usize(")
                and re.match(r"^_\d+\.1$", args[2]) is not None)
    ctx.ob("encode", "wire order is header, length, payload", ok_order and only_put[0].bb < only_put[1].bb and
           dec is not None and enc.dominates(only_put[0].bb, only_put[1].bb) and enc.dominates(only_put[1].bb, only_put[2].bb), we, str([a[:50] for a in args]))
    if len(args) == 3:
        ctx.ob("encode", "length prefix is the payload length", args[1].startswith("unsigned_varint::encode::usize(core::slice::len(<asynchronous_codec::Bytes as std::convert::AsRef>::as_ref(%s))" % args[2]), we, args[1][:140])
        ctx.ob("encode", "header written is the match result", re.match(r"^unsigned_varint::encode::u64\(_%d\.0, " % tl, args[0]) is not None and args[2] == "_%d.1" % tl, we, args[0][:80])

    # ------------------------------------------------------------------ decoder state machine
    def classify(r):
        if r.startswith("std::result::Result::Ok{0: std::option::Option::None"):
            return "Ok(None)"
        if r.startswith("std::result::Result::Ok{0: std::option::Option::Some"):
            return "Ok(Some)"
        if r.startswith("std::result::Result::Err"):
            return "Err"
        return "other"
    rel, head = lib_mux.fsm_extract_field(dec, r"codec::CodecDecodeState$", "decoder_state", classify=classify)
    table = {
        "Begin": {"next": {"HasHeader"}, "exits": {"Ok(None)", "residual"}},
        "HasHeader": {"next": {"HasHeaderAndLen"}, "exits": {"Ok(None)", "residual", "Err"}},
        "HasHeaderAndLen": {"next": set(), "exits": {"Ok(None)", "Ok(Some)", "Err"}},
        "Poisoned": {"next": set(), "exits": {"Err"}},
    }
    ctx.ob("fsm", "arms", set(rel) == set(table), wd, str(sorted(rel)))
    own = {"Begin": {}, "HasHeader": {"0": "@HasHeader.0"}, "HasHeaderAndLen": {"0": "@HasHeaderAndLen.0", "1": "@HasHeaderAndLen.1"}}
    for arm, want in table.items():
        rec = rel.get(arm)
        if rec is None:
            continue
        nxt = {v for v, _, _ in rec["next"]}
        ctx.ob("fsm", "%s: successor states" % arm, nxt == want["next"], wd, "continue-edges store %s, reference %s" % (sorted(nxt), sorted(want["next"])))
        must = want["exits"] - ({"Err", "residual"} if arm != "Poisoned" else set())
        ctx.ob("fsm", "%s: exit kinds" % arm, must <= rec["exits"] <= (want["exits"] | ({"Err"} if arm != "Begin" else set())), wd,
               "exits %s, reference %s (Err/`?` exits optional)" % (sorted(rec["exits"]), sorted(want["exits"])))
        ctx.ob("fsm", "%s: no continue with the poison state" % arm, not rec["continue_unstored"], wd, "loop continues with Poisoned left in place" if rec["continue_unstored"] else "every continue re-assigns the state")
        if "Ok(None)" in want["exits"]:
            rs = rec["on"].get("Ok(None)", [])
            ctx.ob("fsm", "%s: state restored before every Ok(None)" % arm, bool(rs) and all(v is not None for v, _, _ in rs), wd,
                   "restores: %s" % [v for v, _, _ in rs])
            for v, fields, site in rs:
                if v is None:
                    continue
                ok = v == arm and set(fields) == set(own[arm]) and all(fields[f] == ST.replace("\\", "") + suf for f, suf in own[arm].items())
                ctx.ob("fsm", "%s: Ok(None) restores the same state" % arm, ok, site.loc(), "restored %s%s" % (v, {f: x[-24:] for f, x in fields.items()}))
        if "Ok(Some)" in want["exits"]:
            rs = rec["on"].get("Ok(Some)", [])
            ctx.ob("fsm", "%s: decoder reset to Begin before every Ok(Some(frame))" % arm, [v for v, _, _ in rs] == ["Begin"], wd, str([v for v, _, _ in rs]))
        for k in ("Err", "residual"):
            rs = rec["on"].get(k, [])
            ctx.ob("fsm", "%s: %s exits leave no half-updated state" % (arm, k), all(v is None for v, _, _ in rs), wd, str([v for v, _, _ in rs]), nontrivial=bool(rs))
    for v, fields, site in rel.get("Begin", {}).get("next", []):
        ctx.ob("fsm", "Begin->HasHeader carries the decoded header", re.search(r"Uvi as asynchronous_codec::Decoder>::decode\(self\.varint_decoder, src\)\)@Continue\.0@Some\.0$", fields.get("0", "")) is not None, site.loc(), fields.get("0", "")[-80:])
    for v, fields, site in rel.get("HasHeader", {}).get("next", []):
        ctx.ob("fsm", "HasHeader->HasHeaderAndLen keeps the header", fields.get("0") == ST.replace("\\", "") + "@HasHeader.0", site.loc(), fields.get("0", "")[-60:])
        ctx.ob("fsm", "HasHeader->HasHeaderAndLen carries the decoded length", re.search(r"Uvi as asynchronous_codec::Decoder>::decode\(self\.varint_decoder, src\)\)@Continue\.0@Some\.0 as usize\)$", fields.get("1", "")) is not None, site.loc(), fields.get("1", "")[-80:])

    # ------------------------------------------------------------------ no panic in decode
    inv, seen = lib.panic_inventory(prog, MP, [dec], depth=1)
    lib.check_inventory(ctx, "nopanic", "Codec::decode", inv, {"buf": (1, "src.split_to(len) on the `src.len() >= len` edge")}, seen)
    for b, k, det, s in inv:
        if k == "buf":
            e = dec.site_expr(s)
            arg = render(e[2][-1])
            ctx.guarded("nopanic", "split_to only when len bytes are buffered", s,
                        lambda c, r, l, arg=arg: (l == "false" and r == "Lt(asynchronous_codec::BytesMut::len(src), %s)" % arg) or
                        (l == "true" and r in ("Ge(asynchronous_codec::BytesMut::len(src), %s)" % arg, "Le(%s, asynchronous_codec::BytesMut::len(src))" % arg)),
                        "src.len() >= len for the very len split off")
    ov = lib_mux.overflow_asserts(dec)
    ctx.floor("nopanic", "arithmetic overflow checks in decode", ov, 2)
    for cnd, msg, s in ov:
        m = re.match(r"^Lt\(\((\d+) as u32\), (\d+)\)$", cnd)
        if m:
            ctx.ob("nopanic", "shift amount is a constant below the bit width", int(m.group(1)) < int(m.group(2)), s.loc(), cnd)
            continue
        m = re.match(r"^SubWithOverflow\((.*), (asynchronous_codec::BytesMut::len\(src\))\)\.1$", cnd)
        if m:
            a = m.group(1)
            ctx.guarded("nopanic", "len - src.len() only when src.len() < len", s,
                        lambda c, r, l, a=a: (l == "true" and r == "Lt(asynchronous_codec::BytesMut::len(src), %s)" % a) or (l == "true" and r == "Gt(%s, asynchronous_codec::BytesMut::len(src))" % a),
                        "src.len() < len")
            continue
        ctx.ob("nopanic", "unexpected checked arithmetic on received values", False, s.loc(), "%s (%s)" % (cnd[:120], msg))


def _leaves(e):
    """Leaf operands of an arithmetic expression (through bin/un/cast/tuple-field of checked ops)."""
    t = e[0]
    if t == "bin":
        return _leaves(e[2]) + _leaves(e[3])
    if t == "un":
        return _leaves(e[2])
    if t == "cast":
        return _leaves(e[1])
    if t == "field" and e[1][0] == "bin":
        return _leaves(e[1])
    return [e]
