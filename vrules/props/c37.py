"""C37 k-bucket structural invariants — limits (K9), per-arm effect counting on the disconnected/connected boundary (K2), guards (K1), who-may-call (K4), origin (K5)."""
import re

from .. import lib, mir
from .. import lib_kad as lk
from ..mir import render, strip_generics
from ..lib_kad import R, cnt, tg, K

EXPLANATION = (
    "KBucket keeps `nodes` = [disconnected..., connected...] with `first_connected_pos` (fcp) marking the boundary. Decided per function, on every "
    "CFG path: insert — Connected arm pushes at the end only on the not-full edge and sets fcp = fcp.or(Some(len before push)); Disconnected arm "
    "inserts exactly at the boundary index and moves the boundary by +1 exactly once, or pushes when there is no connected node; full bucket => "
    "no mutation of nodes/fcp; a pending node is recorded only when full, fcp != Some(0) and no pending node exists, with replace = now + "
    "pending_timeout. remove — removes at position(key), status taken before the boundary is adjusted; Disconnected arm moves the boundary -1 "
    "exactly once, Connected arm clears it exactly when the removed node was at the boundary and was the last element. apply_pending — every "
    "eviction is Vec::remove(nodes, 0), reachable only if pending.replace <= now, len >= capacity and status(Position(0)) is not Connected; each "
    "evicting arm performs exactly one removal and exactly one insertion; connected pending goes to the end with fcp adjusted once "
    "(None -> Some(len after removal), Some(p) -> p-1) between the removal and the push; a disconnected pending is inserted at fcp-1 / pushed "
    "and the boundary is not written at all; an unexpired pending node is restored. status(pos) = Connected iff fcp is Some(i) and pos >= i. "
    "Table level: the bucket index of entry()/bucket() is BucketIndex::new(distance(local_key, key)) with the None (distance 0 = local key) case "
    "returning None before any bucket is touched, apply_pending runs before the Entry is built, Entry::new yields Absent only when neither "
    "position(key) nor as_pending(key) finds the key, and KBucket::insert has exactly three callers (AbsentEntry::insert, update, apply_pending); "
    "nodes / first_connected_pos are mutated by no other function; BucketIndex values are constructed only at the six audited sites.")
ASSUMPTIONS = ["std Vec::insert/remove/push and Option::or/map_or_else semantics",
               "the full ordering invariant over histories follows from the per-operation clauses by induction, which is not mechanised here",
               "Instant::now monotonicity; KBucketsTable::buckets has NUM_BUCKETS entries (constructor not analysed beyond the constant)"]
SELFTEST = [
    {"mutation": "seeded C37: apply_pending disconnected-pending arm also sets first_connected_pos = Some(insert_pos)", "caught_by": "apply_pending/disconnected pending, some connected: boundary not written"},
    {"mutation": "insert Connected: `>=` -> `>` in len >= capacity", "caught_by": "insert/Connected: push only below capacity"},
    {"mutation": "insert Disconnected: drop `*p += 1`", "caught_by": "insert/Disconnected,Some: boundary +1 exactly once"},
    {"mutation": "remove Connected: drop `&& pos.0 == self.nodes.len()`", "caught_by": "remove/Connected: boundary cleared only if removed node was last"},
    {"mutation": "apply_pending: `pending.replace <= now` -> `>=`", "caught_by": "apply_pending/eviction only after timeout"},
    {"mutation": "apply_pending: status(Position(0)) == Connected -> Disconnected", "caught_by": "apply_pending/eviction only if head not Connected"},
    {"mutation": "status closure `pos.0 >= i` -> `pos.0 > i`", "caught_by": "status/closure is pos >= boundary"},
    {"mutation": "update: `pos == Position(0) && status == Connected` -> `||`", "caught_by": "update/pending dropped only if the head (Position(0)) was updated"},
    {"mutation": "apply_pending closure#1 `p.checked_sub(1)` -> `Some(p)`", "caught_by": "apply_pending/connected pending: boundary moves down by one"},
    {"mutation": "Entry::new: `bucket.as_pending(key)` -> `bucket.pending()`", "caught_by": "table/Entry::Pending only if as_pending(key) is Some"},
    {"mutation": "KBucketsTable::entry: `BucketIndex::new(..)?` -> `.unwrap_or(BucketIndex(0))`", "caught_by": "table/entry: no bucket is touched for the local key (index None)"},
]

KB = r"^libp2p_kad::kbucket::bucket::KBucket::"
NODES = r"^self\.nodes$"
LEN = r"^std::vec::Vec::len\(self\.nodes\)$"
CAP = r"^self\.capacity$"
NS = r"kbucket::bucket::NodeStatus$"


def nodes_calls(b, m):
    return lk.recv_calls(b, r"^std::vec::Vec::%s$" % m, NODES)


def check(ctx):
    prog = ctx.prog
    ins = ctx.body(K, KB + r"insert$")
    rem = ctx.body(K, KB + r"remove$")
    app = ctx.body(K, KB + r"apply_pending$")
    sta = ctx.body(K, KB + r"status$")
    upd = ctx.body(K, KB + r"update$")
    check_insert(ctx, ins)
    check_remove(ctx, prog, rem)
    check_apply(ctx, prog, app)
    check_status(ctx, prog, sta)
    check_update(ctx, upd)
    check_table(ctx, prog)
    check_who(ctx, prog)


# ------------------------------------------------------------------------------------------------ insert
def check_insert(ctx, b):
    rets = b.return_blocks()
    W = lk.where(b)
    fx = lk.field_effects(b, "first_connected_pos")
    pushes, inserts = nodes_calls(b, "push"), nodes_calls(b, "insert")
    grow = pushes + inserts
    ctx.floor("insert", "nodes growth sites", grow, 3)
    ctx.floor("insert", "boundary writes", fx, 2)
    removes = nodes_calls(b, "remove")
    ctx.ob("insert", "insert never removes", not removes, W, "%d Vec::remove" % len(removes))
    # capacity: every growth site strictly below capacity
    for s in grow:
        arm = "Connected" if s.bb in b.reachable(tg(lib.arm_entry(b, r"^discr\(status\)$", "Connected"))) else "Disconnected"
        kind = strip_generics(b.call_name(s.term)).split("::")[-1]
        lib.limit_guard(ctx, "insert", "%s: %s only below capacity" % (arm, kind), s, LEN, CAP, "nodes.len() < capacity on every path to nodes.%s" % kind)
    conn = tg(lib.arm_entry(b, r"^discr\(status\)$", "Connected"))
    disc = tg(lib.arm_entry(b, r"^discr\(status\)$", "Disconnected"))
    ctx.ob("insert", "floor:status arms", len(conn) == 1 and len(conn) == len(disc), W, nontrivial=False, msg="%s %s" % (conn, disc))
    good, _ = lib.strict_limit_edges(b, LEN, CAP)
    full = lib.at_limit_edges(b, LEN, CAP)
    # --- Connected arm
    rc = b.reachable(conn)
    notfull_c = [t for (s_, t) in good if s_ in rc]
    full_c = [t for (s_, t) in full if s_ in rc]
    sets = [s for s, k, _ in fx if k == "set"]
    for name, starts, want_grow, want_set in (("Connected,not full", notfull_c, (1, 1), (1, 1)), ("Connected,full", full_c, (0, 0), (0, 0))):
        g = cnt(b, starts, rets, grow) if starts else None
        w = cnt(b, starts, rets, [s for s, _, _ in fx]) if starts else None
        ctx.ob("insert", "%s: nodes grows %s" % (name, want_grow), g == want_grow, W, "growth sites on all paths: %s" % (g,))
        ctx.ob("insert", "%s: boundary written %s" % (name, want_set), w == want_set, W, "boundary writes on all paths: %s" % (w,))
    for s in [x for x in sets if x.bb in rc]:
        e = b.site_expr(s)
        txt = render(e)
        ok = re.match(r"^std::option::Option::or\(self\.first_connected_pos, std::option::Option::Some\{0: std::vec::Vec::len\(self\.nodes\)\}\)$", txt) is not None
        ctx.ob("insert", "Connected: boundary := fcp.or(Some(len))", ok, s.loc(), txt[:160])
        lens = [c[3] for c in mir.calls_in(e, r"Vec::len$")]
        pb = [p.bb for p in pushes if p.bb in rc]
        ok2 = bool(lens) and bool(pb) and all(b.dominates(l, p) and l != p and l not in b.reachable(b.succ[p]) for l in lens for p in pb)
        ctx.ob("insert", "Connected: len is read before the push", ok2, s.loc(), "len() blocks %s push blocks %s" % (lens, pb))
    for s in [p for p in pushes if p.bb in rc]:
        ctx.ob("insert", "Connected: pushes the given node", render(b.site_expr(s)[2][1]) == "node", s.loc(), R(b, s)[:120])
    ctx.ob("insert", "Connected: appends (no positional insert)", not [s for s in inserts if s.bb in rc], W, "connected nodes go to the end")
    # pending recorded only: full, fcp != Some(0), no pending
    pend = lk.field_effects(b, "pending")
    ctx.floor("insert", "pending writes", pend, 1)
    for s, k, txt in pend:
        ctx.ob("insert", "pending: whole-field store", k == "set", s.loc(), k)
        ctx.ob("insert", "pending: only in the Connected arm", s.bb in rc and s.bb not in b.reachable(disc), s.loc(), "")
        ctx.ob("insert", "pending: only when the bucket is full", bool(full) and b.must_pass_edges(s.bb, full), s.loc(), "len >= capacity edge")
        ctx.guarded("insert", "pending: only when some node is disconnected (fcp != Some(0))", s,
                    lambda c, r, l: l == "false" and re.search(r"PartialEq>::eq\(self\.first_connected_pos, std::option::Option::Some\{0: 0\}\)$", r) is not None,
                    "first_connected_pos == Some(0) is false")
        ctx.guarded("insert", "pending: only when no pending node exists", s,
                    lambda c, r, l: (l == "false" and r == "std::option::Option::is_some(self.pending)") or (l == "true" and r == "std::option::Option::is_none(self.pending)")
                    or (l == "None" and r == "discr(self.pending)"), "self.pending.is_some() is false")
        ok = re.search(r"PendingNode\{node: node, status: libp2p_kad::kbucket::bucket::NodeStatus::Connected\{\}, replace: <web_time::Instant as std::ops::Add>::add\(web_time::Instant::now\(\), self\.pending_timeout\)\}", txt) is not None
        ctx.ob("insert", "pending: {node, Connected, now + pending_timeout}", ok, s.loc(), txt[-220:])
    # results
    for variant, want in (("Inserted", (1, 1)), ("Full", (0, 0)), ("Pending", (0, 0))):
        rs = [s for s in lk.ret_sites(b) if lib.agg_variants(b.site_expr(s), r"bucket::InsertResult$") == [variant]]
        ctx.floor("insert", "result " + variant, rs, 1)
        got = cnt(b, [0], lib.bbs(rs), grow)
        ctx.ob("insert", "result %s <=> nodes grew %s" % (variant, want), got == want, W, "growth on paths to the result: %s" % (got,))
        if variant == "Pending":
            for s in rs:
                t = R(b, s)
                ctx.ob("insert", "Pending names the least-recently connected node (nodes[0])", "Index>::index(self.nodes, 0).key" in t, s.loc(), t[-160:])
                pw = cnt(b, [0], [s.bb], [x for x, _, _ in pend])
                ctx.ob("insert", "result Pending <=> pending stored once", pw == (1, 1), s.loc(), str(pw))
    # --- Disconnected arm
    rd = b.reachable(disc)
    notfull_d = [t for (s_, t) in good if s_ in rd]
    full_d = [t for (s_, t) in full if s_ in rd]
    g = cnt(b, full_d, rets, grow) if full_d else None
    w = cnt(b, full_d, rets, [s for s, _, _ in fx]) if full_d else None
    ctx.ob("insert", "Disconnected,full: nothing changes", g == (0, 0) and w == (0, 0), W, "growth %s boundary writes %s" % (g, w))
    some = [t for (s_, t) in lib.switch_edges_on(b, r"^discr\(self\.first_connected_pos\)$", {"Some"}) if s_ in rd]
    none = [t for (s_, t) in lib.switch_edges_on(b, r"^discr\(self\.first_connected_pos\)$", {"None"}) if s_ in rd]
    ctx.ob("insert", "floor:Disconnected boundary test", len(some) == 1 and len(none) == 1, W, nontrivial=False, msg="%s %s" % (some, none))
    incs = [s for s, k, _ in fx if k == "inc"]
    others = [s for s, k, _ in fx if k not in ("inc", "set")]
    ctx.ob("insert", "boundary written only by := and += 1", not others, W, str([(k, t[:60]) for _, k, t in fx if k not in ("inc", "set")]))
    if some and none:
        a = cnt(b, some, rets, inserts), cnt(b, some, rets, pushes), cnt(b, some, rets, incs), cnt(b, some, rets, sets)
        ctx.ob("insert", "Disconnected,Some: one positional insert, no push", a[0] == (1, 1) and a[1] == (0, 0), W, "insert %s push %s" % (a[0], a[1]))
        ctx.ob("insert", "Disconnected,Some: boundary +1 exactly once", a[2] == (1, 1) and a[3] == (0, 0), W, "+=1 %s, := %s" % (a[2], a[3]))
        n_ = cnt(b, none, rets, pushes), cnt(b, none, rets, inserts), cnt(b, none, rets, [s for s, _, _ in fx])
        ctx.ob("insert", "Disconnected,None: one push, boundary untouched", n_ == ((1, 1), (0, 0), (0, 0)), W, "push %s insert %s boundary writes %s" % n_)
    for s in [x for x in inserts if x.bb in rd]:
        e = b.site_expr(s)
        idx = e[2][1]
        src = render(b.init_expr(idx[1])) if idx[0] == "local" else render(idx)
        ctx.ob("insert", "Disconnected: inserted exactly at the boundary index", src == "self.first_connected_pos@Some.0", s.loc(), "index = %s" % src)
        ctx.ob("insert", "Disconnected: inserts the given node", render(e[2][2]) == "node", s.loc(), render(e[2][2]))
        ctx.ob("insert", "Disconnected: insert only below capacity edge belongs to this arm", bool(notfull_d), s.loc(), "")
    for s in incs:
        l = s.stmt["p"]["l"]
        ctx.ob("insert", "+= 1 targets the boundary", render(b.init_expr(l)) == "self.first_connected_pos@Some.0", s.loc(), render(b.init_expr(l)))


# ------------------------------------------------------------------------------------------------ remove
def check_remove(ctx, prog, b):
    rets = b.return_blocks()
    W = lk.where(b)
    rm = nodes_calls(b, "remove")
    ctx.floor("remove", "Vec::remove", rm, 1, exact=True)
    ctx.ob("remove", "remove never grows nodes", not (nodes_calls(b, "push") + nodes_calls(b, "insert")), W, "")
    fx = lk.field_effects(b, "first_connected_pos")
    ctx.floor("remove", "boundary writes", fx, 2)
    st = b.call_sites(KB + r"status$")
    ctx.floor("remove", "status call", st, 1, exact=True)
    POS = "libp2p_kad::kbucket::bucket::KBucket::position(self, key)@Some.0"
    for s in rm:
        e = b.site_expr(s)
        ctx.ob("remove", "removes at position(key)", render(e[2][1]) == POS + ".0", s.loc(), render(e[2][1]))
        ctx.guarded("remove", "removal only if the key was found", s, lambda c, r, l: l == "Some" and r == "discr(libp2p_kad::kbucket::bucket::KBucket::position(self, key))", "position(key) is Some")
    for s in st:
        ctx.ob("remove", "status is taken at the removed position", render(b.site_expr(s)[2][1]) == POS, s.loc(), R(b, s)[:160])
        after = b.reachable(b.succ[s.bb])
        ok = all(x.bb in after and s.bb not in b.reachable(b.succ[x.bb]) and b.dominates(s.bb, x.bb) for x, _, _ in fx)
        ctx.ob("remove", "status is read before the boundary is adjusted", ok, s.loc(), "status() dominates every boundary write")
    none_edge = tg(lib.switch_edges_on(b, r"^discr\(libp2p_kad::kbucket::bucket::KBucket::position\(self, key\)\)$", {"None"}))
    got = cnt(b, none_edge, rets, rm + [x for x, _, _ in fx]) if none_edge else None
    ctx.ob("remove", "unknown key: nothing changes", got == (0, 0), W, str(got))
    known = lk.enum_known_edges(b, r"^libp2p_kad::kbucket::bucket::KBucket::status\(self, ", NS, ["Connected", "Disconnected"])
    conn, disc = tg(known["Connected"]), tg(known["Disconnected"])
    ctx.ob("remove", "floor:status arms", len(conn) == 1 and len(disc) == 1, W, nontrivial=False, msg="%s %s" % (conn, disc))
    sets = [s for s, k, _ in fx if k == "set"]
    decs = [s for s, k, _ in fx if k == "dec"]
    other = [(k, t[:60]) for _, k, t in fx if k not in ("set", "dec")]
    ctx.ob("remove", "boundary written only by := None and -= 1", not other, W, str(other))
    # Disconnected arm
    if disc:
        some = [t for (s_, t) in lib.switch_edges_on(b, r"^discr\(self\.first_connected_pos\)$", {"Some"}) if s_ in b.reachable(disc)]
        none = [t for (s_, t) in lib.switch_edges_on(b, r"^discr\(self\.first_connected_pos\)$", {"None"}) if s_ in b.reachable(disc)]
        a = (cnt(b, some, rets, decs), cnt(b, some, rets, sets)) if some else None
        ctx.ob("remove", "Disconnected,Some: boundary -1 exactly once", a == ((1, 1), (0, 0)), W, "-=1, := : %s" % (a,))
        n_ = cnt(b, none, rets, [x for x, _, _ in fx]) if none else None
        ctx.ob("remove", "Disconnected,None: boundary untouched", n_ == (0, 0), W, str(n_))
        ctx.ob("remove", "Disconnected: no decrement outside this arm", all(s.bb in b.reachable(disc) and s.bb not in b.reachable(conn) for s in decs) and bool(decs), W, "")
    for s in decs:
        l = s.stmt["p"]["l"]
        ctx.ob("remove", "-= 1 targets the boundary", render(b.init_expr(l)) == "self.first_connected_pos@Some.0", s.loc(), render(b.init_expr(l)))
    # Connected arm
    if conn:
        rc = b.reachable(conn)
        ctx.ob("remove", "Connected: boundary only ever cleared", all(s.bb in rc and s.bb not in b.reachable(disc) for s in sets) and len(sets) == 1, W, "%d := sites" % len(sets))
        for s in sets:
            ctx.ob("remove", "Connected: boundary := None", R(b, s) == "std::option::Option::None{}", s.loc(), R(b, s))
            at_b = lib.switch_edges_on(b, r"^std::option::Option::is_some_and\(self\.first_connected_pos, closure:", {"true"})
            ok = bool(at_b) and b.must_pass_edges(s.bb, at_b)
            ctx.ob("remove", "Connected: boundary cleared only if removed node was at the boundary", ok, s.loc(), "is_some_and(|p| p == pos) true edge")
            last = set()
            for bi in b.live:
                info = b.switch_info(bi)
                if not info or info[0][0] != "bin" or info[0][1] != "Eq":
                    continue
                ops = {render(info[0][2]), render(info[0][3])}
                if ops == {POS + ".0", "std::vec::Vec::len(self.nodes)"}:
                    lens = [c[3] for c in mir.calls_in(info[0], r"Vec::len$")]
                    if all(l in b.reachable(b.succ[rm[0].bb]) for l in lens):
                        last |= {(bi, t) for t, ls in info[1].items() if ls == {"true"}}
            ok = bool(last) and b.must_pass_edges(s.bb, last)
            ctx.ob("remove", "Connected: boundary cleared only if removed node was last", ok, s.loc(), "pos == nodes.len() measured after the removal")
            both = [t for (_, t) in last]
            got = cnt(b, both, rets, sets) if both else None
            ctx.ob("remove", "Connected: at the boundary and last => boundary cleared", got == (1, 1), s.loc(), str(got))
        for bi in lk.switch_blocks(b, r"^std::option::Option::is_some_and\(self\.first_connected_pos, closure:"):
            for cb, rs in lk.closure_ret(prog, b, b.switch_info(bi)[0]):
                ok = rs in (["Eq(p, ^pos.0)"], ["Eq(^pos.0, p)"]) or (len(rs) == 1 and re.match(r"^Eq\((\w+), \^pos\.0\)$|^Eq\(\^pos\.0, (\w+)\)$", rs[0]) is not None)
                ctx.ob("remove", "Connected: closure tests boundary == removed position", ok, lk.where(cb), str(rs))
                ctx.ob("remove", "Connected: closure captures the removed position", "closure:" in render(b.switch_info(bi)[0]) and ("[" + POS + ".0]") in render(b.switch_info(bi)[0]), lk.where(cb), render(b.switch_info(bi)[0])[-140:])
    for s in lk.ret_sites(b):
        t = R(b, s)
        if "Option::Some" in t:
            ok = re.search(r"tuple\{0: std::vec::Vec::remove\(self\.nodes, .*\), 1: libp2p_kad::kbucket::bucket::KBucket::status\(self, .*\), 2: " + re.escape(POS) + r"\}", t) is not None
            ctx.ob("remove", "returns (removed node, prior status, position)", ok, s.loc(), t[-200:])


# ------------------------------------------------------------------------------------------------ apply_pending
def check_apply(ctx, prog, b):
    rets = b.return_blocks()
    W = lk.where(b)
    PEND = r"std::option::Option::take\(self\.pending\)@Some\.0"
    rm, pushes, inserts = nodes_calls(b, "remove"), nodes_calls(b, "push"), nodes_calls(b, "insert")
    ctx.floor("apply_pending", "evictions (Vec::remove)", rm, 3)
    ctx.floor("apply_pending", "insertions (push/insert)", pushes + inserts, 3)
    fx = lk.field_effects(b, "first_connected_pos")
    ctx.floor("apply_pending", "boundary writes", fx, 1)
    take = lk.recv_calls(b, r"Option::take$", r"^self\.pending$")
    ctx.floor("apply_pending", "pending.take()", take, 1, exact=True)

    def timeout_edge(c, r, l):
        if re.search(r"PartialOrd::le\(" + PEND + r"\.replace, web_time::Instant::now\(\)\)$", r) or re.search(r"PartialOrd::ge\(web_time::Instant::now\(\), " + PEND + r"\.replace\)$", r):
            return l == "true"
        if re.search(r"PartialOrd::gt\(" + PEND + r"\.replace, web_time::Instant::now\(\)\)$", r) or re.search(r"PartialOrd::lt\(web_time::Instant::now\(\), " + PEND + r"\.replace\)$", r):
            return l == "false"
        return False

    full = lib.at_limit_edges(b, LEN, CAP)
    full = {(s, t) for (s, t) in full if not any(render(b.switch_info(s)[0]).startswith(x) for x in ("Eq", "Ne"))}
    head = lk.enum_known_edges(b, r"^libp2p_kad::kbucket::bucket::KBucket::status\(self, libp2p_kad::kbucket::bucket::Position::Position\{0: 0\}\)$", NS, ["Connected", "Disconnected"])
    for s in rm:
        e = b.site_expr(s)
        ctx.ob("apply_pending", "evicts the least-recently connected node (index 0)", e[2][1][0] == "const" and e[2][1][1] == 0, s.loc(), "Vec::remove index = %s" % render(e[2][1]))
        ctx.guarded("apply_pending", "eviction only after timeout", s, timeout_edge, "pending.replace <= Instant::now()")
        ctx.ob("apply_pending", "eviction only if bucket full", bool(full) and b.must_pass_edges(s.bb, full), s.loc(), "nodes.len() >= capacity edge")
        ctx.ob("apply_pending", "eviction only if head not Connected", bool(head["Disconnected"]) and b.must_pass_edges(s.bb, head["Disconnected"]), s.loc(),
               "status(Position(0)) == Connected is false on every path")
    for s in pushes + inserts:
        ctx.ob("apply_pending", "direct insertion only after an eviction", b.must_pass_nodes([0], [s.bb], lib.bbs(rm)), s.loc(), "every path to this push/insert passes Vec::remove(nodes, 0)")
        node = render(b.site_expr(s)[2][-1])
        ctx.ob("apply_pending", "inserted node is the pending node", re.match("^" + PEND + r"\.node$", node) is not None, s.loc(), node)
    # head Connected => nothing happens
    hc = tg(head["Connected"])
    got = cnt(b, hc, rets, rm + pushes + inserts + [x for x, _, _ in fx]) if hc else None
    ctx.ob("apply_pending", "head still Connected: bucket unchanged", got == (0, 0), W, str(got))
    # not expired => restored
    pend = lk.field_effects(b, "pending")
    restore = [s for s, k, t in pend if k == "set" and re.match(r"^std::option::Option::Some\{0: " + PEND + r"\}$", t)]
    ctx.floor("apply_pending", "restore of unexpired pending", restore, 1)
    early = set()
    for bi in b.live:
        info = b.switch_info(bi)
        if info:
            r = render(info[0])
            for t, ls in info[1].items():
                if ls and all((not timeout_edge(info[0], r, l)) and timeout_edge(info[0], r, "true" if l == "false" else "false") for l in ls):
                    early.add((bi, t))
    ee = tg(early)
    ctx.ob("apply_pending", "floor:not-yet-expired edge", len(ee) == 1, W, nontrivial=False, msg=str(ee))
    if ee:
        got = cnt(b, ee, rets, restore), cnt(b, ee, rets, rm + pushes + inserts + [x for x, _, _ in fx])
        ctx.ob("apply_pending", "unexpired pending node is put back, bucket unchanged", got == ((1, 1), (0, 0)), W, "restore %s, mutations %s" % got)
        for s in lk.ret_sites(b):
            if s.bb in b.reachable(ee) and not any(s.bb in b.reachable([x]) for x in tg(lib.switch_edges_on(b, r"PartialOrd::(le|ge|lt|gt)\(", {"true", "false"}) - early)):
                ctx.ob("apply_pending", "unexpired: returns None", R(b, s) == "std::option::Option::None{}", s.loc(), R(b, s)[:80])
    # arms after the head test
    ps = lk.enum_known_edges(b, "^" + PEND + r"\.status$", NS, ["Connected", "Disconnected"])
    pc, pd = tg(ps["Connected"]), tg(ps["Disconnected"])
    ctx.ob("apply_pending", "floor:pending status arms", len(pc) == 1 and len(pd) == 1, W, nontrivial=False, msg="%s %s" % (pc, pd))
    if pc:
        a = cnt(b, pc, rets, rm), cnt(b, pc, rets, pushes), cnt(b, pc, rets, inserts), cnt(b, pc, rets, [x for x, _, _ in fx])
        ctx.ob("apply_pending", "connected pending: one eviction, one push at the end, boundary adjusted once", a == ((1, 1), (1, 1), (0, 0), (1, 1)), W, "remove %s push %s insert %s boundary writes %s" % a)
        for s, k, t in fx:
            inarm = s.bb in b.reachable(pc) and (not pd or s.bb not in b.reachable(pd))
            ctx.ob("apply_pending", "boundary written only in the connected-pending arm", inarm, s.loc(), "%s %s" % (k, t[:120]))
            if not inarm:
                continue
            ok = k == "set" and re.match(r"^std::option::Option::map_or_else\(self\.first_connected_pos, closure:.*\[self\.nodes\], closure:.*\[\]\)$", t) is not None
            ctx.ob("apply_pending", "connected pending: boundary := fcp.map_or_else(len, p-1)", ok, s.loc(), t[:200])
            cr = lk.closure_ret(prog, b, b.site_expr(s))
            if len(cr) == 2:
                ctx.ob("apply_pending", "connected pending: no connected node before => boundary = Some(len after eviction)", cr[0][1] == ["std::option::Option::Some{0: std::vec::Vec::len(^*self.nodes)}"], lk.where(cr[0][0]), str(cr[0][1]))
                ctx.ob("apply_pending", "connected pending: boundary moves down by one", len(cr[1][1]) == 1 and re.match(r"^core::num::checked_sub\(\w+, 1\)$", cr[1][1][0]) is not None, lk.where(cr[1][0]), str(cr[1][1]))
            else:
                ctx.ob("apply_pending", "connected pending: boundary closures found", False, s.loc(), "%d closures" % len(cr))
            mo = [c[3] for c in mir.calls_in(b.site_expr(s), r"Option::map_or_else$")]
            r_in = [x.bb for x in rm if x.bb in b.reachable(pc)]
            p_in = [x.bb for x in pushes if x.bb in b.reachable(pc)]
            ok = bool(mo) and bool(r_in) and bool(p_in) and all(b.dominates(r, m) and b.dominates(m, p) and m not in (r, p) for m in mo for r in r_in for p in p_in)
            ctx.ob("apply_pending", "connected pending: boundary computed between the eviction and the push", ok, s.loc(), "remove %s < map_or_else %s < push %s" % (r_in, mo, p_in))
    if pd:
        some = [t for (s_, t) in lib.switch_edges_on(b, r"^discr\(self\.first_connected_pos\)$", {"Some"}) if s_ in b.reachable(pd)]
        none = [t for (s_, t) in lib.switch_edges_on(b, r"^discr\(self\.first_connected_pos\)$", {"None"}) if s_ in b.reachable(pd)]
        ctx.ob("apply_pending", "floor:disconnected pending boundary test", len(some) == 1 and len(none) == 1, W, nontrivial=False, msg="%s %s" % (some, none))
        w = cnt(b, pd, rets, [x for x, _, _ in fx])
        ctx.ob("apply_pending", "disconnected pending, some connected: boundary not written", w == (0, 0), W,
               "evicting a disconnected head (-1) and inserting a disconnected node before the boundary (+1) leave it unchanged; writes on paths: %s" % (w,))
        if some:
            a = cnt(b, some, rets, rm), cnt(b, some, rets, inserts), cnt(b, some, rets, pushes)
            ctx.ob("apply_pending", "disconnected pending, some connected: one eviction, one positional insert", a == ((1, 1), (1, 1), (0, 0)), W, "remove %s insert %s push %s" % a)
        if none:
            a = cnt(b, none, rets, rm), cnt(b, none, rets, pushes), cnt(b, none, rets, inserts)
            ctx.ob("apply_pending", "disconnected pending, none connected: one eviction, one push", a == ((1, 1), (1, 1), (0, 0)), W, "remove %s push %s insert %s" % a)
        for s in inserts:
            idx = render(b.site_expr(s)[2][1])
            ok = re.match(r"^std::option::Option::expect\(core::num::checked_sub\(self\.first_connected_pos@Some\.0, 1\), .*\)$|^SubWithOverflow\(self\.first_connected_pos@Some\.0, 1\)\.0$|^Sub\(self\.first_connected_pos@Some\.0, 1\)$", idx) is not None
            ctx.ob("apply_pending", "disconnected pending: inserted at boundary - 1 (end of the shifted disconnected prefix)", ok, s.loc(), idx)
            r_in = [x.bb for x in rm if x.bb in b.reachable(some)]
            ctx.ob("apply_pending", "disconnected pending: eviction precedes the positional insert", bool(r_in) and all(b.dominates(r, s.bb) for r in r_in), s.loc(), "")
    # room in the bucket
    room, _ = lib.strict_limit_edges(b, LEN, CAP)
    ic = b.call_sites(KB + r"insert$")
    ctx.floor("apply_pending", "self.insert on the room edge", ic, 1)
    for s in ic:
        ctx.ob("apply_pending", "room: delegated insert only below capacity", bool(room) and b.must_pass_edges(s.bb, room), s.loc(), "")
        ctx.guarded("apply_pending", "room: delegated insert only after timeout", s, timeout_edge, "pending.replace <= now")
        e = b.site_expr(s)
        ok = re.match("^" + PEND + r"\.node$", render(e[2][1])) and re.match("^" + PEND + r"\.status$", render(e[2][2]))
        ctx.ob("apply_pending", "room: inserts the pending node with its own status", bool(ok), s.loc(), R(b, s)[-160:])
    rt = tg(room)
    if rt:
        got = cnt(b, rt, rets, rm + pushes + inserts + [x for x, _, _ in fx])
        ctx.ob("apply_pending", "room: no eviction", got == (0, 0), W, str(got))
    # results
    for s in lk.ret_sites(b):
        t = R(b, s)
        if "AppliedPending" not in t:
            continue
        ok = re.search(r"inserted: libp2p_kad::<kbucket::bucket::Node as std::clone::Clone>::clone\(" + PEND + r"\.node\)", t) is not None
        ctx.ob("apply_pending", "reports the pending node as inserted", ok, s.loc(), t[-220:])
        ev = cnt(b, [0], [s.bb], rm)
        if "evicted: std::option::Option::Some{0: std::vec::Vec::remove(self.nodes, 0)}" in t:
            ctx.ob("apply_pending", "reported eviction <=> a node was removed", ev == (1, 1), s.loc(), str(ev))
        else:
            ctx.ob("apply_pending", "no reported eviction <=> nothing removed", ev == (0, 0) and "evicted: std::option::Option::None{}" in t, s.loc(), "%s %s" % (ev, t[-80:]))
    some_ret = [s for s in lk.ret_sites(b) if "AppliedPending" in R(b, s)]
    ctx.floor("apply_pending", "Some(AppliedPending) results", some_ret, 4)
    for s in rm:
        got = cnt(b, b.succ[s.bb], rets, some_ret)
        ctx.ob("apply_pending", "every eviction is reported", got == (1, 1), s.loc(), str(got))
    # pending slot is cleared whenever applied or dropped: only restore writes pending
    others = [(k, t[:80]) for s, k, t in pend if not (k == "set" and s in restore) and not (k.startswith("call:") and k.endswith("Option::take"))]
    ctx.ob("apply_pending", "pending slot only taken and (if unexpired) restored", not others, W, str(others))


# ------------------------------------------------------------------------------------------------ status / update
def check_status(ctx, prog, b):
    W = lk.where(b)
    sw = lk.switch_blocks(b, r"^std::option::Option::is_some_and\(self\.first_connected_pos, closure:")
    ctx.ob("status", "floor:is_some_and(first_connected_pos, ..) dispatch", len(sw) == 1, W, nontrivial=False, msg=str(sw))
    for bi in sw:
        cond, labs = b.switch_info(bi)
        ctx.ob("status", "closure captures pos.0", render(cond).endswith("[pos.0])"), W, render(cond)[-60:])
        for cb, rs in lk.closure_ret(prog, b, cond):
            ok = len(rs) == 1 and re.match(r"^Ge\(\^pos\.0, \w+\)$|^Le\(\w+, \^pos\.0\)$", rs[0]) is not None
            ctx.ob("status", "closure is pos >= boundary", ok, lk.where(cb), str(rs))
        for t, ls in labs.items():
            vals = {R(b, s) for s in lk.ret_sites(b) if s.bb in b.reachable([t])}
            want = "libp2p_kad::kbucket::bucket::NodeStatus::Connected{}" if ls == {"true"} else "libp2p_kad::kbucket::bucket::NodeStatus::Disconnected{}"
            ctx.ob("status", "pos >= boundary is %s => %s" % (sorted(ls), want.split("::")[-1]), vals == {want}, W, str(sorted(vals)))
    it = ctx.body(K, KB + r"iter::\{closure#0\}$")
    rs = [R(it, s) for s in lk.ret_sites(it)]
    ok = len(rs) == 1 and re.match(r"^tuple\{0: arg2\.1, 1: libp2p_kad::kbucket::bucket::KBucket::status\(\^self, libp2p_kad::kbucket::bucket::Position::Position\{0: arg2\.0\}\)\}$", rs[0]) is not None
    ctx.ob("status", "iter(): each node is reported with the status of its own position", ok, lk.where(it), str(rs)[:200])


def check_update(ctx, b):
    W = lk.where(b)
    rmc = b.call_sites(KB + r"remove$")
    ic = b.call_sites(KB + r"insert$")
    ctx.floor("update", "remove + insert", rmc + ic, 2)
    for s in ic:
        e = b.site_expr(s)
        ok = render(e[2][1]) == "libp2p_kad::kbucket::bucket::KBucket::remove(self, key)@Some.0.0" and render(e[2][2]) == "status"
        ctx.ob("update", "re-inserts the removed node with the new status", ok, s.loc(), R(b, s)[-200:])
        ctx.ob("update", "re-insert only after the removal succeeded", bool(rmc) and b.must_pass_edges(s.bb, lib.switch_edges_on(b, r"^discr\(libp2p_kad::kbucket::bucket::KBucket::remove\(self, key\)\)$", {"Some"})), s.loc(), "")
    some = tg(lib.switch_edges_on(b, r"^discr\(libp2p_kad::kbucket::bucket::KBucket::remove\(self, key\)\)$", {"Some"}))
    if some:
        got = cnt(b, some, b.return_blocks(), ic)
        ctx.ob("update", "a found node is re-inserted exactly once", got == (1, 1), W, str(got))
    pend = lk.field_effects(b, "pending")
    ctx.floor("update", "pending := None", pend, 1)
    st = lk.enum_known_edges(b, r"^status$", NS, ["Connected", "Disconnected"])
    for s, k, t in pend:
        ctx.ob("update", "pending only ever dropped here", k == "set" and t == "std::option::Option::None{}", s.loc(), "%s %s" % (k, t[:80]))
        ctx.guarded("update", "pending dropped only if the head (Position(0)) was updated", s,
                    lambda c, r, l: l == "true" and re.search(r"Position as std::cmp::PartialEq>::eq\(libp2p_kad::kbucket::bucket::KBucket::remove\(self, key\)@Some\.0\.2, libp2p_kad::kbucket::bucket::Position::Position\{0: 0\}\)$", r) is not None,
                    "pos == Position(0)")
        ctx.ob("update", "pending dropped only if the head became Connected", bool(st["Connected"]) and b.must_pass_edges(s.bb, st["Connected"]), s.loc(), "status == Connected")


# ------------------------------------------------------------------------------------------------ table level
def check_table(ctx, prog):
    DIST = r"libp2p_kad::kbucket::key::KeyBytes::distance\(std::convert::AsRef::as_ref\(self\.local_key\), key\)"
    NEW = r"libp2p_kad::kbucket::BucketIndex::new\(" + DIST + r"\)"
    for fn in ("entry", "bucket"):
        b = ctx.body(K, r"^libp2p_kad::kbucket::KBucketsTable::%s$" % fn)
        W = lk.where(b)
        idx = [s for s in b.call_sites(r"Index(Mut)?>::index(_mut)?$") if render(b.site_expr(s)[2][0]) == "self.buckets"]
        ctx.floor("table", fn + ": buckets[..]", idx, 1, exact=True)
        ap = b.call_sites(KB + r"apply_pending$")
        ctx.floor("table", fn + ": apply_pending", ap, 1, exact=True)
        for s in idx:
            i = render(b.site_expr(s)[2][1])
            ok = re.match(r"^libp2p_kad::kbucket::BucketIndex::get\(<std::option::Option as std::ops::Try>::branch\(" + NEW + r"\)@Continue\.0\)$|^" + NEW + r"@Some\.0\.0$|^libp2p_kad::kbucket::BucketIndex::get\(" + NEW + r"@Some\.0\)$", i) is not None
            ctx.ob("table", fn + ": bucket index = BucketIndex::new(distance(local_key, key))", ok, s.loc(), i[:240])
            ctx.guarded("table", fn + ": no bucket is touched for the local key (index None)", s,
                        lambda c, r, l: (l == "Continue" and re.match(r"^discr\(<std::option::Option as std::ops::Try>::branch\(" + NEW + r"\)\)$", r) is not None)
                        or (l == "Some" and re.match(r"^discr\(" + NEW + r"\)$", r) is not None), "BucketIndex::new(..) is Some")
        for s in ap:
            ok = all(render(b.site_expr(s)[2][0]) == R(b, x) for x in idx)
            ctx.ob("table", fn + ": pending entry applied on the selected bucket", ok, s.loc(), R(b, s)[:120])
        # the None case returns None
        none_edges = lib.switch_edges_on(b, r"^discr\(" + NEW + r"\)$", {"None"}) | lib.switch_edges_on(b, r"^discr\(<std::option::Option as std::ops::Try>::branch\(" + NEW + r"\)\)$", {"Break"})
        nt = tg(none_edges)
        ctx.ob("table", fn + ": floor:local-key edge", len(nt) == 1, W, nontrivial=False, msg=str(nt))
        if nt:
            calls = [s for s in b.call_sites() if s.bb in b.reachable(nt) and not re.search(r"from_residual$", strip_generics(b.call_name(s.term)))]
            ctx.ob("table", fn + ": local key => returns without touching any bucket", not calls, W, str([R(b, s)[:60] for s in calls]))
        if fn == "entry":
            en = b.call_sites(r"^libp2p_kad::kbucket::entry::Entry::new$")
            ctx.floor("table", "entry: Entry::new", en, 1, exact=True)
            for s in en:
                e = b.site_expr(s)
                ok = all(render(e[2][0]) == R(b, x) for x in idx) and render(e[2][1]) == "key"
                ctx.ob("table", "entry: Entry is built on the selected bucket for the same key", ok, s.loc(), "")
                ctx.ob("table", "entry: apply_pending precedes Entry::new", bool(ap) and all(b.dominates(a.bb, s.bb) and a.bb not in b.reachable(b.succ[s.bb]) for a in ap), s.loc(),
                       "a pending node that became a member is seen as Present, not Absent")
            pb = [s for s in b.call_sites(r"VecDeque::push_back$") if "self.applied_pending" in R(b, s)]
            some = tg(lib.switch_edges_on(b, r"^discr\(libp2p_kad::kbucket::bucket::KBucket::apply_pending\(", {"Some"}))
            got = cnt(b, some, b.return_blocks(), pb) if some else None
            ctx.ob("table", "entry: every applied pending entry is recorded once", got == (1, 1), W, str(got))
    # Entry::new classification
    en = ctx.body(K, r"^libp2p_kad::kbucket::entry::Entry::new$")
    P = r"^discr\(libp2p_kad::kbucket::bucket::KBucket::position\(bucket, key\)\)$"
    A = r"^discr\(libp2p_kad::kbucket::bucket::KBucket::as_pending\(bucket, key\)\)$"
    for variant, guards in (("Present", [(P, "Some")]), ("Pending", [(P, "None"), (A, "Some")]), ("Absent", [(P, "None"), (A, "None")])):
        rs = [s for s in lk.ret_sites(en) if lib.agg_variants(en.site_expr(s), r"entry::Entry$") == [variant]]
        ctx.floor("table", "Entry::" + variant, rs, 1)
        for s in rs:
            for pat, lab in guards:
                ed = lib.switch_edges_on(en, pat, {lab})
                ctx.ob("table", "Entry::%s only if %s is %s" % (variant, "position(key)" if pat == P else "as_pending(key)", lab), bool(ed) and en.must_pass_edges(s.bb, ed), s.loc(), "")
            t = R(en, s)
            if variant == "Present":
                ctx.ob("table", "Entry::Present carries status(position(key))", "1: libp2p_kad::kbucket::bucket::KBucket::status(bucket, libp2p_kad::kbucket::bucket::KBucket::position(bucket, key)@Some.0)" in t, s.loc(), t[-200:])
            if variant == "Pending":
                ctx.ob("table", "Entry::Pending carries the pending node's status", "1: libp2p_kad::kbucket::bucket::PendingNode::status(libp2p_kad::kbucket::bucket::KBucket::as_pending(bucket, key)@Some.0)" in t, s.loc(), t[-200:])
    for fn, fld in (("position", "p.key"), ("as_pending", "p.node.key")):
        cb = ctx.body(K, KB + fn + r"::\{closure#0\}$")
        rs = [R(cb, s) for s in lk.ret_sites(cb)]
        ok = len(rs) == 1 and re.match(r"^std::cmp::impls::eq\(std::convert::AsRef::as_ref\(%s\), std::convert::AsRef::as_ref\(\^\*key\)\)$" % re.escape(fld), rs[0]) is not None
        ctx.ob("table", "%s compares key bytes of the stored node with the queried key" % fn, ok, lk.where(cb), str(rs))
    ai = ctx.body(K, r"^libp2p_kad::kbucket::entry::AbsentEntry::insert$")
    for s in ai.call_sites(KB + r"insert$"):
        t = R(ai, s)
        ok = re.match(r"^libp2p_kad::kbucket::bucket::KBucket::insert\(self\.0\.bucket, libp2p_kad::kbucket::bucket::Node::Node\{key: std::clone::Clone::clone\(self\.0\.key\), value: value\}, status\)$", t) is not None
        ctx.ob("table", "AbsentEntry::insert stores the entry's own key in the entry's bucket", ok, s.loc(), t[:220])
    bn = ctx.body(K, r"^libp2p_kad::kbucket::BucketIndex::new$")
    rs = [R(bn, s) for s in lk.ret_sites(bn)]
    ok = len(rs) == 1 and re.match(r"^std::option::Option::map\(libp2p_kad::kbucket::key::Distance::ilog2\(d\), closure:", rs[0]) is not None
    ctx.ob("table", "BucketIndex::new = ilog2(distance).map(BucketIndex), None for distance 0", ok, lk.where(bn), str(rs)[:200])


def check_who(ctx, prog):
    callers = sorted({s.body.npath for s in prog.callers(K, KB + r"insert$")})
    want = ["libp2p_kad::kbucket::bucket::KBucket::apply_pending", "libp2p_kad::kbucket::bucket::KBucket::update", "libp2p_kad::kbucket::entry::AbsentEntry::insert"]
    ctx.ob("who", "KBucket::insert called only via AbsentEntry / update / apply_pending", callers == want, msg=str(callers))
    ab = sorted({s.body.npath for s in prog.callers(K, r"^libp2p_kad::kbucket::entry::AbsentEntry::new$")})
    ctx.ob("who", "AbsentEntry constructed only by Entry::new", ab == ["libp2p_kad::kbucket::entry::Entry::new"], msg=str(ab))
    agg = sorted({b.npath for b in prog.bodies(K) if b.agg_sites(r"kbucket::entry::AbsentEntry$")})
    ctx.ob("who", "AbsentEntry aggregate built only in AbsentEntry::new", agg == ["libp2p_kad::kbucket::entry::AbsentEntry::new"], msg=str(agg))
    allowed_nodes = {"insert": {"std::vec::Vec::push", "std::vec::Vec::insert"}, "remove": {"std::vec::Vec::remove"},
                     "apply_pending": {"std::vec::Vec::push", "std::vec::Vec::insert", "std::vec::Vec::remove"},
                     "get_mut": {"<std::vec::Vec as std::ops::DerefMut>::deref_mut"}}
    n = 0
    for b in prog.bodies(K):
        if "kbucket" not in b.npath:
            continue
        for f in ("nodes", "first_connected_pos"):
            for s, k, t in lk.field_effects(b, f):
                if f == "nodes" and not re.search(r"kbucket::bucket::KBucket", b.npath):
                    continue
                n += 1
                fn = b.npath.split("::")[-1]
                if f == "nodes":
                    ok = k.startswith("call:") and k[5:] in allowed_nodes.get(fn, set())
                    ctx.ob("who", "nodes mutated only by insert/remove/apply_pending (get_mut: element access)", ok, s.loc(), "%s in %s" % (k, b.short))
                else:
                    ok = fn in ("insert", "remove", "apply_pending") and b.npath.startswith("libp2p_kad::kbucket::bucket::KBucket::")
                    ctx.ob("who", "first_connected_pos written only by insert/remove/apply_pending", ok, s.loc(), "%s in %s" % (k, b.short))
    ctx.ob("who", "floor:mutation sites", n >= 15, nontrivial=False, msg=str(n))
    for ctor in ("new", "default"):
        pat = r"^libp2p_kad::kbucket::bucket::KBucket::new$" if ctor == "new" else r"kbucket::bucket::KBucket as std::default::Default>::default$"
        b = ctx.body(K, pat)
        ags = b.agg_sites(r"kbucket::bucket::KBucket$")
        for s in ags:
            t = R(b, s)
            ctx.ob("who", "KBucket::%s starts empty with no boundary and no pending node" % ctor, "first_connected_pos: std::option::Option::None{}" in t and "pending: std::option::Option::None{}" in t and "nodes: std::vec::Vec::with_capacity(" in t, s.loc(), t[:260])
            if ctor == "new":
                ctx.ob("who", "KBucket::new capacity = config.bucket_size", "capacity: config.bucket_size" in t, s.loc(), t[:260])
    sites = sorted((b.npath, R(b, s)) for b in prog.bodies(K) for s in b.agg_sites(r"^libp2p_kad::kbucket::BucketIndex$"))
    want = sorted([
        ("libp2p_kad::kbucket::BucketIndex::new::{closure#0}", "libp2p_kad::kbucket::BucketIndex::BucketIndex{0: (i as usize)}"),
        ("libp2p_kad::kbucket::KBucketsTable::iter::{closure#0}", "libp2p_kad::kbucket::BucketIndex::BucketIndex{0: arg2.0}"),
        ("libp2p_kad::kbucket::ClosestBucketsIter::new", "libp2p_kad::kbucket::BucketIndex::BucketIndex{0: 0}"),
        ("libp2p_kad::kbucket::ClosestBucketsIter::next_in::{closure#0}", "libp2p_kad::kbucket::BucketIndex::BucketIndex{0: i}"),
        ("libp2p_kad::kbucket::ClosestBucketsIter::next_out::{closure#0}", "libp2p_kad::kbucket::BucketIndex::BucketIndex{0: i}"),
        ("libp2p_kad::<kbucket::ClosestBucketsIter as std::iter::Iterator>::next", "libp2p_kad::kbucket::BucketIndex::BucketIndex{0: 0}"),
    ])
    ctx.ob("who", "BucketIndex constructed only at the audited sites (none derives an index for a key except BucketIndex::new)", [x[0] for x in sites] == [x[0] for x in want], msg=str([x[0].split("kbucket::")[-1] for x in sites]))
