"""C37 k-bucket structural invariants — limits (K9), per-arm effect counting on the disconnected/connected boundary (K2), guards (K1), who-may-call (K4), origin (K5)."""
import re

from .. import lib, mir
from .. import lib_kad as lk
from ..mir import render, strip_generics
from ..lib_kad import R, cnt, tg, K

EXPLANATION = (
    "KBucket keeps `nodes` = [disconnected..., connected...] with `first_connected_pos` (fcp) marking the boundary. Decided per function, on every "
    "CFG path: insert — Connected arm pushes at the end only on the not-full edge and sets fcp = fcp.or(Some(len before push)); Disconnected arm "
    "inserts exactly at the boundary index and moves the boundary by +1 exactly once, or pushes when there is no connected node; full bucket => "
    "no mutation of nodes/fcp; a pending node is recorded only when full, fcp != Some(0) and no pending node exists, with replace = now + "
    "pending_timeout. remove — removes at position(key), status taken before the boundary is adjusted; Disconnected arm moves the boundary -1 "
    "exactly once, Connected arm clears it exactly when the removed node was at the boundary and was the last element. apply_pending — every "
    "eviction is Vec::remove(nodes, 0), reachable only if pending.replace <= now, len >= capacity and status(Position(0)) is not Connected; each "
    "evicting arm performs exactly one removal and exactly one insertion; connected pending goes to the end with fcp adjusted once "
    "(None -> Some(len after removal), Some(p) -> p-1) between the removal and the push; a disconnected pending is inserted at fcp-1 / pushed "
    "and the boundary is not written at all; an unexpired pending node is restored. status(pos) = Connected iff fcp is Some(i) and pos >= i. "
    "Table level: the bucket index of entry()/bucket() is BucketIndex::new(distance(local_key, key)) with the None (distance 0 = local key) case "
    "returning None before any bucket is touched, apply_pending runs before the Entry is built, Entry::new yields Absent only when neither "
    "position(key) nor as_pending(key) finds the key, and KBucket::insert has exactly three callers (AbsentEntry::insert, update, apply_pending); "
    "nodes / first_connected_pos are mutated by no other function; BucketIndex values are constructed only at the six audited sites.")
ASSUMPTIONS = ["std Vec::insert/remove/push and Option::or/map_or_else semantics",
               "the full ordering invariant over histories follows from the per-operation clauses by induction, which is not mechanised here",
               "Instant::now monotonicity; KBucketsTable::buckets has NUM_BUCKETS entries (constructor not analysed beyond the constant)"]
TECHNIQUE = ("All patterns are evaluated on a normalised view of the MIR facts (vrules/lib_kad.canon): parameters by position, every "
             "single-definition local expanded to its initialiser, closure captures by index, trivial crate-local helpers (accessors, one-comparison "
             "predicates, one-line constructors) replaced by their bodies, private fields resolved by their type, comparisons normalised over operand "
             "order / mirrored operators / method-call form / `!`, guard sets closed under bool hoisting. Behaviour-preserving refactorings that must stay "
             "silent are archived in /verif/neutral/kad (01-12 and x1-author-combinators.diff).")
SELFTEST = [
    {"mutation": "seeded C37: apply_pending disconnected-pending arm also sets first_connected_pos = Some(insert_pos)", "caught_by": "apply_pending/disconnected pending, some connected: boundary not written"},
    {"mutation": "insert Connected: `>=` -> `>` in len >= capacity", "caught_by": "insert/Connected: push only below capacity"},
    {"mutation": "insert Disconnected: drop `*p += 1`", "caught_by": "insert/Disconnected,Some: boundary +1 exactly once"},
    {"mutation": "remove Connected: drop `&& pos.0 == self.nodes.len()`", "caught_by": "remove/Connected: boundary cleared only if removed node was last"},
    {"mutation": "apply_pending: `pending.replace <= now` -> `>=`", "caught_by": "apply_pending/eviction only after timeout"},
    {"mutation": "apply_pending: status(Position(0)) == Connected -> Disconnected", "caught_by": "apply_pending/eviction only if head not Connected"},
    {"mutation": "status closure `pos.0 >= i` -> `pos.0 > i`", "caught_by": "status/closure is pos >= boundary"},
    {"mutation": "update: `pos == Position(0) && status == Connected` -> `||`", "caught_by": "update/pending dropped only if the head (Position(0)) was updated"},
    {"mutation": "apply_pending closure#1 `p.checked_sub(1)` -> `Some(p)`", "caught_by": "apply_pending/connected pending: boundary moves down by one"},
    {"mutation": "Entry::new: `bucket.as_pending(key)` -> `bucket.pending()`", "caught_by": "table/Entry::Pending only if as_pending(key) is Some"},
    {"mutation": "KBucketsTable::entry: `BucketIndex::new(..)?` -> `.unwrap_or(BucketIndex(0))`", "caught_by": "table/entry: no bucket is touched for the local key (index None)"},
]

KB = r"^libp2p_kad::kbucket::bucket::KBucket::"
NS = r"kbucket::bucket::NodeStatus$"


class F:
    """private field names resolved by type (a consistent rename is not an alarm)"""
    nodes = capacity = fcp = pending = timeout = p_node = p_status = p_replace = buckets = local_key = applied = e_bucket = e_key = None


NODES = LEN = CAP = FCP = PENDF = None


def resolve(prog):
    global NODES, LEN, CAP, FCP, PENDF
    kb = r"kbucket::bucket::KBucket$"
    F.nodes = lk.fld(prog, kb, r"^std::vec::Vec<kbucket::bucket::Node<")
    F.capacity = lk.fld(prog, kb, r"^usize$")
    F.fcp = lk.fld(prog, kb, r"^std::option::Option<usize>$")
    F.pending = lk.fld(prog, kb, r"^std::option::Option<kbucket::bucket::PendingNode<")
    F.timeout = lk.fld(prog, kb, r"Duration$")
    pn = r"kbucket::bucket::PendingNode$"
    F.p_node = lk.fld(prog, pn, r"^kbucket::bucket::Node<")
    F.p_status = lk.fld(prog, pn, r"NodeStatus$")
    F.p_replace = lk.fld(prog, pn, r"Instant$")
    kt = r"kbucket::KBucketsTable$"
    F.buckets = lk.fld(prog, kt, r"^std::vec::Vec<kbucket::bucket::KBucket<")
    F.local_key = lk.fld(prog, kt, r"^TKey$")
    F.applied = lk.fld(prog, kt, r"VecDeque<")
    er = r"kbucket::entry::EntryRef$"
    F.e_bucket = lk.fld(prog, er, r"kbucket::bucket::KBucket<")
    F.e_key = lk.fld(prog, er, r"TKey$")
    NODES = r"^self\.%s$" % F.nodes
    LEN = r"^std::vec::Vec::len\(self\.%s\)$" % F.nodes
    CAP = r"^self\.%s$" % F.capacity
    FCP = "self.%s" % F.fcp
    PENDF = "self.%s" % F.pending


PROG = None
PROBLEMS = []
ANALYSED = {"libp2p_kad::kbucket::bucket::KBucket::" + x for x in ("insert", "remove", "apply_pending", "update", "status", "get_mut", "position")}


def nodes_calls(b, m):
    """Vec::<m>(self.nodes, ..) sites of b, including calls of private helpers that perform exactly one such call on every path"""
    return lk.with_helpers(PROG, b, lambda x: lk.recv_calls(x, r"^std::vec::Vec::%s$" % m, NODES), PROBLEMS, ANALYSED)


def fx_of(b, field):
    return lk.with_helpers(PROG, b, lambda x: lk.field_effects(x, field), PROBLEMS, ANALYSED)


def fcp_some_edges(b, labels):
    return lib.switch_edges_on(b, r"^discr\(%s\)$" % re.escape(FCP), labels)


def check(ctx):
    global PROG
    prog = PROG = lk.canon(ctx)
    del PROBLEMS[:]
    resolve(prog)
    ins = ctx.body(K, KB + r"insert$")
    rem = ctx.body(K, KB + r"remove$")
    app = ctx.body(K, KB + r"apply_pending$")
    sta = ctx.body(K, KB + r"status$")
    upd = ctx.body(K, KB + r"update$")
    check_insert(ctx, ins)
    check_remove(ctx, prog, rem)
    check_apply(ctx, prog, app)
    check_status(ctx, prog, sta)
    check_update(ctx, upd)
    check_table(ctx, prog)
    check_who(ctx, prog)
    ctx.ob("who", "every helper that mutates the bucket has a path-independent effect (summarised at its call sites)", not PROBLEMS, msg=str(sorted(set(PROBLEMS)))[:400])


# ------------------------------------------------------------------------------------------------ insert
def arms_of(b, subj_pat):
    k = lk.enum_known_edges(b, subj_pat, NS, ["Connected", "Disconnected"])
    return tg(k["Connected"]), tg(k["Disconnected"])


def check_insert(ctx, b):
    NODE = lk.arg_of_type(b, r"^kbucket::bucket::Node<")          # parameters by type, not by position
    STAT = lk.arg_of_type(b, r"NodeStatus$")
    rets = b.return_blocks()
    W = lk.where(b)
    fx = fx_of(b, F.fcp)
    pushes, inserts = nodes_calls(b, "push"), nodes_calls(b, "insert")
    grow = pushes + inserts
    ctx.floor("insert", "nodes growth sites", grow, 3)
    ctx.floor("insert", "boundary writes", fx, 2)
    removes = nodes_calls(b, "remove")
    ctx.ob("insert", "insert never removes", not removes, W, "%d Vec::remove" % len(removes))
    conn, disc = arms_of(b, "^" + STAT + "$")
    ctx.ob("insert", "floor:status arms", len(conn) == 1 and len(disc) == 1, W, nontrivial=False, msg="%s %s" % (conn, disc))
    rc, rd = b.reachable(conn), b.reachable(disc)
    for s in grow:
        arm = "Connected" if (s.bb in rc and s.bb not in rd) else "Disconnected"
        kind = strip_generics(b.call_name(s.term)).split("::")[-1]
        lk.limit(ctx, "insert", "%s: %s only below capacity" % (arm, kind), s, LEN, CAP, "nodes.len() < capacity on every path to nodes.%s" % kind)
    good = lk.hoisted(b, lk.rel_edges(b, LEN, CAP, "<"))
    full = lk.hoisted(b, lk.rel_edges(b, LEN, CAP, ">="))
    # --- Connected arm
    notfull_c = [t for (s_, t) in good if s_ in rc and s_ not in rd]
    full_c = [t for (s_, t) in full if s_ in rc and s_ not in rd]
    sets = [s for s, k, _ in fx if k == "set"]
    OR_FORM = "std::option::Option::or(%s, std::option::Option::Some{0: std::vec::Vec::len(self.%s)})" % (FCP, F.nodes)
    IF_FORM = "std::option::Option::Some{0: std::vec::Vec::len(self.%s)}" % F.nodes
    csets = [x for x in sets if x.bb in rc and x.bb not in rd]
    conditional = bool(csets) and all(R(b, x) == IF_FORM for x in csets)       # `if fcp.is_none() { fcp = Some(len) }` instead of `fcp.or(..)`
    no_conn = fcp_some_edges(b, {"None"}) | lib.switch_edges_on(b, r"^std::option::Option::is_none\(%s\)$" % re.escape(FCP), {"true"}) | lib.switch_edges_on(b, r"^std::option::Option::is_some\(%s\)$" % re.escape(FCP), {"false"})
    has_conn = fcp_some_edges(b, {"Some"}) | lib.switch_edges_on(b, r"^std::option::Option::is_none\(%s\)$" % re.escape(FCP), {"false"}) | lib.switch_edges_on(b, r"^std::option::Option::is_some\(%s\)$" % re.escape(FCP), {"true"})
    for name, starts, want_grow, want_set in (("Connected,not full", notfull_c, (1, 1), (1, 1)), ("Connected,full", full_c, (0, 0), (0, 0))):
        g = cnt(b, starts, rets, grow) if starts else None
        w = cnt(b, starts, rets, [s for s, _, _ in fx]) if starts else None
        ctx.ob("insert", "%s: nodes grows %s" % (name, want_grow), g == want_grow, W, "growth sites on all paths: %s" % (g,))
        if conditional and want_set == (1, 1):
            nc = [t for (x, t) in no_conn if x in b.reachable(starts)]
            hc = [t for (x, t) in has_conn if x in b.reachable(starts)]
            w1, w0 = (cnt(b, nc, rets, csets) if nc else None), (cnt(b, hc, rets, csets) if hc else None)
            ctx.ob("insert", "%s: boundary written %s" % (name, want_set), w1 == (1, 1) and w0 == (0, 0), W, "conditional form: no connected node yet -> %s write, otherwise %s" % (w1, w0))
        else:
            ctx.ob("insert", "%s: boundary written %s" % (name, want_set), w == want_set, W, "boundary writes on all paths: %s" % (w,))
    for s in csets:
        e = lk.eff_expr(b, s)
        txt = render(e)
        ok = txt == OR_FORM or (conditional and lk.passes(b, s.bb, no_conn))
        ctx.ob("insert", "Connected: boundary := fcp.or(Some(len))", ok, s.loc(), txt[:160])
        lens = [c[3] for c in mir.calls_in(e, r"Vec::len$")]
        pb = [p.bb for p in pushes if p.bb in rc and p.bb not in rd]
        ok2 = bool(lens) and bool(pb) and all(b.dominates(l, p) and l != p and l not in b.reachable(b.succ[p]) for l in lens for p in pb)
        ctx.ob("insert", "Connected: len is read before the push", ok2, s.loc(), "len() blocks %s push blocks %s" % (lens, pb))
    for s in [p for p in pushes if p.bb in rc and p.bb not in rd]:
        ctx.ob("insert", "Connected: pushes the given node", render(lk.eff_expr(b, s)[2][1]) == NODE, s.loc(), R(b, s)[:120])
    ctx.ob("insert", "Connected: appends (no positional insert)", not [s for s in inserts if s.bb in rc and s.bb not in rd], W, "connected nodes go to the end")
    # pending recorded only: full, fcp != Some(0), no pending
    pend = fx_of(b, F.pending)
    ctx.floor("insert", "pending writes", pend, 1)
    some_disc = lk.rel_edges(b, "^" + re.escape(FCP) + "$", r"^std::option::Option::Some\{0: 0\}$", "!=") | lk.rel_edges(b, "^" + re.escape(FCP) + r"@Some\.0$", r"^0$", "!=")
    for s, k, txt in pend:
        ctx.ob("insert", "pending: whole-field store", k == "set", s.loc(), k)
        ctx.ob("insert", "pending: only in the Connected arm", s.bb in rc and s.bb not in rd, s.loc(), "")
        ctx.ob("insert", "pending: only when the bucket is full", lk.passes(b, s.bb, full), s.loc(), "len >= capacity edge")
        ctx.ob("insert", "pending: only when some node is disconnected (fcp != Some(0))", lk.passes(b, s.bb, some_disc), s.loc(), "first_connected_pos == Some(0) is false")
        ctx.guarded("insert", "pending: only when no pending node exists", s,
                    lambda c, r, l: (l == "false" and r == "std::option::Option::is_some(%s)" % PENDF) or (l == "true" and r == "std::option::Option::is_none(%s)" % PENDF)
                    or (l == "None" and r == "discr(%s)" % PENDF), "self.pending.is_some() is false")
        e = lk.eff_expr(b, s)
        f = dict(e[4][0][1][4]) if e[0] == "agg" and e[3] == "Some" and e[4] and e[4][0][1][0] == "agg" else {}
        ok = (render(f.get(F.p_node, ("unknown", "?"))) == NODE and render(f.get(F.p_status, ("unknown", "?"))).endswith("NodeStatus::Connected{}")
              and render(f.get(F.p_replace, ("unknown", "?"))) == "<web_time::Instant as std::ops::Add>::add(web_time::Instant::now(), self.%s)" % F.timeout)
        ctx.ob("insert", "pending: {node, Connected, now + pending_timeout}", ok, s.loc(), txt[-220:])
    # results
    for variant, want in (("Inserted", (1, 1)), ("Full", (0, 0)), ("Pending", (0, 0))):
        rs = [s for s in lk.ret_sites(b) if lib.agg_variants(lk.eff_expr(b, s), r"bucket::InsertResult$") == [variant]]
        ctx.floor("insert", "result " + variant, rs, 1)
        got = cnt(b, [0], lib.bbs(rs), grow)
        ctx.ob("insert", "result %s <=> nodes grew %s" % (variant, want), got == want, W, "growth on paths to the result: %s" % (got,))
        if variant == "Pending":
            for s in rs:
                t = R(b, s)
                ctx.ob("insert", "Pending names the least-recently connected node (nodes[0])", "Index>::index(self.%s, 0).key" % F.nodes in t, s.loc(), t[-160:])
                pw = cnt(b, [0], [s.bb], [x for x, _, _ in pend])
                ctx.ob("insert", "result Pending <=> pending stored once", pw == (1, 1), s.loc(), str(pw))
    # --- Disconnected arm
    notfull_d = [t for (s_, t) in good if s_ in rd and s_ not in rc]
    full_d = [t for (s_, t) in full if s_ in rd and s_ not in rc]
    g = cnt(b, full_d, rets, grow) if full_d else None
    w = cnt(b, full_d, rets, [s for s, _, _ in fx]) if full_d else None
    ctx.ob("insert", "Disconnected,full: nothing changes", g == (0, 0) and w == (0, 0), W, "growth %s boundary writes %s" % (g, w))
    some = [t for (s_, t) in fcp_some_edges(b, {"Some"}) if s_ in rd and s_ not in rc]
    none = [t for (s_, t) in fcp_some_edges(b, {"None"}) if s_ in rd and s_ not in rc]
    ctx.ob("insert", "floor:Disconnected boundary test", len(some) == 1 and len(none) == 1, W, nontrivial=False, msg="%s %s" % (some, none))
    incs = [s for s, k, _ in fx if k == "inc"]
    others = [s for s, k, _ in fx if k not in ("inc", "set")]
    ctx.ob("insert", "boundary written only by := and += 1", not others, W, str([(k, t[:60]) for _, k, t in fx if k not in ("inc", "set")]))
    if some and none:
        a = cnt(b, some, rets, inserts), cnt(b, some, rets, pushes), cnt(b, some, rets, incs), cnt(b, some, rets, sets)
        ctx.ob("insert", "Disconnected,Some: one positional insert, no push", a[0] == (1, 1) and a[1] == (0, 0), W, "insert %s push %s" % (a[0], a[1]))
        ctx.ob("insert", "Disconnected,Some: boundary +1 exactly once", a[2] == (1, 1) and a[3] == (0, 0), W, "+=1 %s, := %s" % (a[2], a[3]))
        n_ = cnt(b, none, rets, pushes), cnt(b, none, rets, inserts), cnt(b, none, rets, [s for s, _, _ in fx])
        ctx.ob("insert", "Disconnected,None: one push, boundary untouched", n_ == ((1, 1), (0, 0), (0, 0)), W, "push %s insert %s boundary writes %s" % n_)
    for s in [x for x in inserts if x.bb in rd]:
        e = lk.eff_expr(b, s)
        idx = e[2][1]
        src = render(b.init_expr(idx[1])) if idx[0] == "local" else render(idx)
        ctx.ob("insert", "Disconnected: inserted exactly at the boundary index", src == FCP + "@Some.0", s.loc(), "index = %s" % src)
        ctx.ob("insert", "Disconnected: inserts the given node", render(e[2][2]) == NODE, s.loc(), render(e[2][2]))
        ctx.ob("insert", "Disconnected: insert only below capacity edge belongs to this arm", bool(notfull_d), s.loc(), "")
    for s in incs:
        l = s.stmt["p"]["l"]
        ctx.ob("insert", "+= 1 targets the boundary", render(b.init_expr(l)) == FCP + "@Some.0", s.loc(), render(b.init_expr(l)))


# ------------------------------------------------------------------------------------------------ remove
def check_remove(ctx, prog, b):
    rets = b.return_blocks()
    W = lk.where(b)
    rm = nodes_calls(b, "remove")
    ctx.floor("remove", "Vec::remove", rm, 1, exact=True)
    ctx.ob("remove", "remove never grows nodes", not (nodes_calls(b, "push") + nodes_calls(b, "insert")), W, "")
    fx = fx_of(b, F.fcp)
    ctx.floor("remove", "boundary writes", fx, 2)
    st = b.call_sites(KB + r"status$")
    ctx.floor("remove", "status call", st, 1, exact=True)
    POS = "libp2p_kad::kbucket::bucket::KBucket::position(self, #2)@Some.0"
    for s in rm:
        e = lk.eff_expr(b, s)
        ctx.ob("remove", "removes at position(key)", render(e[2][1]) == POS + ".0", s.loc(), render(e[2][1]))
        ctx.guarded("remove", "removal only if the key was found", s, lambda c, r, l: l == "Some" and r == "discr(libp2p_kad::kbucket::bucket::KBucket::position(self, #2))", "position(key) is Some")
    for s in st:
        ctx.ob("remove", "status is taken at the removed position", render(lk.eff_expr(b, s)[2][1]) == POS, s.loc(), R(b, s)[:160])
        after = b.reachable(b.succ[s.bb])
        ok = all(x.bb in after and s.bb not in b.reachable(b.succ[x.bb]) and b.dominates(s.bb, x.bb) for x, _, _ in fx)
        ctx.ob("remove", "status is read before the boundary is adjusted", ok, s.loc(), "status() dominates every boundary write")
    none_edge = tg(lib.switch_edges_on(b, r"^discr\(libp2p_kad::kbucket::bucket::KBucket::position\(self, #2\)\)$", {"None"}))
    got = cnt(b, none_edge, rets, rm + [x for x, _, _ in fx]) if none_edge else None
    ctx.ob("remove", "unknown key: nothing changes", got == (0, 0), W, str(got))
    conn, disc = arms_of(b, r"^libp2p_kad::kbucket::bucket::KBucket::status\(self, ")
    ctx.ob("remove", "floor:status arms", len(conn) == 1 and len(disc) == 1, W, nontrivial=False, msg="%s %s" % (conn, disc))
    sets = [s for s, k, _ in fx if k == "set"]
    decs = [s for s, k, _ in fx if k == "dec"]
    other = [(k, t[:60]) for _, k, t in fx if k not in ("set", "dec")]
    ctx.ob("remove", "boundary written only by := None and -= 1", not other, W, str(other))
    if disc:
        some = [t for (s_, t) in fcp_some_edges(b, {"Some"}) if s_ in b.reachable(disc)]
        none = [t for (s_, t) in fcp_some_edges(b, {"None"}) if s_ in b.reachable(disc)]
        a = (cnt(b, some, rets, decs), cnt(b, some, rets, sets)) if some else None
        ctx.ob("remove", "Disconnected,Some: boundary -1 exactly once", a == ((1, 1), (0, 0)), W, "-=1, := : %s" % (a,))
        n_ = cnt(b, none, rets, [x for x, _, _ in fx]) if none else None
        ctx.ob("remove", "Disconnected,None: boundary untouched", n_ == (0, 0), W, str(n_))
        ctx.ob("remove", "Disconnected: no decrement outside this arm", all(s.bb in b.reachable(disc) and s.bb not in b.reachable(conn) for s in decs) and bool(decs), W, "")
    for s in decs:
        l = s.stmt["p"]["l"]
        ctx.ob("remove", "-= 1 targets the boundary", render(b.init_expr(l)) == FCP + "@Some.0", s.loc(), render(b.init_expr(l)))
    if conn:
        rc = b.reachable(conn)
        ctx.ob("remove", "Connected: boundary only ever cleared", all(s.bb in rc and s.bb not in b.reachable(disc) for s in sets) and len(sets) == 1, W, "%d := sites" % len(sets))
        at_b = set()
        closures = []
        for bi in b.live:
            info = b.switch_info(bi)
            if not info:
                continue
            c = info[0]
            if c[0] == "call" and strip_generics(c[1]).endswith("Option::is_some_and") and render(c[2][0]) == FCP:
                at_b |= {(bi, t) for t, ls in info[1].items() if ls == {"true"}}
                closures.append(c)
            elif lk.cmp_norm(c, "^" + re.escape(FCP) + r"@Some\.0$", "^" + re.escape(POS + ".0") + "$") == "Eq" or lk.cmp_norm(c, "^" + re.escape(FCP) + "$", "^" + re.escape("std::option::Option::Some{0: %s.0}" % POS) + "$") == "Eq":
                # `if let Some(p) = fcp && p == pos` style
                at_b |= {(bi, t) for t, ls in info[1].items() if ls == {"true"}}
        last = set()
        for bi in b.live:
            info = b.switch_info(bi)
            if not info:
                continue
            op = lk.cmp_norm(info[0], "^" + re.escape(POS + ".0") + "$", LEN)
            if op is None:
                continue
            lens = [c[3] for c in mir.calls_in(info[0], r"Vec::len$")]
            if not all(l in b.reachable(b.succ[rm[0].bb]) for l in lens):
                continue
            for t, ls in info[1].items():
                if (ls == {"true"} and op == "Eq") or (ls == {"false"} and op == "Ne"):
                    last.add((bi, t))
        for s in sets:
            ctx.ob("remove", "Connected: boundary := None", R(b, s) == "std::option::Option::None{}", s.loc(), R(b, s))
            ctx.ob("remove", "Connected: boundary cleared only if removed node was at the boundary", lk.passes(b, s.bb, at_b), s.loc(), "first_connected_pos == Some(pos) edge")
            ctx.ob("remove", "Connected: boundary cleared only if removed node was last", lk.passes(b, s.bb, last), s.loc(), "pos == nodes.len() measured after the removal")
            both = [t for (_, t) in last]
            got = cnt(b, both, rets, sets) if both else None
            ctx.ob("remove", "Connected: at the boundary and last => boundary cleared", got == (1, 1), s.loc(), str(got))
        for c in closures:
            for cb, rs in lk.closure_ret(prog, b, c):
                rs_e = [cb.site_expr(x) for x in lk.ret_sites(cb)]
                ok = len(rs_e) == 1 and lk.cmp_norm(rs_e[0], r"^#2$", r"^\^0$") == "Eq"
                ctx.ob("remove", "Connected: closure tests boundary == removed position", ok, lk.where(cb), str(rs))
                ctx.ob("remove", "Connected: closure captures the removed position", render(c).endswith("[" + POS + ".0])"), lk.where(cb), render(c)[-140:])
    for s in lk.ret_sites(b):
        e = lk.eff_expr(b, s)
        if e[0] == "agg" and e[3] == "Some":
            tup = dict(e[4][0][1][4]) if e[4][0][1][0] == "agg" else {}
            ok = (render(tup.get("0", ("unknown", "?"))).startswith("std::vec::Vec::remove(self.%s, " % F.nodes)
                  and render(tup.get("1", ("unknown", "?"))) == "libp2p_kad::kbucket::bucket::KBucket::status(self, %s)" % POS and render(tup.get("2", ("unknown", "?"))) == POS)
            ctx.ob("remove", "returns (removed node, prior status, position)", ok, s.loc(), render(e)[-200:])


# ------------------------------------------------------------------------------------------------ apply_pending
def check_apply(ctx, prog, b):
    rets = b.return_blocks()
    W = lk.where(b)
    PEND = r"std::option::Option::take\(self\.%s\)@Some\.0" % F.pending
    PENDT = "std::option::Option::take(self.%s)@Some.0" % F.pending
    rm, pushes, inserts = nodes_calls(b, "remove"), nodes_calls(b, "push"), nodes_calls(b, "insert")
    ctx.floor("apply_pending", "evictions (Vec::remove)", rm, 3)
    ctx.floor("apply_pending", "insertions (push/insert)", pushes + inserts, 3)
    fx = fx_of(b, F.fcp)
    ctx.floor("apply_pending", "boundary writes", fx, 1)
    take = lk.recv_calls(b, r"Option::take$", r"^self\.%s$" % F.pending)
    ctx.floor("apply_pending", "pending.take()", take, 1, exact=True)
    REPL, NOW = "^" + PEND + r"\.%s$" % F.p_replace, r"^web_time::Instant::now\(\)$"
    expired = lk.hoisted(b, lk.rel_edges(b, REPL, NOW, "<="))
    early = lk.rel_edges(b, REPL, NOW, ">")
    full = lk.hoisted(b, lk.rel_edges(b, LEN, CAP, ">=") - lk.rel_edges(b, LEN, CAP, "=="))
    head = lk.enum_known_edges(b, r"^libp2p_kad::kbucket::bucket::KBucket::status\(self, libp2p_kad::kbucket::bucket::Position::Position\{0: 0\}\)$", NS, ["Connected", "Disconnected"])
    for s in rm:
        e = lk.eff_expr(b, s)
        ctx.ob("apply_pending", "evicts the least-recently connected node (index 0)", lk.const_val(e[2][1]) == 0, s.loc(), "Vec::remove index = %s" % render(e[2][1]))
        ctx.ob("apply_pending", "eviction only after timeout", lk.passes(b, s.bb, expired), s.loc(), "pending.replace <= Instant::now() on every path")
        ctx.ob("apply_pending", "eviction only if bucket full", lk.passes(b, s.bb, full), s.loc(), "nodes.len() >= capacity edge")
        ctx.ob("apply_pending", "eviction only if head not Connected", lk.passes(b, s.bb, head["Disconnected"]), s.loc(),
               "status(Position(0)) == Connected is false on every path")
    for s in pushes + inserts:
        ctx.ob("apply_pending", "direct insertion only after an eviction", b.must_pass_nodes([0], [s.bb], lib.bbs(rm)), s.loc(), "every path to this push/insert passes Vec::remove(nodes, 0)")
        node = render(lk.eff_expr(b, s)[2][-1])
        ctx.ob("apply_pending", "inserted node is the pending node", node == PENDT + "." + F.p_node, s.loc(), node)
    hc = tg(head["Connected"])
    got = cnt(b, hc, rets, rm + pushes + inserts + [x for x, _, _ in fx]) if hc else None
    ctx.ob("apply_pending", "head still Connected: bucket unchanged", got == (0, 0), W, str(got))
    pend = fx_of(b, F.pending)
    restore = [s for s, k, t in pend if k == "set" and t == "std::option::Option::Some{0: %s}" % PENDT]
    ctx.floor("apply_pending", "restore of unexpired pending", restore, 1)
    ee = tg(early)
    ctx.ob("apply_pending", "floor:not-yet-expired edge", len(ee) == 1, W, nontrivial=False, msg=str(ee))
    if ee:
        got = cnt(b, ee, rets, restore), cnt(b, ee, rets, rm + pushes + inserts + [x for x, _, _ in fx])
        ctx.ob("apply_pending", "unexpired pending node is put back, bucket unchanged", got == ((1, 1), (0, 0)), W, "restore %s, mutations %s" % got)
        exp_reach = b.reachable(tg(expired))
        for s in lk.ret_sites(b):
            if s.bb in b.reachable(ee) and s.bb not in exp_reach:
                ctx.ob("apply_pending", "unexpired: returns None", R(b, s) == "std::option::Option::None{}", s.loc(), R(b, s)[:80])
        vals = {R(b, s) for s in lk.ret_sites(b) if s.bb in b.reachable(ee)}
        ctx.ob("apply_pending", "unexpired: no AppliedPending is reported", not any("AppliedPending" in v for v in vals) or all(s.bb in exp_reach for s in lk.ret_sites(b) if "AppliedPending" in R(b, s)), W, "")
    ps = lk.enum_known_edges(b, "^" + PEND + r"\.%s$" % F.p_status, NS, ["Connected", "Disconnected"])
    pc, pd = tg(ps["Connected"]), tg(ps["Disconnected"])
    ctx.ob("apply_pending", "floor:pending status arms", len(pc) == 1 and len(pd) == 1, W, nontrivial=False, msg="%s %s" % (pc, pd))
    if pc:
        a = cnt(b, pc, rets, rm), cnt(b, pc, rets, pushes), cnt(b, pc, rets, inserts), cnt(b, pc, rets, [x for x, _, _ in fx])
        ctx.ob("apply_pending", "connected pending: one eviction, one push at the end, boundary adjusted once", a == ((1, 1), (1, 1), (0, 0), (1, 1)), W, "remove %s push %s insert %s boundary writes %s" % a)
        for s, k, t in fx:
            inarm = s.bb in b.reachable(pc) and (not pd or s.bb not in b.reachable(pd))
            ctx.ob("apply_pending", "boundary written only in the connected-pending arm", inarm, s.loc(), "%s %s" % (k, t[:120]))
            if not inarm:
                continue
            e = lk.eff_expr(b, s)
            if k == "set" and not (e[0] == "call" and strip_generics(e[1]).endswith("Option::map_or_else")):
                # `match fcp { None => Some(len), Some(p) => p.checked_sub(1) }` form: one store per arm
                P0 = re.escape(FCP + "@Some.0")
                vals = []       # (bb of the definition, rendered value): the store itself, or the arms feeding a match-result temporary
                if e[0] == "local":
                    for d in b.defs.get(e[1], []):
                        vals.append((d[1], render(b.rvalue_expr(d[3])) if d[0] == "stmt" else render(b.call_expr(d[3], d[1]))))
                else:
                    vals.append((s.bb, t))
                seen_l = set()
                for vb, vt in vals:
                    gs = {g[0]: g[1] for g in b.guards_on_all_paths(vb)}
                    lab = gs.get("discr(%s)" % FCP)
                    if lab == frozenset(["None"]):
                        seen_l.add("None")
                        ok = vt == "std::option::Option::Some{0: std::vec::Vec::len(self.%s)}" % F.nodes and all(b.dominates(x.bb, vb) for x in rm if x.bb in b.reachable(pc))
                        ctx.ob("apply_pending", "connected pending: no connected node before => boundary = Some(len after eviction)", ok, s.loc(), vt[:160])
                    elif lab == frozenset(["Some"]):
                        seen_l.add("Some")
                        ok = re.match(r"^(core::num::checked_sub\(%s, 1\)|std::option::Option::Some\{0: Sub(WithOverflow)?\(%s, 1\)(\.0)?\})$" % (P0, P0), vt) is not None
                        ctx.ob("apply_pending", "connected pending: boundary moves down by one", ok, s.loc(), vt[:160])
                    else:
                        ctx.ob("apply_pending", "connected pending: boundary := fcp.map_or_else(len, p-1)", False, s.loc(), "unrecognised boundary update %s" % vt[:160])
                ctx.ob("apply_pending", "connected pending: boundary := fcp.map_or_else(len, p-1)", seen_l == {"None", "Some"} or e[0] != "local", s.loc(), "match form, arms %s" % sorted(seen_l))
                continue
            ok = k == "set" and e[0] == "call" and strip_generics(e[1]).endswith("Option::map_or_else") and render(e[2][0]) == FCP
            ctx.ob("apply_pending", "connected pending: boundary := fcp.map_or_else(len, p-1)", ok, s.loc(), t[:200])
            cr = lk.closure_ret(prog, b, e)
            if len(cr) == 2:
                caps = [render(x) for x in e[2][1][2]] if e[2][1][0] == "closure" else []
                ctx.ob("apply_pending", "connected pending: no connected node before => boundary = Some(len after eviction)", cr[0][1] == ["std::option::Option::Some{0: std::vec::Vec::len(^0)}"] and caps == ["self.%s" % F.nodes], lk.where(cr[0][0]), "%s capturing %s" % (cr[0][1], caps))
                ctx.ob("apply_pending", "connected pending: boundary moves down by one", cr[1][1] in (["core::num::checked_sub(#2, 1)"], ["std::option::Option::Some{0: SubWithOverflow(#2, 1).0}"], ["std::option::Option::Some{0: Sub(#2, 1)}"]), lk.where(cr[1][0]), str(cr[1][1]))
            else:
                ctx.ob("apply_pending", "connected pending: boundary closures found", False, s.loc(), "%d closures" % len(cr))
            mo = [c[3] for c in mir.calls_in(e, r"Option::map_or_else$")]
            r_in = [x.bb for x in rm if x.bb in b.reachable(pc)]
            p_in = [x.bb for x in pushes if x.bb in b.reachable(pc)]
            ok = bool(mo) and bool(r_in) and bool(p_in) and all(b.dominates(r, m) and b.dominates(m, p) and m not in (r, p) for m in mo for r in r_in for p in p_in)
            ctx.ob("apply_pending", "connected pending: boundary computed between the eviction and the push", ok, s.loc(), "remove %s < map_or_else %s < push %s" % (r_in, mo, p_in))
    if pd:
        some = [t for (s_, t) in fcp_some_edges(b, {"Some"}) if s_ in b.reachable(pd)]
        none = [t for (s_, t) in fcp_some_edges(b, {"None"}) if s_ in b.reachable(pd)]
        ctx.ob("apply_pending", "floor:disconnected pending boundary test", len(some) == 1 and len(none) == 1, W, nontrivial=False, msg="%s %s" % (some, none))
        w = cnt(b, pd, rets, [x for x, _, _ in fx])
        ctx.ob("apply_pending", "disconnected pending, some connected: boundary not written", w == (0, 0), W,
               "evicting a disconnected head (-1) and inserting a disconnected node before the boundary (+1) leave it unchanged; writes on paths: %s" % (w,))
        if some:
            a = cnt(b, some, rets, rm), cnt(b, some, rets, inserts), cnt(b, some, rets, pushes)
            ctx.ob("apply_pending", "disconnected pending, some connected: one eviction, one positional insert", a == ((1, 1), (1, 1), (0, 0)), W, "remove %s insert %s push %s" % a)
        if none:
            a = cnt(b, none, rets, rm), cnt(b, none, rets, pushes), cnt(b, none, rets, inserts)
            ctx.ob("apply_pending", "disconnected pending, none connected: one eviction, one push", a == ((1, 1), (1, 1), (0, 0)), W, "remove %s push %s insert %s" % a)
        B0 = re.escape(FCP + "@Some.0")
        for s in inserts:
            idx = render(lk.eff_expr(b, s)[2][1])
            ok = re.match(r"^std::option::Option::(expect|unwrap)\(core::num::checked_sub\(%s, 1\)(, .*)?\)$|^SubWithOverflow\(%s, 1\)\.0$|^Sub\(%s, 1\)$|^core::num::(saturating|wrapping)_sub\(%s, 1\)$" % (B0, B0, B0, B0), idx) is not None
            ctx.ob("apply_pending", "disconnected pending: inserted at boundary - 1 (end of the shifted disconnected prefix)", ok, s.loc(), idx)
            r_in = [x.bb for x in rm if x.bb in b.reachable(some)]
            ctx.ob("apply_pending", "disconnected pending: eviction precedes the positional insert", bool(r_in) and all(b.dominates(r, s.bb) for r in r_in), s.loc(), "")
    room = lk.hoisted(b, lk.rel_edges(b, LEN, CAP, "<"))
    ic = b.call_sites(KB + r"insert$")
    ctx.floor("apply_pending", "self.insert on the room edge", ic, 1)
    for s in ic:
        ctx.ob("apply_pending", "room: delegated insert only below capacity", lk.passes(b, s.bb, room), s.loc(), "")
        ctx.ob("apply_pending", "room: delegated insert only after timeout", lk.passes(b, s.bb, expired), s.loc(), "pending.replace <= now")
        e = lk.eff_expr(b, s)
        ok = render(e[2][1]) == PENDT + "." + F.p_node and render(e[2][2]) == PENDT + "." + F.p_status
        ctx.ob("apply_pending", "room: inserts the pending node with its own status", bool(ok), s.loc(), R(b, s)[-160:])
    rt = tg(room)
    if rt:
        got = cnt(b, rt, rets, rm + pushes + inserts + [x for x, _, _ in fx])
        ctx.ob("apply_pending", "room: no eviction", got == (0, 0), W, str(got))
    for s in lk.ret_sites(b):
        t = R(b, s)
        if "AppliedPending" not in t:
            continue
        ok = "inserted: libp2p_kad::<kbucket::bucket::Node as std::clone::Clone>::clone(%s.%s)" % (PENDT, F.p_node) in t
        ctx.ob("apply_pending", "reports the pending node as inserted", ok, s.loc(), t[-220:])
        ev = cnt(b, [0], [s.bb], rm)
        if "evicted: std::option::Option::Some{0: std::vec::Vec::remove(self.%s, 0)}" % F.nodes in t:
            ctx.ob("apply_pending", "reported eviction <=> a node was removed", ev == (1, 1), s.loc(), str(ev))
        else:
            ctx.ob("apply_pending", "no reported eviction <=> nothing removed", ev == (0, 0) and "evicted: std::option::Option::None{}" in t, s.loc(), "%s %s" % (ev, t[-80:]))
    some_ret = [s for s in lk.ret_sites(b) if "AppliedPending" in R(b, s)]
    ctx.floor("apply_pending", "Some(AppliedPending) results", some_ret, 4)
    for s in rm:
        got = cnt(b, b.succ[s.bb], rets, some_ret)
        ctx.ob("apply_pending", "every eviction is reported", got == (1, 1), s.loc(), str(got))
    others = [(k, t[:80]) for s, k, t in pend if not (k == "set" and s in restore) and not (k.startswith("call:") and k.endswith("Option::take"))]
    ctx.ob("apply_pending", "pending slot only taken and (if unexpired) restored", not others, W, str(others))


# ------------------------------------------------------------------------------------------------ status / update
def check_status(ctx, prog, b):
    W = lk.where(b)
    sw = []
    for bi in sorted(b.live):
        info = b.switch_info(bi)
        if info and info[0][0] == "call" and strip_generics(info[0][1]).endswith("Option::is_some_and") and render(info[0][2][0]) == FCP:
            sw.append(bi)
    if not sw:
        # `match fcp { Some(i) if pos.0 >= i => Connected, _ => Disconnected }` / `if let Some(i) = fcp && pos.0 >= i` form
        conn_e = lk.rel_edges(b, r"^#2\.0$", "^" + re.escape(FCP) + r"@Some\.0$", ">=")
        ctx.ob("status", "floor:pos >= boundary test", len(conn_e) == 1, W, nontrivial=False, msg=str(conn_e))
        C_, D_ = "libp2p_kad::kbucket::bucket::NodeStatus::Connected{}", "libp2p_kad::kbucket::bucket::NodeStatus::Disconnected{}"
        for s in lk.ret_sites(b):
            if R(b, s) == C_:
                ctx.ob("status", "pos >= boundary is ['true'] => Connected{}", lk.passes(b, s.bb, conn_e), s.loc(), "Connected only where fcp is Some(i) and pos >= i")
        below = lk.rel_edges(b, r"^#2\.0$", "^" + re.escape(FCP) + r"@Some\.0$", "<") | fcp_some_edges(b, {"None"})
        for s in lk.ret_sites(b):
            if R(b, s) == D_:
                ctx.ob("status", "closure is pos >= boundary", lk.passes(b, s.bb, below), s.loc(), "Disconnected only where there is no connected node or pos < boundary (a `>` test would misreport the node at the boundary)")
        vals = {R(b, s) for s in lk.ret_sites(b) if s.bb in b.reachable(tg(conn_e))} if conn_e else set()
        ctx.ob("status", "pos >= boundary is ['false'] => Disconnected{}", vals == {C_} and {R(b, s) for s in lk.ret_sites(b)} == {C_, D_}, W, "pos >= boundary always yields Connected: %s" % sorted(vals))
    else:
        ctx.ob("status", "floor:is_some_and(first_connected_pos, ..) dispatch", len(sw) == 1, W, nontrivial=False, msg=str(sw))
    for bi in sw:
        cond, labs = b.switch_info(bi)
        ctx.ob("status", "closure captures pos.0", render(cond).endswith("[#2.0])"), W, render(cond)[-60:])
        for cb, rs in lk.closure_ret(prog, b, cond):
            es = [cb.site_expr(x) for x in lk.ret_sites(cb)]
            ok = len(es) == 1 and lk.cmp_norm(es[0], r"^\^0$", r"^#2$") == "Ge"
            ctx.ob("status", "closure is pos >= boundary", ok, lk.where(cb), str(rs))
        for t, ls in labs.items():
            vals = {R(b, s) for s in lk.ret_sites(b) if s.bb in b.reachable([t])}
            want = "libp2p_kad::kbucket::bucket::NodeStatus::Connected{}" if ls == {"true"} else "libp2p_kad::kbucket::bucket::NodeStatus::Disconnected{}"
            ctx.ob("status", "pos >= boundary is %s => %s" % (sorted(ls), want.split("::")[-1]), vals == {want}, W, str(sorted(vals)))
    its = [c for c in prog.bodies(K) if c.kind == "closure" and lk.root_fn(prog, c).npath == "libp2p_kad::kbucket::bucket::KBucket::iter"]
    rs = [R(it, s) for it in its for s in lk.ret_sites(it)]
    ok = len(rs) == 1 and re.match(r"^tuple\{0: #2\.1, 1: libp2p_kad::kbucket::bucket::KBucket::status\(\^0, libp2p_kad::kbucket::bucket::Position::Position\{0: #2\.0\}\)\}$", rs[0]) is not None
    ctx.ob("status", "iter(): each node is reported with the status of its own position", ok, lk.where(its[0]) if its else "", str(rs)[:200])


def check_update(ctx, b):
    KEYA = lk.arg_of_type(b, r"TKey$")
    STAT = lk.arg_of_type(b, r"NodeStatus$")
    W = lk.where(b)
    rmc = b.call_sites(KB + r"remove$")
    ic = b.call_sites(KB + r"insert$")
    ctx.floor("update", "remove + insert", rmc + ic, 2)
    RM = "libp2p_kad::kbucket::bucket::KBucket::remove(self, %s)" % KEYA
    found = lib.switch_edges_on(b, "^discr\\(" + re.escape(RM) + "\\)$", {"Some"})
    for s in ic:
        e = b.site_expr(s)
        ok = render(e[2][1]) == RM + "@Some.0.0" and render(e[2][2]) == STAT
        ctx.ob("update", "re-inserts the removed node with the new status", ok, s.loc(), R(b, s)[-200:])
        ctx.ob("update", "re-insert only after the removal succeeded", bool(rmc) and lk.passes(b, s.bb, found), s.loc(), "")
    some = tg(found)
    if some:
        got = cnt(b, some, b.return_blocks(), ic)
        ctx.ob("update", "a found node is re-inserted exactly once", got == (1, 1), W, str(got))
    pend = fx_of(b, F.pending)
    ctx.floor("update", "pending := None", pend, 1)
    st = lk.enum_known_edges(b, "^" + STAT + "$", NS, ["Connected", "Disconnected"])
    head = lk.rel_edges(b, "^" + re.escape(RM) + r"@Some\.0\.2(\.0)?$", r"^(libp2p_kad::kbucket::bucket::Position::Position\{0: 0\}|0)$", "==")
    for s, k, t in pend:
        ctx.ob("update", "pending only ever dropped here", k == "set" and t == "std::option::Option::None{}", s.loc(), "%s %s" % (k, t[:80]))
        ctx.ob("update", "pending dropped only if the head (Position(0)) was updated", lk.passes(b, s.bb, head), s.loc(), "pos == Position(0)")
        ctx.ob("update", "pending dropped only if the head became Connected", lk.passes(b, s.bb, st["Connected"]), s.loc(), "status == Connected")


# ------------------------------------------------------------------------------------------------ table level
def check_table(ctx, prog):
    DIST = r"libp2p_kad::kbucket::key::KeyBytes::distance\(std::convert::AsRef::as_ref\(self\.%s\), #2\)" % F.local_key
    NEW = r"libp2p_kad::kbucket::BucketIndex::new\(" + DIST + r"\)"
    BUCKETS = "self.%s" % F.buckets
    for fn in ("entry", "bucket"):
        b = ctx.body(K, r"^libp2p_kad::kbucket::KBucketsTable::%s$" % fn)
        W = lk.where(b)
        idx = [s for s in b.call_sites(r"Index(Mut)?>::index(_mut)?$") if render(b.site_expr(s)[2][0]) == BUCKETS]
        ctx.floor("table", fn + ": buckets[..]", idx, 1, exact=True)
        ap = b.call_sites(KB + r"apply_pending$")
        ctx.floor("table", fn + ": apply_pending", ap, 1, exact=True)
        known = lib.switch_edges_on(b, r"^discr\(" + NEW + r"\)$", {"Some"}) | lib.switch_edges_on(b, r"^discr\(<std::option::Option as std::ops::Try>::branch\(" + NEW + r"\)\)$", {"Continue"})
        for s in idx:
            i = render(b.site_expr(s)[2][1])
            ok = re.match(r"^(<std::option::Option as std::ops::Try>::branch\(" + NEW + r"\)@Continue|" + NEW + r"@Some)\.0\.0$", i) is not None
            ctx.ob("table", fn + ": bucket index = BucketIndex::new(distance(local_key, key))", ok, s.loc(), i[:240])
            ctx.ob("table", fn + ": no bucket is touched for the local key (index None)", lk.passes(b, s.bb, known), s.loc(), "BucketIndex::new(..) is Some on every path")
        for s in ap:
            ok = all(render(b.site_expr(s)[2][0]) == R(b, x) for x in idx)
            ctx.ob("table", fn + ": pending entry applied on the selected bucket", ok, s.loc(), R(b, s)[:120])
        none_edges = lib.switch_edges_on(b, r"^discr\(" + NEW + r"\)$", {"None"}) | lib.switch_edges_on(b, r"^discr\(<std::option::Option as std::ops::Try>::branch\(" + NEW + r"\)\)$", {"Break"})
        nt = tg(none_edges)
        ctx.ob("table", fn + ": floor:local-key edge", len(nt) == 1, W, nontrivial=False, msg=str(nt))
        if nt:
            calls = [s for s in b.call_sites() if s.bb in b.reachable(nt) and not re.search(r"from_residual$", strip_generics(b.call_name(s.term)))]
            ctx.ob("table", fn + ": local key => returns without touching any bucket", not calls, W, str([R(b, s)[:60] for s in calls]))
        if fn == "entry":
            en = b.call_sites(r"^libp2p_kad::kbucket::entry::Entry::new$")
            ctx.floor("table", "entry: Entry::new", en, 1, exact=True)
            for s in en:
                e = b.site_expr(s)
                ok = all(render(e[2][0]) == R(b, x) for x in idx) and render(e[2][1]) == "#2"
                ctx.ob("table", "entry: Entry is built on the selected bucket for the same key", ok, s.loc(), "")
                ctx.ob("table", "entry: apply_pending precedes Entry::new", bool(ap) and all(b.dominates(a.bb, s.bb) and a.bb not in b.reachable(b.succ[s.bb]) for a in ap), s.loc(),
                       "a pending node that became a member is seen as Present, not Absent")
            pb = [s for s in b.call_sites(r"VecDeque::push_back$") if render(b.site_expr(s)[2][0]) == "self.%s" % F.applied]
            some = tg(lib.switch_edges_on(b, r"^discr\(libp2p_kad::kbucket::bucket::KBucket::apply_pending\(", {"Some"}))
            got = cnt(b, some, b.return_blocks(), pb) if some else None
            ctx.ob("table", "entry: every applied pending entry is recorded once", got == (1, 1), W, str(got))
    # Entry::new classification
    en = ctx.body(K, r"^libp2p_kad::kbucket::entry::Entry::new$")
    POSC = "libp2p_kad::kbucket::bucket::KBucket::position(#1, #2)"
    ASP = "libp2p_kad::kbucket::bucket::KBucket::as_pending(#1, #2)"
    P, A = "^discr\\(" + re.escape(POSC) + "\\)$", "^discr\\(" + re.escape(ASP) + "\\)$"
    for variant, guards in (("Present", [(P, "Some")]), ("Pending", [(P, "None"), (A, "Some")]), ("Absent", [(P, "None"), (A, "None")])):
        rs = [s for s in lk.ret_sites(en) if lib.agg_variants(en.site_expr(s), r"entry::Entry$") == [variant]]
        ctx.floor("table", "Entry::" + variant, rs, 1)
        for s in rs:
            for pat, lab in guards:
                ed = lib.switch_edges_on(en, pat, {lab})
                ctx.ob("table", "Entry::%s only if %s is %s" % (variant, "position(key)" if pat == P else "as_pending(key)", lab), lk.passes(en, s.bb, ed), s.loc(), "")
            f = dict(en.site_expr(s)[4])
            if variant == "Present":
                ctx.ob("table", "Entry::Present carries status(position(key))", render(f.get("1", ("unknown", "?"))) == "libp2p_kad::kbucket::bucket::KBucket::status(#1, %s@Some.0)" % POSC, s.loc(), render(f.get("1", ("unknown", "?")))[-200:])
            if variant == "Pending":
                ctx.ob("table", "Entry::Pending carries the pending node's status", render(f.get("1", ("unknown", "?"))) == "%s@Some.0.%s" % (ASP, F.p_status), s.loc(), render(f.get("1", ("unknown", "?")))[-200:])
    for fn, fldp in (("position", r"#2\.key"), ("as_pending", r"#2\.%s\.key" % F.p_node)):
        cbs = [c for c in prog.bodies(K) if c.kind == "closure" and lk.root_fn(prog, c).npath == "libp2p_kad::kbucket::bucket::KBucket::" + fn]
        es = [c.site_expr(s) for c in cbs for s in lk.ret_sites(c)]
        ok = len(es) == 1 and lk.cmp_norm(es[0], r"^std::convert::AsRef::as_ref\(%s\)$" % fldp, r"^std::convert::AsRef::as_ref\(\^0\)$") == "Eq"
        ctx.ob("table", "%s compares key bytes of the stored node with the queried key" % fn, ok, lk.where(cbs[0]) if cbs else "", str([render(e) for e in es]))
        pb = ctx.body(K, KB + fn + "$")
        caps = [render(x) for c in mir.walk(pb.site_expr(lk.ret_sites(pb)[0])) if c[0] == "closure" for x in c[2]] if lk.ret_sites(pb) else []
        ctx.ob("table", "%s: the compared key is the function's key argument" % fn, caps == ["#2"], lk.where(pb), str(caps))
    ai = ctx.body(K, r"^libp2p_kad::kbucket::entry::AbsentEntry::insert$")
    for s in ai.call_sites(KB + r"insert$"):
        t = R(ai, s)
        ok = t == "libp2p_kad::kbucket::bucket::KBucket::insert(self.0.%s, libp2p_kad::kbucket::bucket::Node::Node{key: std::clone::Clone::clone(self.0.%s), value: #2}, #3)" % (F.e_bucket, F.e_key)
        ctx.ob("table", "AbsentEntry::insert stores the entry's own key in the entry's bucket", ok, s.loc(), t[:220])
    bn = ctx.body(K, r"^libp2p_kad::kbucket::BucketIndex::new$")
    es = [bn.site_expr(s) for s in lk.ret_sites(bn)]
    ok = len(es) == 1 and es[0][0] == "call" and strip_generics(es[0][1]).endswith("Option::map") and render(es[0][2][0]) == "libp2p_kad::kbucket::key::Distance::ilog2(#1)" and es[0][2][1][0] == "closure"
    ctx.ob("table", "BucketIndex::new = ilog2(distance).map(BucketIndex), None for distance 0", ok, lk.where(bn), str([render(e) for e in es])[:200])


def check_who(ctx, prog):
    KBP = "libp2p_kad::kbucket::bucket::KBucket::"
    callers = {lk.root_fn(prog, s.body) for s in prog.callers(K, KB + r"insert$")}
    want = {KBP + "apply_pending", KBP + "update", "libp2p_kad::kbucket::entry::AbsentEntry::insert"}
    bad = sorted(c.npath for c in callers if not lk.allowed_fn(prog, K, c, want))
    ctx.ob("who", "KBucket::insert called only via AbsentEntry / update / apply_pending", not bad and len(callers) >= 3, msg="callers %s; not permitted %s" % (sorted(c.short for c in callers), bad))
    ab = {lk.root_fn(prog, s.body).npath for s in prog.callers(K, r"^libp2p_kad::kbucket::entry::AbsentEntry::new$")}
    ab |= {lk.root_fn(prog, b).npath for b in prog.bodies(K) if b.agg_sites(r"kbucket::entry::AbsentEntry$")}
    ctx.ob("who", "AbsentEntry constructed only by Entry::new (via its constructor)", bool(ab) and ab <= {"libp2p_kad::kbucket::entry::Entry::new", "libp2p_kad::kbucket::entry::AbsentEntry::new"}, msg=str(sorted(ab)))
    VP, VI, VR = "std::vec::Vec::push", "std::vec::Vec::insert", "std::vec::Vec::remove"
    nodes_tab = {KBP + "insert": {VP, VI}, KBP + "remove": {VR}, KBP + "apply_pending": {VP, VI, VR},
                 KBP + "get_mut": {"<std::vec::Vec as std::ops::DerefMut>::deref_mut", "core::slice::iter_mut"}}
    fcp_tab = {KBP + "insert": {"w"}, KBP + "remove": {"w"}, KBP + "apply_pending": {"w"}}
    n = 0
    for b in prog.bodies(K):
        if "kbucket" not in b.npath:
            continue
        root = lk.root_fn(prog, b)
        if not root.npath.startswith(KBP):
            continue
        for f in (F.nodes, F.fcp):
            for s, k, t in lk.field_effects(b, f):
                n += 1
                if f == F.nodes:
                    ok = k.startswith("call:") and k[5:] in lk.allowed_kinds(prog, K, root, nodes_tab)
                    ctx.ob("who", "nodes mutated only by insert/remove/apply_pending (get_mut: element access)", ok, s.loc(), "%s in %s (private helpers inherit what all their callers may do)" % (k, b.short))
                else:
                    ctx.ob("who", "first_connected_pos written only by insert/remove/apply_pending", bool(lk.allowed_kinds(prog, K, root, fcp_tab)), s.loc(), "%s in %s" % (k, b.short))
    ctx.ob("who", "floor:mutation sites", n >= 10, nontrivial=False, msg=str(n))
    for ctor in ("new", "default"):
        pat = r"^libp2p_kad::kbucket::bucket::KBucket::new$" if ctor == "new" else r"kbucket::bucket::KBucket as std::default::Default>::default$"
        b = ctx.body(K, pat)
        for s in b.agg_sites(r"kbucket::bucket::KBucket$"):
            f = {k: render(v) for k, v in b.site_expr(s)[4]}
            ok = f.get(F.fcp) == "std::option::Option::None{}" and f.get(F.pending) == "std::option::Option::None{}" and f.get(F.nodes, "").startswith("std::vec::Vec::with_capacity(")
            ctx.ob("who", "KBucket::%s starts empty with no boundary and no pending node" % ctor, ok, s.loc(), str(f)[:260])
            if ctor == "new":
                ctx.ob("who", "KBucket::new capacity = config.bucket_size", re.match(r"^#1\.\w+$", f.get(F.capacity, "")) is not None and f.get(F.nodes) == "std::vec::Vec::with_capacity(%s)" % f.get(F.capacity), s.loc(), str(f)[:260])
    named = {"libp2p_kad::kbucket::KBucketsTable::iter", "libp2p_kad::kbucket::ClosestBucketsIter::new", "libp2p_kad::<kbucket::ClosestBucketsIter as std::iter::Iterator>::next"}

    def bi_allowed(r):
        if r.npath in named:
            return True
        # the conversion Distance -> Option<BucketIndex> (BucketIndex::new), identified by its signature
        return r.argc == 1 and re.search(r"Option<kbucket::BucketIndex>$", str(r.locals[0])) is not None and "Distance" in str(r.locals[1])
    roots = {lk.root_fn(prog, b) for b in prog.bodies(K) if b.agg_sites(r"^libp2p_kad::kbucket::BucketIndex$")}
    bad = sorted(r.npath for r in roots if not lk.allowed_fn(prog, K, r, bi_allowed))
    ctx.ob("who", "BucketIndex constructed only in the audited functions (none derives an index for a key except BucketIndex::new)", not bad and len(roots) >= 4, msg="construction sites in %s; not permitted: %s" % (sorted(x.npath.split("kbucket::")[-1] for x in roots), bad))


# thorough-tier sensitivity self-test (vrules/selftest.py): one-edit variants of the source that break the property
MUTANTS = [
    {"name": 'insert Connected: len >= capacity -> >', "file": 'protocols/kad/src/kbucket/bucket.rs',
     "find": 'if self.nodes.len() >= self.capacity {\n                    if self.first_connected_pos == Some(0)',
     "replace": 'if self.nodes.len() > self.capacity {\n                    if self.first_connected_pos == Some(0)',
     "expect": '^insert/Connected: push only below capacity', "why": 'a bucket can grow to capacity + 1'},
    {"name": 'remove Connected: last-element test dropped', "file": 'protocols/kad/src/kbucket/bucket.rs',
     "find": 'if self.first_connected_pos.is_some_and(|p| p == pos.0)\n                        && pos.0 == self.nodes.len()\n',
     "replace": 'if self.first_connected_pos.is_some_and(|p| p == pos.0)\n',
     "expect": '^remove/Connected: boundary cleared only if removed node was last', "why": 'remaining connected nodes are reported Disconnected'},
    {"name": 'status: pos >= boundary -> >', "file": 'protocols/kad/src/kbucket/bucket.rs',
     "find": 'is_some_and(|i| pos.0 >= i)',
     "replace": 'is_some_and(|i| pos.0 > i)',
     "expect": '^status/closure is pos >= boundary', "why": 'the first connected node is reported Disconnected'},
    {"name": 'apply_pending: replace <= now -> >=', "file": 'protocols/kad/src/kbucket/bucket.rs',
     "find": 'if pending.replace <= Instant::now() {',
     "replace": 'if pending.replace >= Instant::now() {',
     "expect": '^apply_pending/eviction only after timeout', "why": 'a pending entry replaces before its timeout'},
    {"name": 'insert Disconnected: boundary not advanced', "file": 'protocols/kad/src/kbucket/bucket.rs',
     "find": '                    self.nodes.insert(*p, node);\n                    *p += 1;\n',
     "replace": '                    self.nodes.insert(*p, node);\n',
     "expect": '^insert/Disconnected,Some: boundary \\+1 exactly once', "why": 'a disconnected node is reported Connected'},
    {"name": 'entry(): local key mapped to bucket 0', "file": 'protocols/kad/src/kbucket.rs',
     "find": '        let index = BucketIndex::new(&self.local_key.as_ref().distance(key))?;',
     "replace": '        let index = BucketIndex::new(&self.local_key.as_ref().distance(key)).unwrap_or(BucketIndex(0));',
     "expect": '^table/entry: no bucket is touched for the local key', "why": 'the local key can be stored'},
]
