"""C10 idle connections close only when truly idle — guards (K1), abstract evaluation of compute_new_shutdown (K7), origin (K5)."""
import re

from .. import lib, mir
from ..mir import render

EXPLANATION = ("Connection::poll: every KeepAliveTimeout return is dominated by the true edges of negotiating_in.is_empty, "
               "negotiating_out.is_empty, requested_substreams.is_empty and stream_counter.has_no_active_streams; when any is false the "
               "shutdown state is reset to None; compute_new_shutdown's table (current x keep_alive x timeout==0) is evaluated over all "
               "cells (keep-alive => Shutdown::None in every row; Later timer built from idle_timeout); its arguments are the handler's "
               "connection_keep_alive() and the configured idle_timeout; has_no_active_streams <=> Arc strong_count == 1 and every "
               "negotiated stream carries a clone of the counter which ignore_for_keep_alive drops.")
ASSUMPTIONS = ["'no earlier than the idle timeout' depends on futures_timer::Delay and clock arithmetic (not decided)"]
SW = "libp2p_swarm"


def check(ctx):
    p = ctx.body(SW, r"^libp2p_swarm::connection::Connection::poll$")
    kat = [s for s in p.agg_sites(r"connection::error::ConnectionError$", "KeepAliveTimeout")]
    ctx.floor("idle-guard", "KeepAliveTimeout returns", kat, 2)
    atoms = [("negotiating_in", r"^futures::stream::FuturesUnordered::is_empty\(.*\.negotiating_in\)$"),
             ("negotiating_out", r"^futures::stream::FuturesUnordered::is_empty\(.*\.negotiating_out\)$"),
             ("requested_substreams", r"^futures::stream::FuturesUnordered::is_empty\(.*\.requested_substreams\)$"),
             ("active_streams", r"^libp2p_swarm::stream::ActiveStreamCounter::has_no_active_streams\(.*\.stream_counter\)$")]
    for i, s in enumerate(kat):
        for name, pat in atoms:
            ctx.guarded("idle-guard", "KeepAliveTimeout#%d requires no %s" % (i, name), s,
                        lambda c, r, l, pat=pat: l == "true" and re.search(pat, r) is not None, "%s idle" % name)
    # busy => shutdown reset to None
    resets = [s for s in p.field_write_sites("shutdown") + p.stmt_sites(lambda st: st["k"] == "assign" and st["p"].get("pr") and p.names.get(st["p"]["l"]) == "shutdown")
              if render(p.site_expr(s)) == "libp2p_swarm::connection::Shutdown::None{}"]
    ctx.floor("busy-reset", "*shutdown = Shutdown::None", resets, 1)
    rb = lib.bbs(resets)
    muxpoll = lib.bbs(p.call_sites(r"StreamMuxerExt::poll_unpin$"))
    kb = lib.bbs(kat)
    for name, pat in atoms:
        # where "this atom is false (busy)" becomes known: the false edge of a switch on the atom, or -- when the
        # conjunction was hoisted into a bool local -- the block after `local = <atom>` with local := false
        starts = [([t], None) for _, t in lib.switch_edges_on(p, pat, {"false"})]
        for l in p._bool_switch_locals:
            for d in p.defs.get(l, []):
                e = p.rvalue_expr(d[3]) if d[0] == "stmt" else p.call_expr(d[3], d[1])
                if e[0] != "const" and re.search(pat, render(e)):
                    starts.append((list(p.succ[d[1]]) if d[0] == "call" else [d[1]], {l: False}) if d[0] == "call" else ([d[1]], None))
        ctx.ob("busy-reset", "floor:%s busy edge" % name, len(starts) == 1, nontrivial=False, msg=str([(a, bool(b)) for a, b in starts]))
        for st, env in starts:
            r = p.reachable_bool(st, env=env, blocked_nodes=rb)
            ok = not (set(muxpoll + p.return_blocks()) & r)
            ctx.ob("busy-reset", "busy (%s) resets the idle timer" % name, ok, "%s:%d" % (p.file, p.line),
                   ("all paths pass: " if ok else "a path avoids: ") + "*shutdown = Shutdown::None before continuing")
            r = p.reachable_bool(st, env=env, stop_nodes=muxpoll)
            ctx.ob("busy-reset", "busy (%s) cannot time out in this pass" % name, not (set(kb) & r), "", "no KeepAliveTimeout reachable before muxer poll")
    # arguments of compute_new_shutdown
    cs = p.call_sites(r"connection::compute_new_shutdown$")
    ctx.floor("args", "compute_new_shutdown call", cs, 1)
    for s in cs:
        e = p.site_expr(s)
        a0, a1, a2 = [render(x) for x in e[2]]
        ctx.ob("args", "keep-alive comes from the handler", a0.startswith("libp2p_swarm::handler::ConnectionHandler::connection_keep_alive(") and a0.endswith(".handler)"), s.loc(), a0[:120])
        ctx.ob("args", "current shutdown state", a1 == "shutdown", s.loc(), a1)
        ctx.ob("args", "configured idle timeout", a2.endswith(".idle_timeout"), s.loc(), a2[-60:])
    # ---- compute_new_shutdown table
    c = ctx.body(SW, r"connection::compute_new_shutdown$")
    res = [mir.Site(c, x[1], x[2]) for x in c.defs[0]]
    # parameters by position (names are irrelevant): (keep_alive: bool, current: &Shutdown, idle_timeout: Duration)
    a1, a2, a3 = [re.escape(c.names.get(i) or "arg%d" % i) for i in (1, 2, 3)]
    am = [(r"^%s$" % a1, "keep_alive"), (r"^discr\(%s\)$" % a2, "current"),
          (r"^<web_time::Duration as std::cmp::PartialEq>::eq\((%s, const:web_time::Duration::ZERO|const:web_time::Duration::ZERO, %s)\)$" % (a3, a3), "timeout_zero")]

    def val(s):
        r = render(c.site_expr(s))
        if r == "std::option::Option::None{}":
            return "keep"
        m = re.match(r"^std::option::Option::Some\{0: libp2p_swarm::connection::Shutdown::(\w+)\{(.*)\}\}$", r)
        if m:
            if m.group(1) == "Later":
                ok = m.group(2) == "0: futures_timer::Delay::new(libp2p_swarm::connection::checked_add_fraction(web_time::Instant::now(), %s))" % (c.names.get(3) or "arg3")
                return "Later(idle_timeout)" if ok else "Later(?%s)" % m.group(2)[:40]
            return m.group(1)
        return "?" + r[:60]

    def ref(a):
        if a["keep_alive"] == "true":
            return "None"
        if a["timeout_zero"] == "true":
            return "Asap"
        if a["current"] == "Later":
            return "keep"
        return "Later(idle_timeout)"
    lib.check_cells(ctx, "table", "compute_new_shutdown", c, res, val, am,
                    {"keep_alive": ["true", "false"], "current": ["None", "Asap", "Later"], "timeout_zero": ["true", "false"]}, ref, "%s:%d" % (c.file, c.line))
    # ---- stream counter
    h = ctx.body(SW, r"stream::ActiveStreamCounter::has_no_active_streams$")
    r0 = [render(h.site_expr(mir.Site(h, x[1], x[2]))) for x in h.defs[0]]
    # either directly `Arc::strong_count(self.0) == 1` or through a crate-local accessor whose body is that count
    direct = re.match(r"^Eq\(std::sync::Arc::strong_count\(\w+\.0\), 1\)$", r0[0]) is not None if len(r0) == 1 else False
    m = re.match(r"^Eq\((libp2p_swarm::stream::ActiveStreamCounter::\w+)\(\w+\), 1\)$", r0[0]) if len(r0) == 1 else None
    via = False
    if m:
        n = ctx.body(SW, "^" + re.escape(m.group(1)) + "$")
        rn = [render(n.site_expr(mir.Site(n, x[1], x[2]))) for x in n.defs[0]]
        via = len(rn) == 1 and re.match(r"^std::sync::Arc::strong_count\(\w+\.0\)$", rn[0]) is not None
        ctx.ob("counter", "the stream count is Arc::strong_count of the shared counter", via, "%s:%d" % (n.file, n.line), str(rn))
    ctx.ob("counter", "has_no_active_streams <=> strong_count == 1", direct or via, "%s:%d" % (h.file, h.line), str(r0))
    ig = ctx.body(SW, r"stream::Stream::ignore_for_keep_alive$")
    tk = ig.call_sites(r"Option::take$")
    ctx.ob("counter", "ignore_for_keep_alive drops the stream's counter clone", len(tk) == 1 and render(ig.site_expr(tk[0])) == "std::option::Option::take(self.counter)",
           "%s:%d" % (ig.file, ig.line), str([render(ig.site_expr(s)) for s in tk]))
    sn = ctx.body(SW, r"stream::Stream::new$")
    ag = sn.agg_sites(r"stream::Stream$")
    ok = len(ag) == 1 and "counter: std::option::Option::Some{0: counter}" in render(sn.site_expr(ag[0]))
    ctx.ob("counter", "Stream::new stores the counter", ok, "%s:%d" % (sn.file, sn.line), render(sn.site_expr(ag[0]))[:160] if ag else "")
    # the stream's share of the counter is released only by the explicit opt-out (ignore_for_keep_alive) or by dropping
    # the stream: no other code may take / overwrite it (e.g. on close of one half)
    sadt = ctx.prog.adt(SW, r"^libp2p_swarm::stream::Stream$")
    cf = [f["n"] for f in sadt["variants"][0]["fields"] if "ActiveStreamCounter" in f["ty"]]
    ctx.ob("counter", "floor:Stream has exactly one counter field", len(cf) == 1, nontrivial=False, msg=str(cf))
    if len(cf) == 1:
        writers = set()
        for b in ctx.prog.bodies(SW):
            if lib.field_mut_calls(b, cf[0]) or [s for s in b.field_write_sites(cf[0]) if "stream::Stream" in (render(b.site_expr(s)) + b.npath)]:
                # only bodies that operate on a Stream (receiver / local of that type)
                if any("stream::Stream" in (t or "") for t in b.locals):
                    writers.add(b.npath)
        allowed = {"libp2p_swarm::stream::Stream::ignore_for_keep_alive"}
        ctx.ob("counter", "a stream's counter share is released only by ignore_for_keep_alive (or drop)", writers <= allowed and bool(writers),
               "%s:%d" % (ig.file, ig.line), "bodies that mutate Stream.%s: %s" % (cf[0], sorted(writers)))
    for fn in ("new_outbound", "new_inbound"):
        ss = p.call_sites(r"connection::StreamUpgrade::%s$" % fn)
        ctx.floor("counter", "StreamUpgrade::%s call" % fn, ss, 1)
        for s in ss:
            r = render(p.site_expr(s))
            ctx.ob("counter", "%s receives a clone of the connection's counter" % fn,
                   re.search(r"<stream::ActiveStreamCounter as std::clone::Clone>::clone\(std::pin::Pin::get_mut\(self\)\.stream_counter\)\)$", r) is not None, s.loc(), r[-120:])
    # the counter handed to StreamUpgrade ends up in Stream::new
    for fn in ("new_outbound", "new_inbound"):
        co = [b for b in ctx.prog.bodies(SW) if re.search(r"connection::StreamUpgrade::%s::\{closure#0\}$" % fn, b.npath)]
        ok = False
        for b in co:
            for s in b.call_sites(r"stream::Stream::new$"):
                if "counter" in render(b.site_expr(s)[2][1]):
                    ok = True
        ctx.ob("counter", "%s: negotiated stream is built with the counter" % fn, ok and len(co) == 1, msg="Stream::new(.., counter) in the upgrade future")
