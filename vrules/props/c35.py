"""C35 publishing without a subscription keeps its fanout peers — store classification (K4/K5), origin (K5), path counting (K2), who-mutates (K4)."""
import re

from .. import lib, mir
from .. import lib_gs as gs
from ..mir import render, strip_generics

EXPLANATION = ("Behaviour::filter_publish_candidates (the only publish-time writer of `fanout`): every mutation-capable call on data derived "
               "from `self.fanout` is classified — in-place extension (entry/or_default/get_mut + extend/insert) is accepted, a "
               "`HashMap::insert(self.fanout, ..)` overwrite is accepted only if its value derives from the prior entry or it is reached only "
               "on an edge proving there were no prior eligible fanout peers, and any removal-capable call is a violation. On the "
               "not-subscribed arm: the still-eligible prior fanout peers (prior set filtered by `candidates.contains`) are added to the "
               "recipients exactly once; when more peers are needed exactly one additive store happens and the stored peers are the sampled "
               "peers that are also published to; the number sampled is mesh_n - |eligible fanout peers| (saturating). Crate-wide, `fanout` "
               "is mutably borrowed only by filter_publish_candidates, join, heartbeat, handle_received_subscriptions and "
               "on_connection_closed, and the latter two only remove the one unsubscribed / disconnected peer.")
ASSUMPTIONS = ["HashMap/BTreeSet API semantics: entry().or_default()/get_mut + extend/insert extend in place, HashMap::insert overwrites",
               "heartbeat's own fanout maintenance (ttl expiry, dropping unsubscribed / low-score peers, refilling) is the 'until the heartbeat "
               "maintains the set' part of the property and is not constrained here",
               "random sampling (rand::IteratorRandom::sample) returns a subset of its input"]
TECHNIQUE = "static analysis of rustc MIR facts: call-site classification, def-use origin, path counting"

G = gs.G
CONFIGS = [{"name": "gossipsub-features", "packages": ["libp2p-gossipsub"], "features": "metrics,partial-messages"}]
ADDITIVE = re.compile(r"(BTreeSet::insert|Extend>::extend|Extend::extend|BTreeSet::append)$")
INPLACE = re.compile(r"(HashMap::entry|HashMap::get_mut|hash_map::Entry::(or_default|or_insert|or_insert_with|or_insert_with_key)|"
                     r"hash_map::OccupiedEntry::(get_mut|into_mut)|HashMap::iter_mut|HashMap::values_mut)$")
OVERWRITE = re.compile(r"(HashMap::insert|hash_map::(Occupied|Vacant)?Entry::(insert|insert_entry))$")
REMOVAL = re.compile(r"(HashMap::(remove|remove_entry|clear|retain|drain|extract_if)|hash_map::OccupiedEntry::(remove|remove_entry)|"
                     r"BTreeSet::(remove|retain|clear|take|pop_first|pop_last|split_off|extract_if|difference|intersection)|"
                     r"mem::(take|replace|swap))$")
ANYMUT = re.compile(ADDITIVE.pattern + "|" + INPLACE.pattern + "|" + OVERWRITE.pattern + "|" + REMOVAL.pattern)

SELFTEST = [
    {"mutation": "pinned tree (F8): self.fanout.insert(topic_hash.clone(), new_peers.clone().into_iter().collect())", "caught_by": "store/no overwrite of the fanout entry"},
    {"mutation": "fixed tree + `self.fanout.remove(topic_hash);` before the extend", "caught_by": "store/no removal from fanout while publishing"},
    {"mutation": "fanout filter `candidates.contains(*p)` -> `!candidates.contains(*p)`", "caught_by": "eligible/prior fanout peers kept iff still candidates"},
    {"mutation": "`recipients.extend(fanout_peers)` moved under `if needed_extra_peers > 0`", "caught_by": "eligible/still-eligible fanout peers are published to exactly once"},
    {"mutation": "extend the fanout with `fanout_peers` (not new_peers) / publish to different peers than remembered", "caught_by": "new/remembered peers = sampled peers = additional recipients"},
    {"mutation": "sample(.., mesh_n) instead of needed_extra_peers", "caught_by": "new/sample size = mesh_n - eligible fanout peers"},
    {"mutation": "publish(): self.fanout.clear() ", "caught_by": "who/mutable borrows of `fanout`"},
    {"mutation": "NEUTRAL: `let prior = self.fanout.remove(t).unwrap_or_default(); self.fanout.insert(t, prior.into_iter().chain(new).collect())`", "caught_by": "(silent, as intended)"},
    {"mutation": "NEUTRAL: recipients / candidates / topic_hash renamed in filter_publish_candidates", "caught_by": "(silent: parameters by type, recipient set = returned local)"},
]

# one-edit source variants for the thorough-tier sensitivity self-test (vrules/selftest.py); each must be reported
MUTANTS = [
    {"name": 'fanout entry overwritten (F8)', "file": 'protocols/gossipsub/src/behaviour.rs',
     "find": '                    self.fanout\n                        .entry(topic_hash.clone())\n                        .or_default()\n                        .extend(new_peers.iter().copied());',
     "replace": '                    self.fanout\n                        .insert(topic_hash.clone(), new_peers.iter().copied().collect());',
     "expect": 'store/no overwrite of the fanout entry', "why": 'earlier fanout peers dropped on the next publish'},
    {"name": 'eligibility filter inverted', "file": 'protocols/gossipsub/src/behaviour.rs',
     "find": '.filter(|p| candidates.contains(*p))',
     "replace": '.filter(|p| !candidates.contains(*p))',
     "expect": 'eligible/prior fanout peers kept iff still candidates', "why": 'still-eligible fanout peers are not published to'},
    {"name": 'sample size ignores existing fanout peers', "file": 'protocols/gossipsub/src/behaviour.rs',
     "find": '                        .filter(|peer_id| !recipients.contains(peer_id))\n                        .sample(&mut rand::rng(), needed_extra_peers);',
     "replace": '                        .filter(|peer_id| !recipients.contains(peer_id))\n                        .sample(&mut rand::rng(), mesh_n);',
     "expect": 'new/sample size', "why": 'fanout grows beyond mesh_n'},
]


def fanout_derived(body, e):
    x = gs.expand(body, e)
    for s in mir.walk(x):
        if s[0] == "field" and s[2] == "fanout":
            return True
        if s[0] == "upvar" and re.sub(r"^\*+", "", s[1]) in ("fanout", "self.fanout"):
            return True
    return False


PRESERVING = re.compile(r"(Iterator::(chain|copied|cloned|collect|filter|map|flatten|flat_map|into_iter)|IntoIterator>::into_iter|"
                        r"(BTreeSet|HashSet|Vec)::(iter|into_iter|union|clone)|Clone>::clone|Clone::clone|slice::iter|Deref>::deref|"
                        r"Option::(map|unwrap_or_default|into_iter|unwrap_or|cloned|copied|iter)|Iterator::by_ref)$")


def carries_prior(body, e, depth=0):
    """Blocks of the HashMap::get/remove/get_mut calls on self.fanout whose *elements* flow into value `e` through
    element-preserving adaptors only (a mere use of the prior set's length, e.g. as a sample size, does not count).
    Empty set = the value does not carry the prior entry."""
    if depth > 12 or e[0] != "call":
        if e[0] == "downcast":
            return carries_prior(body, e[1], depth + 1)
        return set()
    name = strip_generics(e[1])
    if re.search(r"HashMap::(get|remove|get_mut|remove_entry)$", name):
        return {e[3]} if e[2] and render(e[2][0]) == "self.fanout" else set()
    if not PRESERVING.search(name):
        return set()
    args = e[2] if re.search(r"::(chain|union)$", name) else e[2][:1]
    out = set()
    for a in args:
        out |= carries_prior(body, a, depth + 1)
    return out


def _resolves_to_arg(prog, outer, mid, inner, up, idx):
    """upvar `up` of closure `inner` (nested in closure `mid`, nested in fn `outer`) is bound to parameter idx of `outer`"""
    x = gs.upvar_exprs(prog, mid, inner).get(up[1].lstrip("*"))
    if x is None:
        return False
    x = gs.expand(mid, x)
    if x[0] == "upvar":
        y = gs.upvar_exprs(prog, outer, mid).get(x[1].lstrip("*"))
        return y is not None and gs.is_arg(gs.expand(outer, y), idx)
    return False


def mut_sites(body):
    out = []
    for s in body.call_sites():
        name = strip_generics(body.call_name(s.term))
        if not ANYMUT.search(name):
            continue
        e = body.site_expr(s)
        if e[2] and fanout_derived(body, e[2][0]):
            out.append((s, name, e))
    return out


def check(ctx):
    prog = ctx.prog
    f = ctx.body(G, gs.BEH + r"filter_publish_candidates$")
    where_f = "%s:%d" % (f.file, f.line)
    # parameters by type (their names are not consulted)
    a_topic, a_cand = gs.arg_of_type(f, r"^&topic::TopicHash$"), gs.arg_of_type(f, r"^std::collections::HashSet<libp2p_identity::PeerId>$")
    T = gs.argname(f, a_topic)

    # ------------------------------------------------------------------ arms
    none_arm = lib.arm_entry(f, r"^discr\(std::collections::HashMap::get\(self\.mesh, %s\)\)$" % re.escape(T), "None")
    ctx.ob("arm", "floor:not-subscribed arm", len(none_arm) == 1, nontrivial=False, msg=str(none_arm))
    if not none_arm:
        return
    arm = none_arm[0][1]
    rets = f.return_blocks()
    in_arm = f.reachable([arm])

    # ------------------------------------------------------------------ store classification
    ms = mut_sites(f)
    stores = []
    # a removed entry that is put back (its elements flow into a later store that every path reaches) is a move, not a removal
    put_back = {}
    for s, name, e in ms:
        if OVERWRITE.search(name) or ADDITIVE.search(name):
            for bb in carries_prior(f, gs.expand(f, e[2][-1])):
                put_back.setdefault(bb, []).append(s.bb)
    for s, name, e in ms:
        if REMOVAL.search(name):
            back = put_back.get(s.bb, [])
            ok = bool(back) and f.must_pass_nodes(f.succ[s.bb], rets, back)
            ctx.ob("store", "no removal from fanout while publishing", ok, s.loc(),
                   "%s on fanout data%s" % (name, " (the removed set is stored back on every path)" if ok else ""))
            continue
        if OVERWRITE.search(name):
            # accepted only if the value carries the prior entry or there was provably no prior eligible peer
            val = e[2][-1]
            carries = bool(carries_prior(f, gs.expand(f, val)))

            def no_prior(cond, r, l):
                x = gs.expand(f, cond)
                if l == "None" and r.startswith("discr(") and gs.has_call(x, r"HashMap::(get|get_mut)$") and fanout_derived(f, cond):
                    return True
                if l == "false" and gs.has_call(x, r"HashMap::contains_key$") and fanout_derived(f, cond) and x[0] == "call":
                    return True
                if l == "true" and x[0] == "call" and re.search(r"(Vec|BTreeSet|HashSet)::is_empty$", strip_generics(x[1])) and fanout_derived(f, cond):
                    return True
                if x[0] == "bin" and x[3][0] == "const" and x[3][1] == 0 and gs.has_call(x[2], r"::len$") and fanout_derived(f, x[2]):
                    return (x[1], l) in (("Eq", "true"), ("Ne", "false"), ("Gt", "false"))
                return False
            guarded = bool(gs.guard(f, no_prior)) and f.must_pass_edges(s.bb, gs.guard(f, no_prior))
            ok = carries or guarded
            ctx.ob("store", "no overwrite of the fanout entry", ok, s.loc(),
                   ("%s(self.fanout, ..) replaces the topic's set: its value does not derive from the prior entry and the call is not "
                    "restricted to 'no prior eligible fanout peers' — earlier, still eligible fanout peers are dropped" % name.split("::")[-1]) if not ok
                   else "overwrite accepted (%s)" % ("value carries the prior entry" if carries else "only when no prior eligible peers"))
            if ok:
                stores.append(s)
            continue
        if ADDITIVE.search(name):
            stores.append(s)
            ctx.ob("store", "additive store into the existing entry", True, s.loc(), "%s on %s" % (name.split("::")[-1], gs.xrender(f, e[2][0])[:120]))
            # receiver is the entry of *this* topic
            recv = gs.expand(f, e[2][0])
            keyed = [c for c in gs.calls(recv, r"HashMap::(entry|get_mut)$")]
            ok = bool(keyed) and all(render(c[2][0]) == "self.fanout" and any(gs.is_arg(y, a_topic) for y in mir.walk(c[2][1])) for c in keyed)
            ctx.ob("store", "stored under the published topic", ok, s.loc(), "key = %s" % [render(c[2][1])[-60:] for c in keyed])
            continue
        # in-place accessors are fine by themselves
    ctx.floor("store", "fanout stores in filter_publish_candidates", stores, 1)
    none_noise = [s for s, name, e in ms if not (REMOVAL.search(name) or OVERWRITE.search(name) or ADDITIVE.search(name) or INPLACE.search(name))]
    ctx.ob("store", "every fanout mutation is classified", not none_noise, where_f, "unclassified: %s" % [n for _, n, _ in ms if _ in none_noise])
    for s in stores:
        ctx.ob("store", "store happens on the not-subscribed arm", s.bb in in_arm, s.loc(), "fanout is only written when mesh.get(topic) is None")

    # ------------------------------------------------------------------ still-eligible prior fanout peers
    # the recipient set is what the function returns on the selecting paths (identified by role)
    ret_locals = {x[1] for _, e in gs.ret_exprs(f) for x in mir.walk(e) if x[0] == "local"}
    rext = [s for s in f.call_sites(r"HashSet as std::iter::Extend>::extend$") if f.site_expr(s)[2][0][0] == "local" and f.site_expr(s)[2][0][1] in ret_locals]
    prior_ext = []
    new_ext = []
    for s in rext:
        a1 = gs.expand(f, f.site_expr(s)[2][1])
        if gs.has_call(a1, r"IteratorRandom::sample$"):
            if s.bb in in_arm:
                new_ext.append(s)
        elif fanout_derived(f, a1):
            prior_ext.append(s)
    ctx.floor("eligible", "recipients.extend(prior fanout peers)", prior_ext, 1)
    lib.expect_count(ctx, "eligible", "still-eligible fanout peers are published to exactly once", f, [arm], rets, lib.bbs(prior_ext), (1, 1),
                     "recipients.extend(fanout_peers) on every path of the not-subscribed arm")
    for s in prior_ext:
        a1 = gs.expand(f, f.site_expr(s)[2][1])
        got = [c for c in gs.calls(a1, r"HashMap::get$") if render(c[2][0]) == "self.fanout" and gs.is_arg(c[2][1], a_topic)]
        ctx.ob("eligible", "prior peers come from fanout[topic]", bool(got), s.loc(), render(a1)[:160])
        # closure: f.iter().filter(|p| candidates.contains(p)).copied().collect()
        mp = [c for c in gs.calls(a1, r"Option::map$")]
        ok = False
        msg = "no Option::map(closure) over the prior set"
        for c in mp:
            cl = gs.closure_arg(prog, f, c)
            if cl is None:
                continue
            ups = gs.upvar_exprs(prog, f, cl)
            for _, re_ in gs.ret_exprs(cl):
                flt = gs.calls(re_, r"Iterator::filter$")
                for fc in flt:
                    inner = gs.closure_arg(prog, cl, fc)
                    if inner is None:
                        continue
                    req = gs.truth_requirements(inner)
                    msg = "kept iff %s" % [(p, render(x)[:80]) for x, p in req]
                    ok = (len(req) == 1 and req[0][1] is True and req[0][0][0] == "call" and re.search(r"HashSet::contains$", strip_generics(req[0][0][1]))
                          and req[0][0][2][0][0] == "upvar"
                          and _resolves_to_arg(prog, f, cl, inner, req[0][0][2][0], a_cand)
                          and gs.has_call(fc[2][0], r"BTreeSet::iter$"))
        ctx.ob("eligible", "prior fanout peers kept iff still candidates", ok, s.loc(), msg)

    # ------------------------------------------------------------------ new peers
    need_edges = set()
    need_expr = None
    for bi in sorted(in_arm):
        info = f.switch_info(bi)
        if not info:
            continue
        c = info[0]
        if c[0] == "bin" and c[1] in ("Gt", "Ne") and c[3][0] == "const" and c[3][1] == 0 and gs.has_call(c[2], r"saturating_sub$") and fanout_derived(f, c[2]):
            need_expr = c[2]
            for tgt, ls in info[1].items():
                if ls == {"true"}:
                    need_edges.add((bi, tgt))
    ctx.ob("new", "floor:needed_extra_peers > 0 test", len(need_edges) == 1 and need_expr is not None, nontrivial=False, msg=str(sorted(need_edges)))
    if need_expr is not None:
        r = render(need_expr)
        ok = need_expr[0] == "call" and re.search(r"saturating_sub$", strip_generics(need_expr[1])) \
            and re.match(r"^libp2p_gossipsub::config::Config::mesh_n_for_topic\(self\.config, %s\)$" % re.escape(T), render(need_expr[2][0])) is not None \
            and gs.has_call(need_expr[2][1], r"Vec::len$") and fanout_derived(f, need_expr[2][1])
        ctx.ob("new", "needed = mesh_n(topic) - |eligible fanout peers| (saturating)", ok, where_f, r[:200])
    starts = gs.edge_targets(need_edges)
    if starts:
        lib.expect_count(ctx, "new", "needed > 0 => exactly one additive fanout store", f, starts, rets, lib.bbs(stores), (1, 1), "fanout store on the needed>0 edge")
        lib.expect_count(ctx, "new", "needed > 0 => sampled peers are published to exactly once", f, starts, rets, lib.bbs(new_ext), (1, 1), "recipients.extend(new_peers)")
    for s in stores:
        if need_edges:
            ctx.ob("new", "fanout grows only when more peers are needed", f.must_pass_edges(s.bb, need_edges), s.loc(), "store dominated by needed_extra_peers > 0")
    samples = [s for s in f.call_sites(r"IteratorRandom::sample$") if s.bb in in_arm]
    ctx.floor("new", "sample of new fanout peers", samples, 1)
    for s in samples:
        e = f.site_expr(s)
        ok = need_expr is not None and render(e[2][-1]) == render(need_expr)
        ctx.ob("new", "sample size = mesh_n - eligible fanout peers", ok, s.loc(), "amount = %s" % render(e[2][-1])[:160])
        ctx.ob("new", "sampled from the candidates", gs.has_call(e[2][0], r"IntoIterator>::into_iter$|HashSet::iter$") and any(gs.is_arg(x, a_cand) for x in mir.walk(e[2][0])),
               s.loc(), render(e[2][0])[:160])
    for s in stores:
        e = f.site_expr(s)
        val = gs.expand(f, e[2][-1])
        sm = gs.calls(val, r"IteratorRandom::sample$")
        ok = bool(sm) and bool(samples) and all(x[3] == samples[0].bb for x in sm)
        ctx.ob("new", "remembered peers = sampled peers = additional recipients", ok and all(
            any(x[3] == samples[0].bb for x in gs.calls(gs.expand(f, f.site_expr(n)[2][1]), r"IteratorRandom::sample$")) for n in new_ext) and bool(new_ext),
            s.loc(), "store value derives from sample@bb%s" % sorted({x[3] for x in sm}))

    # ------------------------------------------------------------------ who mutably borrows `fanout`
    who = set()
    for b in prog.bodies(G):
        for bi in sorted(b.live):
            for st in b.blocks[bi]["stmts"]:
                if st["k"] == "assign" and st["r"]["k"] in ("ref", "rawptr") and st["r"].get("m", "mut") != "shared":
                    for pr in st["r"]["p"].get("pr", ()):
                        if pr["k"] == "field" and pr["n"] == "fanout" and "Behaviour" in (pr.get("o") or ""):
                            who.add(b.npath)
        if b.field_write_sites("fanout", r"behaviour::Behaviour"):
            who.add(b.npath + " (assignment)")
    B = "libp2p_gossipsub::behaviour::Behaviour::"
    allowed = {B + x for x in ("filter_publish_candidates", "join", "heartbeat", "handle_received_subscriptions", "on_connection_closed")}
    ctx.ob("who", "mutable borrows of `fanout`", who <= allowed and (B + "filter_publish_candidates") in who, where_f,
           "Behaviour.fanout is mutably borrowed in %s" % sorted(x.replace(B, "") for x in who))
    callers = sorted({s.body.npath for s in prog.callers(G, gs.BEH + r"filter_publish_candidates$")})
    ctx.ob("who", "filter_publish_candidates is the publish path", (B + "publish") in callers and set(callers) <= {B + "publish", B + "publish_partial"}, where_f,
           "callers: %s" % [c.replace(B, "") for c in callers])
    # peer-level removals outside the heartbeat remove exactly the leaving peer
    for fn, peer_pat in (("handle_received_subscriptions", r"peer_id$"), ("on_connection_closed", r"peer_id$")):
        b = ctx.body(G, gs.BEH + fn + "$")
        sites = mut_sites(b)
        names = sorted({n.split("::")[-1] for _, n, _ in sites})
        ctx.ob("who", "%s touches fanout only through get_mut" % fn, names == ["get_mut"], "%s:%d" % (b.file, b.line), "fanout calls: %s" % names)
        for s, n, e in sites:
            # Option::map(get_mut(..), |peers| peers.remove(&peer_id))
            users = [u for u in b.call_sites(r"Option::map$") if any(c[3] == s.bb for c in gs.calls(b.site_expr(u), r"HashMap::get_mut$"))]
            ok = False
            msg = "get_mut result not consumed by Option::map(closure)"
            for u in users:
                cl = gs.closure_arg(prog, b, b.site_expr(u))
                if cl is None:
                    continue
                cs = [strip_generics(cl.call_name(x.term)) for x in cl.call_sites()]
                rm = [x for x in cl.call_sites(r"BTreeSet::remove$")]
                ok = len(cs) == 1 and len(rm) == 1 and re.search(peer_pat, render(cl.site_expr(rm[0])[2][1]).lstrip("^*")) is not None
                msg = "closure calls %s" % [c.split("::")[-1] + "(" + ", ".join(render(a) for a in cl.site_expr(x)[2]) + ")" for c, x in zip(cs, cl.call_sites())]
            ctx.ob("who", "%s removes only the leaving peer from fanout" % fn, ok, s.loc(), msg)
