"""C36 subscription filters bound what peers can make us track — writers / origin of every insert into a peer's topic set (K4/K5), guards and limits of the filters (K1/K6/K9), no-effect-on-rejection order (K3)."""
import re

from .. import lib, lib_gs2, mir
from ..lib_gs2 import Canon, rel_pred, var_pred, bool_pred, result_edges
from ..mir import render, strip_generics

EXPLANATION = ("Every call that can grow a peer's topic set (the BTreeSet<TopicHash> field of PeerDetails; workspace-wide in "
               "libp2p_gossipsub) is a BTreeSet::insert whose argument is the topic of an element of the iteration over the Ok result of "
               "TopicSubscriptionFilter::filter_incoming_subscriptions, called with that same peer's current topic set; the set is never "
               "assigned, extended or borrowed mutably by anything else, and new PeerDetails start with an empty set. In both call sites "
               "(handle_received_subscriptions, handle_graft) every state-changing call is dominated by the Ok edge of the filter and nothing "
               "but logging is reachable from its Err edge (a rejected request changes nothing); inserts happen only for Subscribe elements, "
               "removals only for Unsubscribe elements. MaxCountSubscriptionFilter: the inner filter runs only when the raw request length is "
               "<= max_subscriptions_per_request, Ok is returned only when new + current.len() <= max_subscribed_topics + unsubscribed, the "
               "two counters are unit-incremented from 0 exactly for (Subscribe, not yet contained) resp. (Unsubscribe, contained) elements "
               "of the inner filter's result, the value returned is that result (`?` or match), inner errors propagate. Default trait "
               "methods: the dedup map only ever holds elements of the request keyed by their own topic, the retain closure keeps an element "
               "only if allow_incoming_subscription (= can_subscribe(topic)) holds; Whitelist = set membership; Combined = both filters. "
               "Parameters are matched by position, locals by role, results of calls by value flow.")
ASSUMPTIONS = ["user supplied filters (Callback, Regex, custom impls) are trusted to be what the user wants",
               "the filter is consulted with the peer's topic set as it is at that moment; interleavings with other events are sequential (single &mut self)",
               "BTreeSet / HashSet / HashMap semantics"]
G = "libp2p_gossipsub"
CONFIGS = [{"name": "gossipsub-features", "packages": ["libp2p-gossipsub"], "features": "metrics,partial-messages"}]
SF = r"subscription_filter::TopicSubscriptionFilter::filter_incoming_subscriptions$"
SELFTEST = [
    {"mutation": "original F9: handle_graft inserts the raw GRAFT topics (`for topic in &topics { connected_peer.topics.insert(topic.clone()) }`)", "caught_by": "topic-set/handle_graft: inserted topic comes from the subscription filter's output"},
    {"mutation": "handle_received_subscriptions: iterate `subscriptions` instead of `filtered_topics`", "caught_by": "topic-set/handle_received_subscriptions: inserted topic comes from the subscription filter's output"},
    {"mutation": "handle_received_subscriptions: filter Err arm clears peer.topics before returning", "caught_by": "no-effect/handle_received_subscriptions: rejected request changes nothing"},
    {"mutation": "MaxCount: `subscriptions.len() > self.max_subscriptions_per_request` test moved after the inner filter call", "caught_by": "max-count/inner filter runs only for a request within max_subscriptions_per_request"},
    {"mutation": "MaxCount: `new_subscribed + current.len() > max + unsubscribed` -> `new_subscribed > max + unsubscribed`", "caught_by": "max-count/floor:total comparison"},
    {"mutation": "MaxCount: `if !currently_contained { new_subscribed += 1 }` -> `if currently_contained {..}`", "caught_by": "max-count/new counter counts exactly (Subscribe, not contained)"},
    {"mutation": "MaxCount: `unsubscribed += 1` -> `+= 2`", "caught_by": "max-count/unsubscribed counter starts at 0 and only ever +1"},
    {"mutation": "default filter_incoming_subscription_set: retain closure returns true on the not-allowed branch", "caught_by": "default-filter/an element is kept only if allow_incoming_subscription holds"},
    {"mutation": "Combined::can_subscribe: `&&` -> `||`", "caught_by": "combined/can_subscribe requires both filters"},
    {"mutation": "Whitelist::can_subscribe: `!self.0.contains(..)`", "caught_by": "whitelist/can_subscribe = membership in the whitelist"},
    {"mutation": "on_connection_established builds PeerDetails with a pre-filled topic set", "caught_by": "topic-set/a new peer starts with an empty topic set"},
    {"mutation": "neutral/gs/03 (`?` -> match in MaxCount), 07 (mirrored comparisons)", "caught_by": "(silent, as required)"},
]
MUT = r"::(insert|extend|append|push|push_back|remove|retain|clear|take|replace|swap|entry|get_mut|pop_first|pop_last|split_off|drain|insert_\w+)$"
GROW = r"::(insert|extend|append|push|push_back|replace|swap|entry|insert_\w+)$"
NEXT = r"<[^()]*? as std::iter::Iterator>::next\(it\)@Some\.0"


def loop_of(body, bb):
    """innermost enclosing `for` of block bb: (switch bb, iterator local, block of the next() call)"""
    best = None
    for text, labels, sw, cond in body.guards_on_all_paths(bb):
        if labels == frozenset({"Some"}) and cond[0] == "discr" and cond[1][0] == "call" and re.search(r"iter::Iterator>::next$", strip_generics(cond[1][1])) and cond[1][2] and cond[1][2][0][0] == "local":
            if best is None or len(body.dominators().get(sw, ())) > len(body.dominators().get(best[0], ())):
                best = (sw, cond[1][2][0][1], cond[1][3])
    return best


def effect_sites(cx):
    """State-changing calls of a behaviour method: mutators of collections reachable from self, and calls to other Behaviour methods /
    mesh helpers / score / metrics; logging and formatting (macro-expanded) calls are not effects."""
    body = cx.b
    out = []
    for s in body.call_sites():
        t = s.term
        if t.get("x", "").startswith("m:") or "tracing" in t.get("xs", ""):
            continue
        n = strip_generics(body.call_name(t))
        if lib_gs2.TRANSPARENT.search(n):
            continue
        a = cx.args(s)
        a0 = render(a[0]) if a else ""
        if re.search(r"behaviour::Behaviour::\w+$|behaviour::peer_added_to_mesh$|behaviour::peer_removed_from_mesh$|peer_score::PeerScore::\w+$|partial_messages::\w+::\w+$|metrics::Metrics::\w+$", n) and not re.search(r"::(below_threshold|score_report|get_\w+|is_\w+|contains\w*)$", n):
            out.append(s)
        elif re.search(MUT, n) and re.search(r"\$1\.", a0) and not (re.search(r"HashMap::get_mut$", n) and re.match(r"^\$1\.\w+$", a0)):
            out.append(s)
    return out


def check(ctx):
    prog = ctx.prog
    bodies = list(prog.bodies(G))
    pd = prog.adt(G, r"types::PeerDetails$")
    tf = [f["n"] for f in pd["variants"][0]["fields"] if re.search(r"BTreeSet<.*TopicHash>", f["ty"])]
    ctx.ob("topic-set", "floor:PeerDetails has one topic set", len(tf) == 1, msg=str(tf), nontrivial=False)
    TOPICS = tf[0] if tf else "topics"

    def is_peer_topics(e):
        return e[0] == "field" and e[2] == TOPICS and re.search(r"types::PeerDetails", e[3] or "") is not None
    # ======================================================================================= who can change a peer's topic set
    sites = []
    for b in bodies:
        cb = None
        for s in b.call_sites():
            n = strip_generics(b.call_name(s.term))
            if not re.search(MUT, n):
                continue
            cb = cb or Canon(prog, b)
            for i, a in enumerate(cb.args(s)):
                if is_peer_topics(a):
                    sites.append((b, cb, s, n, re.search(GROW, n) is not None, i))
    grow = [x for x in sites if x[4]]
    ctx.floor("topic-set", "calls that can grow a peer's topic set", grow, 1)
    allowed_callees = {"std::collections::BTreeSet::insert", "std::collections::BTreeSet::remove"}
    other = sorted({x[3] for x in sites} - allowed_callees)
    ctx.ob("topic-set", "a peer's topic set is only changed by insert / remove", not other, sites[0][2].loc() if sites else "", "other mutators applied to a peer's topic set: %s" % other)
    whole = [(b, s) for b in bodies for s in b.field_write_sites(TOPICS, r"types::PeerDetails")]
    ctx.ob("topic-set", "a peer's topic set is never assigned as a whole", not whole, whole[0][1].loc() if whole else "", "%d assignment(s)" % len(whole))
    esc = []
    for b in bodies:
        for s in lib.field_mut_calls(b, TOPICS):
            e = b.site_expr(s)
            if any(x[0] == "field" and x[2] == TOPICS and re.search(r"types::PeerDetails", x[3] or "") for a in e[2] for x in mir.walk(a)):
                n = strip_generics(b.call_name(s.term))
                if n not in allowed_callees:
                    esc.append((b, s, n))
    ctx.ob("topic-set", "no other code receives a mutable borrow of a peer's topic set", not esc, esc[0][1].loc() if esc else "", str([n for _, _, n in esc]))
    aggs = [(b, s) for b in bodies for s in b.agg_sites(r"types::PeerDetails$") if "Clone>::clone" not in b.npath]
    ctx.floor("topic-set", "PeerDetails constructions", aggs, 1)
    for b, s in aggs:
        f = dict((k, render(x)) for k, x in Canon(prog, b).site(s)[4])
        ctx.ob("topic-set", "a new peer starts with an empty topic set", re.match(r"^(std::default::Default::default\(\)|<std::collections::BTreeSet as std::default::Default>::default\(\)|std::collections::BTreeSet::new\(\))$", f.get(TOPICS, "")) is not None, s.loc(), "%s: topics = %s" % (b.short[-40:], f.get(TOPICS)))
    # a private helper that inserts one of its parameters into the set it is given is judged at its call sites (one level up)
    grow2 = []
    for b, cb, s, n, g_, idx in grow:
        a = cb.args(s)
        if n.endswith("BTreeSet::insert") and idx == 0 and len(a) == 2 and a[1][0] == "arg" and b.kind != "closure":
            callers = prog.callers(G, "^" + re.escape(b.npath) + "$")
            base = a[0]
            while base[0] in ("field", "downcast"):
                base = base[1]
            if callers and base[0] == "arg":
                for cs_ in callers:
                    cc = Canon(prog, cs_.body)
                    ca = cc.args(cs_)
                    tgt = ("field", ca[base[1] - 1], TOPICS, "libp2p_gossipsub::types::PeerDetails")
                    grow2.append((cs_.body, cc, cs_, n, tgt, cs_.body.site_expr(cs_)[2][a[1][1] - 1], b.npath.split("::")[-1]))
                continue
        grow2.append((b, cb, s, n, a[0] if a else None, b.site_expr(s)[2][1] if len(a) == 2 else None, None))
    seen_fn = {}
    for b, cb, s, n, target, value, via in grow2:
        fn = b.npath.split("::")[-1]
        seen_fn[fn] = seen_fn.get(fn, 0) + 1
        tag = fn if seen_fn[fn] == 1 else "%s#%d" % (fn, seen_fn[fn])
        if not n.endswith("BTreeSet::insert") or value is None or target is None or not is_peer_topics(target):
            ctx.ob("topic-set", "%s: inserted topic comes from the subscription filter's output" % tag, False, s.loc(), "not an insert(topic) call: %s" % n)
            continue
        lp = loop_of(b, s.bb)
        fb, rv = None, render(cb.x(value))
        cl = cb
        if lp:
            cl = Canon(prog, b, {lp[1]: "it"})
            rv = render(cl.x(value))
            ini = cl.init(lp[1])
            for c in mir.walk(ini) if ini else []:
                if c[0] == "call" and re.search(SF, strip_generics(c[1])):
                    fb = c[3]
            if fb is not None and not re.match(r"^<[^()]*>::into_iter\(.*filter_incoming_subscriptions\(.*\)@Ok\.0\)$|^.*::iter\(.*filter_incoming_subscriptions\(.*\)@Ok\.0\)$", render(ini)):
                fb = None
        ok = fb is not None and re.match(r"^%s(\.\w+)*\.topic_hash$" % NEXT, rv) is not None
        ctx.ob("topic-set", "%s: inserted topic comes from the subscription filter's output" % tag, ok, s.loc(),
               "topic = %s, element of the iteration over filter_incoming_subscriptions(..)%s" % (rv[-70:], " (through helper %s)" % via if via else "") if ok else
               "the inserted topic `%s` does not originate from the result of filter_incoming_subscriptions: the peer can make us track topics the filter does not allow / beyond its limits" % rv[-90:])
        if fb is None:
            continue
        fsite = mir.Site(b, fb)
        okedge, _ = result_edges(cb, fb)
        ctx.ob("topic-set", "%s: insert only when the filter accepted the request" % tag, bool(okedge) and b.must_pass_edges(s.bb, okedge), s.loc(), "insert dominated by the Ok edge of the filter")
        fa = cb.args(fsite)
        same_set = len(fa) == 3 and render(fa[2]) == render(target)
        ctx.ob("topic-set", "%s: the filter saw the topic set that is being extended" % tag, same_set, fsite.loc(), "filter's currently_subscribed_topics = %s ; insert target = %s" % (render(fa[2])[-60:] if len(fa) == 3 else "?", render(target)[-60:]))
        ctx.ob("topic-set", "%s: the filter is the behaviour's configured filter" % tag, len(fa) == 3 and re.match(r"^\$1\.\w+$", render(fa[0])) is not None, fsite.loc(), render(fa[0]) if fa else "")
        if fn == "handle_received_subscriptions":
            acts = [at for at in cl.guards(s.bb) if at[0] == "var" and re.match(r"^%s(\.\w+)*\.action$" % NEXT, at[1])]
            ctx.ob("topic-set", "%s: insert only for Subscribe elements" % tag, len(acts) >= 1 and all(at[2] == frozenset({"Subscribe"}) for at in acts), s.loc(), str([(at[1][-30:], sorted(at[2])) for at in acts]))
    for b, cb, s, n, g, idx in sites:
        if n.endswith("BTreeSet::remove") and b.npath.endswith("handle_received_subscriptions"):
            lp = loop_of(b, s.bb)
            cl = Canon(prog, b, {lp[1]: "it"}) if lp else cb
            acts = [at for at in cl.guards(s.bb) if at[0] == "var" and re.match(r"^%s(\.\w+)*\.action$" % NEXT, at[1])]
            ctx.ob("topic-set", "handle_received_subscriptions: removal only for Unsubscribe elements", len(acts) >= 1 and all(at[2] == frozenset({"Unsubscribe"}) for at in acts), s.loc(), str([(at[1][-30:], sorted(at[2])) for at in acts]))
    # ======================================================================================= rejected request changes nothing
    fcalls = [s for s in prog.callers(G, SF) if re.search(r"behaviour::Behaviour::", s.body.npath)]
    ctx.floor("no-effect", "behaviour call sites of filter_incoming_subscriptions", fcalls, 1)
    for fs in fcalls:
        b = fs.body
        cb = Canon(prog, b)
        fn = b.npath.split("::")[-1]
        eff = effect_sites(cb)
        ctx.ob("no-effect", "floor:%s has state-changing calls" % fn, len(eff) >= 5, nontrivial=False, msg="%d effect sites" % len(eff))
        okedge, erredge = result_edges(cb, fs.bb)
        ctx.ob("no-effect", "floor:%s filter result is matched" % fn, bool(okedge) and bool(erredge), nontrivial=False)
        r = b.reachable([t for _, t in erredge])
        bad = [s for s in eff if s.bb in r]
        ctx.ob("no-effect", "%s: rejected request changes nothing" % fn, not bad and bool(erredge), bad[0].loc() if bad else fs.loc(),
               "only logging is reachable from the filter's Err edge" if not bad else "state-changing call reachable after the filter rejected: %s" % strip_generics(b.call_name(bad[0].term)))
        pre = [s for s in eff if not b.must_pass_edges(s.bb, okedge)]
        ctx.ob("no-effect", "%s: nothing is changed before the filter accepted" % fn, not pre, pre[0].loc() if pre else fs.loc(),
               "every state-changing call is dominated by the filter's Ok edge" if not pre else "state-changing call not dominated by the Ok edge: %s" % strip_generics(b.call_name(pre[0].term)))
        a = cb.args(fs)
        if fn == "handle_received_subscriptions":
            ctx.ob("no-effect", "handle_received_subscriptions filters the received request against the sender's topic set",
                   len(a) == 3 and render(a[1]) == "$2" and re.match(r"^std::collections::HashMap::get_mut\(\$1\.\w+, \$3\)@Some\.0\.%s$" % TOPICS, render(a[2])) is not None, fs.loc(), str([render(x) for x in a[1:]])[:200])
        elif len(a) == 3 and render(a[1]) != "$2":
            # subscriptions synthesised inside the behaviour (GRAFT implies SUBSCRIBE) must be Subscribe actions for the received topics
            raw1 = b.site_expr(fs)[2][1]
            raw_src = [raw1] + [b.init_expr(l) for l in lib_gs2.locals_in(raw1)]
            cls = [c for x in raw_src for c in cb.closures_in(x)]
            built = [(c, s) for c in cls for s in c.b.agg_sites(r"types::Subscription$")]
            ok, det = len(built) == 1, ""
            if ok:
                c, s = built[0]
                f = dict((k, render(x)) for k, x in c.site(s)[4])
                det = "action=%s topic_hash=%s" % (f.get("action", "")[-30:], f.get("topic_hash", "")[-40:])
                ok = f.get("action") == "libp2p_gossipsub::types::SubscriptionAction::Subscribe{}" and re.match(r"^c+\$\d+$", f.get("topic_hash", "")) is not None
            src_txt = " ".join(render(cb.x(x)) for x in raw_src)
            ctx.ob("topic-set", "%s: implied subscriptions are Subscribe actions for the received topics" % fn, ok and re.search(r"iter\(\$\d+\)", src_txt) is not None, fs.loc(), det or src_txt[:120])
    # ======================================================================================= MaxCountSubscriptionFilter
    m = ctx.body(G, r"subscription_filter::MaxCountSubscriptionFilter as subscription_filter::TopicSubscriptionFilter>::filter_incoming_subscriptions$")
    cm = Canon(prog, m)
    mw = "%s:%d" % (m.file, m.line)
    inner = m.call_sites(SF)
    ctx.floor("max-count", "inner filter call", inner, 1, exact=True)
    per_req = cm.edges(rel_pred(r"^core::slice::len\(\$2\)$", r"^\$1\.max_subscriptions_per_request$", "Le"))
    ctx.ob("max-count", "floor:per-request comparison", bool(per_req), nontrivial=False, msg=str(sorted(per_req)))
    for s in inner:
        ok = cm.dominated(s.bb, per_req)
        ctx.ob("max-count", "inner filter runs only for a request within max_subscriptions_per_request", ok, s.loc(),
               "inner filter dominated by subscriptions.len() <= max_subscriptions_per_request" if ok else "the inner (possibly stateful) filter runs before / without the per-request limit")
        a = [render(x) for x in cm.args(s)]
        ctx.ob("max-count", "inner filter receives the same request and topic set", a == ["$1.filter", "$2", "$3"], s.loc(), str(a))
    oks = [(s, e) for s, e in cm.returns() if e[0] == "agg" and e[3] == "Ok"]
    ctx.floor("max-count", "Ok result", oks, 1, exact=True)
    RES = r"libp2p_gossipsub::subscription_filter::TopicSubscriptionFilter::filter_incoming_subscriptions\(\$1\.filter, \$2, \$3\)@Ok\.0"
    # the total comparison: (A + current.len()) vs (max_subscribed_topics + U): identify the two counters by their position in it
    A = U = None
    for bi in sorted(m.live):
        sw = cm.switch(bi)
        cmp_, _ = lib_gs2._as_cmp(sw[0]) if sw else (None, None)
        if not cmp_:
            continue
        for x in (cmp_[1], cmp_[2]):
            if x[0] == "field" and x[1][0] == "bin" and x[1][1] == "AddWithOverflow":
                ops = [x[1][2], x[1][3]]
                rs = [render(o) for o in ops]
                if "std::collections::BTreeSet::len($3)" in rs:
                    o = ops[1 - rs.index("std::collections::BTreeSet::len($3)")]
                    A = o[1] if o[0] == "local" else A
                if "$1.max_subscribed_topics" in rs:
                    o = ops[1 - rs.index("$1.max_subscribed_topics")]
                    U = o[1] if o[0] == "local" else U
    ctx.ob("max-count", "floor:total comparison", A is not None and U is not None and A != U, mw, "new-counter local %s, unsubscribed-counter local %s in `new + current.len() ? max_subscribed_topics + unsubscribed`" % (A, U), nontrivial=False)
    if A is None or U is None:
        return
    cr = Canon(prog, m, {A: "new", U: "unsub"})
    LHS = r"^AddWithOverflow\((new, std::collections::BTreeSet::len\(\$3\)|std::collections::BTreeSet::len\(\$3\), new)\)\.0$"
    RHS = r"^AddWithOverflow\((\$1\.max_subscribed_topics, unsub|unsub, \$1\.max_subscribed_topics)\)\.0$"
    tot = cr.edges(rel_pred(LHS, RHS, "Le"))
    for s, e in oks:
        ctx.ob("max-count", "Ok only if the request is within max_subscriptions_per_request", cm.dominated(s.bb, per_req), s.loc(), "Ok dominated by len <= max_subscriptions_per_request")
        ok = cr.dominated(s.bb, tot)
        ctx.ob("max-count", "Ok only if new + current <= max + unsubscribed", ok, s.loc(), "Ok dominated by new_subscribed + current.len() <= max_subscribed_topics + unsubscribed" if ok else "no dominating comparison of new_subscribed + current.len() with max_subscribed_topics + unsubscribed")
        r = render(e)
        ctx.ob("max-count", "the set returned is the inner filter's result", re.match(r"^std::result::Result::Ok\{0: %s\}$" % RES, r) is not None, s.loc(), r[-120:])
    for s in inner:
        _, er = result_edges(cm, s.bb)
        okp = bool(er)
        for _, t in er:
            r = m.reachable([t])
            okp = okp and not ({o.bb for o, _ in oks} & r) and any(x.bb in r for x, e in cm.returns() if not (e[0] == "agg" and e[3] == "Ok"))
        ctx.ob("max-count", "an inner rejection is propagated", okp, s.loc(), "the Err edge of the inner result returns an error, never Ok")
    # counters
    nxs = [s for s in m.call_sites(r"iter::Iterator>::next$")]
    lp = None
    for s in nxs:
        e = m.site_expr(s)
        if e[2] and e[2][0][0] == "local":
            ini = cr.init(e[2][0][1])
            if ini is not None and re.search(RES + r"\)$", render(ini)):
                lp = (s, e[2][0][1])
    ctx.ob("max-count", "the counters are computed over the inner filter's result", lp is not None, mw, "loop over %s" % (render(cr.init(lp[1]))[-120:] if lp else "?"))
    if lp:
        cl = Canon(prog, m, {A: "new", U: "unsub", lp[1]: "it"})
        CONT = r"^std::collections::BTreeSet::contains\(\$3, %s\.topic_hash\)$" % NEXT
        ACT = r"^%s\.action$" % NEXT
        for cname, l, arm, contained in (("new", A, "Subscribe", False), ("unsubscribed", U, "Unsubscribe", True)):
            prof = lib_gs2.counter_profile(cm, l)
            ctx.ob("max-count", "%s counter starts at 0 and only ever +1" % cname, prof == ["0", "AddWithOverflow(#, 1).0"], mw, str(prof))
            incs = [s for s, r in cm.defs(l) if "AddWithOverflow" in r]
            for s in incs:
                gs = cl.guards(s.bb)
                act = [a[2] for a in gs if a[0] == "var" and re.match(ACT, a[1])]
                con = [a[2] for a in gs if a[0] == "bool" and re.match(CONT, a[1])]
                ok = bool(act) and all(x == frozenset({arm}) for x in act) and bool(con) and all(x == contained for x in con)
                ctx.ob("max-count", "%s counter counts exactly (%s, %s)" % (cname, arm, "contained" if contained else "not contained"), ok, s.loc(), "guards: action=%s contained=%s" % ([sorted(x) for x in act], con))
            if incs:
                arm_e = cl.edges(var_pred(ACT, {arm}))
                cont_e = [(bi, t) for bi, t in cl.edges(bool_pred(CONT, contained)) if any(bi in m.reachable([t2], stop_nodes=[lp[0].bb]) for _, t2 in arm_e)]
                got = lib.count_range(m, [t for _, t in cont_e], [lp[0].bb], lib.bbs(incs)) if cont_e else None
                ctx.ob("max-count", "every (%s, %s) element is counted once" % (arm, "contained" if contained else "not contained"), got == (1, 1), incs[0].loc(), "increments per such element: %s" % (got,))
    # ======================================================================================= default trait methods
    d = ctx.body(G, r"^libp2p_gossipsub::subscription_filter::TopicSubscriptionFilter::filter_incoming_subscriptions$")
    dw = "%s:%d" % (d.file, d.line)
    ins = d.call_sites(r"hash_map::VacantEntry::insert(_entry)?$|HashMap::insert$")
    ctx.floor("default-filter", "dedup insert", ins, 1, exact=True)
    for s in ins:
        lp = loop_of(d, s.bb)
        cd = Canon(prog, d, {lp[1]: "it"} if lp else None)
        ini = cd.init(lp[1]) if lp else None
        ctx.ob("default-filter", "dedup iterates the request", ini is not None and re.match(r"^.*(into_iter|iter)\(\$2\)$", render(ini)) is not None, dw, render(ini)[:120] if ini else "")
        a = cd.args(s)
        ml = [x for x in mir.walk(a[0]) if x[0] == "local"]
        if strip_generics(d.call_name(s.term)).endswith("HashMap::insert"):
            ok = len(a) == 3 and re.match(r"^%s\.topic_hash$" % NEXT, render(a[1])) is not None and re.match("^%s$" % NEXT, render(a[2])) is not None
        else:
            ok = len(ml) >= 1 and re.match(r"^std::collections::HashMap::entry\(%s, %s\.topic_hash\)@Vacant\.0$" % (re.escape(render(ml[0])), NEXT), render(a[0])) is not None and re.match("^%s$" % NEXT, render(a[-1])) is not None
        ctx.ob("default-filter", "the candidate set only holds elements of the request, keyed by their own topic", ok, s.loc(), str([render(x) for x in a])[-200:])
        if ml:
            MAP = re.escape(render(ml[0]))
            r0 = [render(e) for _, e in cd.returns()]
            ctx.ob("default-filter", "the deduplicated set is passed through filter_incoming_subscription_set",
                   len(r0) == 1 and re.match(r"^libp2p_gossipsub::subscription_filter::TopicSubscriptionFilter::filter_incoming_subscription_set\(\$1, std::iter::Iterator::collect\(std::collections::HashMap::into_values\(%s\)\), \$3\)$" % MAP, r0[0]) is not None, dw, str(r0)[:220])
            fm = [strip_generics(d.call_name(x.term)).split("::")[-1] for x in d.call_sites(MUT) if re.search(MAP, render(cd.args(x)[0]))]
            ctx.ob("default-filter", "the candidate set is only built by entry / insert / remove", set(fm) <= {"entry", "insert", "remove"}, dw, str(sorted(set(fm))))
    st = ctx.body(G, r"^libp2p_gossipsub::subscription_filter::TopicSubscriptionFilter::filter_incoming_subscription_set$")
    cst = Canon(prog, st)
    rt = st.call_sites(r"HashSet::retain$")
    ctx.floor("default-filter", "retain over the candidate set", rt, 1, exact=True)
    r0 = [render(e) for _, e in cst.returns()]
    ctx.ob("default-filter", "the filtered candidate set is what is returned", r0 == ["std::result::Result::Ok{0: $2}"] and bool(rt) and render(cst.args(rt[0])[0]) == "$2" and st.must_pass_nodes([0], st.return_blocks(), lib.bbs(rt)), "%s:%d" % (st.file, st.line), str(r0))
    ALLOW = r"^libp2p_gossipsub::subscription_filter::TopicSubscriptionFilter::allow_incoming_subscription\(\$1, c\$2\)$"
    for s in rt:
        cls = cst.closures_in(st.site_expr(s))
        if not cls:
            ctx.ob("default-filter", "an element is kept only if allow_incoming_subscription holds", False, s.loc(), "retain closure not found")
            continue
        cl = cls[0]
        allow = cl.edges(bool_pred(ALLOW, True))
        for rs, e in cl.returns():
            r = render(e)
            if r == "0" or re.match(ALLOW, r):
                ok = True
            elif r == "1":
                ok = cl.dominated(rs.bb, allow)
            else:
                ok = False
            if r != "0":
                ctx.ob("default-filter", "an element is kept only if allow_incoming_subscription holds", ok, rs.loc(), "closure returns %s" % r[:100])
    al = ctx.body(G, r"^libp2p_gossipsub::subscription_filter::TopicSubscriptionFilter::allow_incoming_subscription$")
    r0 = [render(e) for _, e in Canon(prog, al).returns()]
    ctx.ob("default-filter", "allow_incoming_subscription = can_subscribe(subscription.topic_hash)", r0 == ["libp2p_gossipsub::subscription_filter::TopicSubscriptionFilter::can_subscribe($1, $2.topic_hash)"], "%s:%d" % (al.file, al.line), str(r0))
    # ======================================================================================= concrete filters
    wl = ctx.body(G, r"subscription_filter::WhitelistSubscriptionFilter as subscription_filter::TopicSubscriptionFilter>::can_subscribe$")
    r0 = [render(e) for _, e in Canon(prog, wl).returns()]
    ctx.ob("whitelist", "can_subscribe = membership in the whitelist", r0 == ["std::collections::HashSet::contains($1.0, $2)"], "%s:%d" % (wl.file, wl.line), str(r0))
    mc = ctx.body(G, r"subscription_filter::MaxCountSubscriptionFilter as subscription_filter::TopicSubscriptionFilter>::can_subscribe$")
    r0 = [render(e) for _, e in Canon(prog, mc).returns()]
    ctx.ob("max-count", "can_subscribe delegates to the wrapped filter", r0 == ["libp2p_gossipsub::subscription_filter::TopicSubscriptionFilter::can_subscribe($1.filter, $2)"], "%s:%d" % (mc.file, mc.line), str(r0))
    cbb = ctx.body(G, r"subscription_filter::CombinedSubscriptionFilters as subscription_filter::TopicSubscriptionFilter>::can_subscribe$")
    ccb = Canon(prog, cbb)
    C1 = r"libp2p_gossipsub::subscription_filter::TopicSubscriptionFilter::can_subscribe\(\$1\.filter1, \$2\)"
    C2 = r"libp2p_gossipsub::subscription_filter::TopicSubscriptionFilter::can_subscribe\(\$1\.filter2, \$2\)"
    okc, detail = True, []
    for s, e in ccb.returns():
        r = render(e)
        detail.append(r[-60:])
        if r == "0":
            continue
        if re.match("^%s$" % C2, r):
            okc &= ccb.dominated(s.bb, ccb.edges(bool_pred("^%s$" % C1, True)))
        elif re.match("^%s$" % C1, r):
            okc &= ccb.dominated(s.bb, ccb.edges(bool_pred("^%s$" % C2, True)))
        elif r == "1":
            okc &= ccb.dominated(s.bb, ccb.edges(bool_pred("^%s$" % C1, True))) and ccb.dominated(s.bb, ccb.edges(bool_pred("^%s$" % C2, True)))
        elif re.match(r"^BitAnd\((%s, %s|%s, %s)\)$" % (C1, C2, C2, C1), r):
            pass
        else:
            okc = False
    ctx.ob("combined", "can_subscribe requires both filters", okc and len(detail) >= 1, "%s:%d" % (cbb.file, cbb.line), str(detail))
    cs = ctx.body(G, r"subscription_filter::CombinedSubscriptionFilters as subscription_filter::TopicSubscriptionFilter>::filter_incoming_subscription_set$")
    ccs = Canon(prog, cs)
    FS = r"TopicSubscriptionFilter::filter_incoming_subscription_set$"
    c1 = [s for s in cs.call_sites(FS) if render(ccs.args(s)[0]) == "$1.filter1"]
    c2 = [s for s in cs.call_sites(FS) if render(ccs.args(s)[0]) == "$1.filter2"]
    okc = len(c1) == 1 and len(c2) == 1
    if okc:
        a1 = [render(x) for x in ccs.args(c1[0])]
        a2 = ccs.args(c2[0])
        chained = a1[1:] == ["$2", "$3"] and re.match(r"^.*filter_incoming_subscription_set\(\$1\.filter1, \$2, \$3\)@Ok\.0$", render(a2[1])) is not None and render(a2[2]) == "$3"
        final = any(e[0] == "call" and e[3] == c2[0].bb for _, e in ccs.returns())
        ok1, _ = result_edges(ccs, c1[0].bb)
        okc = chained and final and bool(ok1) and cs.must_pass_edges(c2[0].bb, ok1)
    ctx.ob("combined", "the set filter chains filter1 then filter2 and returns filter2's verdict", okc, "%s:%d" % (cs.file, cs.line), "filter2(filter1(subscriptions)?)")
