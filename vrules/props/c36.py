"""C36 subscription filters bound what peers can make us track — writers / origin of every insert into a peer's topic set (K4/K5), guards and limits of the filters (K1/K6/K9), no-effect-on-rejection order (K3)."""
import re

from .. import lib, lib_gs2, mir
from ..mir import render, strip_generics

EXPLANATION = ("Every call that can grow a PeerDetails.topics set (workspace-wide in libp2p_gossipsub) is a BTreeSet::insert whose argument is "
               "the topic of an element of the iteration over the Ok result of TopicSubscriptionFilter::filter_incoming_subscriptions, called "
               "with that same peer's current topic set; the set is never assigned, extended or borrowed mutably by anything else, and new "
               "PeerDetails start with an empty set. In both call sites (handle_received_subscriptions, handle_graft) every state-changing "
               "call is dominated by the Ok edge of the filter and nothing but logging is reachable from its Err edge (a rejected request "
               "changes nothing); inserts happen only for Subscribe elements, removals only for Unsubscribe elements (so the size bound the "
               "filter computed is the size reached). MaxCountSubscriptionFilter: the inner filter runs only when "
               "subscriptions.len() <= max_subscriptions_per_request (raw request length), Ok is returned only when "
               "new_subscribed + current.len() <= max_subscribed_topics + unsubscribed, the two counters are unit-incremented from 0 exactly "
               "for (Subscribe, not yet contained) resp. (Unsubscribe, contained) elements of the inner filter's result, the value returned "
               "is that result, inner errors propagate. Default trait methods: the dedup map only ever holds elements of the request keyed "
               "by their own topic, the retain closure keeps an element only if allow_incoming_subscription (= can_subscribe(topic)) holds; "
               "Whitelist = set membership; Combined = both filters (can_subscribe and the chained set filter).")
ASSUMPTIONS = ["user supplied filters (Callback, Regex, custom impls) are trusted to be what the user wants",
               "the filter is consulted with the peer's topic set as it is at that moment; interleavings with other events are sequential (single &mut self)",
               "BTreeSet / HashSet / HashMap semantics"]
G = "libp2p_gossipsub"
CONFIGS = [{"name": "gossipsub-features", "packages": ["libp2p-gossipsub"], "features": "metrics,partial-messages"}]
SF = r"subscription_filter::TopicSubscriptionFilter::filter_incoming_subscriptions$"
SELFTEST = [
    {"mutation": "original F9: handle_graft inserts the raw GRAFT topics (`for topic in &topics { connected_peer.topics.insert(topic.clone()) }`)", "caught_by": "topic-set/handle_graft: inserted topic comes from the subscription filter's output"},
    {"mutation": "handle_received_subscriptions: iterate `subscriptions` instead of `filtered_topics`", "caught_by": "topic-set/handle_received_subscriptions: inserted topic comes from the subscription filter's output"},
    {"mutation": "handle_received_subscriptions: filter Err arm falls through (`Err(_) => HashSet::new()` after clearing peer.topics)", "caught_by": "no-effect/handle_received_subscriptions: rejected request changes nothing"},
    {"mutation": "MaxCount: `subscriptions.len() > self.max_subscriptions_per_request` test moved after the inner filter call", "caught_by": "max-count/inner filter runs only for a request within max_subscriptions_per_request"},
    {"mutation": "MaxCount: `new_subscribed + current.len() > max + unsubscribed` -> `new_subscribed > max + unsubscribed`", "caught_by": "max-count/Ok only if new + current <= max + unsubscribed"},
    {"mutation": "MaxCount: `if !currently_contained { new_subscribed += 1 }` -> `if currently_contained {..}`", "caught_by": "max-count/new_subscribed counts exactly (Subscribe, not contained)"},
    {"mutation": "MaxCount: `unsubscribed += 1` -> `+= 2`", "caught_by": "max-count/unsubscribed starts at 0 and only ever +1"},
    {"mutation": "default filter_incoming_subscription_set: retain closure returns true on the not-allowed branch", "caught_by": "default-filter/an element is kept only if allow_incoming_subscription holds"},
    {"mutation": "Combined::can_subscribe: `&&` -> `||`", "caught_by": "combined/can_subscribe requires both filters"},
    {"mutation": "Whitelist::can_subscribe: `!self.0.contains(..)`", "caught_by": "whitelist/can_subscribe = membership in the whitelist"},
    {"mutation": "on_connection_established builds PeerDetails with a pre-filled topic set", "caught_by": "topic-set/a new peer starts with an empty topic set"},
]

MUT = r"::(insert|extend|append|push|push_back|remove|retain|clear|take|replace|swap|entry|get_mut|pop_first|pop_last|split_off|drain|insert_\w+)$"
GROW = r"::(insert|extend|append|push|push_back|replace|swap|entry|insert_\w+)$"


def is_peer_topics(e):
    """Expression is the place `<PeerDetails>.topics`."""
    return e[0] == "field" and e[2] == "topics" and re.search(r"types::PeerDetails", e[3] or "") is not None


def ret_exprs(b):
    out = []
    for x in b.defs[0]:
        s = mir.Site(b, x[1], x[2])
        out.append((s, render(b.call_expr(x[3], x[1])) if x[0] == "call" else render(b.rvalue_expr(x[3]))))
    return out


def filter_origin(body, e):
    """Does expression e (the inserted topic) derive from an element of the iteration over the result of a
    filter_incoming_subscriptions call?  Returns the block of that call or None."""
    for s in mir.walk(e):
        if s[0] == "local":
            init = body.init_expr(s[1])
            for c in mir.walk(init):
                if c[0] == "call" and re.search(SF, strip_generics(c[1])):
                    return c[3]
    return None


def effect_sites(body):
    """State-changing calls of a behaviour method: mutators of collections reachable from self / a peer entry, and calls to other
    Behaviour methods / mesh helpers; logging and formatting (macro-expanded) calls are not effects."""
    out = []
    for s in body.call_sites():
        t = s.term
        if t.get("x", "").startswith("m:"):
            continue
        n = strip_generics(body.call_name(t))
        e = body.site_expr(s)
        a0 = render(e[2][0]) if e[2] else ""
        if re.search(r"behaviour::Behaviour::\w+$|behaviour::peer_added_to_mesh$|behaviour::peer_removed_from_mesh$|peer_score::PeerScore::\w+$|partial_messages::\w+::\w+$|metrics::Metrics::\w+$", n) and not re.search(r"::(below_threshold|score_report|get_\w+|is_\w+|contains\w*)$", n):
            out.append(s)
        elif re.search(MUT, n) and re.search(r"^self\.|connected_peers|\.topics$|^peers$|self\.mesh", a0) and not re.search(r"^std::collections::HashMap::get_mut\(self\.(connected_peers|mesh), \w+\)$", render(e)):
            out.append(s)
    return out


def check(ctx):
    prog = ctx.prog
    bodies = list(prog.bodies(G))
    # ======================================================================================= who can change a peer's topic set
    sites = []          # (body, site, callee, is_grow)
    for b in bodies:
        for s in b.call_sites():
            e = b.site_expr(s)
            if not e[2]:
                continue
            n = strip_generics(b.call_name(s.term))
            for i, a in enumerate(e[2]):
                if is_peer_topics(a) and re.search(MUT, n):
                    sites.append((b, s, n, re.search(GROW, n) is not None, i))
    grow = [x for x in sites if x[3]]
    ctx.floor("topic-set", "calls that can grow a peer's topic set", grow, 1)
    allowed_callees = {"std::collections::BTreeSet::insert", "std::collections::BTreeSet::remove"}
    other = sorted({n for _, _, n, _, _ in sites} - allowed_callees)
    ctx.ob("topic-set", "a peer's topic set is only changed by insert / remove", not other, sites[0][1].loc() if sites else "", "other mutators applied to PeerDetails.topics: %s" % other)
    whole = [(b, s) for b in bodies for s in b.field_write_sites("topics", r"types::PeerDetails")]
    ctx.ob("topic-set", "a peer's topic set is never assigned as a whole", not whole, whole[0][1].loc() if whole else "", "%d assignment(s) to PeerDetails.topics" % len(whole))
    # &mut borrows of the set that escape into other calls (mem::take, helper fns ...)
    esc = []
    for b in bodies:
        for s in lib.field_mut_calls(b, "topics"):
            e = b.site_expr(s)
            if any(is_peer_topics(a) for a in e[2]):
                n = strip_generics(b.call_name(s.term))
                if n not in allowed_callees:
                    esc.append((b, s, n))
    ctx.ob("topic-set", "no other code receives a mutable borrow of a peer's topic set", not esc, esc[0][1].loc() if esc else "", str([n for _, _, n in esc]))
    aggs = [(b, s) for b in bodies for s in b.agg_sites(r"types::PeerDetails$") if "Clone>::clone" not in b.npath]
    ctx.floor("topic-set", "PeerDetails constructions", aggs, 1)
    for b, s in aggs:
        f = dict((k, render(x)) for k, x in b.site_expr(s)[4])
        ctx.ob("topic-set", "a new peer starts with an empty topic set", re.match(r"^(std::default::Default::default\(\)|<std::collections::BTreeSet as std::default::Default>::default\(\)|std::collections::BTreeSet::new\(\))$", f.get("topics", "")) is not None, s.loc(), "%s: topics = %s" % (b.short[-40:], f.get("topics")))
    seen_fn = {}
    for b, s, n, _, idx in grow:
        fn = b.npath.split("::")[-1]
        seen_fn[fn] = seen_fn.get(fn, 0) + 1
        tag = fn if seen_fn[fn] == 1 else "%s#%d" % (fn, seen_fn[fn])
        e = b.site_expr(s)
        if not n.endswith("BTreeSet::insert") or idx != 0 or len(e[2]) != 2:
            ctx.ob("topic-set", "%s: inserted topic comes from the subscription filter's output" % tag, False, s.loc(), "not an insert(topic) call: %s" % n)
            continue
        val = e[2][1]
        fb = filter_origin(b, val)
        rv = render(val)
        ok = fb is not None and re.search(r"next\(iter\)@Some\.0(\.\w+)*\.topic_hash\)?$", rv) is not None
        ctx.ob("topic-set", "%s: inserted topic comes from the subscription filter's output" % tag, ok, s.loc(),
               "topic = %s, element of the iteration over filter_incoming_subscriptions(..)" % rv[-70:] if ok else
               "the inserted topic `%s` does not originate from the result of filter_incoming_subscriptions: the peer can make us track topics the filter does not allow / beyond its limits" % rv[-90:])
        if fb is None:
            continue
        fsite = mir.Site(b, fb)
        okedge = lib.switch_edges_on_site(b, fsite, {"Ok"}, r"^discr\(")
        ctx.ob("topic-set", "%s: insert only when the filter accepted the request" % tag, bool(okedge) and b.must_pass_edges(s.bb, okedge), s.loc(), "insert dominated by the Ok edge of the filter")
        fa = b.site_expr(fsite)[2]
        same_set = len(fa) == 3 and render(fa[2]) == render(e[2][0])
        ctx.ob("topic-set", "%s: the filter saw the topic set that is being extended" % tag, same_set, fsite.loc(), "filter's currently_subscribed_topics = %s ; insert target = %s" % (render(fa[2])[-60:] if len(fa) == 3 else "?", render(e[2][0])[-60:]))
        ctx.ob("topic-set", "%s: the filter is the behaviour's configured filter" % tag, len(fa) == 3 and render(fa[0]) == "self.subscription_filter", fsite.loc(), render(fa[0]) if fa else "")
        # insert only for Subscribe elements (if the element's action is dispatched at all, the insert must sit in the Subscribe arm)
        acts = [(t, ls) for t, ls, _, c in b.guards_on_all_paths(s.bb) if re.search(r"^discr\(.*next\(iter\)@Some\.0(\.\w+)*\.action\)$", t)]
        if fn == "handle_received_subscriptions":
            ctx.ob("topic-set", "%s: insert only for Subscribe elements" % tag, len(acts) == 1 and acts[0][1] == frozenset({"Subscribe"}), s.loc(), str([(t[-40:], sorted(l)) for t, l in acts]))
    # removal sits in the Unsubscribe arm (so that the size the filter computed is the size reached)
    for b, s, n, g, idx in sites:
        if n.endswith("BTreeSet::remove") and b.npath.endswith("handle_received_subscriptions"):
            acts = [(t, ls) for t, ls, _, c in b.guards_on_all_paths(s.bb) if re.search(r"^discr\(.*next\(iter\)@Some\.0(\.\w+)*\.action\)$", t)]
            ctx.ob("topic-set", "handle_received_subscriptions: removal only for Unsubscribe elements", len(acts) == 1 and acts[0][1] == frozenset({"Unsubscribe"}), s.loc(), str([(t[-40:], sorted(l)) for t, l in acts]))
    # ======================================================================================= rejected request changes nothing
    fcalls = [s for s in prog.callers(G, SF) if re.search(r"behaviour::Behaviour::", s.body.npath)]
    ctx.floor("no-effect", "behaviour call sites of filter_incoming_subscriptions", fcalls, 1)
    for fs in fcalls:
        b = fs.body
        fn = b.npath.split("::")[-1]
        eff = effect_sites(b)
        ctx.ob("no-effect", "floor:%s has state-changing calls" % fn, len(eff) >= 5, nontrivial=False, msg="%d effect sites" % len(eff))
        okedge = lib.switch_edges_on_site(b, fs, {"Ok"}, r"^discr\(")
        erredge = lib.switch_edges_on_site(b, fs, {"Err"}, r"^discr\(")
        ctx.ob("no-effect", "floor:%s filter result is matched" % fn, len(okedge) == 1 and len(erredge) == 1, nontrivial=False)
        r = b.reachable([t for _, t in erredge])
        bad = [s for s in eff if s.bb in r]
        ctx.ob("no-effect", "%s: rejected request changes nothing" % fn, not bad and bool(erredge), bad[0].loc() if bad else fs.loc(),
               "only logging is reachable from the filter's Err edge" if not bad else "state-changing call reachable after the filter rejected: %s" % strip_generics(b.call_name(bad[0].term)))
        pre = [s for s in eff if not b.must_pass_edges(s.bb, okedge)]
        ctx.ob("no-effect", "%s: nothing is changed before the filter accepted" % fn, not pre, pre[0].loc() if pre else fs.loc(),
               "every state-changing call is dominated by the filter's Ok edge" if not pre else "state-changing call not dominated by the Ok edge: %s" % strip_generics(b.call_name(pre[0].term)))
    # subscriptions synthesised inside the behaviour (GRAFT implies SUBSCRIBE) must be Subscribe actions for the grafted topics
    for fs in fcalls:
        b = fs.body
        a1 = b.site_expr(fs)[2][1]
        if render(a1) == "subscriptions" and b.npath.endswith("handle_received_subscriptions"):
            continue
        fn = b.npath.split("::")[-1]
        cls = [prog.closure_body(b, x[1]) for x in mir.walk(a1) if x[0] == "closure"]
        built = [(c, s) for c in cls for s in c.agg_sites(r"types::Subscription$")]
        ok = len(built) == 1
        det = ""
        if ok:
            c, s = built[0]
            f = dict((k, render(x)) for k, x in c.site_expr(s)[4])
            det = "action=%s topic_hash=%s" % (f.get("action", "")[-30:], f.get("topic_hash", "")[-40:])
            ok = f.get("action") == "libp2p_gossipsub::types::SubscriptionAction::Subscribe{}" and re.match(r"^libp2p_gossipsub::<topic::TopicHash as std::clone::Clone>::clone\((topic|arg\d+|\w+)\)$", f.get("topic_hash", "")) is not None
        ctx.ob("topic-set", "%s: implied subscriptions are Subscribe actions for the received topics" % fn, ok and "(topics)" in render(a1), fs.loc(), det or render(a1)[:120])
    hr = ctx.body(G, r"^libp2p_gossipsub::behaviour::Behaviour::handle_received_subscriptions$")
    for fs in [s for s in fcalls if s.body is hr]:
        a = [render(x) for x in hr.site_expr(fs)[2]]
        ctx.ob("no-effect", "handle_received_subscriptions filters the received request against the sender's topic set",
               len(a) == 3 and a[1] == "subscriptions" and a[2] == "std::collections::HashMap::get_mut(self.connected_peers, propagation_source)@Some.0.topics", fs.loc(), str(a[1:])[:200])
    # ======================================================================================= MaxCountSubscriptionFilter
    m = ctx.body(G, r"subscription_filter::MaxCountSubscriptionFilter as subscription_filter::TopicSubscriptionFilter>::filter_incoming_subscriptions$")
    mw = "%s:%d" % (m.file, m.line)
    facts = lib_gs2.edge_facts(m)
    inner = m.call_sites(SF)
    ctx.floor("max-count", "inner filter call", inner, 1, exact=True)
    per_req = lib_gs2.le_edges(m, r"^core::slice::len\(subscriptions\)$", r"^self\.max_subscriptions_per_request$", facts)
    ctx.ob("max-count", "floor:per-request comparison", bool(per_req), nontrivial=False, msg=str(sorted(per_req)))
    for s in inner:
        ok = bool(per_req) and m.must_pass_edges(s.bb, per_req)
        ctx.ob("max-count", "inner filter runs only for a request within max_subscriptions_per_request", ok, s.loc(),
               "inner filter dominated by subscriptions.len() <= max_subscriptions_per_request" if ok else "the inner (possibly stateful) filter runs before / without the per-request limit")
        a = [render(x) for x in m.site_expr(s)[2]]
        ctx.ob("max-count", "inner filter receives the same request and topic set", a == ["self.filter", "subscriptions", "currently_subscribed_topics"], s.loc(), str(a))
    oks = [s for s, r in ret_exprs(m) if r.startswith("std::result::Result::Ok{")]
    ctx.floor("max-count", "Ok result", oks, 1, exact=True)
    RES = r"<std::result::Result as std::ops::Try>::branch\(libp2p_gossipsub::subscription_filter::TopicSubscriptionFilter::filter_incoming_subscriptions\(self\.filter, subscriptions, currently_subscribed_topics\)\)@Continue\.0"
    LHS = r"^AddWithOverflow\((new_subscribed, std::collections::BTreeSet::len\(currently_subscribed_topics\)|std::collections::BTreeSet::len\(currently_subscribed_topics\), new_subscribed)\)\.0$"
    RHS = r"^AddWithOverflow\((self\.max_subscribed_topics, unsubscribed|unsubscribed, self\.max_subscribed_topics)\)\.0$"
    tot = lib_gs2.le_edges(m, LHS, RHS, facts)
    for s in oks:
        ctx.ob("max-count", "Ok only if the request is within max_subscriptions_per_request", bool(per_req) and m.must_pass_edges(s.bb, per_req), s.loc(), "Ok dominated by len <= max_subscriptions_per_request")
        ok = bool(tot) and m.must_pass_edges(s.bb, tot)
        ctx.ob("max-count", "Ok only if new + current <= max + unsubscribed", ok, s.loc(), "Ok dominated by new_subscribed + current.len() <= max_subscribed_topics + unsubscribed" if ok else "no dominating comparison of new_subscribed + current.len() with max_subscribed_topics + unsubscribed")
        r = render(m.site_expr(s))
        ctx.ob("max-count", "the set returned is the inner filter's result", re.match(r"^std::result::Result::Ok\{0: %s\}$" % RES, r) is not None, s.loc(), r[-120:])
    for s in inner:
        br = [(bi, t) for bi in m.live for t, ls in (m.switch_info(bi)[1].items() if m.switch_info(bi) else []) if ls == {"Break"} and "filter_incoming_subscriptions(" in render(m.switch_info(bi)[0])]
        okp = len(br) == 1 and not (set(lib.bbs(oks)) & m.reachable([br[0][1]]))
        ctx.ob("max-count", "an inner rejection is propagated", okp, s.loc(), "Break edge of `?` cannot reach Ok")
    # counters
    ELEM = r"<std::collections::hash_set::Iter as std::iter::Iterator>::next\(iter\)@Some\.0"
    CONT = r"^std::collections::BTreeSet::contains\(currently_subscribed_topics, %s\.topic_hash\)$" % ELEM
    its = [render(m.init_expr(k)) for k, nme in m.names.items() if nme == "iter"]
    ctx.ob("max-count", "the counters are computed over the inner filter's result", len(its) == 1 and re.search(r"into_iter\(%s\)$" % RES, its[0]) is not None, mw, str(its)[-160:])
    for cname, arm, contained in (("new_subscribed", "Subscribe", "false"), ("unsubscribed", "Unsubscribe", "true")):
        l = lib.local_by_name(m, cname)
        defs = sorted(render(m.rvalue_expr(x[3])) for x in m.defs[l] if x[0] == "stmt")
        ctx.ob("max-count", "%s starts at 0 and only ever +1" % cname, defs == ["0", "AddWithOverflow(%s, 1).0" % cname], mw, str(defs))
        incs = [mir.Site(m, x[1], x[2]) for x in m.defs[l] if x[0] == "stmt" and "AddWithOverflow" in render(m.rvalue_expr(x[3]))]
        for s in incs:
            gs = m.guards_on_all_paths(s.bb)
            act = [ls for t, ls, _, c in gs if re.match(r"^discr\(%s\.action\)$" % ELEM, t)]
            con = [ls for t, ls, _, c in gs if re.match(CONT, t)]
            ok = act == [frozenset({arm})] and con == [frozenset({contained})]
            ctx.ob("max-count", "%s counts exactly (%s, %s)" % (cname, arm, "contained" if contained == "true" else "not contained"), ok, s.loc(), "guards: action=%s contained=%s" % ([sorted(x) for x in act], [sorted(x) for x in con]))
        # and every such element is counted: from the (arm, contained) edge the increment is on every path back to the loop head
        nx = m.call_sites(r"hash_set::Iter as std::iter::Iterator>::next$")
        if incs and nx:
            arm_edges = lib.arm_entry(m, r"^discr\(%s\.action\)$" % ELEM, arm)
            cont_edges = [(bi, t) for bi, t in m.guard_edges(lambda c, r, lab: lab == contained and re.match(CONT, r) is not None) if any(bi in m.reachable([t2], stop_nodes=[nx[0].bb]) for _, t2 in arm_edges)]
            got = lib.count_range(m, [t for _, t in cont_edges], [nx[0].bb], lib.bbs(incs)) if cont_edges else None
            ctx.ob("max-count", "every (%s, %s) element is counted once" % (arm, "contained" if contained == "true" else "not contained"), got == (1, 1), incs[0].loc(), "increments per such element: %s" % (got,))
    # ======================================================================================= default trait methods
    d = ctx.body(G, r"^libp2p_gossipsub::subscription_filter::TopicSubscriptionFilter::filter_incoming_subscriptions$")
    dw = "%s:%d" % (d.file, d.line)
    SUB = r"<std::slice::Iter as std::iter::Iterator>::next\(iter\)@Some\.0"
    ins = d.call_sites(r"hash_map::VacantEntry::insert$|HashMap::insert$")
    ctx.floor("default-filter", "dedup insert", ins, 1, exact=True)
    its = [render(d.init_expr(k)) for k, nme in d.names.items() if nme == "iter"]
    ctx.ob("default-filter", "dedup iterates the request", len(its) == 1 and its[0].endswith("into_iter(subscriptions)"), dw, str(its))
    for s in ins:
        a = [render(x) for x in d.site_expr(s)[2]]
        ok = re.match(r"^std::collections::HashMap::entry\(filtered_subscriptions, libp2p_gossipsub::<topic::TopicHash as std::clone::Clone>::clone\(%s\.topic_hash\)\)@Vacant\.0$" % SUB, a[0]) is not None and re.match("^%s$" % SUB, a[-1]) is not None
        ctx.ob("default-filter", "the candidate set only holds elements of the request, keyed by their own topic", ok, s.loc(), str(a)[-200:])
    r0 = [r for _, r in ret_exprs(d)]
    ctx.ob("default-filter", "the deduplicated set is passed through filter_incoming_subscription_set",
           len(r0) == 1 and re.match(r"^libp2p_gossipsub::subscription_filter::TopicSubscriptionFilter::filter_incoming_subscription_set\(self, std::iter::Iterator::collect\(std::collections::HashMap::into_values\(filtered_subscriptions\)\), currently_subscribed_topics\)$", r0[0]) is not None, dw, str(r0)[:220])
    fm = [s for s in d.call_sites(MUT) if render(d.site_expr(s)[2][0]) == "filtered_subscriptions" or "entry(filtered_subscriptions" in render(d.site_expr(s)[2][0])]
    names = sorted({strip_generics(d.call_name(s.term)).split("::")[-1] for s in fm})
    ctx.ob("default-filter", "the candidate set is only built by entry / insert / remove", set(names) <= {"entry", "insert", "remove"}, dw, str(names))
    st = ctx.body(G, r"^libp2p_gossipsub::subscription_filter::TopicSubscriptionFilter::filter_incoming_subscription_set$")
    rt = st.call_sites(r"HashSet::retain$")
    ctx.floor("default-filter", "retain over the candidate set", rt, 1, exact=True)
    r0 = [r for _, r in ret_exprs(st)]
    ctx.ob("default-filter", "the filtered candidate set is what is returned", r0 == ["std::result::Result::Ok{0: subscriptions}"] and bool(rt) and render(st.site_expr(rt[0])[2][0]) == "subscriptions" and st.must_pass_nodes([0], st.return_blocks(), lib.bbs(rt)), "%s:%d" % (st.file, st.line), str(r0))
    for s in rt:
        cl = lib.closure_of(prog, st, st.site_expr(s))
        if cl is None:
            ctx.ob("default-filter", "an element is kept only if allow_incoming_subscription holds", False, s.loc(), "retain closure not found")
            continue
        for x in cl.defs[0]:
            if x[0] != "stmt":
                ctx.ob("default-filter", "an element is kept only if allow_incoming_subscription holds", re.search(r"allow_incoming_subscription$", strip_generics(cl.call_name(x[3]))) is not None, "%s:%d" % (cl.file, cl.line), "closure returns a call result")
                continue
            r = render(cl.rvalue_expr(x[3]))
            site = mir.Site(cl, x[1], x[2])
            if r == "1":
                ctx.guarded("default-filter", "an element is kept only if allow_incoming_subscription holds", site,
                            lambda c, rr, l: l == "true" and re.match(r"^libp2p_gossipsub::subscription_filter::TopicSubscriptionFilter::allow_incoming_subscription\(\^\*self, s\)$", rr) is not None, "allow_incoming_subscription(s)")
            elif r != "0" and "allow_incoming_subscription(^*self, s)" not in r:
                ctx.ob("default-filter", "an element is kept only if allow_incoming_subscription holds", False, site.loc(), "closure returns %s" % r[:80])
    al = ctx.body(G, r"^libp2p_gossipsub::subscription_filter::TopicSubscriptionFilter::allow_incoming_subscription$")
    r0 = [r for _, r in ret_exprs(al)]
    ctx.ob("default-filter", "allow_incoming_subscription = can_subscribe(subscription.topic_hash)", r0 == ["libp2p_gossipsub::subscription_filter::TopicSubscriptionFilter::can_subscribe(self, subscription.topic_hash)"], "%s:%d" % (al.file, al.line), str(r0))
    # ======================================================================================= concrete filters
    wl = ctx.body(G, r"subscription_filter::WhitelistSubscriptionFilter as subscription_filter::TopicSubscriptionFilter>::can_subscribe$")
    r0 = [r for _, r in ret_exprs(wl)]
    ctx.ob("whitelist", "can_subscribe = membership in the whitelist", r0 == ["std::collections::HashSet::contains(self.0, topic_hash)"], "%s:%d" % (wl.file, wl.line), str(r0))
    mc = ctx.body(G, r"subscription_filter::MaxCountSubscriptionFilter as subscription_filter::TopicSubscriptionFilter>::can_subscribe$")
    r0 = [r for _, r in ret_exprs(mc)]
    ctx.ob("max-count", "can_subscribe delegates to the wrapped filter", r0 == ["libp2p_gossipsub::subscription_filter::TopicSubscriptionFilter::can_subscribe(self.filter, topic_hash)"], "%s:%d" % (mc.file, mc.line), str(r0))
    cb = ctx.body(G, r"subscription_filter::CombinedSubscriptionFilters as subscription_filter::TopicSubscriptionFilter>::can_subscribe$")
    C1 = r"libp2p_gossipsub::subscription_filter::TopicSubscriptionFilter::can_subscribe\(self\.filter1, topic_hash\)"
    C2 = r"libp2p_gossipsub::subscription_filter::TopicSubscriptionFilter::can_subscribe\(self\.filter2, topic_hash\)"
    okc = True
    detail = []
    for s, r in ret_exprs(cb):
        detail.append(r[-60:])
        if r == "0":
            continue
        if re.match("^%s$" % C2, r):
            okc &= cb.must_pass_edges(s.bb, cb.guard_edges(lambda c, rr, l: l == "true" and re.match("^%s$" % C1, rr) is not None))
        elif re.match("^%s$" % C1, r):
            okc &= cb.must_pass_edges(s.bb, cb.guard_edges(lambda c, rr, l: l == "true" and re.match("^%s$" % C2, rr) is not None))
        elif re.match(r"^BitAnd\((%s, %s|%s, %s)\)$" % (C1, C2, C2, C1), r):
            pass
        else:
            okc = False
    ctx.ob("combined", "can_subscribe requires both filters", okc and len(detail) >= 1, "%s:%d" % (cb.file, cb.line), str(detail))
    cs = ctx.body(G, r"subscription_filter::CombinedSubscriptionFilters as subscription_filter::TopicSubscriptionFilter>::filter_incoming_subscription_set$")
    c1 = [s for s in cs.call_sites(r"TopicSubscriptionFilter::filter_incoming_subscription_set$") if render(cs.site_expr(s)[2][0]) == "self.filter1"]
    c2 = [s for s in cs.call_sites(r"TopicSubscriptionFilter::filter_incoming_subscription_set$") if render(cs.site_expr(s)[2][0]) == "self.filter2"]
    okc = len(c1) == 1 and len(c2) == 1
    if okc:
        a1 = [render(x) for x in cs.site_expr(c1[0])[2]]
        a2 = cs.site_expr(c2[0])[2]
        chained = a1[1:] == ["subscriptions", "currently_subscribed_topics"] and any(x[0] == "call" and x[3] == c1[0].bb for x in mir.walk(a2[1])) and "@Continue.0" in render(a2[1])
        r0 = ret_exprs(cs)
        final = any(s.bb == c2[0].bb for s, _ in r0)
        okc = chained and final and cs.must_pass_nodes([0], [c2[0].bb], [c1[0].bb])
    ctx.ob("combined", "the set filter chains filter1 then filter2 and returns filter2's verdict", okc, "%s:%d" % (cs.file, cs.line), "filter2(filter1(subscriptions)?)")
