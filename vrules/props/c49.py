"""C49 relayed circuits forward faithfully within their limits — origin (K5), guards (K1), ordering (K3), path counting (K2), result tables (K7) on copy_future.rs."""
import re

from .. import lib, mir
from ..mir import render, strip_generics

EXPLANATION = ("forward_data(src, dst): the bytes written to dst are exactly the slice returned by src.poll_fill_buf; src.consume(i) is called exactly "
               "once, only on the path where dst.poll_write returned Ready(Ok(i)) with i != 0, with that very i, and the function then returns "
               "Ok(i); no other exit consumes; Ok(0) is returned only for an empty buffer after flush and close completed; a zero-length write "
               "is an error. CopyFuture::poll: the two forward_data calls connect src->dst and dst->src; on each Ready(Ok(i != 0)) bytes_sent "
               "grows by that i exactly once; from every such update no further forward_data call is reachable without passing the limit test "
               "at the loop head, whose `max_circuit_bytes > 0 && bytes_sent > max_circuit_bytes` edge returns Err without forwarding; "
               "Ready(Ok(())) only when both directions reported Done; errors of either direction are returned; every Pending result is "
               "preceded by a poll of the duration timer and a fired timer returns Err(TimedOut); the timer is built from "
               "max_circuit_duration and both limits come from the handler's configuration.")
ASSUMPTIONS = ["BufReader / AsyncBufRead contract: consume(n) drops exactly the first n bytes of the slice last returned by poll_fill_buf",
               "the overshoot bound (one read buffer per direction) depends on BufReader's capacity and is not decided",
               "chunking / readiness schedules are not enumerated", "futures_timer::Delay fires after its duration"]
RL = "libp2p_relay"
FILL = "<std::task::Poll as std::ops::Try>::branch(<&mut T as futures::AsyncBufRead>::poll_fill_buf(std::pin::Pin::new(src), cx))@Continue.0@Ready.0"

SELFTEST = [
    {"mutation": "forward_data: consume(length of a re-polled buffer) instead of consume(i)", "caught_by": "forward/consumed = written"},
    {"mutation": "forward_data: `if i == 0` check removed", "caught_by": "forward/consume only after a successful non-empty write"},
    {"mutation": "poll: dst direction does not add to bytes_sent", "caught_by": "poll/dst->src: bytes_sent += forwarded"},
    {"mutation": "poll: limit test hoisted out of the loop (tested once per poll)", "caught_by": "poll/limit re-tested before forwarding more"},
    {"mutation": "poll: `this.max_circuit_bytes > this.bytes_sent`", "caught_by": "poll/limit re-tested before forwarding more (+ floor:limit test)"},
    {"mutation": "poll: second call forwards src->dst again", "caught_by": "poll/both directions are connected"},
    {"mutation": "poll: timer never polled (`if false`)", "caught_by": "poll/floor:timer poll"},
    {"mutation": "poll: (Done, Pending) returns Ok", "caught_by": "poll/Ok only when both directions are done"},
]


def ret_exprs(b):
    return [(mir.Site(b, d[1], d[2]), b.site_expr(mir.Site(b, d[1], d[2]))) for d in b.defs.get(0, [])]


def check(ctx):
    mir.RENDER_MAX[0] = 30
    try:
        _check(ctx, ctx.prog)
    finally:
        mir.RENDER_MAX[0] = 14


def _check(ctx, prog):
    # ================================================================= forward_data
    f = ctx.body(RL, r"^libp2p_relay::copy_future::forward_data$")
    frets = f.return_blocks()
    fill = f.call_sites(r"AsyncBufRead>::poll_fill_buf$|AsyncBufRead::poll_fill_buf$")
    wr = f.call_sites(r"AsyncWrite>::poll_write$|AsyncWrite::poll_write$")
    cons = f.call_sites(r"AsyncBufRead>::consume$|AsyncBufRead::consume$")
    ctx.floor("forward", "poll_fill_buf", fill, 1, exact=True)
    ctx.floor("forward", "poll_write", wr, 1, exact=True)
    ctx.floor("forward", "consume", cons, 1, exact=True)
    for s in fill:
        a = f.site_expr(s)[2][0]
        ctx.ob("forward", "data is read from the source", render(a) == "std::pin::Pin::new(src)" and a[2][0][0] == "arg" and a[2][0][1] == 1, s.loc(), render(a))
    W = None
    for s in wr:
        e = f.site_expr(s)
        ctx.ob("forward", "the bytes written are exactly the source's buffered bytes, to the destination", render(e[2][0]) == "std::pin::Pin::new(dst)" and e[2][0][2][0][0] == "arg" and e[2][0][2][0][1] == 2 and
               render(e[2][2]) == FILL, s.loc(), render(e)[:200])
        W = "<std::result::Result as std::ops::Try>::branch(%s@Ready.0)@Continue.0" % render(e)
    for s in cons:
        e = f.site_expr(s)
        ctx.ob("forward", "consumed = written", W is not None and render(e[2][1]) == W and render(e[2][0]) == "std::pin::Pin::new(src)", s.loc(), "consume(%s)" % render(e[2][1])[-80:])
        ok = bool(wr) and ctx.guarded("forward", "consume only after a successful non-empty write", s,
                                      lambda c, r, l: W is not None and ((l == "false" and r == "Eq(%s, 0)" % W) or (l == "true" and r == "Ne(%s, 0)" % W)), "i != 0 for i = the poll_write result")
    zero = f.guard_edges(lambda c, r, l: W is not None and ((l == "true" and r == "Eq(%s, 0)" % W) or (l == "false" and r == "Ne(%s, 0)" % W)))
    ctx.ob("forward", "floor:zero-write edge", len(zero) == 1, nontrivial=False, msg=str(sorted(zero)))
    res = ret_exprs(f)
    kinds = {}
    for s, e in res:
        r = render(e)
        if r == "std::task::Poll::Pending{}":
            k = "Pending"
        elif r == "std::task::Poll::Ready{0: std::result::Result::Ok{0: 0}}":
            k = "Ok(0)"
        elif r.startswith("std::task::Poll::Ready{0: std::result::Result::Ok{0: "):
            k = "Ok(i)"
        elif r.startswith("std::task::Poll::Ready{0: std::result::Result::Err{"):
            k = "Err"
        elif e[0] == "call" and strip_generics(e[1]).endswith("FromResidual>::from_residual"):
            k = "Residual"
        else:
            k = "?" + r[:60]
        kinds.setdefault(k, []).append((s, e))
    ctx.ob("forward", "floor:result kinds", set(kinds) == {"Pending", "Ok(0)", "Ok(i)", "Err", "Residual"}, nontrivial=False, msg=str({k: len(v) for k, v in kinds.items()}))
    for k, lst in sorted(kinds.items()):
        for s, e in lst:
            got = lib.count_range(f, [0], [s.bb], lib.bbs(cons))
            want = (1, 1) if k == "Ok(i)" else (0, 0)
            ctx.ob("forward", "%s: bytes are consumed iff they were forwarded" % k, got == want, s.loc(), "consume calls on paths to this result: %s (expected %s)" % (got, want))
    for s, e in kinds.get("Ok(i)", []):
        r = render(e)
        ctx.ob("forward", "the reported count is the written count", W is not None and r == "std::task::Poll::Ready{0: std::result::Result::Ok{0: std::result::Result::expect(<T as std::convert::TryInto>::try_into(%s), 'usize to fit into u64.')}}" % W, s.loc(), r[-120:])
    for _, t in zero:
        errs = [s.bb for s, e in kinds.get("Err", [])]
        got = lib.count_range(f, [t], frets, errs)
        ctx.ob("forward", "zero-length write is an error", got == (1, 1), "%s:%d" % (f.file, f.line), "Err results on the i == 0 edge: %s" % (got,))
    for s, e in kinds.get("Ok(0)", []):
        ctx.guarded("forward", "Ok(0) only at end of stream", s, lambda c, r, l: l == "true" and r == "core::slice::is_empty(%s)" % FILL, "source buffer is empty (EOF)")
        fl = [x for x in f.call_sites(r"AsyncWrite>::poll_flush$") if x.bb in f.reachable([t for _, t in f.guard_edges(lambda c, r, l: l == "true" and r == "core::slice::is_empty(%s)" % FILL)])]
        cl = f.call_sites(r"AsyncWrite>::poll_close$")
        ok = bool(fl) and bool(cl)
        for x, nm in ((fl[0] if fl else None, "poll_flush"), (cl[0] if cl else None, "poll_close")):
            if x is None:
                ok = False
                continue
            edges = lib.switch_edges_on_site(f, x, {"Continue"}, r"^discr\(<std::result::Result as std::ops::Try>::branch\(")
            ok = ok and bool(edges) and f.must_pass_edges(s.bb, edges)
        ctx.ob("forward", "Ok(0) only after the destination was flushed and closed", ok, s.loc(), "poll_flush and poll_close both Ready(Ok) on every path to Ok(0)")
    # ================================================================= CopyFuture::poll
    p = ctx.body(RL, r"^libp2p_relay::<copy_future::CopyFuture as futures::Future>::poll$")
    prets = p.return_blocks()
    fw = p.call_sites(r"^libp2p_relay::copy_future::forward_data$")
    ctx.floor("poll", "forward_data calls", fw, 2, exact=True)
    dirs = sorted(render(p.site_expr(s))[len("libp2p_relay::copy_future::forward_data("):] for s in fw)
    ctx.ob("poll", "both directions are connected", dirs == ["this.dst, this.src, cx)", "this.src, this.dst, cx)"], fw[0].loc() if fw else "", str(dirs))
    bw = p.field_write_sites("bytes_sent")
    ctx.floor("poll", "bytes_sent updates", bw, 2, exact=True)
    LIMIT = lambda c, r, l: r in ("Gt(this.bytes_sent, this.max_circuit_bytes)", "Ge(this.bytes_sent, this.max_circuit_bytes)",
                                  "Lt(this.max_circuit_bytes, this.bytes_sent)", "Le(this.max_circuit_bytes, this.bytes_sent)")
    tests = [bi for bi in p.live if p.switch_info(bi) and LIMIT(None, render(p.switch_info(bi)[0]), None)]
    ctx.ob("poll", "floor:limit test", len(tests) == 1, nontrivial=False, msg=str(tests))
    for s in fw:
        call = render(p.site_expr(s))
        d = "src->dst" if "forward_data(this.src, this.dst" in call else "dst->src"
        nz = p.guard_edges(lambda c, r, l: r == call + "@Ready.0@Ok.0" and l == "otherwise")
        ctx.ob("poll", "floor:%s progress edge" % d, len(nz) == 1, nontrivial=False, msg=str(sorted(nz)))
        mine = [w for w in bw if render(p.site_expr(w)) == "AddWithOverflow(this.bytes_sent, %s@Ready.0@Ok.0).0" % call]
        nxt = [x.bb for x in fw if x is not s] + tests
        for _, t in nz:
            got = lib.count_range(p, [t], nxt + prets, lib.bbs(mine))
            ctx.ob("poll", "%s: bytes_sent += forwarded" % d, got == (1, 1), mine[0].loc() if mine else s.loc(), "updates of bytes_sent by this direction's count after Ready(Ok(i != 0)): %s (expected (1, 1))" % (got,))
        for w in mine:
            ok = bool(nz) and p.must_pass_edges(w.bb, nz)
            ctx.ob("poll", "%s: bytes_sent grows only by forwarded bytes" % d, ok, w.loc(), "the update is reachable only through Ready(Ok(i)) with i != 0")
        # errors propagate
        er = [(rs, e) for rs, e in ret_exprs(p) if render(e) == "std::task::Poll::Ready{0: std::result::Result::Err{0: %s@Ready.0@Err.0}}" % call]
        ee = p.guard_edges(lambda c, r, l: r == "discr(%s@Ready.0)" % call and l == "Err")
        got = lib.count_range(p, [t for _, t in ee], prets, [rs.bb for rs, _ in er]) if ee else None
        reach = any(x.bb in p.reachable([t for _, t in ee]) for x in fw) if ee else True
        ctx.ob("poll", "%s: an I/O error ends the circuit with that error" % d, got == (1, 1) and not reach, s.loc(), "Err(e) returned on the Err edge: %s; forwarding continues: %s" % (got, reach))
    unlimited = p.guard_edges(lambda c, r, l: l == "false" and r in ("Gt(this.max_circuit_bytes, 0)", "Ne(this.max_circuit_bytes, 0)"))
    for w in bw:
        # paths on which the limit is enabled: the `max_circuit_bytes == 0` edge is not taken
        r = p.reachable(p.succ[w.bb], blocked_nodes=tests, blocked_edges=unlimited)
        hit = [x for x in fw if x.bb in r and not (x.bb == w.bb)]
        # the other direction of the same iteration may still run (one buffer per direction); a *second* call of the same direction must not
        same = [x for x in hit if render(p.site_expr(x)) in render(p.site_expr(w))]
        ctx.ob("poll", "limit re-tested before forwarding more", bool(tests) and not same, w.loc(),
               "no path from this update back to the same direction's forward_data avoids the limit test" if not same else "the same direction can forward again without passing the limit test")
    for bi in tests:
        cond, labs = p.switch_info(bi)
        over = [tg for tg, ls in labs.items() if ls == {"true"}]
        errs = [s.bb for s, e in ret_exprs(p) if render(e).startswith("std::task::Poll::Ready{0: std::result::Result::Err{0: std::io::Error::other(")]
        got = lib.count_range(p, over, prets, errs) if over else None
        fwd = [x for x in fw if over and x.bb in p.reachable(over)]
        ctx.ob("poll", "over the byte limit: error, nothing more is forwarded", got == (1, 1) and not fwd, "%s:%d" % (p.file, p.blocks[bi]["term"].get("l", 0)), "Err results on the over-limit edge: %s, forward_data reachable: %d" % (got, len(fwd)))
        ok = ctx.guarded("poll", "the byte limit applies whenever it is non-zero", mir.Site(p, bi), lambda c, r, l: l == "true" and r in ("Gt(this.max_circuit_bytes, 0)", "Ne(this.max_circuit_bytes, 0)"), "max_circuit_bytes > 0")
        z = p.guard_edges(lambda c, r, l: l == "false" and r in ("Gt(this.max_circuit_bytes, 0)", "Ne(this.max_circuit_bytes, 0)"))
        # with the limit enabled the test cannot be skipped: the only edge around it is the `== 0` edge
        first = fw[0].bb if fw else None
        ok2 = first is not None and first not in p.reachable([0], blocked_nodes=[bi], blocked_edges=z)
        ctx.ob("poll", "the limit test guards the loop head", ok2, msg="every path from entry to the first forward_data passes the test or the `max_circuit_bytes == 0` edge")
    # Ok only when both done
    oks = [(s, e) for s, e in ret_exprs(p) if render(e) == "std::task::Poll::Ready{0: std::result::Result::Ok{0: tuple{}}}"]
    ctx.floor("poll", "Ready(Ok(())) result", oks, 1, exact=True)
    for s, e in oks:
        both = True
        for nm in ("src_status", "dst_status"):
            edges = p.guard_edges(lambda c, r, l, nm=nm: r == "discr(%s)" % nm and l == "Done")
            both = both and bool(edges) and p.must_pass_edges(s.bb, edges)
        ctx.ob("poll", "Ok only when both directions are done", both, s.loc(), "Ready(Ok(())) is dominated by src_status == Done and dst_status == Done")
    for nm, call in (("src_status", "libp2p_relay::copy_future::forward_data(this.src, this.dst, cx)"), ("dst_status", "libp2p_relay::copy_future::forward_data(this.dst, this.src, cx)")):
        l = lib.local_by_name(p, nm)
        tab = {}
        for d in p.defs.get(l, []):
            s = mir.Site(p, d[1], d[2])
            v = (p.site_expr(s)[3] if p.site_expr(s)[0] == "agg" else "?")
            g = {}
            for text, labels, _, c in p.guards_on_all_paths(s.bb):
                if text == "discr(%s)" % call:
                    g["poll"] = tuple(sorted(labels))
                elif text == "discr(%s@Ready.0)" % call:
                    g["res"] = tuple(sorted(labels))
                elif text == "%s@Ready.0@Ok.0" % call:
                    g["n"] = tuple(sorted(map(str, labels)))
            tab[v] = g
        want = {"Pending": {"poll": ("Pending",)}, "Done": {"poll": ("Ready",), "res": ("Ok",), "n": ("0",)}, "Progressed": {"poll": ("Ready",), "res": ("Ok",), "n": ("otherwise",)}}
        ctx.ob("poll", "%s reflects the direction's forward_data result" % nm, tab == want, msg=str(tab))
    # timer
    tm = [s for s in p.call_sites(r"FutureExt::poll_unpin$") if render(p.site_expr(s)[2][0]) == "this.max_circuit_duration"]
    ctx.floor("poll", "timer poll", tm, 1, exact=True)
    pend = [(s, e) for s, e in ret_exprs(p) if render(e) == "std::task::Poll::Pending{}"]
    ctx.floor("poll", "Pending result", pend, 1)
    for t in tm:
        pe = lib.switch_edges_on_site(p, t, {"Pending"})
        re_ = lib.switch_edges_on_site(p, t, {"Ready"})
        for s, e in pend:
            ctx.ob("poll", "timer polled before every Pending", bool(pe) and p.must_pass_edges(s.bb, pe), s.loc(), "Poll::Pending only on the Pending edge of max_circuit_duration.poll_unpin(cx)")
        to = [s.bb for s, e in ret_exprs(p) if "std::io::ErrorKind::TimedOut{}" in render(e) and render(e).startswith("std::task::Poll::Ready{0: std::result::Result::Err{")]
        got = lib.count_range(p, [x for _, x in re_], prets, to) if re_ else None
        ctx.ob("poll", "a fired timer ends the circuit with TimedOut", got == (1, 1), t.loc(), "Err(TimedOut) on the Ready edge: %s" % (got,))
    # ================================================================= construction and configuration
    n = ctx.body(RL, r"^libp2p_relay::copy_future::CopyFuture::new$")
    ag = [render(e) for _, e in ret_exprs(n)]
    ok = len(ag) == 1 and "max_circuit_duration: futures_timer::Delay::new(max_circuit_duration), max_circuit_bytes: max_circuit_bytes, bytes_sent: <u64 as std::default::Default>::default()}" in ag[0] and \
        "src: futures::io::BufReader::new(src), dst: futures::io::BufReader::new(dst)" in ag[0]
    ctx.ob("config", "CopyFuture::new arms the timer with max_circuit_duration and starts at 0 bytes", ok, "%s:%d" % (n.file, n.line), ag[0][-200:] if ag else "")
    callers = prog.callers(RL, r"^libp2p_relay::copy_future::CopyFuture::new$")
    ctx.floor("config", "CopyFuture::new call sites", callers, 1)
    for s in callers:
        a = [render(x) for x in s.body.site_expr(s)[2]]
        ctx.ob("config", "the circuit is driven with the configured limits", a[2:] == ["^max_circuit_duration", "^max_circuit_bytes"], s.loc(), str(a[2:]))
        par = prog.body(RL, "^" + re.escape(strip_generics(s.body.parent)) + "$") if s.body.parent else None
        ok = False
        txt = ""
        if par is not None:
            ctx.use(par)
            for nm in ("max_circuit_duration", "max_circuit_bytes"):
                ls = [l for l, v in par.names.items() if v == nm]
                txt += " ".join(render(par.init_expr(l)) for l in ls) + "; "
            ok = "self.config.max_circuit_duration" in txt and "self.config.max_circuit_bytes" in txt
        ctx.ob("config", "the limits come from the handler's Config", ok, s.loc(), txt)
    hn = prog.callers(RL, r"^libp2p_relay::behaviour::handler::Handler::new$")
    ctx.floor("config", "Handler::new call sites", hn, 1)
    for s in hn:
        r = render(s.body.site_expr(s))
        ctx.ob("config", "the handler's Config carries the behaviour's circuit limits", "max_circuit_duration: self.config.max_circuit_duration" in r and "max_circuit_bytes: self.config.max_circuit_bytes" in r, s.loc(), r[:260])
