"""C49 relayed circuits forward faithfully within their limits — origin (K5), guards (K1), ordering (K3), path counting (K2), result tables (K7) on copy_future.rs."""
import re

from .. import lib, mir
from .. import lib_proto as P
from ..mir import strip_generics

EXPLANATION = ("forward_data(src, dst): the bytes written to dst are exactly the slice returned by src.poll_fill_buf; src.consume(i) is called exactly "
               "once, only on the path where dst.poll_write returned Ready(Ok(i)) with i != 0, with that very i, and the function then returns "
               "Ok(i); no other exit consumes; Ok(0) is returned only for an empty buffer after flush and close completed; a zero-length write "
               "is an error. CopyFuture::poll: the two forward_data calls connect src->dst and dst->src; on each Ready(Ok(i != 0)) bytes_sent "
               "grows by that i exactly once; from every such update no further forward_data call is reachable without passing the limit test "
               "at the loop head, whose `max_circuit_bytes > 0 && bytes_sent > max_circuit_bytes` edge returns Err without forwarding; "
               "Ready(Ok(())) only when both directions reported Done; errors of either direction are returned; every Pending result is "
               "preceded by a poll of the duration timer and a fired timer returns Err(TimedOut); the timer is built from "
               "max_circuit_duration and both limits come from the handler's configuration.")
ASSUMPTIONS = ["BufReader / AsyncBufRead contract: consume(n) drops exactly the first n bytes of the slice last returned by poll_fill_buf",
               "the overshoot bound (one read buffer per direction) depends on BufReader's capacity and is not decided",
               "chunking / readiness schedules are not enumerated", "futures_timer::Delay fires after its duration"]
RL = "libp2p_relay"
CF = r"copy_future::CopyFuture$"

SELFTEST = [
    {"mutation": "forward_data: consume(length of a re-polled buffer) instead of consume(i)", "caught_by": "forward/consumed = written"},
    {"mutation": "forward_data: `if i == 0` check removed", "caught_by": "forward/consume only after a successful non-empty write"},
    {"mutation": "poll: dst direction does not add to bytes_sent", "caught_by": "poll/dst->src: bytes_sent += forwarded"},
    {"mutation": "seeded/C49: accounting moved into `(Progressed(i), _) | (_, Progressed(i)) => bytes_sent += i` (one direction dropped when both progress)", "caught_by": "poll/src->dst: bytes_sent += forwarded, poll/dst->src: bytes_sent += forwarded"},
    {"mutation": "poll: limit test hoisted out of the loop (tested once per poll)", "caught_by": "poll/limit re-tested before forwarding more"},
    {"mutation": "poll: `this.max_circuit_bytes > this.bytes_sent`", "caught_by": "poll/limit re-tested before forwarding more (+ floor:limit test)"},
    {"mutation": "poll: second call forwards src->dst again", "caught_by": "poll/both directions are connected"},
    {"mutation": "poll: timer never polled (`if false`)", "caught_by": "poll/floor:timer poll"},
    {"mutation": "poll: (Done, Pending) returns Ok", "caught_by": "poll/Ok only when both directions are done"},
]


def check(ctx):
    _check(ctx, ctx.prog)


def _check(ctx, prog):
    # ---- roles of CopyFuture's private fields, from its constructor new(src = $1, dst = $2, max_circuit_duration = $3, max_circuit_bytes = $4)
    n = ctx.body(RL, r"^libp2p_relay::copy_future::CopyFuture::new$")
    NN = P.Norm(n)
    ag = [x for _, e in P.ret_exprs(n) for x in mir.walk(e) if x[0] == "agg" and x[1] == "adt" and strip_generics(x[2]) == "libp2p_relay::copy_future::CopyFuture"]
    if len(ag) != 1:
        raise mir.RuleError("CopyFuture::new: %d constructions" % len(ag))
    F_SRC, F_DST, F_TIMER, F_MAX = (P.field_from_arg(n, ag[0], i) for i in (1, 2, 3, 4))
    rest = [f for f, _ in ag[0][4] if f not in (F_SRC, F_DST, F_TIMER, F_MAX)]
    if len(rest) != 1:
        raise mir.RuleError("CopyFuture: byte counter field not identified: %s" % rest)
    F_SENT = rest[0]
    vals = {f: NN.r(x) for f, x in ag[0][4]}
    ok = vals[F_TIMER] == "futures_timer::Delay::new($3)" and vals[F_MAX] == "$4" and vals[F_SENT] in ("<u64 as std::default::Default>::default()", "0") and \
        vals[F_SRC] == "futures::io::BufReader::new($1)" and vals[F_DST] == "futures::io::BufReader::new($2)"
    ctx.ob("config", "CopyFuture::new arms the timer with max_circuit_duration and starts at 0 bytes", ok, "%s:%d" % (n.file, n.line), str(vals))
    # ================================================================= forward_data(src = $1, dst = $2, cx = $3)
    f = ctx.body(RL, r"^libp2p_relay::copy_future::forward_data$")
    F = P.Norm(f)
    frets = f.return_blocks()
    fill = f.call_sites(r"AsyncBufRead>::poll_fill_buf$|AsyncBufRead::poll_fill_buf$")
    wr = f.call_sites(r"AsyncWrite>::poll_write$|AsyncWrite::poll_write$")
    cons = f.call_sites(r"AsyncBufRead>::consume$|AsyncBufRead::consume$")
    ctx.floor("forward", "poll_fill_buf", fill, 1, exact=True)
    ctx.floor("forward", "poll_write", wr, 1, exact=True)
    ctx.floor("forward", "consume", cons, 1, exact=True)
    FILLC = F.site(fill[0]) if fill else "?"
    ctx.ob("forward", "data is read from the source", FILLC.endswith("poll_fill_buf(std::pin::Pin::new($1), $3)"), fill[0].loc() if fill else "", FILLC)
    BUF = FILLC + "@+@Ready"
    W = None
    for s in wr:
        e = f.site_expr(s)
        ctx.ob("forward", "the bytes written are exactly the source's buffered bytes, to the destination", F.r(e[2][0]) == "std::pin::Pin::new($2)" and F.r(e[2][2]) == BUF, s.loc(), F.r(e)[:200])
        W = F.r(e) + "@+@Ready"

    def nonzero(op, a, b):
        return op == "Ne" and {F.r(a), F.r(b)} == {"0", W}

    def zero(op, a, b):
        return op == "Eq" and {F.r(a), F.r(b)} == {"0", W}
    e_nz, e_z = P.rel_edges(f, nonzero), P.rel_edges(f, zero)
    for s in cons:
        e = f.site_expr(s)
        ctx.ob("forward", "consumed = written", W is not None and F.r(e[2][1]) == W and F.r(e[2][0]) == "std::pin::Pin::new($1)", s.loc(), "consume(%s)" % F.r(e[2][1])[-80:])
        ok = P.must_pass(f, s.bb, e_nz)
        ctx.ob("forward", "consume only after a successful non-empty write", ok, s.loc(), "consume is reachable only with i != 0 for i = the poll_write result" if ok else "consume reachable without `i != 0` (i = the poll_write result)")
    ctx.ob("forward", "floor:zero-write edge", len(e_z) == 1, nontrivial=False, msg=str(sorted(e_z)))
    kinds = {}
    for s, e in P.ret_exprs(f):
        r = F.r(e)
        if r == "std::task::Poll::Pending{}":
            k = "Pending"
        elif r == "std::task::Poll::Ready{0: std::result::Result::Ok{0: 0}}":
            k = "Ok(0)"
        elif r.startswith("std::task::Poll::Ready{0: std::result::Result::Ok{0: "):
            k = "Ok(i)"
        elif r.startswith("std::task::Poll::Ready{0: std::result::Result::Err{"):
            k = "Err"
        elif P.call_is(e, r"FromResidual>::from_residual$"):
            k = "Err"                                     # `?` propagation of an error
        else:
            k = "?" + r[:60]
        kinds.setdefault(k, []).append((s, e))
    ctx.ob("forward", "floor:result kinds", set(kinds) == {"Pending", "Ok(0)", "Ok(i)", "Err"}, nontrivial=False, msg=str({k: len(v) for k, v in kinds.items()}))
    for k, lst in sorted(kinds.items()):
        for s, e in lst:
            got = lib.count_range(f, [0], [s.bb], lib.bbs(cons))
            want = (1, 1) if k == "Ok(i)" else (0, 0)
            ctx.ob("forward", "%s: bytes are consumed iff they were forwarded" % k, got == want, s.loc(), "consume calls on paths to this result: %s (expected %s)" % (got, want))
    for s, e in kinds.get("Ok(i)", []):
        r = F.r(e)
        ctx.ob("forward", "the reported count is the written count", W is not None and r in ("std::task::Poll::Ready{0: std::result::Result::Ok{0: <T as std::convert::TryInto>::try_into(%s)@+}}" % W,
                                                                                           "std::task::Poll::Ready{0: std::result::Result::Ok{0: (%s as u64)}}" % W), s.loc(), r[-120:])
    for t in P.targets(e_z):
        errs = [s.bb for s, e in kinds.get("Err", [])]
        got = lib.count_range(f, [t], frets, errs)
        ctx.ob("forward", "zero-length write is an error", got == (1, 1), "%s:%d" % (f.file, f.line), "Err results on the i == 0 edge: %s" % (got,))
    eof = P.truth_edges(f, lambda e: F.r(e) == "core::slice::is_empty(%s)" % BUF, True)
    for s, e in kinds.get("Ok(0)", []):
        ctx.ob("forward", "Ok(0) only at end of stream", P.must_pass(f, s.bb, eof), s.loc(), "Ok(0) only on the `buffer.is_empty()` edge")
        fl = [x for x in f.call_sites(r"AsyncWrite>::poll_flush$|AsyncWrite::poll_flush$") if eof and x.bb in f.reachable(P.targets(eof))]
        cl = f.call_sites(r"AsyncWrite>::poll_close$|AsyncWrite::poll_close$")
        ok = bool(fl) and bool(cl)
        for x in (fl[:1] + cl[:1]):
            # the call returned Ready(Ok(..)): success edge of the Result inside the Ready payload
            call = F.site(x)
            edges = P.outcome_edges(f, lambda y: F.r(y) == call + "@Ready", True)
            ok = ok and P.must_pass(f, s.bb, edges)
        ctx.ob("forward", "Ok(0) only after the destination was flushed and closed", ok, s.loc(), "poll_flush and poll_close both Ready(Ok) on every path to Ok(0)")
    # ================================================================= CopyFuture::poll(self, cx = $2)
    p = ctx.body(RL, r"^libp2p_relay::<copy_future::CopyFuture as futures::Future>::poll$")
    N = P.Norm(p)
    prets = p.return_blocks()
    res = P.ret_exprs(p)
    SENT, MAXB = "%." + F_SENT, "%." + F_MAX
    fw = p.call_sites(r"^libp2p_relay::copy_future::forward_data$")
    ctx.floor("poll", "forward_data calls", fw, 2, exact=True)
    FWD = "libp2p_relay::copy_future::forward_data(%%.%s, %%.%s, $2)"
    want_dirs = {FWD % (F_SRC, F_DST): "src->dst", FWD % (F_DST, F_SRC): "dst->src"}
    dirs = sorted(N.site(s) for s in fw)
    ctx.ob("poll", "both directions are connected", dirs == sorted(want_dirs), fw[0].loc() if fw else "", str(dirs))
    bw = p.field_write_sites(F_SENT)
    ctx.floor("poll", "bytes_sent updates", bw, 2)

    def over(op, a, b):       # max < sent
        return op == "Lt" and N.r(a) == MAXB and N.r(b) == SENT

    def over_or_at(op, a, b):
        return op in ("Lt", "Le") and N.r(a) == MAXB and N.r(b) == SENT
    tests = sorted({bi for bi, _ in P.rel_edges(p, over_or_at)})
    ctx.ob("poll", "floor:limit test", len(tests) == 1, nontrivial=False, msg=str(tests))
    enabled = P.rel_edges(p, lambda op, a, b: (op == "Lt" and N.r(a) == "0" and N.r(b) == MAXB) or (op == "Ne" and {N.r(a), N.r(b)} == {"0", MAXB}))
    unlimited = P.rel_edges(p, lambda op, a, b: (op == "Le" and N.r(a) == MAXB and N.r(b) == "0") or (op == "Eq" and {N.r(a), N.r(b)} == {"0", MAXB}))
    for s in fw:
        call = N.site(s)
        d = want_dirs.get(call, "?")
        CNT = call + "@+@Ready"
        nz = set()
        for bi in p.live:
            info = p.switch_info(bi)
            if info and N.r(info[0]) == CNT:
                for tg, ls in info[1].items():
                    if ls == {"otherwise"}:
                        nz.add((bi, tg))
        nz |= P.rel_edges(p, lambda op, a, b: op == "Ne" and {N.r(a), N.r(b)} == {"0", CNT})
        ctx.ob("poll", "floor:%s progress edge" % d, len(nz) == 1, nontrivial=False, msg=str(sorted(nz)))
        mine = [w for w in bw if N.site(w) in ("AddWithOverflow(%s, %s).0" % (SENT, CNT), "AddWithOverflow(%s, %s).0" % (CNT, SENT), "core::num::saturating_add(%s, %s)" % (SENT, CNT))]
        nxt = [x.bb for x in fw if x is not s] + tests
        for t in P.targets(nz):
            got = lib.count_range(p, [t], nxt + prets, lib.bbs(mine))
            ctx.ob("poll", "%s: bytes_sent += forwarded" % d, got == (1, 1), mine[0].loc() if mine else s.loc(), "updates of bytes_sent by this direction's count after Ready(Ok(i != 0)): %s (expected (1, 1))" % (got,))
        for w in mine:
            ok = P.must_pass(p, w.bb, nz)
            ctx.ob("poll", "%s: bytes_sent grows only by forwarded bytes" % d, ok, w.loc(), "the update is reachable only through Ready(Ok(i)) with i != 0")
        er = [(rs, e) for rs, e in res if N.r(e) == "std::task::Poll::Ready{0: std::result::Result::Err{0: %s@Err@Ready}}" % call]
        ee = P.outcome_edges(p, lambda y: N.r(y) == call + "@Ready", False)
        got = lib.count_range(p, P.targets(ee), prets, [rs.bb for rs, _ in er]) if ee else None
        reach = any(x.bb in p.reachable(P.targets(ee)) for x in fw) if ee else True
        ctx.ob("poll", "%s: an I/O error ends the circuit with that error" % d, got == (1, 1) and not reach, s.loc(), "Err(e) returned on the Err edge: %s; forwarding continues: %s" % (got, reach))
    for w in bw:
        r = p.reachable(p.succ[w.bb], blocked_nodes=tests, blocked_edges=unlimited)
        wtxt = N.site(w)
        same = [x for x in fw if x.bb in r and x.bb != w.bb and N.site(x) in wtxt]
        ctx.ob("poll", "limit re-tested before forwarding more", bool(tests) and not same, w.loc(),
               "no path from this update back to the same direction's forward_data avoids the limit test" if not same else "the same direction can forward again without passing the limit test")
    for bi in tests:
        ov = P.targets({(b_, t_) for b_, t_ in P.rel_edges(p, over_or_at) if b_ == bi})
        errs = [s.bb for s, e in res if N.r(e).startswith("std::task::Poll::Ready{0: std::result::Result::Err{0: ") and "forward_data(" not in N.r(e) and "TimedOut" not in N.r(e)]
        got = lib.count_range(p, ov, prets, errs) if ov else None
        fwd = [x for x in fw if ov and x.bb in p.reachable(ov)]
        where = "%s:%d" % (p.file, p.blocks[bi]["term"].get("l", 0))
        ctx.ob("poll", "over the byte limit: error, nothing more is forwarded", got == (1, 1) and not fwd, where, "Err results on the over-limit edge: %s, forward_data reachable: %d" % (got, len(fwd)))
        ctx.ob("poll", "the byte limit applies whenever it is non-zero", P.must_pass(p, bi, enabled) or not unlimited, where, "the limit test is skipped only on the `max_circuit_bytes == 0` edge")
        first = fw[0].bb if fw else None
        ok2 = first is not None and first not in p.reachable_bool([0], blocked_nodes=[bi], blocked_edges=unlimited)
        ctx.ob("poll", "the limit test guards the loop head", ok2, msg="every path from entry to the first forward_data passes the test or the `max_circuit_bytes == 0` edge")
    # per-direction status locals: multi-def locals whose definitions are all variants of the local `Status` enum
    status = {}
    for l, ds in p.defs.items():
        if not isinstance(l, int) or len(ds) < 2:
            continue
        es = [p.site_expr(mir.Site(p, d[1], d[2])) for d in ds if d[0] == "stmt"]
        if len(es) == len(ds) and all(e[0] == "agg" and e[1] == "adt" and strip_generics(e[2]).endswith("::poll::Status") for e in es):
            status[l] = ds
    ctx.ob("poll", "floor:status locals", len(status) == 2, nontrivial=False, msg=str(sorted(status)))
    seen_dirs = set()
    for l, ds in status.items():
        tab = {}
        which = None
        for d in ds:
            s = mir.Site(p, d[1], d[2])
            v = p.site_expr(s)[3]
            g = {}
            for text, labels, _, c in p.guards_on_all_paths(s.bb):
                rc = N.r(c)
                for call, dname in want_dirs.items():
                    if rc == "discr(%s)" % call:
                        g["poll"], which = tuple(sorted(labels)), dname
                    elif rc == "discr(%s@Ready)" % call:
                        g["res"] = tuple(sorted(labels))
                    elif rc == "%s@+@Ready" % call:
                        g["n"] = tuple(sorted(map(str, labels)))
            tab[v] = g
        seen_dirs.add(which)
        want = {"Pending": {"poll": ("Pending",)}, "Done": {"poll": ("Ready",), "res": ("Ok",), "n": ("0",)}, "Progressed": {"poll": ("Ready",), "res": ("Ok",), "n": ("otherwise",)}}
        ctx.ob("poll", "%s status reflects the direction's forward_data result" % which, tab == want, msg=str(tab))
    ctx.ob("poll", "floor:one status per direction", seen_dirs == {"src->dst", "dst->src"}, nontrivial=False, msg=str(sorted(map(str, seen_dirs))))
    oks = [(s, e) for s, e in res if N.r(e) == "std::task::Poll::Ready{0: std::result::Result::Ok{0: tuple{}}}"]
    ctx.floor("poll", "Ready(Ok(())) result", oks, 1)
    for s, e in oks:
        both = len(status) == 2
        for l in status:
            edges = P.variant_edges(p, lambda y, l=l: y[0] == "local" and y[1] == l, {"Done"})
            both = both and P.must_pass(p, s.bb, edges)
        ctx.ob("poll", "Ok only when both directions are done", both, s.loc(), "Ready(Ok(())) is dominated by status == Done for both directions")
    # timer
    tm = [s for s in p.call_sites(r"poll_unpin$|Future>::poll$|Future::poll$") if N.r(p.site_expr(s)[2][0]) in ("%." + F_TIMER, "std::pin::Pin::new(%%.%s)" % F_TIMER)]
    ctx.floor("poll", "timer poll", tm, 1, exact=True)
    pend = [(s, e) for s, e in res if N.r(e) == "std::task::Poll::Pending{}"]
    ctx.floor("poll", "Pending result", pend, 1)
    for t in tm:
        pe = P.variant_edges(p, P.is_call_at(t), {"Pending"})
        re_ = P.variant_edges(p, P.is_call_at(t), {"Ready"})
        for s, e in pend:
            ctx.ob("poll", "timer polled before every Pending", P.must_pass(p, s.bb, pe), s.loc(), "Poll::Pending only on the Pending edge of the duration timer's poll")
        to = [s.bb for s, e in res if "std::io::ErrorKind::TimedOut{}" in N.r(e) and N.r(e).startswith("std::task::Poll::Ready{0: std::result::Result::Err{")]
        got = lib.count_range(p, P.targets(re_), prets, to) if re_ else None
        ctx.ob("poll", "a fired timer ends the circuit with TimedOut", got == (1, 1), t.loc(), "Err(TimedOut) on the Ready edge: %s" % (got,))
    # ================================================================= configuration
    hn = prog.callers(RL, r"^libp2p_relay::behaviour::handler::Handler::new$")
    ctx.floor("config", "Handler::new call sites", hn, 1)
    HF = {}
    for s in hn:
        B = P.Norm(s.body)
        cfg = [x for x in mir.walk(s.body.site_expr(s)) if x[0] == "agg" and x[1] == "adt" and strip_generics(x[2]) == "libp2p_relay::behaviour::handler::Config"]
        got = {}
        for c in cfg[:1]:
            for fld, x in c[4]:
                m = re.match(r"^self\.[A-Za-z_0-9]+\.(max_circuit_duration|max_circuit_bytes)$", B.r(x))
                if m:
                    got[m.group(1)] = fld
        ctx.ob("config", "the handler's Config carries the behaviour's circuit limits", set(got) == {"max_circuit_duration", "max_circuit_bytes"}, s.loc(), str(got))
        HF = HF or got
    callers = prog.callers(RL, r"^libp2p_relay::copy_future::CopyFuture::new$")
    ctx.floor("config", "CopyFuture::new call sites", callers, 1)
    for s in callers:
        cb = s.body
        C = P.Norm(cb)
        a = cb.site_expr(s)[2]
        par, caps = P.capture_exprs(prog, cb)
        txt = []
        ok = par is not None and len(a) == 4
        if ok:
            ctx.use(par)
            PN = P.Norm(par)
            for x, role in ((a[2], "max_circuit_duration"), (a[3], "max_circuit_bytes")):
                src = None
                if x[0] == "upvar":
                    r = C.r(x)
                    i = int(r[1:]) if r[1:].isdigit() else None
                    src = PN.r(caps[i]) if i is not None and i < len(caps) else None
                txt.append(src)
                ok = ok and src is not None and re.match(r"^self\.[A-Za-z_0-9]+\.%s$" % re.escape(HF.get(role, "?")), src) is not None
        ctx.ob("config", "the circuit is driven with the handler Config's limits", ok, s.loc(), str(txt))
