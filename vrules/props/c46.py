"""C46 identify reports only authenticated peer information — guards (K1), origin (K5), ordering (K3), who-constructs (K4), small decision tables (K7)."""
import re

from .. import lib, mir
from ..mir import render, strip_generics

EXPLANATION = ("Handler::handle_incoming_info returns true only on the edge where remote_peer_id != info.public_key.to_peer_id() is false and "
               "stores remote_info only there; remote_peer_id is the swarm-authenticated peer given to handle_established_*; every "
               "handler::Event::Identified (identify and push) is built only in Handler::poll, on the true edge of handle_incoming_info "
               "applied to the very Info that is delivered, with no merge in between. Behaviour: Event::Received is built only in the "
               "Identified arm, after listen_addrs.retain(multiaddr_matches_peer_id(addr, &peer_id)) on the same Info with the "
               "connection's peer id; cached addresses are taken from the retained list; multiaddr_matches_peer_id is false only for a "
               "trailing /p2p component that differs. TryFrom<proto::Identify> for Info: listen addresses and the stored envelope come "
               "from the signed record only through from_signed_envelope(..).ok()? and "
               "(peer_record.peer_id() == identify_public_key.to_peer_id()).then_some(..) with identify_public_key the key placed in "
               "Info.public_key; otherwise from parse_listen_addrs with no envelope. PushInfo never carries a signed record.")
ASSUMPTIONS = ["SignedEnvelope / PeerRecord::from_signed_envelope verify the signature and signer (C21)",
               "PublicKey::to_peer_id is injective enough (hash collision resistance)",
               "the peer id given to handle_established_* was authenticated by the security upgrade (C05/C16/C18)",
               "relay addresses /p2p/R/p2p-circuit legitimately name another peer: only a trailing /p2p component is compared"]
ID = "libp2p_identify"

SELFTEST = [
    {"mutation": "handle_incoming_info: `==` instead of `!=`", "caught_by": "incoming/true only when the key derives the connection's peer id"},
    {"mutation": "Handler::poll push branch: `if self.handle_incoming_info(&info) || true`", "caught_by": "identified/ReceivedIdentifyPush: guarded by handle_incoming_info"},
    {"mutation": "Handler::poll push branch: merge after the check", "caught_by": "identified/ReceivedIdentifyPush: the merged Info is what is checked"},
    {"mutation": "behaviour: Event::Received pushed before listen_addrs.retain", "caught_by": "received/foreign /p2p addresses removed before the event"},
    {"mutation": "retain closure compares with the local peer id", "caught_by": "received/retain filters with the connection's peer id"},
    {"mutation": "multiaddr_matches_peer_id: `!=`", "caught_by": "matches/P2p => ids equal"},
    {"mutation": "TryFrom: `(.. == .. || true).then_some`", "caught_by": "record/signed addresses only behind the same-peer test"},
    {"mutation": "TryFrom: `.then_some` replaced by unconditional `Some(..)`", "caught_by": "record/signed addresses only behind the same-peer test"},
]


def ret_defs(b):
    out = []
    for d in b.defs.get(0, []):
        s = mir.Site(b, d[1], d[2])
        out.append((s, b.site_expr(s)))
    return out


def check(ctx):
    prog = ctx.prog
    mir.RENDER_MAX[0] = 40
    try:
        _check(ctx, prog)
    finally:
        mir.RENDER_MAX[0] = 14


def _check(ctx, prog):
    # ================================================================= handle_incoming_info
    hi = ctx.body(ID, r"^libp2p_identify::handler::Handler::handle_incoming_info$")
    NE = r"^std::cmp::PartialEq::ne\(self\.remote_peer_id, libp2p_identity::PublicKey::to_peer_id\(info\.public_key\)\)$|^<libp2p_core::PeerId as std::cmp::PartialEq>::ne\(self\.remote_peer_id, libp2p_identity::PublicKey::to_peer_id\(info\.public_key\)\)$"
    EQ = NE.replace("::ne\\(", "::eq\\(")

    def same_peer(c, r, l):
        return (l == "false" and re.search(NE, r) is not None) or (l == "true" and re.search(EQ, r) is not None)

    def other_peer(c, r, l):
        return (l == "true" and re.search(NE, r) is not None) or (l == "false" and re.search(EQ, r) is not None)
    rd = ret_defs(hi)
    trues = [(s, e) for s, e in rd if e[0] == "const" and e[1] == 1]
    falses = [(s, e) for s, e in rd if e[0] == "const" and e[1] == 0]
    ctx.ob("incoming", "result is a literal bool", len(trues) + len(falses) == len(rd) and len(trues) >= 1 and len(falses) >= 1, "%s:%d" % (hi.file, hi.line), str([render(e) for _, e in rd]))
    for s, _ in trues:
        ctx.guarded("incoming", "true only when the key derives the connection's peer id", s, same_peer, "remote_peer_id == info.public_key.to_peer_id()")
    mism = hi.guard_edges(other_peer)
    ctx.ob("incoming", "floor:mismatch edge", len(mism) == 1, nontrivial=False, msg=str(sorted(mism)))
    for _, t in mism:
        got = lib.count_range(hi, [t], hi.return_blocks(), lib.bbs([s for s, _ in falses]))
        eff = [s for s in hi.call_sites() if s.bb in hi.reachable([t])]
        ctx.ob("incoming", "a foreign key is rejected without any effect", got == (1, 1) and not eff, "%s:%d" % (hi.file, hi.line),
               "on the mismatch edge: `false` results %s, calls %s" % (got, [strip_generics(hi.call_name(s.term)) for s in eff]))
    rep = [s for s in hi.call_sites(r"Option::replace$|Option::insert$") if render(hi.site_expr(s)[2][0]) == "self.remote_info"]
    ctx.floor("incoming", "remote_info store", rep, 1)
    for s in rep:
        ctx.guarded("incoming", "remote_info stored only for an authenticated key", s, same_peer, "remote_peer_id == info.public_key.to_peer_id()")
        ctx.ob("incoming", "the stored info is the checked info", render(hi.site_expr(s)[2][1]) == "libp2p_identify::<protocol::Info as std::clone::Clone>::clone(info)", s.loc(), render(hi.site_expr(s)[2][1]))
    # who else touches remote_info / remote_peer_id
    wr = {}
    for b in prog.bodies(ID):
        if b.kind not in ("method", "fn", "closure", "coroutine"):
            continue
        for s in lib.field_mut_calls(b, "remote_info") + b.field_write_sites("remote_info"):
            wr.setdefault(b.npath, []).append(s)
    ctx.ob("incoming", "remote_info mutated only by handle_incoming_info", set(wr) == {hi.npath}, msg=str(sorted(wr)))
    wp = {}
    for b in prog.bodies(ID):
        for s in lib.field_mut_calls(b, "remote_peer_id") + b.field_write_sites("remote_peer_id"):
            wp.setdefault(b.npath, []).append(s)
    ctx.ob("incoming", "remote_peer_id never reassigned", not wp, msg=str(sorted(wp)))
    hn = ctx.body(ID, r"^libp2p_identify::handler::Handler::new$")
    ag = hn.agg_sites(r"^libp2p_identify::handler::Handler$")
    ok = False
    txt = ""
    if len(ag) == 1:
        f = dict(hn.site_expr(ag[0])[4])
        txt = render(f.get("remote_peer_id", ("unknown", "?")))
        ok = f.get("remote_peer_id", ("x",))[0] == "arg" and f["remote_peer_id"][1] == 2
    ctx.ob("incoming", "Handler.remote_peer_id = constructor argument #2", ok, ag[0].loc() if ag else "", txt)
    callers = prog.callers(ID, r"^libp2p_identify::handler::Handler::new$")
    ctx.floor("incoming", "Handler::new call sites", callers, 2)
    for s in callers:
        a = s.body.site_expr(s)[2][1]
        fn = s.body.short.split("::")[-1]
        ctx.ob("incoming", "%s: handler bound to the connection's authenticated peer" % fn, fn.startswith("handle_established_") and a[0] == "arg" and a[2] == "peer" and a[1] == 3, s.loc(),
               "Handler::new(.., %s, ..) in %s" % (render(a), fn))

    # ================================================================= Handler::poll: Identified only after the check
    hp = ctx.body(ID, r"<handler::Handler as libp2p_swarm::ConnectionHandler>::poll$")
    # the aggregate may be nested directly in the Poll::Ready literal: search result defs instead
    sites = []
    for s, e in ret_defs(hp):
        for x in mir.walk(e):
            if x[0] == "agg" and x[1] == "adt" and strip_generics(x[2]) == "libp2p_identify::handler::Event" and x[3] == "Identified":
                sites.append((s, dict(x[4])["0"]))
    ctx.floor("identified", "Event::Identified results in Handler::poll", sites, 2)
    chk = hp.call_sites(r"Handler::handle_incoming_info$")
    ctx.floor("identified", "handle_incoming_info calls", chk, 2)
    merges = hp.call_sites(r"protocol::Info::merge$")
    ctx.floor("identified", "Info::merge call", merges, 1)
    for s, payload in sites:
        pr = render(payload)
        arm = "ReceivedIdentifyPush" if payload[0] == "local" else ("ReceivedIdentify" if "@ReceivedIdentify.0" in pr else "?")
        mine = [c for c in chk if render(hp.site_expr(c)[2][1]) == pr]
        ok = len(mine) == 1
        if ok:
            te = lib.switch_edges_on_site(hp, mine[0], {"true"})
            ok = bool(te) and hp.must_pass_edges(s.bb, te)
        ctx.ob("identified", "%s: guarded by handle_incoming_info" % arm, ok, s.loc(),
               "Identified(%s) is reachable only through the true edge of handle_incoming_info(&%s)" % (pr[-40:], pr[-40:]) if ok else
               "Identified(%s) reachable without a successful handle_incoming_info on the same Info" % pr[-60:])
        if mine:
            tt = [t for _, t in lib.switch_edges_on_site(hp, mine[0], {"true"})]
            between = hp.reachable(tt, stop_nodes=[s.bb]) if tt else set()
            mut = [m for m in merges if m.bb in between]
            ctx.ob("identified", "%s: Info not modified between check and delivery" % arm, not mut, s.loc(), "Info::merge calls after the check: %d" % len(mut))
            if payload[0] == "local":
                ctx.ob("identified", "%s: the merged Info is what is checked" % arm, all(render(hp.site_expr(m)[2][0]) == pr for m in merges) and
                       all(hp.dominates(m.bb, mine[0].bb) for m in merges), mine[0].loc(), "merge(%s) dominates the check" % pr)
    who = set()
    for b in prog.bodies(ID):
        if b.agg_sites(r"^libp2p_identify::handler::Event$", "Identified"):
            who.add(b.npath)
    ctx.ob("identified", "handler::Event::Identified constructed only in Handler::poll", who == {hp.npath}, msg=str(sorted(who)))

    # ================================================================= Behaviour: retain before Received
    bh = ctx.body(ID, r"<behaviour::Behaviour as libp2p_swarm::NetworkBehaviour>::on_connection_handler_event$")
    ents = lib.arm_entry(bh, r"^discr\(event\)$", "Identified")
    ctx.ob("received", "floor:Identified arm", len(ents) == 1, nontrivial=False, msg=str(ents))
    recv = [s for s in bh.call_sites(r"VecDeque::push_back$") if "libp2p_identify::behaviour::Event::Received{" in render(bh.site_expr(s))]
    ctx.floor("received", "Event::Received push", recv, 1, exact=True)
    ret = [s for s in bh.call_sites(r"Vec::retain$") if render(bh.site_expr(s)[2][0]) == "info.listen_addrs"]
    ctx.floor("received", "info.listen_addrs.retain", ret, 1, exact=True)
    whoR = set()
    for b in prog.bodies(ID):
        for s in b.stmt_sites(lambda st: st["k"] == "assign" and st["r"]["k"] == "agg" and st["r"]["ak"] == "adt" and
                              strip_generics(st["r"]["adt"]) == "libp2p_identify::behaviour::Event" and st["r"]["variant"] == "Received"):
            whoR.add(b.npath)
    ctx.ob("received", "Event::Received constructed only in the Identified arm", whoR == {bh.npath}, msg=str(sorted(whoR)))
    if ents and recv and ret:
        ent = ents[0][1]
        got = lib.count_range(bh, [ent], [recv[0].bb], lib.bbs(ret))
        ctx.ob("received", "foreign /p2p addresses removed before the event", got == (1, 1) and recv[0].bb in bh.reachable([ent]), recv[0].loc(),
               "retain calls on every path from the arm entry to the Received push: %s (expected (1, 1))" % (got,))
        il = [l for l, n in bh.names.items() if n == "info"]
        e = render(bh.site_expr(recv[0])[2][1])
        ctx.ob("received", "the reported Info is the filtered Info of this connection's peer", "peer_id: peer_id, info: libp2p_identify::<protocol::Info as std::clone::Clone>::clone(info)}" in e and
               "connection_id: connection_id," in e, recv[0].loc(), e[-160:])
        # `info` here must be the Identified payload
        l_info = [l for l in il if render(bh.init_expr(l)) == "event@Identified.0"]
        a0 = bh.site_expr(ret[0])[2][0]
        ctx.ob("received", "the filtered Info is the handler's Identified payload", len(l_info) == 1 and a0[0] == "field" and a0[1][0] == "local" and a0[1][1] == l_info[0], ret[0].loc(), render(a0))
        cl = lib.closure_of(prog, bh, bh.site_expr(ret[0]))
        txt = ""
        ok = False
        if cl is not None:
            ctx.use(cl)
            r0 = ret_defs(cl)
            txt = render(r0[0][1]) if len(r0) == 1 else str(len(r0))
            ok = txt == "libp2p_identify::behaviour::multiaddr_matches_peer_id(addr, ^peer_id)"
            ce = [x for x in mir.walk(bh.site_expr(ret[0])) if x[0] == "closure"][0]
            ok = ok and len(ce[2]) == 1 and ce[2][0][0] == "arg" and ce[2][0][1] == 2
        ctx.ob("received", "retain filters with the connection's peer id", ok, ret[0].loc(), txt)
        # cached addresses come from the filtered list
        adds = bh.call_sites(r"PeerAddresses::add$")
        ctx.floor("received", "discovered_peers.add", adds, 1)
        for s in adds:
            a = [render(x) for x in bh.site_expr(s)[2]]
            it = [x for x in bh.call_sites(r"IntoIterator>::into_iter$") if render(bh.site_expr(x)[2][0]) == "info.listen_addrs"]
            ctx.ob("received", "cached addresses are taken from the filtered list, for this peer", a[1] == "peer_id" and a[2].endswith("Iterator>::next(iter)@Some.0)") and len(it) == 1 and
                   bh.must_pass_nodes([ents[0][1]], [it[0].bb], lib.bbs(ret)), s.loc(), str(a[1:]))
    # ================================================================= multiaddr_matches_peer_id
    mm = ctx.body(ID, r"^libp2p_identify::behaviour::multiaddr_matches_peer_id$")
    rd = ret_defs(mm)
    n_eq = 0
    for s, e in rd:
        r = render(e)
        if e[0] == "const" and e[1] == 1:
            continue
        n_eq += 1
        ok = r == "<libp2p_core::PeerId as std::cmp::PartialEq>::eq(std::iter::Iterator::last(libp2p_core::Multiaddr::iter(addr))@Some.0@P2p.0, peer_id)"
        ctx.ob("matches", "P2p => ids equal", ok, s.loc(), r)
    ctx.ob("matches", "floor:comparison result", n_eq == 1, nontrivial=False, msg="%d non-constant results" % n_eq)
    p2p = lib.switch_edges_on(mm, r"^discr\(std::iter::Iterator::last\(libp2p_core::Multiaddr::iter\(addr\)\)@Some\.0\)$", {"P2p"})
    ctx.ob("matches", "floor:P2p edge", len(p2p) == 1, nontrivial=False, msg=str(sorted(p2p)))
    for _, t in p2p:
        consts = [s.bb for s, e in rd if e[0] == "const"]
        got = lib.count_range(mm, [t], mm.return_blocks(), consts)
        ctx.ob("matches", "a trailing /p2p component is always compared", got == (0, 0), "%s:%d" % (mm.file, mm.line), "constant results on the P2p edge: %s (expected (0, 0))" % (got,))

    # ================================================================= TryFrom<proto::Identify> for Info
    tf = ctx.body(ID, r"^libp2p_identify::<protocol::Info as std::convert::TryFrom>::try_from$")
    infos = []
    for s, e in ret_defs(tf):
        for x in mir.walk(e):
            if x[0] == "agg" and x[1] == "adt" and strip_generics(x[2]) == "libp2p_identify::protocol::Info":
                infos.append((s, dict(x[4])))
    ctx.floor("record", "Info construction in try_from", infos, 1)
    for s, f in infos:
        la, se, pk = f["listen_addrs"], f["signed_peer_record"], f["public_key"]
        ok = la[0] == "field" and se[0] == "field" and la[2] == "0" and se[2] == "1" and render(la[1]) == render(se[1])
        src = la[1] if ok else None
        ctx.ob("record", "listen_addrs and signed_peer_record come from one decision", ok, s.loc(), render(la)[:120])
        if src is None:
            continue
        ok = src[0] == "call" and strip_generics(src[1]).endswith("Option::unwrap_or_else") and src[2][0][0] == "call" and strip_generics(src[2][0][1]).endswith("Option::and_then") and \
            render(src[2][0][2][0]) == "msg.signed_peer_record"
        ctx.ob("record", "decision = msg.signed_peer_record.and_then(validate).unwrap_or_else(fallback)", ok, s.loc(), render(src)[:160])
        if not ok:
            continue
        val_e, fb_e = src[2][0][2][1], src[2][1]
        ctx.ob("record", "validation is given the key that becomes Info.public_key", val_e[0] == "closure" and len(val_e[2]) == 1 and render(val_e[2][0]) == render(pk) and pk[0] == "local", s.loc(),
               "upvar %s, Info.public_key %s" % (render(val_e[2][0]) if val_e[0] == "closure" else "?", render(pk)))
        val = prog.closure_body(tf, val_e[1])
        fb = prog.closure_body(tf, fb_e[1])
        ctx.use(val)
        ctx.use(fb)
        # fallback
        r = [render(e) for _, e in ret_defs(fb)]
        ctx.ob("record", "fallback = (parse_listen_addrs(msg.listen_addrs), None)", r == ["tuple{0: libp2p_identify::protocol::parse_listen_addrs(^msg.listen_addrs), 1: std::option::Option::None{}}"], "%s:%d" % (fb.file, fb.line), str(r))
        # validation closure
        n_pos = 0
        for vs, ve in ret_defs(val):
            if ve[0] == "call" and strip_generics(ve[1]).endswith("FromResidual>::from_residual"):
                continue
            if ve[0] == "agg" and ve[3] == "None":
                continue
            n_pos += 1
            cond = payload = None
            guarded_by_edge = False
            if ve[0] == "call" and strip_generics(ve[1]).endswith("bool::then_some"):
                cond, payload = ve[2][0], ve[2][1]
            elif ve[0] == "call" and strip_generics(ve[1]).endswith("bool::then"):
                cond, payload = ve[2][0], None
            elif ve[0] == "agg" and ve[3] == "Some":
                payload = dict(ve[4])["0"]
                for text, labels, _, c in val.guards_on_all_paths(vs.bb):
                    if labels == frozenset({"true"}) and c[0] == "call" and strip_generics(c[1]).endswith("PartialEq>::eq"):
                        cond = c
                        guarded_by_edge = True
            ok = cond is not None and cond[0] == "call" and re.search(r"<libp2p_core::PeerId as std::cmp::PartialEq>::eq$", strip_generics(cond[1])) is not None
            rec = None
            if ok:
                a = [render(x) for x in cond[2]]
                pid = [x for x in cond[2] if x[0] == "call" and strip_generics(x[1]) == "libp2p_core::PeerRecord::peer_id"]
                key = [x for x in cond[2] if render(x) == "libp2p_identity::PublicKey::to_peer_id(^identify_public_key)"]
                ok = len(pid) == 1 and len(key) == 1
                rec = pid[0][2][0] if pid else None
            ctx.ob("record", "signed addresses only behind the same-peer test", ok, vs.loc(),
                   ("Some(..) only if peer_record.peer_id() == identify_public_key.to_peer_id()" + (" (if-guard)" if guarded_by_edge else " (then_some)")) if ok else
                   "a Some(..) result of the validation closure is not conditioned on peer_record.peer_id() == identify_public_key.to_peer_id(): %s" % render(ve)[:160])
            if rec is not None:
                rr = render(rec)
                ctx.ob("record", "the record is a verified one (from_signed_envelope(..).ok()?)", re.search(r"^<std::option::Option as std::ops::Try>::branch\(std::result::Result::ok\(libp2p_core::PeerRecord::from_signed_envelope(_interop)?\(", rr) is not None and
                       rr.endswith("@Continue.0"), vs.loc(), rr[:140])
                if payload is not None and payload[0] == "agg":
                    pf = dict(payload[4])
                    a0, a1 = render(pf.get("0", ("unknown", "?"))), render(pf.get("1", ("unknown", "?")))
                    ctx.ob("record", "the reported addresses and envelope are those of the tested record",
                           a0 == "std::slice::to_vec(libp2p_core::PeerRecord::addresses(%s))" % rr and a1 == "std::option::Option::Some{0: libp2p_core::PeerRecord::into_signed_envelope(%s)}" % rr, vs.loc(), a0[:80])
                else:
                    ctx.ob("record", "the reported addresses and envelope are those of the tested record", False, vs.loc(), "payload shape not recognised")
        ctx.ob("record", "floor:accepting result of the validation closure", n_pos >= 1, nontrivial=False, msg="%d" % n_pos)
        fse = val.call_sites(r"PeerRecord::from_signed_envelope(_interop)?$")
        ctx.floor("record", "from_signed_envelope call", fse, 1)
    users = set()
    for b in prog.bodies(ID):
        if b.call_sites(r"PeerRecord::(addresses|from_signed_envelope|from_signed_envelope_interop)$"):
            users.add(b.npath)
    ctx.ob("record", "signed records are consumed only by the validation closure", len(users) == 1 and next(iter(users)).startswith(tf.npath + "::{closure"), msg=str(sorted(users)))
    # PushInfo has no signed record and its addresses come from the plain list
    pi = ctx.body(ID, r"^libp2p_identify::<protocol::PushInfo as std::convert::TryFrom>::try_from$")
    txt = " ".join(render(e) for _, e in ret_defs(pi))
    ctx.ob("record", "push messages never use signed_peer_record", "signed_peer_record" not in txt and "listen_addrs: libp2p_identify::protocol::parse_listen_addrs(msg.listen_addrs)" in txt, "%s:%d" % (pi.file, pi.line), txt[:120])
    adt = prog.adt(ID, r"^libp2p_identify::protocol::PushInfo$")
    fields = [f["n"] for v in adt.get("variants", []) for f in v.get("fields", [])]
    ctx.ob("record", "PushInfo has no signed-record field", fields and "signed_peer_record" not in fields, msg=str(fields))
    mg = ctx.body(ID, r"^libp2p_identify::protocol::Info::merge$")
    ws = [s for s in mg.field_write_sites("signed_peer_record")]
    ctx.ob("record", "merge never installs a signed record", not ws, "%s:%d" % (mg.file, mg.line), "%d writes" % len(ws))
