"""C46 identify reports only authenticated peer information — guards (K1), origin (K5), ordering (K3), who-constructs (K4), small decision tables (K7)."""
import re

from .. import lib, mir
from .. import lib_proto as P
from ..mir import strip_generics

EXPLANATION = ("Handler::handle_incoming_info returns true only on the edge where remote_peer_id != info.public_key.to_peer_id() is false and "
               "stores remote_info only there; remote_peer_id is the swarm-authenticated peer given to handle_established_*; every "
               "handler::Event::Identified (identify and push) is built only in Handler::poll, on the true edge of handle_incoming_info "
               "applied to the very Info that is delivered, with no merge in between. Behaviour: Event::Received is built only in the "
               "Identified arm, after listen_addrs.retain(multiaddr_matches_peer_id(addr, &peer_id)) on the same Info with the "
               "connection's peer id; cached addresses are taken from the retained list; multiaddr_matches_peer_id is false only for a "
               "trailing /p2p component that differs. TryFrom<proto::Identify> for Info: listen addresses and the stored envelope come "
               "from the signed record only through from_signed_envelope(..).ok()? and "
               "(peer_record.peer_id() == identify_public_key.to_peer_id()).then_some(..) with identify_public_key the key placed in "
               "Info.public_key; otherwise from parse_listen_addrs with no envelope. PushInfo never carries a signed record.")
ASSUMPTIONS = ["SignedEnvelope / PeerRecord::from_signed_envelope verify the signature and signer (C21)",
               "PublicKey::to_peer_id is injective enough (hash collision resistance)",
               "the peer id given to handle_established_* was authenticated by the security upgrade (C05/C16/C18)",
               "relay addresses /p2p/R/p2p-circuit legitimately name another peer: only a trailing /p2p component is compared"]
ID = "libp2p_identify"

SELFTEST = [
    {"mutation": "handle_incoming_info: `==` instead of `!=`", "caught_by": "incoming/true only when the key derives the connection's peer id"},
    {"mutation": "Handler::poll push branch: `if self.handle_incoming_info(&info) || true`", "caught_by": "identified/ReceivedIdentifyPush: guarded by handle_incoming_info"},
    {"mutation": "Handler::poll push branch: merge after the check", "caught_by": "identified/ReceivedIdentifyPush: the merged Info is what is checked"},
    {"mutation": "behaviour: Event::Received pushed before listen_addrs.retain", "caught_by": "received/foreign /p2p addresses removed before the event"},
    {"mutation": "retain closure compares with the local peer id", "caught_by": "received/retain filters with the connection's peer id"},
    {"mutation": "multiaddr_matches_peer_id: `!=`", "caught_by": "matches/P2p => ids equal"},
    {"mutation": "TryFrom: `(.. == .. || true).then_some`", "caught_by": "record/signed addresses only behind the same-peer test"},
    {"mutation": "TryFrom: `.then_some` replaced by unconditional `Some(..)`", "caught_by": "record/signed addresses only behind the same-peer test"},
]


def evt(e, adt, variant):
    """Payload dicts of all `adt::variant{..}` aggregates inside expression e."""
    return [dict(x[4]) for x in mir.walk(e) if x[0] == "agg" and x[1] == "adt" and strip_generics(x[2]) == adt and x[3] == variant]


def check(ctx):
    _check(ctx, ctx.prog)


def _check(ctx, prog):
    HADT = r"^libp2p_identify::handler::Handler$"
    F_RPID = P.field_by_type(prog, ID, HADT, r"^libp2p_core::PeerId$")          # remote_peer_id
    F_RINFO = P.field_by_type(prog, ID, HADT, r"Option<protocol::Info>$")         # remote_info
    # ================================================================= handle_incoming_info(self, info = $2)
    # the check is the crate-local method whose bool result Handler::poll branches on
    hp0 = ctx.body(ID, r"<handler::Handler as libp2p_swarm::ConnectionHandler>::poll$")
    chk0 = {}
    for s_, cb_ in P.crate_callees(prog, hp0):
        if cb_.names.get(1) == "self" and P.truth_edges(hp0, P.is_call_at(s_), True):
            chk0[cb_.npath] = cb_
    if len(chk0) != 1:
        raise mir.RuleError("Handler::poll: the key check was not identified (bool-returning helpers branched on: %s)" % sorted(chk0))
    hi = ctx.use(next(iter(chk0.values())))
    H = P.Norm(hi)
    SIDES = {"self." + F_RPID, "libp2p_identity::PublicKey::to_peer_id($2.public_key)"}

    def same(op, a, b):
        return op == "Eq" and {H.r(a), H.r(b)} == SIDES

    def other(op, a, b):
        return op == "Ne" and {H.r(a), H.r(b)} == SIDES
    e_same, e_other = P.rel_edges(hi, same), P.rel_edges(hi, other)
    rd = P.ret_exprs(hi)
    trues = [(s, e) for s, e in rd if P.const_val(e) == 1]
    falses = [(s, e) for s, e in rd if P.const_val(e) == 0]
    ctx.ob("incoming", "result is a literal bool", len(trues) + len(falses) == len(rd) and len(trues) >= 1 and len(falses) >= 1, "%s:%d" % (hi.file, hi.line), str([H.r(e) for _, e in rd]))
    for s, _ in trues:
        ok = P.must_pass(hi, s.bb, e_same)
        ctx.ob("incoming", "true only when the key derives the connection's peer id", ok, s.loc(), "`true` is returned only on the remote_peer_id == info.public_key.to_peer_id() edge" if ok else "`true` reachable without remote_peer_id == info.public_key.to_peer_id()")
    ctx.ob("incoming", "floor:mismatch edge", len(e_other) >= 1, nontrivial=False, msg=str(sorted(e_other)))
    if e_other:
        tg = P.targets(e_other)
        got = lib.count_range(hi, tg, hi.return_blocks(), lib.bbs([s for s, _ in falses]))
        region = hi.reachable(tg)
        eff = P.effect_calls(hi, region)
        wr = [s for s in hi.field_write_sites(F_RINFO) if s.bb in region]
        ctx.ob("incoming", "a foreign key is rejected without any effect", got == (1, 1) and not eff and not wr, "%s:%d" % (hi.file, hi.line),
               "on the mismatch edge: `false` results %s, non-logging calls %s" % (got, [strip_generics(hi.call_name(s.term)) for s in eff]))
    rep = [s for s in hi.call_sites(r"Option::(replace|insert|get_or_insert)$") if H.r(hi.site_expr(s)[2][0]) == "self." + F_RINFO] + [s for s in hi.field_write_sites(F_RINFO) if s.si is not None]
    ctx.floor("incoming", "remote_info store", rep, 1)
    for s in rep:
        ok = P.must_pass(hi, s.bb, e_same)
        ctx.ob("incoming", "remote_info stored only for an authenticated key", ok, s.loc(), "the store is reachable only on the same-peer edge" if ok else "remote_info can be stored for a key that does not derive the connection's peer id")
        txt = H.site(s)
        ctx.ob("incoming", "the stored info is the checked info", "clone($2)" in txt, s.loc(), txt[:160])
    wr = {}
    for b in prog.bodies(ID):
        if b.kind not in ("method", "fn", "closure", "coroutine"):
            continue
        for s in lib.field_mut_calls(b, F_RINFO) + b.field_write_sites(F_RINFO):
            wr.setdefault(b.npath, []).append(s)
    ctx.ob("incoming", "remote_info mutated only by handle_incoming_info", set(wr) == {hi.npath}, msg=str(sorted(wr)))
    wp = {}
    for b in prog.bodies(ID):
        for s in lib.field_mut_calls(b, F_RPID) + b.field_write_sites(F_RPID):
            wp.setdefault(b.npath, []).append(s)
    ctx.ob("incoming", "remote_peer_id never reassigned", not wp, msg=str(sorted(wp)))
    hei = ctx.body(ID, r"<behaviour::Behaviour as libp2p_swarm::NetworkBehaviour>::handle_established_inbound_connection$")
    ctors = {cb_.npath: cb_ for _, cb_ in P.crate_callees(prog, hei) if [x for _, e in P.ret_exprs(cb_) for x in mir.walk(e) if x[0] == "agg" and x[1] == "adt" and strip_generics(x[2]) == "libp2p_identify::handler::Handler"]}
    if len(ctors) != 1:
        raise mir.RuleError("handler constructor not identified: %s" % sorted(ctors))
    hn = ctx.use(next(iter(ctors.values())))
    ag = [x for _, e in P.ret_exprs(hn) for x in mir.walk(e) if x[0] == "agg" and x[1] == "adt" and strip_generics(x[2]) == "libp2p_identify::handler::Handler"]
    ok = False
    idx = None
    if len(ag) == 1:
        v = dict(ag[0][4]).get(F_RPID)
        ok = v is not None and v[0] == "arg"
        idx = v[1] if ok else None
    ctx.ob("incoming", "Handler.remote_peer_id is a constructor argument", ok, "%s:%d" % (hn.file, hn.line), "argument #%s" % idx)
    callers = prog.callers(ID, "^" + re.escape(hn.npath) + "$")
    ctx.floor("incoming", "Handler::new call sites", callers, 2)
    for s in callers:
        fn = s.body.short.split("::")[-1]
        a = s.body.site_expr(s)[2][idx - 1] if idx else ("unknown", "?")
        # NetworkBehaviour::handle_established_{in,out}bound_connection(self, connection_id, peer, ..): the peer is parameter #3
        ctx.ob("incoming", "%s: handler bound to the connection's authenticated peer" % fn, fn.startswith("handle_established_") and a[0] == "arg" and a[1] == 3, s.loc(),
               "Handler::new(.., %s, ..) in %s" % (P.nr(s.body, a), fn))

    # ================================================================= Handler::poll: Identified only after the check
    hp = ctx.body(ID, r"<handler::Handler as libp2p_swarm::ConnectionHandler>::poll$")
    HP = P.Norm(hp, ids=True)
    sites = []
    for s, e in P.ret_exprs(hp):
        for f in evt(e, "libp2p_identify::handler::Event", "Identified"):
            sites.append((s, f["0"]))
    ctx.floor("identified", "Event::Identified results in Handler::poll", sites, 2)
    chk = hp.call_sites("^" + re.escape(hi.npath) + "$")
    ctx.floor("identified", "handle_incoming_info calls", chk, 2)
    merges = hp.call_sites(r"protocol::Info::merge$")
    ctx.floor("identified", "Info::merge call", merges, 1)
    seen_arms = set()
    for s, payload in sites:
        pr = HP.r(payload)
        arm = "ReceivedIdentifyPush" if payload[0] == "local" else ("ReceivedIdentify" if "@ReceivedIdentify" in pr else "?")
        seen_arms.add(arm)
        mine = [c for c in chk if HP.r(hp.site_expr(c)[2][1]) == pr]
        ok = len(mine) == 1
        if ok:
            te = P.truth_edges(hp, P.is_call_at(mine[0]), True)
            ok = P.must_pass(hp, s.bb, te)
        ctx.ob("identified", "%s: guarded by handle_incoming_info" % arm, ok, s.loc(),
               "Identified(info) is reachable only through the true edge of handle_incoming_info(&info) on the same Info" if ok else
               "Identified(info) reachable without a successful handle_incoming_info on the same Info")
        if mine:
            tt = P.targets(P.truth_edges(hp, P.is_call_at(mine[0]), True))
            between = hp.reachable(tt, stop_nodes=[s.bb]) if tt else set()
            mut = [m for m in merges if m.bb in between]
            ctx.ob("identified", "%s: Info not modified between check and delivery" % arm, not mut, s.loc(), "Info::merge calls after the check: %d" % len(mut))
            if payload[0] == "local":
                ctx.ob("identified", "%s: the merged Info is what is checked" % arm, all(HP.r(hp.site_expr(m)[2][0]) == pr for m in merges) and
                       all(hp.dominates(m.bb, mine[0].bb) for m in merges), mine[0].loc(), "merge(info, push) dominates the check of the same local")
    ctx.ob("identified", "floor:both identify and push deliveries found", seen_arms == {"ReceivedIdentify", "ReceivedIdentifyPush"}, nontrivial=False, msg=str(sorted(seen_arms)))
    who = set()
    for b in prog.bodies(ID):
        if b.agg_sites(r"^libp2p_identify::handler::Event$", "Identified"):
            who.add(b.npath)
    ctx.ob("identified", "handler::Event::Identified constructed only in Handler::poll", who == {hp.npath}, msg=str(sorted(who)))

    # ================================================================= Behaviour::on_connection_handler_event(self, peer_id = $2, connection_id = $3, event = $4)
    bh = ctx.body(ID, r"<behaviour::Behaviour as libp2p_swarm::NetworkBehaviour>::on_connection_handler_event$")
    B = P.Norm(bh, ids=True)
    QUEUE = "self." + P.field_by_type(prog, ID, r"^libp2p_identify::behaviour::Behaviour$", r"VecDeque<libp2p_swarm::ToSwarm<")
    ents = P.targets(P.variant_edges(bh, lambda e: e[0] == "arg" and e[1] == 4, {"Identified"}))
    ctx.ob("received", "floor:Identified arm", len(ents) == 1, nontrivial=False, msg=str(ents))
    recv = [s for s in bh.call_sites(r"VecDeque::push_back$") if B.r(bh.site_expr(s)[2][0]) == QUEUE and evt(bh.site_expr(s)[2][1], "libp2p_identify::behaviour::Event", "Received")]
    ctx.floor("received", "Event::Received push", recv, 1, exact=True)
    # the Identified payload is bound to a (mutable) local
    infos = [l for l in bh.names if B.r(bh.init_expr(l)) == "$4@Identified"]
    ret = [s for s in bh.call_sites(r"Vec::retain$") if (lambda a: a[0] == "field" and a[2] == "listen_addrs" and a[1][0] == "local" and a[1][1] in infos)(bh.site_expr(s)[2][0])]
    ctx.floor("received", "info.listen_addrs.retain", ret, 1, exact=True)
    whoR = set()
    for b in prog.bodies(ID):
        for s in b.stmt_sites(lambda st: st["k"] == "assign" and st["r"]["k"] == "agg" and st["r"]["ak"] == "adt" and
                              strip_generics(st["r"]["adt"]) == "libp2p_identify::behaviour::Event" and st["r"]["variant"] == "Received"):
            whoR.add(b.npath)
    ctx.ob("received", "Event::Received constructed only in the Identified arm", whoR == {bh.npath}, msg=str(sorted(whoR)))
    MATCHES = None
    if ents and recv and ret:
        ent = ents[0]
        got = lib.count_range(bh, [ent], [recv[0].bb], lib.bbs(ret))
        ctx.ob("received", "foreign /p2p addresses removed before the event", got == (1, 1) and recv[0].bb in bh.reachable([ent]), recv[0].loc(),
               "retain calls on every path from the arm entry to the Received push: %s (expected (1, 1))" % (got,))
        il = bh.site_expr(ret[0])[2][0][1][1]
        f = evt(bh.site_expr(recv[0])[2][1], "libp2p_identify::behaviour::Event", "Received")[0]
        vals = {k: B.r(v) for k, v in f.items()}
        ctx.ob("received", "the reported Info is the filtered Info of this connection's peer", vals.get("peer_id") == "$2" and vals.get("connection_id") == "$3" and vals.get("info") in ("clone(%%%d)" % il, "%%%d" % il), recv[0].loc(), str(vals))
        cb, ups = P.upvar_sources(prog, bh, bh.site_expr(ret[0]))
        txt = ""
        ok = False
        if cb is not None:
            ctx.use(cb)
            r0 = P.ret_exprs(cb)
            txt = P.Norm(cb).r(r0[0][1]) if len(r0) == 1 else str(len(r0))
            fcal = P.crate_callees(prog, cb)
            ok = len(r0) == 1 and len(fcal) == 1 and r0[0][1][0] == "call" and r0[0][1][3] == fcal[0][0].bb and txt.endswith("($2, ^0)") and len(ups) == 1 and ups[0][0] == "arg" and ups[0][1] == 2
            MATCHES = fcal[0][1] if ok else None
        ctx.ob("received", "retain filters with the connection's peer id", ok, ret[0].loc(), txt)
        adds = bh.call_sites(r"PeerAddresses::add$")
        ctx.floor("received", "discovered_peers.add", adds, 1)
        for s in adds:
            a = bh.site_expr(s)[2]
            it = [x for x in bh.call_sites(r"IntoIterator>::into_iter$|::iter$") if B.r(bh.site_expr(x)[2][0]) == "%%%d.listen_addrs" % il]
            elem_ok = any(y[0] == "call" and strip_generics(y[1]).endswith("Iterator>::next") for y in mir.walk(a[2]))
            ctx.ob("received", "cached addresses are taken from the filtered list, for this peer", B.r(a[1]) == "$2" and elem_ok and len(it) == 1 and
                   bh.must_pass_nodes([ent], [it[0].bb], lib.bbs(ret)), s.loc(), str([B.r(x)[-70:] for x in a[1:]]))
    # ================================================================= multiaddr_matches_peer_id(addr = $1, peer_id = $2)
    if MATCHES is None:
        raise mir.RuleError("the address filter predicate used by retain was not identified")
    mm = ctx.use(MATCHES)
    M = P.Norm(mm)
    rd = P.ret_exprs(mm)
    LAST = "std::iter::Iterator::last(libp2p_core::Multiaddr::iter($1))"
    n_eq = 0
    for s, e in rd:
        if P.const_val(e) == 1:
            continue
        n_eq += 1
        ctx.ob("matches", "P2p => ids equal", M.r(e) == "Eq($2, %s@+@P2p)" % LAST, s.loc(), M.r(e))
    ctx.ob("matches", "floor:comparison result", n_eq == 1, nontrivial=False, msg="%d non-constant results" % n_eq)
    p2p = P.variant_edges(mm, lambda e: M.r(e) == LAST + "@+", {"P2p"})
    ctx.ob("matches", "floor:P2p edge", len(p2p) == 1, nontrivial=False, msg=str(sorted(p2p)))
    for _, t in p2p:
        consts = [s.bb for s, e in rd if P.const_val(e) is not None]
        got = lib.count_range(mm, [t], mm.return_blocks(), consts)
        ctx.ob("matches", "a trailing /p2p component is always compared", got == (0, 0), "%s:%d" % (mm.file, mm.line), "constant results on the P2p edge: %s (expected (0, 0))" % (got,))

    # ================================================================= TryFrom<proto::Identify> for Info  (msg = $1)
    tf = ctx.body(ID, r"^libp2p_identify::<protocol::Info as std::convert::TryFrom>::try_from$")
    T = P.Norm(tf, ids=True)
    infos = []
    for s, e in P.ret_exprs(tf):
        for x in mir.walk(e):
            if x[0] == "agg" and x[1] == "adt" and strip_generics(x[2]) == "libp2p_identify::protocol::Info":
                infos.append((s, dict(x[4])))
    ctx.floor("record", "Info construction in try_from", infos, 1)
    for s, f in infos:
        la, se, pk = f["listen_addrs"], f["signed_peer_record"], f["public_key"]
        ok = la[0] == "field" and se[0] == "field" and la[2] == "0" and se[2] == "1" and T.r(la[1]) == T.r(se[1])
        src = la[1] if ok else None
        ctx.ob("record", "listen_addrs and signed_peer_record come from one decision", ok, s.loc(), T.r(la)[:120])
        if src is None:
            continue
        ok = P.call_is(src, r"Option::unwrap_or_else$") and P.call_is(src[2][0], r"Option::and_then$") and T.r(src[2][0][2][0]) == "$1.signed_peer_record"
        ctx.ob("record", "decision = msg.signed_peer_record.and_then(validate).unwrap_or_else(fallback)", ok, s.loc(), T.r(src)[:160])
        if not ok:
            continue
        val_e, fb_e = src[2][0][2][1], src[2][1]
        ctx.ob("record", "validation is given the key that becomes Info.public_key", val_e[0] == "closure" and len(val_e[2]) == 1 and T.r(val_e[2][0]) == T.r(pk) and pk[0] == "local", s.loc(),
               "captured %s, Info.public_key %s" % (T.r(val_e[2][0]) if val_e[0] == "closure" else "?", T.r(pk)))
        val = prog.closure_body(tf, val_e[1])
        fb = prog.closure_body(tf, fb_e[1])
        ctx.use(val)
        ctx.use(fb)
        # the validation may be delegated to a private helper: follow one level, mapping the captured key to the helper's parameter
        KEYTXT = "^0"
        vrs = P.ret_exprs(val)
        vcal = P.crate_callees(prog, val)
        if len(vrs) == 1 and len(vcal) == 1 and vrs[0][1][0] == "call" and vrs[0][1][3] == vcal[0][0].bb:
            kidx = [i for i, a_ in enumerate(vrs[0][1][2]) if P.Norm(val).r(a_) == "^0"]
            ctx.ob("record", "the delegated validation receives the key that becomes Info.public_key", len(kidx) == 1, vcal[0][0].loc(), P.Norm(val).r(vrs[0][1])[:160])
            if len(kidx) == 1:
                val = vcal[0][1]
                ctx.use(val)
                KEYTXT = "$%d" % (kidx[0] + 1)
        V = P.Norm(val)
        r = [P.Norm(fb).r(e) for _, e in P.ret_exprs(fb)]
        ok_fb = r == ["tuple{0: libp2p_identify::protocol::parse_listen_addrs(^0), 1: std::option::Option::None{}}"] and fb_e[0] == "closure" and [T.r(u) for u in fb_e[2]] == ["$1.listen_addrs"]
        ctx.ob("record", "fallback = (parse_listen_addrs(msg.listen_addrs), None)", ok_fb, "%s:%d" % (fb.file, fb.line), str(r))
        n_pos = 0
        KEYID = "libp2p_identity::PublicKey::to_peer_id(%s)" % KEYTXT

        def same_rec(c):
            """record expression R if c is the canonical fact PeerRecord::peer_id(R) == to_peer_id(captured key)."""
            if c is None or c[0] != "Eq":
                return None
            for a, b in ((c[1], c[2]), (c[2], c[1])):
                if P.call_is(a, r"^libp2p_core::PeerRecord::peer_id$") and V.r(b) == KEYID:
                    return a[2][0]
            return None
        for vs, ve in P.ret_exprs(val):
            if P.call_is(ve, r"FromResidual>::from_residual$") or (ve[0] == "agg" and ve[3] == "None"):
                continue
            n_pos += 1
            rec = payload = None
            how = ""
            if P.call_is(ve, r"bool::then_some$"):
                rec, payload, how = same_rec(P.cmpnf(ve[2][0])), ve[2][1], "then_some"
            elif ve[0] == "agg" and ve[3] == "Some":
                payload = dict(ve[4])["0"]
                cands = []
                for bi in val.live:
                    info = val.switch_info(bi)
                    c = P.cmpnf(info[0]) if info else None
                    if c is not None and c[0] in ("Eq", "Ne") and same_rec(("Eq", c[1], c[2])) is not None:
                        cands.append(same_rec(("Eq", c[1], c[2])))
                edges = P.rel_edges(val, lambda op, a, b: same_rec((op, a, b)) is not None)
                if cands and P.must_pass(val, vs.bb, edges):
                    rec, how = cands[0], "if-guard"
            ok = rec is not None
            ctx.ob("record", "signed addresses only behind the same-peer test", ok, vs.loc(),
                   ("Some(..) only if peer_record.peer_id() == identify_public_key.to_peer_id() (%s)" % how) if ok else
                   "a Some(..) result of the validation closure is not conditioned on peer_record.peer_id() == identify_public_key.to_peer_id(): %s" % V.r(ve)[:160])
            if rec is not None:
                rr = V.r(rec)
                ctx.ob("record", "the record is a verified one (from_signed_envelope(..) succeeded)", re.match(r"^(std::result::Result::ok\()?libp2p_core::PeerRecord::from_signed_envelope(_interop)?\(.*\)@\+$", rr) is not None, vs.loc(), rr[:140])
                if payload is not None and payload[0] == "agg":
                    pf = dict(payload[4])
                    a0, a1 = V.r(pf.get("0", ("unknown", "?"))), V.r(pf.get("1", ("unknown", "?")))
                    ctx.ob("record", "the reported addresses and envelope are those of the tested record",
                           a0 == "std::slice::to_vec(libp2p_core::PeerRecord::addresses(%s))" % rr and a1 == "std::option::Option::Some{0: libp2p_core::PeerRecord::into_signed_envelope(%s)}" % rr, vs.loc(), a0[:80])
                else:
                    ctx.ob("record", "the reported addresses and envelope are those of the tested record", False, vs.loc(), "payload shape not recognised")
        ctx.ob("record", "floor:accepting result of the validation closure", n_pos >= 1, nontrivial=False, msg="%d" % n_pos)
        fse = val.call_sites(r"PeerRecord::from_signed_envelope(_interop)?$")
        ctx.floor("record", "from_signed_envelope call", fse, 1)
    users = {}
    for b in prog.bodies(ID):
        if b.call_sites(r"PeerRecord::(addresses|from_signed_envelope|from_signed_envelope_interop)$"):
            users[b.npath] = b
    def allowed_user(b):
        if b.npath.startswith(tf.npath):
            return True
        root = b
        while root.kind in ("closure", "coroutine") and root.parent:
            ps = [x for x in prog.bodies(ID) if x.path == root.parent]
            if not ps:
                break
            root = ps[0]
        return root.vis not in ("pub",) and P.private_callers_ok(prog, root, [tf.npath])
    ctx.ob("record", "signed records are consumed only inside Info::try_from (or a private helper only it calls)", len(users) >= 1 and all(allowed_user(b) for b in users.values()), msg=str(sorted(users)))
    pi = ctx.body(ID, r"^libp2p_identify::<protocol::PushInfo as std::convert::TryFrom>::try_from$")
    PI = P.Norm(pi)
    pf = [dict(x[4]) for _, e in P.ret_exprs(pi) for x in mir.walk(e) if x[0] == "agg" and x[1] == "adt" and strip_generics(x[2]) == "libp2p_identify::protocol::PushInfo"]
    txt = " ".join(PI.r(e) for _, e in P.ret_exprs(pi))
    ctx.ob("record", "push messages never use signed_peer_record", "signed_peer_record" not in txt and len(pf) == 1 and PI.r(pf[0].get("listen_addrs", ("unknown", "?"))) == "libp2p_identify::protocol::parse_listen_addrs($1.listen_addrs)", "%s:%d" % (pi.file, pi.line), txt[:120])
    adt = prog.adt(ID, r"^libp2p_identify::protocol::PushInfo$")
    tys = [f["ty"] for v in adt.get("variants", []) for f in v.get("fields", [])]
    ctx.ob("record", "PushInfo has no signed-record field", tys and not any("SignedEnvelope" in t or "PeerRecord" in t for t in tys), msg=str(tys)[:200])
    mg = ctx.body(ID, r"^libp2p_identify::protocol::Info::merge$")
    ws = [s for s in mg.field_write_sites("signed_peer_record")]
    ctx.ob("record", "merge never installs a signed record", not ws, "%s:%d" % (mg.file, mg.line), "%d writes" % len(ws))
