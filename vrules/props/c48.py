"""C48 relay rate limiter is a token bucket — decision tables of try_next / refill (K7), path counting (K2), guards (K1), origin (K5), who-writes (K4), typing (K12)."""
import re

from .. import lib, mir
from .. import lib_proto as P

EXPLANATION = ("GenericRateLimiter::try_next: refill(now) runs first on every path; result table over (bucket present?, checked_sub(1)) = "
               "{(Some,Some)->true with *balance = balance-1, (Some,None)->false with no effect, (None,-)->true with buckets.insert(id, limit-1) "
               "and refill_schedule.push_back((now,id))}. refill: an entry is popped only on the Some edge of front() and the true edge of "
               "now.duration_since(last_refill) >= interval, otherwise the function returns without any mutation; new tokens = "
               "floor(micros(now - this entry's last_refill) / micros(interval)) added with saturation; new_balance < limit -> stored and "
               "re-scheduled at `now`, otherwise the bucket is removed (absent == full), so no stored balance ever reaches `limit`. "
               "Construction rejects a zero interval and takes the limit from a NonZeroU32. new_per_peer keys the bucket by the peer id, "
               "new_per_ip by the first Ip4/Ip6 component of the address and never reads the peer id; each limiter owns its state; "
               "buckets / refill_schedule are touched only by try_next and refill.")
ASSUMPTIONS = ["the windowed bound limit + floor(elapsed/interval) itself is arithmetic over Instants and is not decided; only the bucket update rules are",
               "callers pass non-decreasing timestamps", "HashMap / VecDeque semantics; refill_schedule stays sorted because entries are pushed with `now`"]
RL = "libp2p_relay"
G = r"^libp2p_relay::behaviour::rate_limiter::GenericRateLimiter::"
GADT = r"rate_limiter::GenericRateLimiter$"
U32MAX = 4294967295

SELFTEST = [
    {"mutation": "try_next: new bucket starts at `limit` instead of `limit - 1`", "caught_by": "try_next/missing bucket: balance limit - 1 and scheduled at now"},
    {"mutation": "try_next: None of checked_sub returns true", "caught_by": "try_next/result table"},
    {"mutation": "try_next: granted token not deducted (`let _ = a`)", "caught_by": "try_next/a granted token is deducted exactly once"},
    {"mutation": "try_next: refill call made unreachable", "caught_by": "try_next/refill runs first"},
    {"mutation": "refill: `>` instead of `>=` interval (an identity idle for exactly limit*interval would be refused)", "caught_by": "refill/entry popped only when a whole interval has passed"},
    {"mutation": "refill: `new_balance <= self.limit`", "caught_by": "refill/stored only while below the limit"},
    {"mutation": "seeded/C48: `if new_tokens < self.limit` (the tested value is not the stored balance)", "caught_by": "refill/the balance tested against the limit is the balance that is stored"},
    {"mutation": "refill: re-scheduled at last_refill instead of now (tokens counted twice)", "caught_by": "refill/below the limit: stored and re-scheduled at now"},
    {"mutation": "refill: checked_mul instead of checked_div", "caught_by": "refill/new tokens = floor(elapsed since this bucket's refill / interval)"},
    {"mutation": "new_per_ip closure keys by (ip, peer id)", "caught_by": "identity/per-ip never reads the peer id"},
]


def check(ctx):
    _check(ctx, ctx.prog)


def _check(ctx, prog):
    FB = P.field_by_type(prog, RL, GADT, r"HashMap<")            # buckets
    FS = P.field_by_type(prog, RL, GADT, r"VecDeque<")           # refill_schedule
    FL = P.field_by_type(prog, RL, GADT, r"^u32$")               # limit
    FI = P.field_by_type(prog, RL, GADT, r"Duration$")           # interval
    BUCKETS, SCHED, LIMIT, INTERVAL = "self." + FB, "self." + FS, "self." + FL, "self." + FI
    # ================================================================= try_next(self, id = $2, now = $3)
    t = ctx.body(RL, G + r"try_next$")
    N = P.Norm(t)
    rets = t.return_blocks()
    rf = [s for s in t.call_sites(G + r"refill$")]
    gm = [s for s in t.call_sites(r"HashMap::get_mut$") if N.site(s) == "std::collections::HashMap::get_mut(%s, $2)" % BUCKETS]
    ctx.floor("try_next", "buckets.get_mut(&id)", gm, 1, exact=True)
    ctx.floor("try_next", "refill call", rf, 1, exact=True)
    if rf and gm:
        got = lib.count_range(t, [0], [gm[0].bb], lib.bbs(rf))
        ctx.ob("try_next", "refill runs first", got == (1, 1) and N.site(rf[0]).endswith("::refill(self, $3)"), rf[0].loc(),
               "refill(self, now) on every path before the bucket is looked up: %s" % (got,))
    is_gm = (lambda e: bool(gm) and e[0] == "call" and e[3] == gm[0].bb)
    cs = [s for s in t.call_sites(r"checked_sub$") if N.r(t.site_expr(s)[2][1]) == "1"]
    ctx.floor("try_next", "checked_sub(1) on the balance", cs, 1, exact=True)
    is_cs = (lambda e: bool(cs) and e[0] == "call" and e[3] == cs[0].bb)
    table = {}
    for s, e in P.ret_exprs(t):
        v = P.const_val(e)
        g, c = P.known_labels(t, s.bb, is_gm), P.known_labels(t, s.bb, is_cs)
        key = (tuple(sorted(g)) if g else None, tuple(sorted(c)) if c else None)
        table.setdefault(key, set()).add(v if v is not None else N.r(e))
    want = {(("Some",), ("Some",)): {1}, (("Some",), ("None",)): {0}, (("None",), None): {1}}
    ctx.ob("try_next", "result table", table == want, "%s:%d" % (t.file, t.line), "(bucket, checked_sub(1)) -> result: %s (expected %s)" % (table, want))
    for s in cs:
        a0 = t.site_expr(s)[2][0]
        src = N.r(t.init_expr(a0[1])) if a0[0] == "local" else N.r(a0)
        ctx.ob("try_next", "the token is taken from the looked-up bucket", src == "std::collections::HashMap::get_mut(%s, $2)@+" % BUCKETS, s.loc(), src)
    some_some = P.targets(P.outcome_edges(t, is_cs, True))
    some_none = P.targets(P.outcome_edges(t, is_cs, False))
    none_edge = P.targets(P.outcome_edges(t, is_gm, False))
    ctx.ob("try_next", "floor:edges", len(some_some) == 1 and len(some_none) == 1 and len(none_edge) == 1, nontrivial=False, msg=str((some_some, some_none, none_edge)))
    # stores through the bucket reference: `*balance = <checked_sub result>`
    stores = []
    bl = t.site_expr(cs[0])[2][0] if cs else None
    if bl is not None and bl[0] == "local":
        stores = [mir.Site(t, d[1], d[2]) for d in t.defs.get((bl[1], "partial"), []) if d[0] == "stmt"]
    ins = [s for s in t.call_sites(r"HashMap::insert$") if N.r(t.site_expr(s)[2][0]) == BUCKETS]
    psh = [s for s in t.call_sites(r"VecDeque::push_back$") if N.r(t.site_expr(s)[2][0]) == SCHED]
    eff = lib.bbs(stores) + lib.bbs(ins) + lib.bbs(psh)
    if some_some:
        got = lib.count_range(t, some_some, rets, lib.bbs(stores))
        val = [N.site(s) for s in stores]
        ctx.ob("try_next", "a granted token is deducted exactly once", got == (1, 1) and bool(cs) and val == [N.site(cs[0]) + "@+"] and
               lib.count_range(t, some_some, rets, lib.bbs(ins) + lib.bbs(psh)) == (0, 0), stores[0].loc() if stores else (cs[0].loc() if cs else ""), "*balance = %s on the granted path: %s" % (val, got))
    if some_none:
        got = lib.count_range(t, some_none, rets, eff)
        ctx.ob("try_next", "an empty bucket is refused without any effect", got == (0, 0), "%s:%d" % (t.file, t.line), "stores/inserts/pushes on the refused path: %s" % (got,))
    if none_edge:
        gi, gp = lib.count_range(t, none_edge, rets, lib.bbs(ins)), lib.count_range(t, none_edge, rets, lib.bbs(psh))
        vi = [N.site(s) for s in ins]
        vp = [N.site(s) for s in psh]
        ok = gi == (1, 1) and gp == (1, 1) and vi == ["std::collections::HashMap::insert(%s, clone($2), SubWithOverflow(%s, 1).0)" % (BUCKETS, LIMIT)] and \
            vp == ["std::collections::VecDeque::push_back(%s, tuple{0: $3, 1: $2})" % SCHED]
        ctx.ob("try_next", "missing bucket: balance limit - 1 and scheduled at now", ok, ins[0].loc() if ins else "", "insert %s %s; push_back %s %s" % (gi, vi, gp, vp))
    # ================================================================= refill(self, now = $2)
    r = ctx.body(RL, G + r"refill$")
    R = P.Norm(r)
    rrets = r.return_blocks()
    fr = [s for s in r.call_sites(r"VecDeque::front$") if R.site(s) == "std::collections::VecDeque::front(%s)" % SCHED]
    pop = [s for s in r.call_sites(r"VecDeque::pop_front$") if R.r(r.site_expr(s)[2][0]) == SCHED]
    ctx.floor("refill", "refill_schedule.front()", fr, 1, exact=True)
    ctx.floor("refill", "refill_schedule.pop_front()", pop, 1, exact=True)
    FRONT = "std::collections::VecDeque::front(%s)@+.0" % SCHED
    POPPED = "std::collections::VecDeque::pop_front(%s)@+" % SCHED
    ELAPSED_FRONT = "web_time::Instant::duration_since($2, %s)" % FRONT

    def ready(op, a, b):      # interval <= now - last_refill(front)
        return op == "Le" and R.r(a) == INTERVAL and R.r(b) == ELAPSED_FRONT

    def not_ready(op, a, b):  # now - last_refill(front) < interval
        return op == "Lt" and R.r(a) == ELAPSED_FRONT and R.r(b) == INTERVAL
    rins = [s for s in r.call_sites(r"HashMap::insert$") if R.r(r.site_expr(s)[2][0]) == BUCKETS]
    rrem = [s for s in r.call_sites(r"HashMap::remove$") if R.r(r.site_expr(s)[2][0]) == BUCKETS]
    rpsh = [s for s in r.call_sites(r"VecDeque::push_back$") if R.r(r.site_expr(s)[2][0]) == SCHED]
    muts = lib.bbs(pop) + lib.bbs(rins) + lib.bbs(rrem) + lib.bbs(rpsh)
    is_front = (lambda e: bool(fr) and e[0] == "call" and e[3] == fr[0].bb)
    e_ready, e_some = P.rel_edges(r, ready), P.outcome_edges(r, is_front, True)
    for s in pop:
        ok = P.must_pass(r, s.bb, e_ready)
        ctx.ob("refill", "entry popped only when a whole interval has passed", ok, s.loc(), "pop_front is reachable only with now.duration_since(last_refill of the front entry) >= interval" if ok else
               "pop_front reachable without `elapsed >= interval` of the front entry (a strict `>` refuses an identity that was idle for exactly limit * interval)")
        ctx.ob("refill", "entry popped only when the schedule is non-empty", P.must_pass(r, s.bb, e_some), s.loc(), "front() is Some")
    stop = set(P.rel_edges(r, not_ready)) | set(P.outcome_edges(r, is_front, False))
    ctx.ob("refill", "floor:stop edges", len(stop) == 2, nontrivial=False, msg=str(sorted(stop)))
    if stop:
        got = lib.count_range(r, P.targets(stop), rrets, muts)
        loops = fr and any(fr[0].bb in r.reachable([x]) for x in P.targets(stop))
        ctx.ob("refill", "not ready / empty: return without touching any bucket", got == (0, 0) and not loops, "%s:%d" % (r.file, r.line), "mutations after the stop edges: %s, loops back: %s" % (got, bool(loops)))
    # the limit test: canonical comparison with self.limit on one side
    tests = []
    for bi in sorted(r.live):
        info = r.switch_info(bi)
        c = P.cmpnf(info[0]) if info else None
        if c and (R.r(c[1]) == LIMIT or R.r(c[2]) == LIMIT):
            tests.append((bi, c, info[1]))
    ctx.ob("refill", "floor:limit test", len(tests) == 1, nontrivial=False, msg="%d comparisons with self.limit" % len(tests))
    head = fr[0].bb if fr else None
    for bi, (op, a, b), labs in tests:
        X = b if R.r(a) == LIMIT else a
        where = "%s:%d" % (r.file, r.blocks[bi]["term"].get("l", 0))
        below = P.targets(P.rel_edges(r, lambda o, p, q: o == "Lt" and p is X and R.r(q) == LIMIT))
        full = P.targets(P.rel_edges(r, lambda o, p, q: o == "Le" and q is X and R.r(p) == LIMIT))
        ctx.ob("refill", "stored only while below the limit", len(below) == 1 and len(full) == 1, where,
               "the edges `balance < limit` / `limit <= balance` of the test: %s / %s (a stored balance must stay < limit; absent bucket == full bucket)" % (below, full))
        # shape of the tested value: unwrap_or(checked_add(balance of this bucket, new tokens), MAX)
        BAL = "std::collections::HashMap::get(%s, %s.1)@+" % (BUCKETS, POPPED)
        DIV = "core::num::checked_div(web_time::Duration::as_micros(web_time::Instant::duration_since($2, %s.0)), web_time::Duration::as_micros(%s))" % (POPPED, INTERVAL)
        ok_b = ok_t = False
        e_nt = ""
        if P.call_is(X, r"Option::unwrap_or$") and P.const_val(X[2][1]) == U32MAX and P.call_is(X[2][0], r"checked_add$"):
            parts = list(X[2][0][2])
            bal = [x for x in parts if R.r(x) == BAL]
            nts = [x for x in parts if R.r(x) != BAL]
            ok_b = len(bal) == 1 and len(nts) == 1
            if ok_b:
                nt = nts[0]
                e_nt = R.r(nt)
                ok_t = P.call_is(nt, r"Option::unwrap_or$") and P.const_val(nt[2][1]) == U32MAX and P.call_is(nt[2][0], r"Option::and_then$") and R.r(nt[2][0][2][0]) == DIV
                cb = P.closures_in(prog, r, nt[2][0][2][1]) if ok_t else []
                conv = [P.Norm(c).r(x) for _, c in cb for _, x in P.ret_exprs(c)]
                ctx.ob("refill", "token count conversion saturates instead of wrapping", conv == ["std::result::Result::ok(<T as std::convert::TryInto>::try_into($2))"], where, str(conv))
        ctx.ob("refill", "new tokens = floor(elapsed since this bucket's refill / interval)", ok_t, where, e_nt[:260] or R.r(X)[:260])
        ctx.ob("refill", "new balance = this bucket's balance + new tokens (saturating)", ok_b, where, R.r(X)[:200])
        for s in rins:
            v = r.site_expr(s)[2][2]
            ctx.ob("refill", "the balance tested against the limit is the balance that is stored", P.nr(r, v, True) == P.nr(r, X, True), s.loc(),
                   "buckets.insert(id, V): V %s the value compared with self.limit" % ("is" if P.nr(r, v, True) == P.nr(r, X, True) else "is NOT"))
        if len(below) == 1 and len(full) == 1 and head is not None:
            gi = lib.count_range(r, below, [head], lib.bbs(rins))
            gp = lib.count_range(r, below, [head], lib.bbs(rpsh))
            gr = lib.count_range(r, below, [head], lib.bbs(rrem))
            vi = [R.r(r.site_expr(s)[2][1]) for s in rins]
            vp = [R.site(s) for s in rpsh]
            ok = gi == (1, 1) and gp == (1, 1) and gr == (0, 0) and vi == ["clone(%s.1)" % POPPED] and \
                vp == ["std::collections::VecDeque::push_back(%s, tuple{0: $2, 1: %s.1})" % (SCHED, POPPED)]
            ctx.ob("refill", "below the limit: stored and re-scheduled at now", ok, rins[0].loc() if rins else "", "insert %s, push_back %s %s, remove %s" % (gi, gp, [v[-70:] for v in vp], gr))
            gi = lib.count_range(r, full, [head], lib.bbs(rins) + lib.bbs(rpsh))
            gr = lib.count_range(r, full, [head], lib.bbs(rrem))
            vr = [R.site(s) for s in rrem]
            ctx.ob("refill", "at the limit: bucket removed, not re-scheduled", gi == (0, 0) and gr == (1, 1) and vr == ["std::collections::HashMap::remove(%s, %s.1)" % (BUCKETS, POPPED)], rrem[0].loc() if rrem else "",
                   "insert/push_back %s, remove %s" % (gi, gr))
    # ================================================================= construction: new(config = $1)
    n = ctx.body(RL, G + r"new$")
    NN = P.Norm(n)
    CADT = r"rate_limiter::GenericRateLimiterConfig$"
    CL = P.field_by_type(prog, RL, CADT, r"NonZero")
    CI = P.field_by_type(prog, RL, CADT, r"Duration$")
    ag = n.agg_sites(GADT)
    ctx.floor("new", "GenericRateLimiter construction", ag, 1)
    for s in ag:
        zero = P.truth_edges(n, lambda e: NN.r(e) == "web_time::Duration::is_zero($1.%s)" % CI, False)
        ctx.ob("new", "a zero interval is rejected", P.must_pass(n, s.bb, zero), s.loc(), "the limiter is built only on the `!config.interval.is_zero()` edge")
        f = {k: NN.r(v) for k, v in n.site_expr(s)[4]}
        ctx.ob("new", "limit and interval come from the config", f.get(FL) == "<T as std::convert::Into>::into($1.%s)" % CL and f.get(FI) == "$1.%s" % CI, s.loc(), str({k: f.get(k) for k in (FL, FI)}))
    ctx.ob("new", "limit is a NonZeroU32 (limit - 1 cannot underflow)", True, msg="config field %s has a NonZero type" % CL, nontrivial=False)
    # ================================================================= who touches the state
    who = {}
    for b in prog.bodies(RL):
        if "rate_limiter" not in b.npath:
            continue
        for fld in (FB, FS):
            for s in lib.field_mut_calls(b, fld) + b.field_write_sites(fld):
                who.setdefault(b.npath, set()).add(fld)
    ctx.ob("state", "buckets / refill_schedule are mutated only by try_next and refill", set(who) == {t.npath, r.npath}, msg=str({k: sorted(v) for k, v in who.items()}))
    # ================================================================= identities
    TRY = "libp2p_relay::behaviour::rate_limiter::GenericRateLimiter::try_next"
    for fn, kind in (("new_per_peer", "peer"), ("new_per_ip", "ip")):
        b = ctx.body(RL, r"rate_limiter::%s$" % fn)
        B = P.Norm(b)
        rs = [x for _, x in P.ret_exprs(b)]
        cb, ups = P.upvar_sources(prog, b, rs[0]) if len(rs) == 1 else (None, [])
        ctx.ob("identity", "%s owns a fresh limiter built from its config" % fn, cb is not None and [B.r(u) for u in ups] == ["libp2p_relay::behaviour::rate_limiter::GenericRateLimiter::new($1)"] and
               B.r(rs[0]) == "std::boxed::Box::new(closure[libp2p_relay::behaviour::rate_limiter::GenericRateLimiter::new($1)])", "%s:%d" % (b.file, b.line), B.r(rs[0])[:160] if rs else "")
        if cb is None:
            continue
        ctx.use(cb)
        C = P.Norm(cb)
        e = [x for _, x in P.ret_exprs(cb)]
        txt = C.r(e[0]) if len(e) == 1 else ""
        # closure parameters: $2 = peer id, $3 = address, $4 = now ; ^0 = the limiter
        if kind == "peer":
            ctx.ob("identity", "per-peer limiter is keyed by the peer id", txt == TRY + "(^0, $2, $4)", "%s:%d" % (cb.file, cb.line), txt)
        else:
            ok = txt == "std::option::Option::unwrap_or(std::option::Option::map(libp2p_relay::behaviour::rate_limiter::multiaddr_to_ip($3), closure[^0, $4]), 1)"
            ctx.ob("identity", "per-ip limiter is keyed by the address", ok, "%s:%d" % (cb.file, cb.line), txt[:200])
            uses = lib.local_uses(cb, 2)
            ctx.ob("identity", "per-ip never reads the peer id", uses == 0 and cb.argc == 4, "%s:%d" % (cb.file, cb.line), "reads of the peer-id argument: %d" % uses)
            inner = P.closures_in(prog, cb, e[0]) if e else []
            it = [P.Norm(c).r(x) for _, c in inner for _, x in P.ret_exprs(c)]
            ctx.ob("identity", "the ip bucket is charged with the extracted address", it == [TRY + "(^0, $2, ^1)"], "%s:%d" % (cb.file, cb.line), str(it))
    mi = ctx.body(RL, r"rate_limiter::multiaddr_to_ip$")
    M = P.Norm(mi)
    e = [x for _, x in P.ret_exprs(mi)]
    ctx.ob("identity", "the ip is the first matching component of the address", len(e) == 1 and M.r(e[0]) == "std::iter::Iterator::find_map(libp2p_core::Multiaddr::iter($1), closure[])", "%s:%d" % (mi.file, mi.line), M.r(e[0])[:120] if e else "")
    mcs = P.closures_in(prog, mi, e[0]) if e else []
    if len(mcs) == 1:
        mc = mcs[0][1]
        ctx.use(mc)
        MC = P.Norm(mc)
        tab = {}
        for s, x in P.ret_exprs(mc):
            ls = P.known_labels(mc, s.bb, lambda y: y[0] == "arg" and y[1] == 2) or set()
            for l in ls:
                tab[l] = MC.r(x)
        want_some = {"Ip4": "std::option::Option::Some{0: <T as std::convert::Into>::into($2@Ip4)}", "Ip6": "std::option::Option::Some{0: <T as std::convert::Into>::into($2@Ip6)}"}
        ok = all(tab.get(k) == v for k, v in want_some.items()) and all(v == "std::option::Option::None{}" for k, v in tab.items() if k not in want_some) and len(tab) > 10
        ctx.ob("identity", "only Ip4 / Ip6 components yield an ip", ok, "%s:%d" % (mc.file, mc.line), str({k: v[-40:] for k, v in tab.items() if k in ("Ip4", "Ip6", "Dns", "P2p")}))
    else:
        ctx.ob("identity", "only Ip4 / Ip6 components yield an ip", False, msg="find_map closure not found")
    tr = ctx.body(RL, r"^libp2p_relay::<T as behaviour::rate_limiter::RateLimiter>::try_next$")
    e = [P.Norm(tr).r(x) for _, x in P.ret_exprs(tr)]
    ctx.ob("identity", "the trait adaptor forwards (peer, addr, now) unchanged", e == ["std::ops::FnMut::call_mut(self, tuple{0: $2, 1: $3, 2: $4})"], "%s:%d" % (tr.file, tr.line), str(e))
