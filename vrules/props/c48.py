"""C48 relay rate limiter is a token bucket — decision tables of try_next / refill (K7), path counting (K2), guards (K1), origin (K5), who-writes (K4), typing (K12)."""
import re

from .. import lib, mir
from ..mir import render, strip_generics

EXPLANATION = ("GenericRateLimiter::try_next: refill(now) runs first on every path; result table over (bucket present?, checked_sub(1)) = "
               "{(Some,Some)->true with *balance = balance-1, (Some,None)->false with no effect, (None,-)->true with buckets.insert(id, limit-1) "
               "and refill_schedule.push_back((now,id))}. refill: an entry is popped only on the Some edge of front() and the true edge of "
               "now.duration_since(last_refill) >= interval, otherwise the function returns without any mutation; new tokens = "
               "floor(micros(now - this entry's last_refill) / micros(interval)) added with saturation; new_balance < limit -> stored and "
               "re-scheduled at `now`, otherwise the bucket is removed (absent == full), so no stored balance ever reaches `limit`. "
               "Construction rejects a zero interval and takes the limit from a NonZeroU32. new_per_peer keys the bucket by the peer id, "
               "new_per_ip by the first Ip4/Ip6 component of the address and never reads the peer id; each limiter owns its state; "
               "buckets / refill_schedule are touched only by try_next and refill.")
ASSUMPTIONS = ["the windowed bound limit + floor(elapsed/interval) itself is arithmetic over Instants and is not decided; only the bucket update rules are",
               "callers pass non-decreasing timestamps", "HashMap / VecDeque semantics; refill_schedule stays sorted because entries are pushed with `now`"]
RL = "libp2p_relay"
G = r"^libp2p_relay::behaviour::rate_limiter::GenericRateLimiter::"
POPPED = "std::option::Option::expect(std::collections::VecDeque::pop_front(self.refill_schedule), 'Queue not to be empty.')"

SELFTEST = [
    {"mutation": "try_next: new bucket starts at `limit` instead of `limit - 1`", "caught_by": "try_next/missing bucket: balance limit - 1 and scheduled at now"},
    {"mutation": "try_next: None of checked_sub returns true", "caught_by": "try_next/result table"},
    {"mutation": "try_next: granted token not deducted (`let _ = a`)", "caught_by": "try_next/result table (+ floor:edges)"},
    {"mutation": "try_next: refill call made unreachable", "caught_by": "try_next/refill runs first"},
    {"mutation": "refill: `>` instead of `>=` interval (an identity idle for exactly limit*interval would be refused)", "caught_by": "refill/entry popped only when a whole interval has passed"},
    {"mutation": "refill: `new_balance <= self.limit`", "caught_by": "refill/stored only while below the limit"},
    {"mutation": "refill: re-scheduled at last_refill instead of now (tokens counted twice)", "caught_by": "refill/below the limit: stored and re-scheduled at now"},
    {"mutation": "refill: checked_mul instead of checked_div", "caught_by": "refill/new tokens = floor(elapsed since this bucket's refill / interval)"},
    {"mutation": "new_per_ip closure keys by (ip, peer id)", "caught_by": "identity/per-ip never reads the peer id"},
]


def ret_exprs(b):
    return [(mir.Site(b, d[1], d[2]), b.site_expr(mir.Site(b, d[1], d[2]))) for d in b.defs.get(0, [])]


def labels_at(b, bb, pat):
    """Labels known at bb for the switch whose rendered condition matches pat (None if not constrained)."""
    for text, labels, _, _ in b.guards_on_all_paths(bb):
        if re.search(pat, text):
            return set(labels)
    return None


def check(ctx):
    mir.RENDER_MAX[0] = 30
    try:
        _check(ctx, ctx.prog)
    finally:
        mir.RENDER_MAX[0] = 14


def _check(ctx, prog):
    # ================================================================= try_next
    t = ctx.body(RL, G + r"try_next$")
    rets = t.return_blocks()
    rf = t.call_sites(G + r"refill$")
    gm = [s for s in t.call_sites(r"HashMap::get_mut$") if render(t.site_expr(s)) == "std::collections::HashMap::get_mut(self.buckets, id)"]
    ctx.floor("try_next", "buckets.get_mut(&id)", gm, 1, exact=True)
    ctx.floor("try_next", "refill call", rf, 1, exact=True)
    if rf and gm:
        got = lib.count_range(t, [0], [gm[0].bb], lib.bbs(rf))
        ctx.ob("try_next", "refill runs first", got == (1, 1) and render(t.site_expr(rf[0])) == "libp2p_relay::behaviour::rate_limiter::GenericRateLimiter::refill(self, now)", rf[0].loc(),
               "refill(self, now) on every path before the bucket is looked up: %s" % (got,))
    GM = r"^discr\(std::collections::HashMap::get_mut\(self\.buckets, id\)\)$"
    CS = r"^discr\(core::num::checked_sub\(balance, 1\)\)$|^discr\(core::num::<impl u32>::checked_sub\(balance, 1\)\)$"
    table = {}
    res = ret_exprs(t)
    for s, e in res:
        if e[0] != "const":
            table[("?", render(e))] = None
            continue
        g, c = labels_at(t, s.bb, GM), labels_at(t, s.bb, CS)
        key = (tuple(sorted(g)) if g else None, tuple(sorted(c)) if c else None)
        table.setdefault(key, set()).add(e[1])
    want = {(("Some",), ("Some",)): {1}, (("Some",), ("None",)): {0}, (("None",), None): {1}}
    ctx.ob("try_next", "result table", table == want, "%s:%d" % (t.file, t.line), "(bucket, checked_sub(1)) -> result: %s (expected %s)" % (table, want))
    bl = [l for l, n in t.names.items() if n == "balance"]
    ctx.ob("try_next", "the token is taken from the looked-up bucket", len(bl) == 1 and render(t.init_expr(bl[0])) == "std::collections::HashMap::get_mut(self.buckets, id)@Some.0", msg=str([render(t.init_expr(x)) for x in bl]))
    some_some = [tg for bi in t.live if t.switch_info(bi) and re.search(CS, render(t.switch_info(bi)[0])) for tg, ls in t.switch_info(bi)[1].items() if ls == {"Some"}]
    some_none = [tg for bi in t.live if t.switch_info(bi) and re.search(CS, render(t.switch_info(bi)[0])) for tg, ls in t.switch_info(bi)[1].items() if ls == {"None"}]
    none_edge = [tg for bi in t.live if t.switch_info(bi) and re.search(GM, render(t.switch_info(bi)[0])) for tg, ls in t.switch_info(bi)[1].items() if ls == {"None"}]
    ctx.ob("try_next", "floor:edges", len(some_some) == 1 and len(some_none) == 1 and len(none_edge) == 1, nontrivial=False, msg=str((some_some, some_none, none_edge)))
    stores = [mir.Site(t, d[1], d[2]) for l in bl for d in t.defs.get((l, "partial"), []) if d[0] == "stmt"]
    ins = [s for s in t.call_sites(r"HashMap::insert$") if render(t.site_expr(s)[2][0]) == "self.buckets"]
    psh = [s for s in t.call_sites(r"VecDeque::push_back$") if render(t.site_expr(s)[2][0]) == "self.refill_schedule"]
    eff = lib.bbs(stores) + lib.bbs(ins) + lib.bbs(psh)
    if some_some:
        got = lib.count_range(t, some_some, rets, lib.bbs(stores))
        val = [render(t.site_expr(s)) for s in stores]
        ctx.ob("try_next", "a granted token is deducted exactly once", got == (1, 1) and all(re.match(r"^core::num::(<impl u32>::)?checked_sub\(balance, 1\)@Some\.0$", v) for v in val) and
               lib.count_range(t, some_some, rets, lib.bbs(ins) + lib.bbs(psh)) == (0, 0), stores[0].loc() if stores else "", "*balance = %s on the granted path: %s" % (val, got))
    if some_none:
        got = lib.count_range(t, some_none, rets, eff)
        ctx.ob("try_next", "an empty bucket is refused without any effect", got == (0, 0), "%s:%d" % (t.file, t.line), "stores/inserts/pushes on the refused path: %s" % (got,))
    if none_edge:
        gi, gp = lib.count_range(t, none_edge, rets, lib.bbs(ins)), lib.count_range(t, none_edge, rets, lib.bbs(psh))
        vi = [render(t.site_expr(s)) for s in ins]
        vp = [render(t.site_expr(s)) for s in psh]
        ok = gi == (1, 1) and gp == (1, 1) and vi == ["std::collections::HashMap::insert(self.buckets, std::clone::Clone::clone(id), SubWithOverflow(self.limit, 1).0)"] and \
            vp == ["std::collections::VecDeque::push_back(self.refill_schedule, tuple{0: now, 1: id})"]
        ctx.ob("try_next", "missing bucket: balance limit - 1 and scheduled at now", ok, ins[0].loc() if ins else "", "insert %s %s; push_back %s %s" % (gi, vi, gp, vp))
    # ================================================================= refill
    r = ctx.body(RL, G + r"refill$")
    rrets = r.return_blocks()
    fr = [s for s in r.call_sites(r"VecDeque::front$") if render(r.site_expr(s)) == "std::collections::VecDeque::front(self.refill_schedule)"]
    pop = [s for s in r.call_sites(r"VecDeque::pop_front$") if render(r.site_expr(s)[2][0]) == "self.refill_schedule"]
    ctx.floor("refill", "refill_schedule.front()", fr, 1, exact=True)
    ctx.floor("refill", "refill_schedule.pop_front()", pop, 1, exact=True)
    READY = r"^std::cmp::PartialOrd::ge\(web_time::Instant::duration_since\(now, std::collections::VecDeque::front\(self\.refill_schedule\)@Some\.0\.0\), self\.interval\)$|" \
            r"^<web_time::Duration as std::cmp::PartialOrd>::ge\(web_time::Instant::duration_since\(now, std::collections::VecDeque::front\(self\.refill_schedule\)@Some\.0\.0\), self\.interval\)$"
    rins = [s for s in r.call_sites(r"HashMap::insert$") if render(r.site_expr(s)[2][0]) == "self.buckets"]
    rrem = [s for s in r.call_sites(r"HashMap::remove$") if render(r.site_expr(s)[2][0]) == "self.buckets"]
    rpsh = [s for s in r.call_sites(r"VecDeque::push_back$") if render(r.site_expr(s)[2][0]) == "self.refill_schedule"]
    muts = lib.bbs(pop) + lib.bbs(rins) + lib.bbs(rrem) + lib.bbs(rpsh)
    for s in pop:
        ok1 = ctx.guarded("refill", "entry popped only when a whole interval has passed", s, lambda c, rr, l: l == "true" and re.search(READY, rr) is not None,
                          "now.duration_since(last_refill) >= interval (of the front entry)")
        ctx.guarded("refill", "entry popped only when the schedule is non-empty", s, lambda c, rr, l: l == "Some" and rr == "discr(std::collections::VecDeque::front(self.refill_schedule))", "front() is Some")
    stop = r.guard_edges(lambda c, rr, l: (l == "false" and re.search(READY, rr) is not None) or (l == "None" and rr == "discr(std::collections::VecDeque::front(self.refill_schedule))"))
    ctx.ob("refill", "floor:stop edges", len(stop) == 2, nontrivial=False, msg=str(sorted(stop)))
    if stop:
        got = lib.count_range(r, [x for _, x in stop], rrets, muts)
        loops = fr and any(fr[0].bb in r.reachable([x]) for _, x in stop)
        ctx.ob("refill", "not ready / empty: return without touching any bucket", got == (0, 0) and not loops, "%s:%d" % (r.file, r.line), "mutations after the stop edges: %s, loops back: %s" % (got, bool(loops)))
    # arithmetic shape
    nt = [l for l, n in r.names.items() if n == "new_tokens"]
    nb = [l for l, n in r.names.items() if n == "new_balance"]
    e_nt = render(r.init_expr(nt[0])) if len(nt) == 1 else ""
    e_nb = render(r.init_expr(nb[0])) if len(nb) == 1 else ""
    DIV = "core::num::checked_div(web_time::Duration::as_micros(web_time::Instant::duration_since(now, %s.0)), web_time::Duration::as_micros(self.interval))" % POPPED
    DIV2 = DIV.replace("core::num::checked_div(", "core::num::<impl u128>::checked_div(")
    ok = re.match(r"^std::option::Option::unwrap_or\(std::option::Option::and_then\(", e_nt) is not None and (DIV in e_nt or DIV2 in e_nt) and e_nt.endswith(", const:core::num::<impl u32>::MAX)")
    ctx.ob("refill", "new tokens = floor(elapsed since this bucket's refill / interval)", ok, "%s:%d" % (r.file, r.line), e_nt[:300])
    cl = [c for c in prog.children(r) if c.kind == "closure"]
    txt = [render(x) for c in cl for _, x in ret_exprs(c)]
    ctx.ob("refill", "token count conversion saturates instead of wrapping", txt == ["std::result::Result::ok(<T as std::convert::TryInto>::try_into(i))"], msg=str(txt))
    BAL = "std::option::Option::expect(std::collections::HashMap::get(self.buckets, %s.1), 'Entry can only be removed via refill.')" % POPPED
    ok = re.match(r"^std::option::Option::unwrap_or\(core::num::(<impl u32>::)?checked_add\(%s, " % re.escape(BAL), e_nb) is not None and e_nb.endswith(", const:core::num::<impl u32>::MAX)") and e_nt in e_nb
    ctx.ob("refill", "new balance = this bucket's balance + new tokens (saturating)", ok, "%s:%d" % (r.file, r.line), e_nb[:200])
    # Lt(new_balance, limit)
    lt = [(bi, r.switch_info(bi)) for bi in sorted(r.live) if r.switch_info(bi) and r.switch_info(bi)[0][0] == "bin" and render(r.switch_info(bi)[0][3]) == "self.limit" and render(r.switch_info(bi)[0][2]) == e_nb]
    ctx.ob("refill", "floor:limit test", len(lt) == 1, nontrivial=False, msg="%d tests of new_balance against self.limit" % len(lt))
    head = fr[0].bb if fr else None
    for bi, (cond, labs) in lt:
        op = cond[1]
        below = [tg for tg, ls in labs.items() if (op, tuple(ls)) in (("Lt", ("true",)), ("Ge", ("false",)))]
        full = [tg for tg, ls in labs.items() if (op, tuple(ls)) in (("Lt", ("false",)), ("Ge", ("true",)))]
        ctx.ob("refill", "stored only while below the limit", len(below) == 1 and len(full) == 1, "%s:%d" % (r.file, r.blocks[bi]["term"].get("l", 0)),
               "relation %s(new_balance, limit): a stored balance must stay < limit (absent bucket == full bucket)" % op)
        if len(below) == 1 and len(full) == 1 and head is not None:
            gi = lib.count_range(r, below, [head], lib.bbs(rins))
            gp = lib.count_range(r, below, [head], lib.bbs(rpsh))
            gr = lib.count_range(r, below, [head], lib.bbs(rrem))
            vi = [render(r.site_expr(s)) for s in rins]
            vp = [render(r.site_expr(s)) for s in rpsh]
            ok = gi == (1, 1) and gp == (1, 1) and gr == (0, 0) and len(vi) == 1 and vi[0] == "std::collections::HashMap::insert(self.buckets, std::clone::Clone::clone(%s.1), %s)" % (POPPED, e_nb) and \
                vp == ["std::collections::VecDeque::push_back(self.refill_schedule, tuple{0: now, 1: %s.1})" % POPPED]
            ctx.ob("refill", "below the limit: stored and re-scheduled at now", ok, rins[0].loc() if rins else "", "insert %s, push_back %s %s, remove %s" % (gi, gp, [v[-70:] for v in vp], gr))
            gi = lib.count_range(r, full, [head], lib.bbs(rins) + lib.bbs(rpsh))
            gr = lib.count_range(r, full, [head], lib.bbs(rrem))
            vr = [render(r.site_expr(s)) for s in rrem]
            ctx.ob("refill", "at the limit: bucket removed, not re-scheduled", gi == (0, 0) and gr == (1, 1) and vr == ["std::collections::HashMap::remove(self.buckets, %s.1)" % POPPED], rrem[0].loc() if rrem else "",
                   "insert/push_back %s, remove %s" % (gi, gr))
    # ================================================================= construction
    n = ctx.body(RL, G + r"new$")
    ag = n.agg_sites(r"rate_limiter::GenericRateLimiter$")
    ctx.floor("new", "GenericRateLimiter construction", ag, 1)
    for s in ag:
        ctx.guarded("new", "a zero interval is rejected", s, lambda c, rr, l: l == "false" and rr == "web_time::Duration::is_zero(config.interval)", "!config.interval.is_zero()")
        f = {k: render(v) for k, v in n.site_expr(s)[4]}
        ctx.ob("new", "limit and interval come from the config", f.get("limit") == "<T as std::convert::Into>::into(config.limit)" and f.get("interval") == "config.interval", s.loc(), str({k: f.get(k) for k in ("limit", "interval")}))
    adt = prog.adt(RL, r"rate_limiter::GenericRateLimiterConfig$")
    tys = {f["n"]: f["ty"] for v in adt["variants"] for f in v["fields"]}
    ctx.ob("new", "limit is a NonZeroU32 (limit - 1 cannot underflow)", re.search(r"NonZero(U32|<u32>)", tys.get("limit", "")) is not None, msg=str(tys))
    # ================================================================= who touches the state
    who = {}
    for b in prog.bodies(RL):
        if "rate_limiter" not in b.npath:
            continue
        for fld in ("buckets", "refill_schedule"):
            for s in lib.field_mut_calls(b, fld) + b.field_write_sites(fld):
                who.setdefault(b.npath, set()).add(fld)
    ctx.ob("state", "buckets / refill_schedule are mutated only by try_next and refill", set(who) == {t.npath, r.npath}, msg=str({k: sorted(v) for k, v in who.items()}))
    # ================================================================= identities
    pp = ctx.body(RL, r"rate_limiter::new_per_peer::\{closure#0\}$")
    e = [x for _, x in ret_exprs(pp)]
    ok = len(e) == 1 and e[0][0] == "call" and strip_generics(e[0][1]).endswith("GenericRateLimiter::try_next") and render(e[0][2][0]) == "^limiter" and \
        e[0][2][1][0] == "arg" and e[0][2][1][1] == 2 and e[0][2][2][0] == "arg" and e[0][2][2][1] == 4
    ctx.ob("identity", "per-peer limiter is keyed by the peer id", ok, "%s:%d" % (pp.file, pp.line), str([render(x) for x in e]))
    pi = ctx.body(RL, r"rate_limiter::new_per_ip::\{closure#0\}$")
    e = [x for _, x in ret_exprs(pi)]
    txt = render(e[0]) if len(e) == 1 else ""
    ok = re.match(r"^std::option::Option::unwrap_or\(std::option::Option::map\(libp2p_relay::behaviour::rate_limiter::multiaddr_to_ip\(addr\), closure:[^\[]*\[\^limiter, now\]\), 1\)$", txt) is not None
    if ok:
        a = e[0][2][0][2][0][2][0]
        ok = a[0] == "arg" and a[1] == 3
    ctx.ob("identity", "per-ip limiter is keyed by the address", ok, "%s:%d" % (pi.file, pi.line), txt[:200])
    uses = lib.local_uses(pi, 2)
    ctx.ob("identity", "per-ip never reads the peer id", uses == 0 and pi.argc == 4, "%s:%d" % (pi.file, pi.line), "reads of the peer-id argument: %d" % uses)
    pii = ctx.body(RL, r"rate_limiter::new_per_ip::\{closure#0\}::\{closure#0\}$")
    e = [render(x) for _, x in ret_exprs(pii)]
    ctx.ob("identity", "the ip bucket is charged with the extracted address", e == ["libp2p_relay::behaviour::rate_limiter::GenericRateLimiter::try_next(^limiter, a, ^now)"], "%s:%d" % (pii.file, pii.line), str(e))
    for fn in ("new_per_peer", "new_per_ip"):
        b = ctx.body(RL, r"rate_limiter::%s$" % fn)
        e = [render(x) for _, x in ret_exprs(b)]
        ctx.ob("identity", "%s owns a fresh limiter built from its config" % fn, len(e) == 1 and re.match(r"^std::boxed::Box::new\(closure:[^\[]*\[libp2p_relay::behaviour::rate_limiter::GenericRateLimiter::new\(config\)\]\)$", e[0]) is not None,
               "%s:%d" % (b.file, b.line), e[0][:160] if e else "")
    mi = ctx.body(RL, r"rate_limiter::multiaddr_to_ip$")
    e = [render(x) for _, x in ret_exprs(mi)]
    ctx.ob("identity", "the ip is the first matching component of the address", len(e) == 1 and e[0].startswith("std::iter::Iterator::find_map(libp2p_core::Multiaddr::iter(addr), closure:"), "%s:%d" % (mi.file, mi.line), e[0][:120] if e else "")
    mc = ctx.body(RL, r"rate_limiter::multiaddr_to_ip::\{closure#0\}$")
    tab = {}
    for s, x in ret_exprs(mc):
        ls = labels_at(mc, s.bb, r"^discr\(p\)$") or set()
        for l in ls:
            tab[l] = render(x)
    want_some = {"Ip4": "std::option::Option::Some{0: <T as std::convert::Into>::into(p@Ip4.0)}", "Ip6": "std::option::Option::Some{0: <T as std::convert::Into>::into(p@Ip6.0)}"}
    ok = all(tab.get(k) == v for k, v in want_some.items()) and all(v == "std::option::Option::None{}" for k, v in tab.items() if k not in want_some) and len(tab) > 10
    ctx.ob("identity", "only Ip4 / Ip6 components yield an ip", ok, "%s:%d" % (mc.file, mc.line), str({k: v[-40:] for k, v in tab.items() if k in ("Ip4", "Ip6", "Dns", "P2p")}))
    tr = ctx.body(RL, r"^libp2p_relay::<T as behaviour::rate_limiter::RateLimiter>::try_next$")
    e = [render(x) for _, x in ret_exprs(tr)]
    ctx.ob("identity", "the trait adaptor forwards (peer, addr, now) unchanged", e == ["std::ops::FnMut::call_mut(self, tuple{0: peer, 1: addr, 2: now})"], "%s:%d" % (tr.file, tr.line), str(e))
