"""C08 concurrent dialing respects the concurrency factor and reports each failure — LIMIT (K9), path counting (K2), origin (K5)."""
import re

from .. import lib, mir
from .. import lib_sw as S
from ..mir import render

EXPLANATION = ("ConcurrentDial::new starts dials only from `<queue>.by_ref().take(concurrency_factor.get() as usize)` and keeps the same "
               "queue iterator for refills; in ConcurrentDial::poll every new dial is started only on the Err edge of a completed dial "
               "(pushes <= pops) and only from the queue's next(); per loop iteration the Err arm records exactly one (addr, error) pair; "
               "the Ok arm returns the accumulated errors, the None arm returns Err(all errors); SmartDial starts one future per ranked "
               "dial and has the same arm table; the concurrency factor handed to ConcurrentDial::new by the pool is the per-dial "
               "override, falling back to the pool-wide default, and the override comes from the DialOpts of that dial.  The private "
               "fields of ConcurrentDial/SmartDial are identified by their types.")
ASSUMPTIONS = ["FuturesUnordered yields each pushed future's output exactly once", "the in-flight bound at run time follows from pushes<=pops + initial take(k); it is not executed"]
SW = "libp2p_swarm"
CD = r"concurrent_dial::ConcurrentDial"
SD = r"concurrent_dial::SmartDial"


def arms(ctx, name, p, refill, F):
    """F: field roles {'dials','queue','errors'} -> current field names"""
    rets = p.return_blocks()
    polls = p.call_sites(r"StreamExt::poll_next_unpin$")
    ctx.floor(name, "poll_next_unpin", polls, 1)
    pn = polls[0]
    pe = p.site_expr(pn)
    ctx.ob(name, "the stream polled is the set of running dials", S.has_field(pe[2][0], F["dials"]), pn.loc(), render(pe)[:160])

    def on_poll(c, wrap):
        # discriminant of (a projection of) the poll_next_unpin result
        return c[0] == "discr" and S.call_at(c[1], pn.bb) is not None and re.search(wrap, render(c)) is not None
    err_e = S.edges_of(p, lambda c, r: on_poll(c, r"@Ready\.0@Some\.0\.1\)$"), {"Err"})
    ok_e = S.edges_of(p, lambda c, r: on_poll(c, r"@Ready\.0@Some\.0\.1\)$"), {"Ok"})
    none_e = S.edges_of(p, lambda c, r: on_poll(c, r"\)@Ready\.0\)$"), {"None"})
    pend_e = S.edges_of(p, lambda c, r: on_poll(c, r"^discr\([^@]*\)$"), {"Pending"})
    ctx.ob(name, "floor:arm edges", len(err_e) == 1 and len(ok_e) == 1 and len(none_e) == 1 and len(pend_e) == 1, nontrivial=False,
           msg="Err %s Ok %s None %s Pending %s" % (sorted(err_e), sorted(ok_e), sorted(none_e), sorted(pend_e)))
    epush = [s for s in p.call_sites(r"Vec::push$") if S.has_field(p.site_expr(s)[2][0], F["errors"])]
    dpush = [s for s in p.call_sites(r"FuturesUnordered::push$")]
    ctx.floor(name, "errors.push", epush, 1)
    head = [pn.bb]
    # Err arm, one iteration: from the Err edge to the next poll (loop head) or return
    for _, t in err_e:
        got = lib.count_range(p, [t], head + rets, lib.bbs(epush))
        ctx.ob(name, "Err arm records exactly one error", got == (1, 1), epush[0].loc() if epush else "", "errors.push per failed dial: %s" % (got,))
        got = lib.count_range(p, [t], head + rets, lib.bbs(dpush))
        want = (0, 1) if refill else (0, 0)
        ctx.ob(name, "Err arm starts at most one replacement dial", got == want, "", "dials.push per failed dial: %s (expected %s)" % (got, want))
        r = p.reachable([t], stop_nodes=head)
        ctx.ob(name, "Err arm continues polling", not (set(rets) & r), "", "a failed dial does not end the future")
    for s in epush:
        e = render(p.site_expr(s)[2][1])
        ctx.ob(name, "recorded pair is (addr, error) of the failed dial", e.startswith("tuple{0: ") and "@Some.0.0" in e and "@Err.0" in e, s.loc(), e[:160])
    # all dial starts in poll are on the Err edge and come from the queue's next()
    for s in dpush:
        ctx.guarded(name, "new dial only after a dial failed (pushes <= pops)", s,
                    lambda c, r, l: l == "Err" and r.endswith("@Ready.0@Some.0.1)"), "completed dial == Err")
        e = p.site_expr(s)
        nx = [c for c in mir.calls_in(e[2][1], r"Iterator>::next$|Iterator::next$") if c[2] and F.get("queue") and S.has_field(c[2][0], F["queue"])]
        ok = bool(nx) and S.has_field(e[2][0], F["dials"]) and re.search(r"@Some\.0\.\w+$", render(e[2][1])) is not None
        ctx.ob(name, "new dial comes from pending_dials.next()", ok, s.loc(), render(e)[:200])
    if refill:
        ctx.floor(name, "dials.push in poll", dpush, 1)
    # Ok arm / None arm results
    take_err = r"std::mem::take\([^()]*(\([^()]*\))?[^()]*\.%s\)" % re.escape(F["errors"])
    for _, t in ok_e:
        r = p.reachable([t])
        res = [s for s in p.agg_sites(r"^std::task::Poll$", "Ready") if s.bb in r]
        ok = len(res) == 1 and re.search(r"Result::Ok\{0: tuple\{0: .*@Some\.0\.0, 1: .*@Ok\.0, 2: %s\}\}" % take_err, render(p.site_expr(res[0]))) is not None
        ctx.ob(name, "Ok arm returns (addr, output, accumulated errors)", ok, res[0].loc() if res else "", render(p.site_expr(res[0]))[:200] if res else "no Ready")
        ctx.ob(name, "Ok arm returns without touching the loop", not (set(head) & r), "", "success ends the future")
    for _, t in none_e:
        r = p.reachable([t])
        res = [s for s in p.agg_sites(r"^std::task::Poll$", "Ready") if s.bb in r]
        ok = len(res) == 1 and re.search(r"^std::task::Poll::Ready\{0: std::result::Result::Err\{0: %s\}\}$" % take_err, render(p.site_expr(res[0]))) is not None
        ctx.ob(name, "exhausted => Err(all errors)", ok, res[0].loc() if res else "", render(p.site_expr(res[0]))[:200] if res else "no Ready")
    for _, t in pend_e:
        r = p.reachable([t])
        ctx.ob(name, "Pending propagates without side effects", not (r & set(lib.bbs(epush) + lib.bbs(dpush))), "", "no push on the Pending edge")


def check(ctx):
    prog = ctx.prog
    FC = {"dials": S.field_by_type(prog, CD + "$", r"^futures::stream::FuturesUnordered<"),
          "queue": S.field_by_type(prog, CD + "$", r"^std::vec::IntoIter<connection::pool::concurrent_dial::PendingDial>"),
          "errors": S.field_by_type(prog, CD + "$", r"^std::vec::Vec<\(libp2p_core::Multiaddr, ")}
    FS = {"dials": S.field_by_type(prog, SD + "$", r"^futures::stream::FuturesUnordered<"),
          "errors": S.field_by_type(prog, SD + "$", r"^std::vec::Vec<\(libp2p_core::Multiaddr, ")}
    n = S.nbody(ctx, CD + r"::new$")
    i_dials = S.param_of_type(n, r"^std::vec::Vec<connection::pool::concurrent_dial::PendingDial>")
    i_k = S.param_of_type(n, r"^std::num::NonZero<u8>$")
    push = n.call_sites(r"FuturesUnordered::push$")
    ctx.floor("new", "dials.push in new", push, 1)
    res = n.agg_sites(CD + "$")
    agg = dict(n.site_expr(res[0])[4]) if len(res) == 1 else {}
    q = agg.get(FC["queue"])
    k_txt = "(std::num::NonZero::get(p%d) as usize)" % i_k
    for s in push:
        e = n.site_expr(s)
        tn = mir.calls_in(e[2][1], r"<std::iter::Take as std::iter::Iterator>::next$")
        ok = len(tn) == 1 and re.search(r"@Some\.0\.\w+$", render(e[2][1])) is not None
        ctx.ob("new", "pushed dial comes from the take(k) iterator", ok, s.loc(), render(e)[:200])
        # the Take iterator is <queue>.by_ref().take(k), <queue> being the very iterator stored for the refills
        win = None
        if ok:
            src = tn[0][2][0]
            win = n.init_expr(src[1]) if src[0] == "local" else src
        tk = mir.calls_in(win, r"^std::iter::Iterator::take$") if win is not None else []
        okw = len(tk) == 1 and render(tk[0][2][1]) == k_txt and S.is_call(tk[0][2][0], r"^std::iter::Iterator::by_ref$") and \
            q is not None and q[0] == "local" and tk[0][2][0][2][0][0] == "local" and tk[0][2][0][2][0][1] == q[1]
        ctx.ob("new", "initial window = take(concurrency_factor)", okw, "%s:%d" % (n.file, n.line), "iter = %s" % (render(win) if win is not None else None))
        ctx.ob("new", "started dials go into the returned future set", FC["dials"] in agg and render(e[2][0]) == render(agg[FC["dials"]]), s.loc(),
               "push into %s, ConcurrentDial.%s = %s" % (render(e[2][0])[:80], FC["dials"], render(agg.get(FC["dials"], ("unknown", "?")))[:80]))
    ok = q is not None and q[0] == "local" and render(n.init_expr(q[1])) == "<std::vec::Vec as std::iter::IntoIterator>::into_iter(p%d)" % i_dials
    ctx.ob("new", "remaining dials kept for refill", ok, res[0].loc() if res else "",
           "ConcurrentDial{%s: <the iterator the window was taken from>} = %s" % (FC["queue"], render(n.init_expr(q[1])) if q is not None and q[0] == "local" else (render(q) if q is not None else None)))
    p = S.nbody(ctx, r"<connection::pool::concurrent_dial::ConcurrentDial as futures::Future>::poll$")
    arms(ctx, "ConcurrentDial::poll", p, True, FC)
    # who else pushes into ConcurrentDial.dials
    who = set()
    for b in prog.bodies(SW):
        for s in b.call_sites(r"FuturesUnordered::push$"):
            if "concurrent_dial" in b.npath:
                who.add(b.npath)
    ctx.ob("who", "dial starters", who == {n.npath, p.npath, "libp2p_swarm::connection::pool::concurrent_dial::SmartDial::new"}, msg=str(sorted(who)))
    # ---- the factor handed to ConcurrentDial::new is the per-dial override, else the pool default; all dials are handed over
    news = prog.callers(SW, CD + r"::new$")
    ctx.floor("factor", "ConcurrentDial::new call sites", news, 1)
    dflt = S.role(prog, "pool.dial_factor")
    for s in news:
        b = S.neutral(s.body)
        ctx.use(b)
        e = b.site_expr(s)
        karg = e[2][i_k - 1]
        try:
            i_ov = S.param_of_type(b, r"^std::option::Option<std::num::NonZero<u8>>$")
        except mir.RuleError:
            i_ov = None
        ok = False
        if i_ov is not None:
            r = render(karg)
            if re.match(r"^std::option::Option::unwrap_or\(p%d, self\.%s\)$" % (i_ov, re.escape(dflt)), r):
                ok = True
            elif karg[0] == "local":
                leaves = {render(x) for _, x in S.defs_exprs(b, karg[1])}
                ok = leaves == {"p%d@Some.0" % i_ov, "self." + dflt}
        ctx.ob("factor", "ConcurrentDial::new gets override.unwrap_or(pool default)", ok, s.loc(), "concurrency operand: %s" % render(karg)[:160])
        try:
            i_d = S.param_of_type(b, r"^std::vec::Vec<connection::pool::concurrent_dial::PendingDial>")
        except mir.RuleError:
            i_d = None
        ctx.ob("factor", "ConcurrentDial::new gets all dials of this attempt", i_d is not None and render(e[2][i_dials - 1]) == "p%d" % i_d, s.loc(), render(e[2][i_dials - 1])[:120])
        if i_ov is not None and b.kind not in ("closure", "coroutine"):
            outer = prog.callers(SW, re.escape(b.npath) + "$")
            ctx.floor("factor", "callers of " + b.short, outer, 1)
            for o in outer:
                ob_ = o.body
                oe = ob_.site_expr(o)
                a = oe[2][i_ov - 1] if len(oe[2]) >= i_ov else ("unknown", "?")
                ctx.ob("factor", "the override is the one configured in this dial's DialOpts", S.is_call(a, r"dial_opts::DialOpts::dial_concurrency_override$"), o.loc(), render(a)[:160])
    # SmartDial
    sn = S.nbody(ctx, SD + r"::new$")
    rk = sn.call_sites(r"dial_ranker::rank_dials$")
    ok = len(rk) == 1 and render(sn.site_expr(rk[0])) == "libp2p_swarm::connection::pool::dial_ranker::rank_dials(p1)"
    ctx.ob("smart", "ranks all given dials", ok, rk[0].loc() if rk else "", [render(sn.site_expr(s)) for s in rk].__str__())
    sp = sn.call_sites(r"FuturesUnordered::push$")
    ctx.floor("smart", "push in SmartDial::new", sp, 1)
    nxt = sn.call_sites(r"Iterator>::next$|Iterator::next$")
    if nxt and rk:
        e = sn.site_expr(nxt[0])
        src = [render(e)] + [render(x) for l in S.locals_in(e) for _, x in S.defs_exprs(sn, l)]
        ctx.ob("smart", "the loop runs over the ranked dials", any(S.call_at(x, rk[0].bb) is not None for l in S.locals_in(e) for _, x in S.defs_exprs(sn, l)) or
               S.call_at(e, rk[0].bb) is not None, nxt[0].loc(), str(src)[:200])
    for s in sp:
        ctx.guarded("smart", "one future per ranked dial", s, lambda c, r, l: l == "Some" and "Iterator>::next(" in r, "iterator yielded a dial")
        got = lib.count_range(sn, sn.succ[nxt[0].bb] if nxt else [0], lib.bbs(nxt) + sn.return_blocks(), lib.bbs(sp),
                              blocked_edges=lib.switch_edges_on(sn, r"Iterator>::next\(", {"None"}))
        ctx.ob("smart", "exactly one push per element", got == (1, 1), s.loc(), "push per loop iteration: %s" % (got,))
    co = S.children(prog, sn, "coroutine")
    ok = len(co) == 1 and bool(sp)
    if ok:
        # the async block awaits the future of the very dial it was created for: capture #k is `<element>.1.fut`
        _, caps = S.closure_captures(sn, sn.site_expr(sp[0]))
        k = [i for i, c in enumerate(caps) if re.search(r"Iterator>::next\(.*\)@Some\.0\.1\.\w+$", render(c)) and
             re.search(r"Pin<std::boxed::Box<|BoxFuture|DialFuture", str(S.adt_fields(prog, r"concurrent_dial::PendingDial$")))]
        awaited = " ".join(render(co[0].site_expr(s)) for s in co[0].call_sites(r"IntoFuture>::into_future$|IntoFuture::into_future$"))
        ok = len(k) == 1 and re.search(r"into_future\(\^\*?u%d\)" % k[0], awaited) is not None
    ctx.ob("smart", "each future awaits its own dial", ok, msg="async block awaits dial.fut")
    q = S.nbody(ctx, r"<connection::pool::concurrent_dial::SmartDial as futures::Future>::poll$")
    arms(ctx, "SmartDial::poll", q, False, FS)
