"""C08 concurrent dialing respects the concurrency factor and reports each failure — LIMIT (K9), path counting (K2), origin (K5)."""
import re

from .. import lib, mir
from ..mir import render

EXPLANATION = ("ConcurrentDial::new starts dials only from `pending_dials.by_ref().take(concurrency_factor.get() as usize)`; in "
               "ConcurrentDial::poll every new dial is started only on the Err edge of a completed dial (pushes <= pops) and only from "
               "pending_dials.next(); per loop iteration the Err arm records exactly one (addr, error) pair; the Ok arm returns the "
               "accumulated errors, the None arm returns Err(all errors); SmartDial starts one future per ranked dial and has the same arm table.")
ASSUMPTIONS = ["FuturesUnordered yields each pushed future's output exactly once", "the in-flight bound at run time follows from pushes<=pops + initial take(k); it is not executed"]
SW = "libp2p_swarm"
CD = r"concurrent_dial::ConcurrentDial"


def arms(ctx, name, p, refill):
    rets = p.return_blocks()
    polls = p.call_sites(r"StreamExt::poll_next_unpin$")
    ctx.floor(name, "poll_next_unpin", polls, 1)
    pn = polls[0]
    err_e = lib.switch_edges_on(p, r"^discr\(.*@Ready\.0@Some\.0\.1\)$", {"Err"})
    ok_e = lib.switch_edges_on(p, r"^discr\(.*@Ready\.0@Some\.0\.1\)$", {"Ok"})
    none_e = lib.switch_edges_on(p, r"^discr\(futures::StreamExt::poll_next_unpin\(.*@Ready\.0\)$", {"None"})
    pend_e = lib.switch_edges_on(p, r"^discr\(futures::StreamExt::poll_next_unpin\([^@]*\)$", {"Pending"})
    ctx.ob(name, "floor:arm edges", len(err_e) == 1 and len(ok_e) == 1 and len(none_e) == 1 and len(pend_e) == 1, nontrivial=False,
           msg="Err %s Ok %s None %s Pending %s" % (sorted(err_e), sorted(ok_e), sorted(none_e), sorted(pend_e)))
    epush = [s for s in p.call_sites(r"Vec::push$") if ".errors" in render(p.site_expr(s)[2][0])]
    dpush = [s for s in p.call_sites(r"FuturesUnordered::push$")]
    ctx.floor(name, "errors.push", epush, 1)
    head = [pn.bb]
    # Err arm, one iteration: from the Err edge to the next poll (loop head) or return
    for _, t in err_e:
        got = lib.count_range(p, [t], head + rets, lib.bbs(epush))
        ctx.ob(name, "Err arm records exactly one error", got == (1, 1), epush[0].loc() if epush else "", "errors.push per failed dial: %s" % (got,))
        got = lib.count_range(p, [t], head + rets, lib.bbs(dpush))
        want = (0, 1) if refill else (0, 0)
        ctx.ob(name, "Err arm starts at most one replacement dial", got == want, "", "dials.push per failed dial: %s (expected %s)" % (got, want))
        r = p.reachable([t], stop_nodes=head)
        ctx.ob(name, "Err arm continues polling", not (set(rets) & r), "", "a failed dial does not end the future")
    for s in epush:
        e = render(p.site_expr(s)[2][1])
        ctx.ob(name, "recorded pair is (addr, error) of the failed dial", e.startswith("tuple{0: ") and "@Some.0.0" in e and "@Err.0" in e, s.loc(), e[:160])
    # all dial starts in poll are on the Err edge and come from pending_dials.next()
    for s in dpush:
        ctx.guarded(name, "new dial only after a dial failed (pushes <= pops)", s,
                    lambda c, r, l: l == "Err" and r.endswith("@Ready.0@Some.0.1)"), "completed dial == Err")
        e = render(p.site_expr(s))
        ctx.ob(name, "new dial comes from pending_dials.next()", ".pending_dials)@Some.0.fut" in e and ".dials, " in e, s.loc(), e[:200])
    if refill:
        ctx.floor(name, "dials.push in poll", dpush, 1)
    # Ok arm / None arm results
    for _, t in ok_e:
        r = p.reachable([t])
        res = [s for s in p.agg_sites(r"^std::task::Poll$", "Ready") if s.bb in r]
        ok = len(res) == 1 and re.search(r"Result::Ok\{0: tuple\{0: .*@Some\.0\.0, 1: .*@Ok\.0, 2: std::mem::take\(.*\.errors\)\}\}", render(p.site_expr(res[0]))) is not None
        ctx.ob(name, "Ok arm returns (addr, output, accumulated errors)", ok, res[0].loc() if res else "", render(p.site_expr(res[0]))[:200] if res else "no Ready")
        ctx.ob(name, "Ok arm returns without touching the loop", not (set(head) & r), "", "success ends the future")
    for _, t in none_e:
        r = p.reachable([t])
        res = [s for s in p.agg_sites(r"^std::task::Poll$", "Ready") if s.bb in r]
        ok = len(res) == 1 and re.search(r"^std::task::Poll::Ready\{0: std::result::Result::Err\{0: std::mem::take\(.*\.errors\)\}\}$", render(p.site_expr(res[0]))) is not None
        ctx.ob(name, "exhausted => Err(all errors)", ok, res[0].loc() if res else "", render(p.site_expr(res[0]))[:200] if res else "no Ready")
    for _, t in pend_e:
        r = p.reachable([t])
        ctx.ob(name, "Pending propagates without side effects", not (r & set(lib.bbs(epush) + lib.bbs(dpush))), "", "no push on the Pending edge")


def check(ctx):
    n = ctx.body(SW, CD + r"::new$")
    push = n.call_sites(r"FuturesUnordered::push$")
    ctx.floor("new", "dials.push in new", push, 1)
    for s in push:
        e = render(n.site_expr(s))
        ctx.ob("new", "pushed dial comes from the take(k) iterator", "<std::iter::Take as std::iter::Iterator>::next(iter)@Some.0.fut" in e, s.loc(), e[:200])
    l = lib.local_by_name(n, "iter")
    ie = render(n.init_expr(l))
    want = "<I as std::iter::IntoIterator>::into_iter(std::iter::Iterator::take(std::iter::Iterator::by_ref(pending_dials), (std::num::NonZero::get(concurrency_factor) as usize)))"
    ctx.ob("new", "initial window = take(concurrency_factor)", ie == want, "%s:%d" % (n.file, n.line), "iter = %s" % ie)
    res = n.agg_sites(CD + "$")
    ok = len(res) == 1 and "pending_dials: pending_dials" in render(n.site_expr(res[0])) and "dials: futures::stream::FuturesUnordered::new()" in render(n.site_expr(res[0]))
    ctx.ob("new", "remaining dials kept for refill", ok, res[0].loc() if res else "", "ConcurrentDial{dials, pending_dials: <same iterator>}")
    p = ctx.body(SW, r"<connection::pool::concurrent_dial::ConcurrentDial as futures::Future>::poll$")
    arms(ctx, "ConcurrentDial::poll", p, True)
    # who else pushes into ConcurrentDial.dials
    who = set()
    for b in ctx.prog.bodies(SW):
        for s in b.call_sites(r"FuturesUnordered::push$"):
            if "concurrent_dial" in b.npath:
                who.add(b.npath)
    ctx.ob("who", "dial starters", who == {n.npath, p.npath, "libp2p_swarm::connection::pool::concurrent_dial::SmartDial::new"}, msg=str(sorted(who)))
    # SmartDial
    sn = ctx.body(SW, r"concurrent_dial::SmartDial::new$")
    rk = sn.call_sites(r"dial_ranker::rank_dials$")
    ok = len(rk) == 1 and render(sn.site_expr(rk[0])) == "libp2p_swarm::connection::pool::dial_ranker::rank_dials(pending_dials)"
    ctx.ob("smart", "ranks all given dials", ok, rk[0].loc() if rk else "", [render(sn.site_expr(s)) for s in rk].__str__())
    sp = sn.call_sites(r"FuturesUnordered::push$")
    ctx.floor("smart", "push in SmartDial::new", sp, 1)
    nxt = sn.call_sites(r"Iterator>::next$|Iterator::next$")
    for s in sp:
        ctx.guarded("smart", "one future per ranked dial", s, lambda c, r, l: l == "Some" and "Iterator>::next(" in r, "iterator yielded a dial")
        got = lib.count_range(sn, sn.succ[nxt[0].bb] if nxt else [0], lib.bbs(nxt) + sn.return_blocks(), lib.bbs(sp),
                              blocked_edges=lib.switch_edges_on(sn, r"Iterator>::next\(", {"None"}))
        ctx.ob("smart", "exactly one push per element", got == (1, 1), s.loc(), "push per loop iteration: %s" % (got,))
    co = [b for b in ctx.prog.children(sn) if b.kind == "coroutine"]
    ok = len(co) == 1 and "^dial.fut" in " ".join(render(co[0].site_expr(s)) for s in co[0].call_sites(r"IntoFuture>::into_future$|IntoFuture::into_future$"))
    ctx.ob("smart", "each future awaits its own dial", ok, msg="async block awaits dial.fut")
    q = ctx.body(SW, r"<connection::pool::concurrent_dial::SmartDial as futures::Future>::poll$")
    arms(ctx, "SmartDial::poll", q, False)
