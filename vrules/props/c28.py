"""C28 gossipsub mesh membership respects eligibility rules — site inventory (K4), sibling predicate agreement (K11), guards (K1), limit (K9), origin (K5), path counting (K2)."""
import re

from .. import lib, mir
from .. import lib_gs as gs
from ..mir import render, strip_generics

EXPLANATION = ("Every site that adds a peer to a mesh set is enumerated crate-wide (join: fanout take-over + random fill, handle_graft, "
               "handle_received_subscriptions, heartbeat: mesh-low fill, outbound fill, opportunistic graft; anything else is a violation). "
               "For each site the inserted peers are proved to have passed all three predicates for *that* peer and *that* topic: not in "
               "explicit_peers, score not negative (below_threshold(p, |_| 0.0) false, cached score >= 0.0, or — opportunistic graft only — "
               "score > median where the negative-score retain dominates so the median is >= 0), not backed off (is_backoff_with_slack "
               "false; handle_graft: no backoff or backoff_time > now false). Selection sites get their candidates from get_random_peers, "
               "whose only source is connected_peers filtered by `topics.contains(topic)` and `kind.is_gossipsub()`; the subscription and "
               "GRAFT sites are dominated by the connected_peers lookup. handle_graft additionally inserts only on the false edge of "
               "`mesh[topic].len() >= mesh_n_high_for_topic(topic)` and answers every refusal with a PRUNE entry. Removal: unsubscribe and "
               "PRUNE reach remove_peer_from_mesh once per (peer, topic), which removes the peer when the mesh exists; the last closed "
               "connection removes the peer from every mesh of its topics and from connected_peers; the heartbeat drops members whose "
               "cached score is < 0.")
ASSUMPTIONS = ["score dynamics between the cached score (heartbeat) / below_threshold call and the insertion are not modelled",
               "the explicit-peer set is configured before peers enter meshes: add_explicit_peer() does not evict an existing mesh member "
               "(outside the property's event alphabet; noted, not claimed)",
               "fanout members taken over by JOIN are connected subscribers (maintained by on_connection_closed / unsubscribe handling, C35)",
               "HashMap/BTreeSet semantics; rand shuffling returns a subset"]
TECHNIQUE = "static analysis of rustc MIR facts: closure verdict extraction, dominance guards, def-use origin, path counting"

G = gs.G
B = "libp2p_gossipsub::behaviour::Behaviour::"
CONFIGS = [{"name": "gossipsub-features", "packages": ["libp2p-gossipsub"], "features": "metrics,partial-messages"}]

SELFTEST = [
    {"mutation": "seeded C28: outbound fill closure loses `!backoffs.is_backoff_with_slack(topic_hash, peer_id)`", "caught_by": "eligible/heartbeat#2 (outbound fill): not backed off"},
    {"mutation": "heartbeat mesh-low fill: `score >= 0.0` -> `score >= -1.0` / `<= 0.0`", "caught_by": "eligible/heartbeat#1 (mesh-low fill): score not negative"},
    {"mutation": "join random fill: `!self.explicit_peers.contains(peer)` deleted", "caught_by": "eligible/join#2 (random fill): not explicit"},
    {"mutation": "join fanout take-over: retain deleted / moved after mesh.insert", "caught_by": "eligible/join#1 (fanout take-over): candidates filtered before insertion"},
    {"mutation": "handle_graft: `peers.len() >= mesh_n_high` -> `>`", "caught_by": "limit/handle_graft: GRAFT refused at mesh_n_high"},
    {"mutation": "handle_graft: `if below_zero {..continue}` block deleted", "caught_by": "eligible/handle_graft: score not negative"},
    {"mutation": "handle_graft: explicit-peer early return deleted", "caught_by": "eligible/handle_graft: not explicit"},
    {"mutation": "handle_received_subscriptions: `!self.backoffs.is_backoff_with_slack(..)` dropped from the chain", "caught_by": "eligible/handle_received_subscriptions: not backed off"},
    {"mutation": "get_random_peers_dynamic: `.filter(|(_, p)| p.kind.is_gossipsub())` deleted", "caught_by": "source/get_random_peers: only gossipsub peers"},
    {"mutation": "below_threshold closure `|_| 0.0` -> `|ts| ts.gossip_threshold`", "caught_by": "eligible/join#2 (random fill): score not negative"},
    {"mutation": "new mesh insertion in handle_ihave", "caught_by": "sites/mesh insertion sites are the audited ones"},
    {"mutation": "on_connection_closed: `mesh_peers.remove(&peer_id)` deleted", "caught_by": "sites/mesh removal sites are the audited ones"},
    {"mutation": "heartbeat retain: `peer_score < 0.0` -> `peer_score < -10.0`", "caught_by": "remove/heartbeat drops members with negative score"},
    {"mutation": "NEUTRAL: median / peers_by_score / scores / to_prune_topics / to_graft / to_prune renamed", "caught_by": "(silent: resolved through upvars, accumulator shape and call positions)"},
]

# one-edit source variants for the thorough-tier sensitivity self-test (vrules/selftest.py); each must be reported
MUTANTS = [
    {"name": 'mesh-low fill accepts slightly negative scores', "file": 'protocols/gossipsub/src/behaviour.rs',
     "find": '                            && scores.get(peer).map(|r| r.score).unwrap_or_default() >= 0.0\n',
     "replace": '                            && scores.get(peer).map(|r| r.score).unwrap_or_default() >= -1.0\n',
     "expect": 'heartbeat#1 .*score not negative', "why": 'negative-score peer grafted by the heartbeat'},
    {"name": 'GRAFT accepted at mesh_n_high', "file": 'protocols/gossipsub/src/behaviour.rs',
     "find": '            if peers.len() >= mesh_n_high {\n                to_prune_topics.insert(topic_hash.clone());',
     "replace": '            if peers.len() > mesh_n_high {\n                to_prune_topics.insert(topic_hash.clone());',
     "expect": 'limit/handle_graft: GRAFT refused', "why": 'mesh grows to mesh_n_high + 1 through GRAFTs'},
    {"name": 'subscription path ignores the backoff', "file": 'protocols/gossipsub/src/behaviour.rs',
     "find": '                        && !self\n                            .backoffs\n                            .is_backoff_with_slack(topic_hash, propagation_source)\n',
     "replace": '',
     "expect": 'handle_received_subscriptions: not backed off', "why": 'a peer that just pruned us is re-grafted when it re-subscribes'},
    {"name": 'join random fill accepts explicit peers', "file": 'protocols/gossipsub/src/behaviour.rs',
     "find": '                    !added_peers.contains(peer)\n                        && !self.explicit_peers.contains(peer)\n',
     "replace": '                    !added_peers.contains(peer)\n',
     "expect": 'join#2 .*not explicit', "why": 'explicit peer put into the mesh on subscribe'},
]


def _loc(b):
    return "%s:%d" % (b.file, b.line)


def is_zero_f(e):
    return e[0] == "const" and (e[1] == 0 or (e[1] is None and re.match(r"^(const )?-?0(\.0)?f64$", e[2] or "") is not None and not (e[2] or "").startswith("const -")))


def zero_closure(prog, body, call):
    cl = gs.closure_arg(prog, body, call)
    if cl is None:
        return False
    rs = [x for _, x in gs.ret_exprs(cl)]
    return len(rs) == 1 and is_zero_f(rs[0])


def score_of(prog, body, e, peer_ok):
    """e is `scores.get(p).map(|r| r.score).unwrap_or_default()` for the closure's peer"""
    if e[0] != "call" or not re.search(r"Option::unwrap_or_default$", strip_generics(e[1])):
        return False
    m = e[2][0]
    if m[0] != "call" or not re.search(r"Option::map$", strip_generics(m[1])):
        return False
    g = m[2][0]
    if g[0] != "call" or not re.search(r"HashMap::get$", strip_generics(g[1])) or not peer_ok(g[2][1]):
        return False
    if g[2][0][0] not in ("upvar", "local", "arg"):      # the per-heartbeat score cache (a plain binding, whatever it is called)
        return False
    cl = gs.closure_arg(prog, body, m)
    rs = [render(x) for _, x in gs.ret_exprs(cl)] if cl is not None else []
    return len(rs) == 1 and rs[0].endswith(".score")


def classify(prog, body, reqs, peer_ok, topic_ok, res):
    """Which eligibility predicates a list of (expr, polarity) facts establishes.  peer_ok/topic_ok test an argument
    expression; res(expr) renders an expression with upvars resolved to the parent's expressions."""
    got = {}
    for c, pol in reqs:
        if c[0] == "variant":
            continue
        if c[0] == "call":
            n = strip_generics(c[1])
            if re.search(r"HashSet::contains$", n) and res(c[2][0]) == "self.explicit_peers" and peer_ok(c[2][1]) and pol is False:
                got["explicit"] = "!explicit_peers.contains(p)"
            if re.search(r"BackoffStorage::is_backoff_with_slack$", n) and res(c[2][0]) == "self.backoffs" and topic_ok(c[2][1]) and peer_ok(c[2][2]) and pol is False:
                got["backoff"] = "!backoffs.is_backoff_with_slack(topic, p)"
            if re.search(r"PeerKind::is_gossipsub$", n) and pol is True:
                got["gossipsub"] = "kind.is_gossipsub()"
        if c[0] == "field" and c[2] == "0" and c[1][0] == "call" and re.search(r"PeerScoreState::below_threshold$", strip_generics(c[1][1])) and pol is False:
            bc = c[1]
            if res(bc[2][0]) == "self.peer_score" and peer_ok(bc[2][1]) and zero_closure(prog, body, bc):
                got["score"] = "!below_threshold(p, |_| 0.0)"
        if c[0] == "bin" and c[1] in ("Ge", "Gt", "Lt", "Le"):
            rel = gs.ord_rel(c, "true" if pol else "false")
            if rel is not None:
                small, large, strict = rel
                if is_zero_f(small) and score_of(prog, body, large, peer_ok):
                    got["score"] = "score(p) %s 0.0" % (">" if strict else ">=")
                elif strict and score_of(prog, body, large, peer_ok) and small[0] == "upvar":
                    got["score>median"] = "score(p) > " + small[1].lstrip("*")
                    got["median-upvar"] = small[1].lstrip("*")
    return got


def check(ctx):
    prog = ctx.prog
    # =================================================================== inventory
    adders, removers = {}, {}
    for b in prog.bodies(G):
        a = gs.mesh_sites(b, gs.MESH_ADD)
        d = gs.mesh_sites(b, gs.MESH_DEL)
        if a:
            adders[b.npath] = a
        if d:
            removers[b.npath] = d
    exp_add = {B + "join": 2, B + "handle_graft": 1, B + "handle_received_subscriptions": 1, B + "heartbeat": 3}
    ctx.ob("sites", "mesh insertion sites are the audited ones", {k: len(v) for k, v in adders.items()} == exp_add,
           msg=str({k.replace(B, ""): len(v) for k, v in adders.items()}))
    exp_del = {B + "leave": 1, B + "remove_peer_from_mesh": 1, B + "heartbeat": 2, B + "on_connection_closed": 1}
    ctx.ob("sites", "mesh removal sites are the audited ones", {k: len(v) for k, v in removers.items()} == exp_del,
           msg=str({k.replace(B, ""): len(v) for k, v in removers.items()}))
    who = set()
    for b in prog.bodies(G):
        for bi in sorted(b.live):
            for st in b.blocks[bi]["stmts"]:
                if st["k"] == "assign" and st["r"]["k"] in ("ref", "rawptr") and st["r"].get("m", "mut") != "shared":
                    for pr in st["r"]["p"].get("pr", ()):
                        if pr["k"] == "field" and pr["n"] == "mesh" and "Behaviour" in (pr.get("o") or ""):
                            who.add(b.npath)
        if b.field_write_sites("mesh", r"behaviour::Behaviour"):
            who.add(b.npath + " (assignment)")
    allowed = {B + x for x in ("join", "leave", "handle_graft", "remove_peer_from_mesh", "handle_received_subscriptions", "heartbeat", "on_connection_closed")}
    ctx.ob("sites", "mutable borrows of `mesh`", who == allowed, msg=str(sorted(x.replace(B, "") for x in who)))
    n_sites = sum(len(v) for v in adders.values())
    ctx.ob("sites", "floor:mesh insertion sites", n_sites >= 7, nontrivial=False, msg=str(n_sites))

    # =================================================================== the candidate source
    gd = ctx.body(G, r"^libp2p_gossipsub::behaviour::get_random_peers_dynamic$")
    gr = ctx.body(G, r"^libp2p_gossipsub::behaviour::get_random_peers$")
    rr = [x for _, x in gs.ret_exprs(gr)]
    ok = len(rr) == 1 and rr[0][0] == "call" and re.search(r"get_random_peers_dynamic$", strip_generics(rr[0][1])) and \
        gs.is_arg(rr[0][2][0], gs.arg_of_type(gr, r"HashMap<libp2p_identity::PeerId, types::PeerDetails>")) and \
        gs.is_arg(rr[0][2][1], gs.arg_of_type(gr, r"^&topic::TopicHash$")) and gs.is_arg(rr[0][2][3], gs.arg_of_type(gr, r"FnMut\(&"))
    ctx.ob("source", "get_random_peers delegates (connected_peers, topic, f) unchanged", ok, _loc(gr), render(rr[0])[:200] if rr else "?")
    rets = gs.ret_exprs(gd)
    ctx.floor("source", "get_random_peers_dynamic results", rets, 2)
    coll = None
    for site, e in rets:
        x = e
        locs = [y for y in mir.walk(x) if y[0] == "local" and "Vec<" in gd.locals[y[1]]]
        ok = len(locs) >= 1 and all(y[1] == locs[0][1] for y in locs) and not gs.has_call(x, r"HashMap::(iter|keys|values)$") and \
            not any(y[0] == "arg" and y[1] == 1 for y in mir.walk(x))
        coll = locs[0][1] if locs else coll
        ctx.ob("source", "get_random_peers: result is drawn from the filtered candidate vector", ok, site.loc(), render(x)[:160])
    if coll is not None:
        ie = gd.init_expr(coll)
        flt = gs.calls(ie, r"Iterator::filter$")
        facts = {}
        d_conn, d_topic, d_f = (gs.arg_of_type(gd, r"HashMap<libp2p_identity::PeerId, types::PeerDetails>"), gs.arg_of_type(gd, r"^&topic::TopicHash$"), gs.arg_of_type(gd, r"FnMut\(&"))
        for fc in flt:
            cl = gs.closure_arg(prog, gd, fc, 1)
            if cl is None:
                continue
            ups = gs.upvar_exprs(prog, gd, cl)

            def up_is(x, idx, ups=ups):
                return x[0] == "upvar" and gs.is_arg(ups.get(x[1].lstrip("*"), ("?",)), idx)
            for c, pol in gs.truth_requirements(cl):
                r = render(c) if c[0] != "variant" else ""
                if c[0] == "call" and re.match(r"^std::collections::BTreeSet::contains\(arg2\.1\.topics, ", r) and up_is(c[2][1], d_topic) and pol:
                    facts["subscribed"] = r
                if re.match(r"^libp2p_gossipsub::types::PeerKind::is_gossipsub\(arg2\.1\.kind\)$", r) and pol:
                    facts["gossipsub"] = r
                if c[0] == "call" and re.search(r"FnMut::call_mut$", strip_generics(c[1])) and up_is(c[2][0], d_f) and render(c[2][1]) == "tuple{0: arg2.0}" and pol:
                    facts["caller filter"] = r
        src_ok = any(gs.is_arg(c[2][0], d_conn) for c in gs.calls(ie, r"HashMap::iter$"))
        ctx.ob("source", "get_random_peers: candidates are connected peers", src_ok, _loc(gd), render(ie)[:120])
        ctx.ob("source", "get_random_peers: only peers subscribed to the topic", "subscribed" in facts, _loc(gd), facts.get("subscribed", "filter `p.topics.contains(topic_hash)` not found"))
        ctx.ob("source", "get_random_peers: only gossipsub peers", "gossipsub" in facts, _loc(gd), facts.get("gossipsub", "filter `p.kind.is_gossipsub()` not found"))
        ctx.ob("source", "get_random_peers: the caller's predicate is applied to the peer id", "caller filter" in facts, _loc(gd), facts.get("caller filter", "filter `f(peer_id)` not found"))
        mp = gs.calls(ie, r"Iterator::map$")
        ids = []
        for m in mp:
            cl = gs.closure_arg(prog, gd, m, 1)
            ids += [render(x) for _, x in gs.ret_exprs(cl)] if cl is not None else []
        ctx.ob("source", "get_random_peers: the id returned is the id tested", ids == ["arg2.0"], _loc(gd), str(ids))

    # =================================================================== selection sites (closure verdicts)
    def selection_site(tag, body, m, topic_expr_of_mesh, need_score=("score",)):
        me = body.site_expr(m)
        val = gs.expand(body, me[2][-1])
        sel = [c for c in gs.calls(val, r"behaviour::get_random_peers$")]
        ctx.ob("eligible", "%s: candidates come from get_random_peers" % tag, len(sel) == 1, m.loc(), "value = %s" % render(val)[:140])
        if len(sel) != 1:
            return
        call = sel[0]
        cl = gs.closure_arg(prog, body, call, 3)
        ups = gs.upvar_exprs(prog, body, cl) if cl is not None else {}

        def res(x):
            if x[0] == "upvar":
                u = ups.get(x[1].lstrip("*"))
                return gs.xrender(body, u) if u is not None else render(x)
            return render(x)
        topic_r = gs.xrender(body, topic_expr_of_mesh)
        sel_topic = gs.xrender(body, call[2][1])
        ctx.ob("eligible", "%s: selection is for the topic of the mesh extended" % tag, sel_topic == topic_r and gs.next_call_bb(gs.expand(body, call[2][1])) == gs.next_call_bb(gs.expand(body, topic_expr_of_mesh))
               and render(call[2][0]) == "self.connected_peers", m.loc(), "get_random_peers(%s, %s, ..) vs mesh of %s" % (render(call[2][0]), sel_topic[-70:], topic_r[-70:]))
        if cl is None:
            ctx.ob("eligible", "%s: filter closure found" % tag, False, m.loc(), "no closure operand")
            return
        reqs = gs.truth_requirements(cl)
        got = classify(prog, cl, reqs, lambda a: a[0] == "arg" and a[1] == 2, lambda a: res(a) == topic_r, res)
        where = "%s:%d" % (cl.file, cl.line)
        ctx.ob("eligible", "%s: not explicit" % tag, "explicit" in got, where, got.get("explicit", "no `!explicit_peers.contains(peer)` conjunct in the selection filter"))
        ctx.ob("eligible", "%s: not backed off" % tag, "backoff" in got, where, got.get("backoff", "no `!backoffs.is_backoff_with_slack(topic, peer)` conjunct (for this topic and peer) in the selection filter"))
        sc = [k for k in need_score if k in got]
        ctx.ob("eligible", "%s: score not negative" % tag, bool(sc), where, got.get(sc[0]) if sc else "no non-negative-score conjunct in the selection filter (found: %s)" % sorted(got))
        return got

    # ------------------------------------------------------------------- join
    j = ctx.body(G, gs.BEH + r"join$")
    topic_arg = [("arg", i, j.names.get(i)) for i in range(1, j.argc + 1) if "TopicHash" in j.locals[i]]
    ctx.ob("sites", "floor:join topic parameter", len(topic_arg) == 1, nontrivial=False, msg=str(topic_arg))
    for m in adders.get(j.npath, []):
        me = j.site_expr(m)
        name = strip_generics(j.call_name(m.term))
        if name.endswith("HashMap::insert"):
            tag = "join#1 (fanout take-over)"
            val = gs.expand(j, me[2][2])
            src = gs.calls(val, r"HashMap::remove_entry$")
            ok_src = len(src) >= 1 and all(render(c[2][0]) == "self.fanout" and render(c[2][1]) == render(topic_arg[0]) for c in src)
            ctx.ob("eligible", "%s: candidates are the topic's fanout peers" % tag, ok_src and ("clone(%s)" % render(topic_arg[0])) in render(me[2][1]), m.loc(), render(val)[:160])
            rets_ = [s for s in j.call_sites(r"BTreeSet::retain$") if any(c[3] in {x[3] for x in src} for c in gs.calls(gs.expand(j, j.site_expr(s)[2][0]), r"HashMap::remove_entry$"))]
            ok = bool(rets_) and j.must_pass_nodes([0], [m.bb], lib.bbs(rets_))
            ctx.ob("eligible", "%s: candidates filtered before insertion" % tag, ok, m.loc(), "peers.retain(filter) dominates mesh.insert(topic, peers.take(..)): %s" % ok)
            got = {}
            for s in rets_[:1]:
                cl = gs.closure_arg(prog, j, j.site_expr(s))
                ups = gs.upvar_exprs(prog, j, cl) if cl is not None else {}

                def res(x, ups=ups):
                    if x[0] == "upvar":
                        u = ups.get(x[1].lstrip("*"))
                        return gs.xrender(j, u) if u is not None else render(x)
                    return render(x)
                if cl is not None:
                    got = classify(prog, cl, gs.truth_requirements(cl), lambda a: a[0] == "arg" and a[1] == 2, lambda a: res(a) == render(topic_arg[0]), res)
            wh = rets_[0].loc() if rets_ else m.loc()
            ctx.ob("eligible", "%s: not explicit" % tag, "explicit" in got, wh, got.get("explicit", "missing"))
            ctx.ob("eligible", "%s: not backed off" % tag, "backoff" in got, wh, got.get("backoff", "missing"))
            ctx.ob("eligible", "%s: score not negative" % tag, "score" in got, wh, got.get("score", "missing"))
        else:
            tag = "join#2 (random fill)"
            selection_site(tag, j, m, topic_arg[0])
            ctx.ob("eligible", "%s: the mesh extended is the joined topic's" % tag, ("HashMap::entry(self.mesh, libp2p_gossipsub::<topic::TopicHash as std::clone::Clone>::clone(%s))" % render(topic_arg[0])) in gs.xrender(j, me[2][0]),
                   m.loc(), gs.xrender(j, me[2][0])[:200])

    # ------------------------------------------------------------------- heartbeat
    hb = ctx.body(G, gs.BEH + r"heartbeat$")
    hadd = sorted(adders.get(hb.npath, []), key=lambda s: s.line)
    tags = ["heartbeat#1 (mesh-low fill)", "heartbeat#2 (outbound fill)", "heartbeat#3 (opportunistic graft)"]
    retain = [s for s in removers.get(hb.npath, []) if strip_generics(hb.call_name(s.term)).endswith("::retain")]
    for i, m in enumerate(hadd):
        tag = tags[i] if i < len(tags) else "heartbeat#%d" % (i + 1)
        me = hb.site_expr(m)
        recv = gs.expand(hb, me[2][0])
        # receiver = value of the (topic, peers) element of mesh.iter_mut(); topic = its key
        ok_recv = recv[0] == "field" and recv[2] == "1"
        topic_e = ("field", recv[1], "0", recv[3]) if ok_recv else recv
        ctx.ob("eligible", "%s: extends the mesh set of the iterated topic" % tag, ok_recv and gs.has_call(recv, r"HashMap::iter_mut$"), m.loc(), render(recv)[:160])
        got = selection_site(tag, hb, m, topic_e, need_score=("score", "score>median"))
        if got is not None and "score" not in got and "score>median" in got:
            head = gs.next_call_bb(recv)
            ok = bool(retain) and head is not None and all(hb.must_pass_nodes([head], [m.bb], [r.bb]) or hb.must_pass_nodes(gs.some_edge_targets(hb, head), [m.bb], [r.bb]) for r in retain[:1])
            # the threshold is whatever local the selection closure captured (resolved through the upvar, not by name)
            sel = [c for c in gs.calls(gs.expand(hb, me[2][-1]), r"behaviour::get_random_peers$")]
            clm = gs.closure_arg(prog, hb, sel[0], 3) if sel else None
            mu = gs.upvar_exprs(prog, hb, clm).get(got["median-upvar"]) if clm is not None else None
            ml = [mu[1]] if mu is not None and mu[0] == "local" else []
            med_ok = False
            if len(ml) == 1:
                med_ok = True
                vecs, maps = set(), set()
                for d in hb.defs.get(ml[0], []):
                    e = hb.rvalue_expr(d[3]) if d[0] == "stmt" else hb.call_expr(d[3], d[1])
                    gets = gs.calls(e, r"HashMap::get$")
                    med_ok = med_ok and bool(gets) and all(g[2][0][0] == "local" and gs.has_call(g[2][1], r"slice::<impl \[T\]>::get$|slice::get$") for g in gets)
                    for g in gets:
                        maps.add(render(g[2][0]))
                        vecs |= {y[1] for y in mir.walk(g[2][1]) if y[0] == "local" and "Vec<" in hb.locals[y[1]]}
                # one score cache, one member vector; the vector is the current members of this mesh
                med_ok = med_ok and len(maps) == 1 and len(vecs) == 1 and \
                    re.search(r"collect\(std::collections::BTreeSet::iter\(", gs.xrender(hb, ("local", next(iter(vecs)), None))) is not None and \
                    gs.next_call_bb(gs.expand(hb, hb.init_expr(next(iter(vecs))))) == head
            ctx.ob("eligible", "%s: `score > median` implies non-negative (median over members that survived the negative-score retain)" % tag, ok and med_ok, m.loc(),
                   "retain of negative members dominates in the iteration: %s; median is computed from cached scores of current members only: %s" % (ok, med_ok))

    # ------------------------------------------------------------------- handle_graft
    hg = ctx.body(G, gs.BEH + r"handle_graft$")
    for m in adders.get(hg.npath, []):
        me = hg.site_expr(m)
        head = gs.next_call_bb(me[2][0])
        peer_r = render(me[2][1])
        topic_c = [c for c in gs.calls(me[2][0], r"HashMap::get_mut$") if render(c[2][0]) == "self.mesh"]
        topic_r = render(topic_c[0][2][1]) if topic_c else "?"
        ctx.ob("eligible", "handle_graft: inserts into the mesh of the grafted topic", head is not None and bool(topic_c), m.loc(), render(me[2][0])[:160])
        gs.guarded(ctx, "eligible", "handle_graft: peer is connected", m, lambda c, r, l: l == "Some" and r == "discr(std::collections::HashMap::get_mut(self.connected_peers, %s))" % peer_r,
                    "connected_peers.get_mut(peer) is Some")
        gs.guarded(ctx, "eligible", "handle_graft: not explicit", m, lambda c, r, l: l == "false" and r == "std::collections::HashSet::contains(self.explicit_peers, %s)" % peer_r,
                    "explicit_peers.contains(peer) is false")

        def neg_false(c, r, l):
            if l != "false":
                return False
            x = gs.expand(hg, c)
            return x[0] == "field" and x[2] == "0" and x[1][0] == "call" and re.search(r"PeerScoreState::below_threshold$", strip_generics(x[1][1])) is not None \
                and render(x[1][2][0]) == "self.peer_score" and render(x[1][2][1]) == peer_r and zero_closure(prog, hg, x[1])
        gs.guarded(ctx, "eligible", "handle_graft: score not negative", m, neg_false, "below_threshold(peer, |_| 0.0).0 is false")

        def not_running(c, r, l):
            if l == "None" and r == "discr(libp2p_gossipsub::backoff::BackoffStorage::get_backoff_time(self.backoffs, %s, %s))" % (topic_r, peer_r):
                return True
            rel = gs.ord_rel(c, l)
            if rel is None:
                return False
            small, large, strict = rel
            lk = gs.calls(small, r"BackoffStorage::get_backoff_time$")
            return (not strict) and render(large).endswith("Instant::now()") and bool(lk) and render(lk[0][2][1]) == topic_r and render(lk[0][2][2]) == peer_r
        ok = head is not None and hg.must_pass_edges(m.bb, gs.guard(hg, not_running, head), start=head)
        ctx.ob("eligible", "handle_graft: not backed off", ok, m.loc(), "every path from the topic loop head to peers.insert passes `no backoff for (topic, peer)` or `backoff_time > now` false")
        # mesh_n_high
        cnt = r"^std::collections::BTreeSet::len\(std::collections::HashMap::get_mut\(self\.mesh, " + re.escape(topic_r) + r"\)@Some\.0\)$"
        lim = r"^libp2p_gossipsub::config::Config::mesh_n_high_for_topic\(self\.config, " + re.escape(topic_r) + r"\)$"
        good, weak = lib.strict_limit_edges(hg, cnt, lim)
        ok = bool(good) and head is not None and hg.must_pass_edges(m.bb, good, start=head)
        ctx.ob("limit", "handle_graft: GRAFT refused at mesh_n_high", ok, m.loc(),
               "insert only on the false edge of `mesh[topic].len() >= mesh_n_high_for_topic(topic)`" if ok else
               "insert not dominated by a strict `len < mesh_n_high` edge" + (" — only `len > mesh_n_high` guards it, which admits mesh_n_high + 1 members" if weak else ""))
        at = lib.at_limit_edges(hg, cnt, lim)
        prune_ins = gs.refusal_inserts(hg, head) if head is not None else []
        got = lib.count_range(hg, gs.edge_targets(at), [head], lib.bbs(prune_ins)) if at and head is not None else None
        ctx.ob("limit", "handle_graft: a GRAFT refused for a full mesh is answered with a PRUNE entry", got == (1, 1), m.loc(), "to_prune_topics.insert on the len >= mesh_n_high edge: %s" % (got,))
        reg = hg.reachable(gs.edge_targets(at), stop_nodes=[head]) if at and head is not None else {m.bb}
        ctx.ob("limit", "handle_graft: full mesh => no insertion", m.bb not in reg, m.loc(), "peers.insert unreachable from the len >= mesh_n_high edge within the iteration")
        # negative score refusal also PRUNEs
        neg_true = gs.frontier(hg, gs.guard(hg, lambda c, r, l: l == "true" and neg_false(c, r, "false"), head), head)
        got = lib.count_range(hg, gs.edge_targets(neg_true), [head], lib.bbs(prune_ins)) if neg_true and head is not None else None
        ctx.ob("eligible", "handle_graft: a negative-score GRAFT is answered with a PRUNE entry", got == (1, 1), m.loc(), "to_prune_topics.insert on the below_zero edge: %s" % (got,))
        # every queued topic is turned into a PRUNE for this peer
        mk = [c for c in prog.find(G, r"Behaviour::handle_graft::\{closure#\d+\}$") if c.call_sites(gs.BEH + r"make_prune$")]
        sends = [s for s in hg.call_sites(gs.BEH + r"send_message$") if "RpcOut::Prune" in render(hg.site_expr(s))]
        ctx.ob("limit", "handle_graft: queued refusals are sent as PRUNE", len(mk) == 1 and len(sends) >= 1, sends[0].loc() if sends else _loc(hg), "make_prune closure + send_message(RpcOut::Prune)")

    # ------------------------------------------------------------------- handle_received_subscriptions
    hs = ctx.body(G, gs.BEH + r"handle_received_subscriptions$")
    for m in adders.get(hs.npath, []):
        me = hs.site_expr(m)
        head = gs.next_call_bb(me[2][0])
        peer_r = render(me[2][1])
        topic_c = [c for c in gs.calls(me[2][0], r"HashMap::get_mut$") if render(c[2][0]) == "self.mesh"]
        topic_r = render(topic_c[0][2][1]) if topic_c else "?"

        def from_head(pred, desc, inst):
            edges = gs.guard(hs, pred, head if head is not None else 0)
            ok = bool(edges) and head is not None and hs.must_pass_edges(m.bb, edges, start=head)
            ctx.ob("eligible", "handle_received_subscriptions: " + inst, ok, m.loc(), ("every path from the subscription loop head to peers.insert passes: " if ok else "a path reaches peers.insert without: ") + desc)
        gs.guarded(ctx, "eligible", "handle_received_subscriptions: peer is connected", m, lambda c, r, l: l == "Some" and r == "discr(std::collections::HashMap::get_mut(self.connected_peers, %s))" % peer_r,
                    "connected_peers.get_mut(source) is Some")
        from_head(lambda c, r, l: l == "false" and r == "std::collections::HashSet::contains(self.explicit_peers, %s)" % peer_r, "!explicit_peers.contains(source)", "not explicit")
        from_head(lambda c, r, l: l == "true" and re.match(r"^libp2p_gossipsub::types::PeerKind::is_gossipsub\(std::collections::HashMap::get_mut\(self\.connected_peers, " + re.escape(peer_r) + r"\)@Some\.0\.kind\)$", r) is not None,
                  "peer.kind.is_gossipsub()", "gossipsub peer")

        def neg_false(c, r, l):
            if l != "false":
                return False
            x = gs.expand(hs, c)
            return x[0] == "field" and x[2] == "0" and x[1][0] == "call" and re.search(r"PeerScoreState::below_threshold$", strip_generics(x[1][1])) is not None \
                and render(x[1][2][0]) == "self.peer_score" and render(x[1][2][1]) == peer_r and zero_closure(prog, hs, x[1])
        from_head(neg_false, "!below_threshold(source, |_| 0.0).0", "score not negative")
        from_head(lambda c, r, l: l == "false" and r == "libp2p_gossipsub::backoff::BackoffStorage::is_backoff_with_slack(self.backoffs, %s, %s)" % (topic_r, peer_r),
                  "!backoffs.is_backoff_with_slack(topic, source)", "not backed off")
        # subscribed: the topic was recorded in the peer's topic set in this iteration
        rec = [s for s in hs.call_sites(r"BTreeSet::insert$") if re.search(r"HashMap::get_mut\(self\.connected_peers, " + re.escape(peer_r) + r"\)@Some\.0\.topics$", render(hs.site_expr(s)[2][0]))
               and gs.next_call_bb(hs.site_expr(s)[2][1]) == head]
        ok = bool(rec) and head is not None and hs.must_pass_nodes(gs.some_edge_targets(hs, head), [m.bb], lib.bbs(rec))
        ctx.ob("eligible", "handle_received_subscriptions: peer is recorded as subscribed to the topic first", ok, m.loc(), "peer.topics.insert(topic) precedes the mesh insertion in the iteration")
        gs.guarded(ctx, "eligible", "handle_received_subscriptions: only for a Subscribe action", m, lambda c, r, l: l == "Subscribe" and r.startswith("discr(") and r.endswith(".action)"), "match subscription.action { Subscribe }")

    # =================================================================== removal
    # unsubscribe / PRUNE -> remove_peer_from_mesh
    rp = ctx.body(G, gs.BEH + r"remove_peer_from_mesh$")
    for m in removers.get(rp.npath, []):
        me = rp.site_expr(m)
        rp_t, rp_p = gs.argname(rp, gs.arg_of_type(rp, r"^&topic::TopicHash$")), gs.arg_of_type(rp, r"^&libp2p_identity::PeerId$")
        some = lib.switch_edges_on(rp, r"^discr\(std::collections::HashMap::get_mut\(self\.mesh, %s\)\)$" % re.escape(rp_t), {"Some"})
        got = lib.count_range(rp, gs.edge_targets(some), rp.return_blocks(), [m.bb]) if some else None
        ok = got == (1, 1) and gs.is_arg(me[2][1], rp_p) and render(me[2][0]) == "std::collections::HashMap::get_mut(self.mesh, %s)@Some.0" % rp_t
        ctx.ob("remove", "remove_peer_from_mesh removes the peer whenever the topic has a mesh", ok, m.loc(), "peers.remove(peer_id) on the Some edge: %s" % (got,))
    hp = ctx.body(G, gs.BEH + r"handle_prune$")
    for fn, body in (("handle_prune", hp), ("handle_received_subscriptions", hs)):
        cs = body.call_sites(gs.BEH + r"remove_peer_from_mesh$")
        ctx.floor("remove", "remove_peer_from_mesh call in %s" % fn, cs, 1)
        for c in cs:
            ce = body.site_expr(c)
            head = gs.next_call_bb(ce[2][2])
            some = gs.some_edge_targets(body, head) if head is not None else []
            got = lib.count_range(body, some, [head], [c.bb]) if some else None
            ctx.ob("remove", "%s: one remove_peer_from_mesh per (peer, topic)" % fn, got == (1, 1), c.loc(), "per loop element: %s" % (got,))
            if fn == "handle_prune":
                ctx.ob("remove", "handle_prune: removes the pruning peer from the pruned topic", gs.is_arg(ce[2][1], gs.arg_of_type(body, r"^&libp2p_identity::PeerId$")) and head is not None, c.loc(), render(ce)[:200])
                src = gs.expand(body, body.site_expr(mir.Site(body, head))[2][0]) if head is not None else ("unknown", "?")
                ctx.ob("remove", "handle_prune: iterates every PRUNE entry", any(gs.is_arg(x, gs.arg_of_type(body, r"^std::vec::Vec<\(topic::TopicHash")) for x in mir.walk(src)), c.loc(), render(src)[:120])
                lib.expect_count(ctx, "remove", "handle_prune: the PRUNE loop is always entered", body, [0], body.return_blocks(), [head], (1, lib.INF), "loop head on every path") if head is not None else None
            else:
                # the list iterated is filled once per Unsubscribe action with (source, topic)
                src = gs.expand(body, body.site_expr(mir.Site(body, head))[2][0]) if head is not None else ("unknown", "?")
                accs = {x[1] for x in mir.walk(src) if x[0] == "local"}
                pushes = [s for s in body.call_sites(r"Vec::push$") if body.site_expr(s)[2][0][0] == "local" and body.site_expr(s)[2][0][1] in accs]
                unsub = lib.arm_entry(body, r"^discr\(.*\.action\)$", "Unsubscribe")
                ctx.ob("remove", "floor:Unsubscribe arm", len(unsub) == 1 and len(pushes) == 1, nontrivial=False, msg="%s / %d pushes" % (unsub, len(pushes)))
                if unsub and pushes:
                    sub_head = gs.next_call_bb(body.site_expr(pushes[0])[2][1])
                    got = lib.count_range(body, [unsub[0][1]], [sub_head], lib.bbs(pushes)) if sub_head is not None else None
                    pe = body.site_expr(pushes[0])[2][1]
                    r = render(gs.expand(body, pe))
                    ctx.ob("remove", "handle_received_subscriptions: every Unsubscribe is queued for mesh removal", got == (1, 1) and any(gs.is_arg(x, gs.arg_of_type(body, r"^&libp2p_identity::PeerId$")) for x in mir.walk(gs.expand(body, pe))) and ".topic_hash" in r, pushes[0].loc(),
                           "unsubscribed_peers.push((source, topic)) on the Unsubscribe arm: %s" % (got,))
                    exits = [t for t in body.succ[body.blocks[sub_head]["term"]["t"]] if t not in gs.some_edge_targets(body, sub_head)] if sub_head is not None else []
                    ctx.ob("remove", "handle_received_subscriptions: the removal loop follows the subscription loop on every path", bool(exits) and head is not None and body.must_pass_nodes(exits, body.return_blocks(), [head]),
                           c.loc(), "every path from the end of the subscription loop to return enters the removal loop")
                    ok = re.search(r"@Some\.0\.0$", render(ce[2][1])) is not None and re.search(r"@Some\.0\.1$", render(ce[2][2])) is not None
                    ctx.ob("remove", "handle_received_subscriptions: removes the queued (peer, topic)", ok, c.loc(), "remove_peer_from_mesh(%s, %s, ..)" % (render(ce[2][1])[-24:], render(ce[2][2])[-24:]))
    # last connection closed
    oc = ctx.body(G, gs.BEH + r"on_connection_closed$")
    last = hbz = None
    zero_edges = set()
    for bi in sorted(oc.live):
        info = oc.switch_info(bi)
        if info and info[0][0] == "bin" and info[0][1] in ("Ne", "Eq") and "remaining_established" in render(info[0][2]) and info[0][3][0] == "const" and info[0][3][1] == 0:
            for tgt, ls in info[1].items():
                if (info[0][1], next(iter(ls))) in (("Ne", "false"), ("Eq", "true")):
                    zero_edges.add((bi, tgt))
    ctx.ob("remove", "floor:remaining_established == 0 arm", len(zero_edges) == 1, nontrivial=False, msg=str(sorted(zero_edges)))
    for m in removers.get(oc.npath, []):
        me = oc.site_expr(m)
        head = gs.next_call_bb(me[2][0])
        src = gs.expand(oc, oc.site_expr(mir.Site(oc, head))[2][0]) if head is not None else ("unknown", "?")
        some_mesh = lib.switch_edges_on_site(oc, mir.Site(oc, [c for c in gs.calls(me[2][0], r"HashMap::get_mut$")][0][3]), {"Some"}) if gs.calls(me[2][0], r"HashMap::get_mut$") else set()
        got = lib.count_range(oc, gs.edge_targets(some_mesh), [head], [m.bb]) if some_mesh and head is not None else None
        ok = got == (1, 1) and ".topics" in render(src) and "self.connected_peers" in render(src) and "peer_id" in render(me[2][1])
        ctx.ob("remove", "last connection closed: peer leaves every mesh of its topics", ok, m.loc(), "mesh[topic].remove(peer) per topic of the peer where a mesh exists: %s; iterates %s" % (got, render(src)[-80:]))
        gs.guarded(ctx, "remove", "last connection closed: meshes are only touched when no connection remains", m, lambda c, r, l, ze=zero_edges: False, "remaining_established == 0") if False else \
            ctx.ob("remove", "last connection closed: meshes are only touched when no connection remains", bool(zero_edges) and oc.must_pass_edges(m.bb, zero_edges), m.loc(), "dominated by remaining_established == 0")
        if zero_edges and head is not None:
            tg = gs.edge_targets(zero_edges)
            get_none = lib.switch_edges_on(oc, r"^discr\(std::collections::HashMap::get\(self\.connected_peers, ", {"None"})
            r_ = oc.reachable(tg, blocked_nodes=[head], blocked_edges=get_none)
            ctx.ob("remove", "last connection closed: the topic loop is always entered", not (set(oc.return_blocks()) & r_), m.loc(), "every path of the arm (peer known) iterates the peer's topics")
            drop = [s for s in oc.call_sites(r"HashMap::remove$") if render(oc.site_expr(s)[2][0]) == "self.connected_peers"]
            got = lib.count_range(oc, tg, oc.return_blocks(), lib.bbs(drop), blocked_edges=get_none)
            ctx.ob("remove", "last connection closed: peer is dropped from connected_peers", got == (1, 1), drop[0].loc() if drop else m.loc(), "connected_peers.remove(peer) on the arm: %s" % (got,))
    # heartbeat drops negative-score members
    for r in retain:
        cl = gs.closure_arg(prog, hb, hb.site_expr(r))
        ok = False
        msg = "no closure"
        if cl is not None:
            falses = [s for s, e in gs.ret_exprs(cl) if e[0] == "const" and e[1] == 0]
            trues = [s for s, e in gs.ret_exprs(cl) if e[0] == "const" and e[1] == 1]

            def neg(c, rr, l):
                rel = gs.ord_rel(c, l)
                if rel is None:
                    return False
                small, large, strict = rel
                return strict and is_zero_f(large) and score_of(prog, cl, gs.expand(cl, small), lambda a: a[0] == "arg" and a[1] == 2)

            def nonneg(c, rr, l):
                rel = gs.ord_rel(c, l)
                if rel is None:
                    return False
                small, large, strict = rel
                return (not strict) and is_zero_f(small) and score_of(prog, cl, gs.expand(cl, large), lambda a: a[0] == "arg" and a[1] == 2)
            ne, nn = gs.frontier(cl, gs.guard(cl, neg)), gs.guard(cl, nonneg)
            ok = bool(falses) and bool(trues) and bool(ne) and bool(nn) and all(cl.must_pass_edges(s.bb, nn) for s in trues) and \
                all(lib.count_range(cl, [t], cl.return_blocks(), lib.bbs(trues)) == (0, 0) for _, t in ne)
            msg = "`true` (keep) only on score >= 0.0; score < 0.0 => `false` (drop) on every path: %s" % ok
        ctx.ob("remove", "heartbeat drops members with negative score", ok, r.loc(), msg)
        recv = gs.expand(hb, hb.site_expr(r)[2][0])
        ctx.ob("remove", "heartbeat: the retain runs on every topic's mesh set", recv[0] == "field" and recv[2] == "1" and gs.has_call(recv, r"HashMap::iter_mut$") and "self.mesh" in render(recv), r.loc(), render(recv)[:140])
        head = gs.next_call_bb(recv)
        if head is not None:
            got = lib.count_range(hb, gs.some_edge_targets(hb, head), [head], [r.bb])
            ctx.ob("remove", "heartbeat: the retain runs once per topic", got == (1, 1), r.loc(), "per mesh iteration: %s" % (got,))
    ctx.floor("remove", "heartbeat negative-score retain", retain, 1)
